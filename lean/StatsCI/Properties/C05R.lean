/-
  C05R — Forward rounding-error bounds for the geometric and harmonic mean intervals.

  The model functions `Geometric.ci`, `Harmonic.ci` are run at the carrier `RR fl` (ℝ with a
  rounding function `fl` applied after every operation, *including* `ln`, `exp`, `1/x`, `sqrt`)
  and compared with what they return at exact arithmetic `Rex = RR id` (C05), on the same strictly
  positive real data `xs`, with a constant critical value `c ≥ 0`.

  Hypotheses on `(fl, u, xs)`, as in C01R: `hfl : ∀ x, |fl x − x| ≤ u·|x|`, `0 ≤ u`, `2 ≤ n`,
  `n·u ≤ 1/1024`, `fl` exact on the natural numbers `≤ n`.  Not modelled (as everywhere at
  `RR fl`): overflow, NaN, gradual underflow (so `ln x`, `1/x` of a positive `x` are finite and
  `posInf : RR fl` is only the stand-in `⟨0⟩`; the statements keep `posInf` symbolic).

  Notation (`StatsCI.MeanLogRound`): `y` the exactly transformed data (`ln x`, resp. `1/x`),
  `ỹ = fl y` the data the model's state is really fed (`flLogs`, `flRecips`);
  `RelClose u ys yt`: entrywise `|ỹᵢ − yᵢ| ≤ u·|yᵢ|`; `exLo c ys = ȳ − c·s/√n`, `exHi c ys = ȳ + c·s/√n`
  the exact bounds; `loFl a c`, `hiFl a c` (`StatsCI.MeanRound`) the two bounds `ci_mean` computes at
  `RR fl` on the state `a`.  Error bounds of the transformed-space interval, `Y = Σy²/(n−1)`:

  * `spaceErr u c Δ ys  = 17u·Σ|y|/n + (1+8u)·c·Δ/√n + 7u·c·s/√n + 2u·c·√Y/√n`
    (`Δ` a bound on the error of the computed standard deviation of the rounded list);
  * `spaceErrSqrt u c ys = 17u·Σ|y|/n + 8·c·√(u·Y)/√n + 7u·c·s/√n + 2u·c·√Y/√n` (every sample);
  * `spaceErrKappa u c ys = 95u·(Σ|y|/n + c·s/√n·(1 + κ))`, `κ = Y/s²`
    (first order in `u`; needs `s² > 0` and `u·√Y ≤ s/2`);
  * `SpaceErrBound u c ys E`: `E` dominates one of the last two (under its side conditions).

  Constants are explicit and not tight; they depend on the data only through the stated sums.
-/
import StatsCI.Lemmas.MeanLogRound

set_option linter.unusedSectionVars false
set_option linter.unusedVariables false

namespace StatsCI.C05R
open StatsCI StatsCI.MeanLemmas StatsCI.MeanRound StatsCI.MeanLogRound StatsCI.KahanLemmas
  NumOps Scalar

variable {fl : ℝ → ℝ} {u : ℝ}

/-! ### 1. the transformed data the model really sees -/

/-- **Geometric, state.** At `RR fl` strictly positive data are all accepted and the log-space
    state is the `Arith` state of the *rounded* logarithms `x̃ᵢ = fl (ln xᵢ)`, each within relative
    distance `u` of `ln xᵢ`. -/
theorem geometric_state (hfl : ∀ x, |fl x - x| ≤ u * |x|) (xs : List ℝ)
    (hpos : ∀ x ∈ xs, 0 < x) :
    (Geometric.fromList (xs.map inj) : Outcome (Err (RR fl)) (Geometric (RR fl))) =
      .ok ⟨Arith.fromList ((flLogs fl xs).map inj)⟩ ∧
    flLogs fl xs = xs.map (fun x => fl (Real.log x)) ∧
    List.Forall₂ (fun y y' => |y' - y| ≤ u * |y|) (xs.map Real.log) (flLogs fl xs) :=
  ⟨Geometric.fromList_fl xs hpos, by simp [flLogs], relClose_flLogs hfl xs⟩

/-- **Harmonic, state.** The reciprocal-space state is the `Arith` state of the rounded
    reciprocals `x̃ᵢ = fl (1/xᵢ)`, each within relative distance `u` of `1/xᵢ`. -/
theorem harmonic_state (hfl : ∀ x, |fl x - x| ≤ u * |x|) (xs : List ℝ)
    (hpos : ∀ x ∈ xs, 0 < x) :
    (Harmonic.fromList (xs.map inj) : Outcome (Err (RR fl)) (Harmonic (RR fl))) =
      .ok ⟨Arith.fromList ((flRecips fl xs).map inj)⟩ ∧
    flRecips fl xs = xs.map (fun x => fl (1 / x)) ∧
    List.Forall₂ (fun y y' => |y' - y| ≤ u * |y|) (xs.map (fun x => 1 / x)) (flRecips fl xs) :=
  ⟨Harmonic.fromList_fl xs hpos, by simp [flRecips], relClose_flRecips hfl xs⟩

/-! ### 2. perturbation of the exact statistics

  Two real lists, entry by entry `|ỹᵢ − yᵢ| ≤ u·|yᵢ|` (`RelClose u ys yt`, i.e. `List.Forall₂`). -/

/-- **Mean.** `|mean ỹ − mean y| ≤ u·Σ|y|/n`. -/
theorem mean_perturbation {ys yt : List ℝ} (h : RelClose u ys yt) (hn : 1 ≤ ys.length) :
    |smean yt - smean ys| ≤ u * ((ys.map abs).sum / ys.length) :=
  h.smean_close hn

/-- **Sums.** `|Σỹ − Σy| ≤ u·Σ|y|`, `Σ|ỹ| ≤ (1+u)·Σ|y|`, `Σỹ² ≤ (1+u)²·Σy²`. -/
theorem sums_perturbation (hu : 0 ≤ u) {ys yt : List ℝ} (h : RelClose u ys yt) :
    |yt.sum - ys.sum| ≤ u * (ys.map abs).sum ∧
    (yt.map abs).sum ≤ (1 + u) * (ys.map abs).sum ∧
    (yt.map (fun x => x * x)).sum ≤ (1 + u) * (1 + u) * (ys.map (fun x => x * x)).sum :=
  ⟨h.sum, h.sumAbs_le, h.sumSq_le hu⟩

/-- **Standard deviation.** `|s(ỹ) − s(y)| ≤ u·√(Σy²/(n − 1))` (constant `K = 1`): the centred
    vectors differ by the centred difference, centring does not increase the Euclidean norm, and
    `s = ‖centred‖/√(n−1)` is 1-Lipschitz in the centred vector (Minkowski). -/
theorem stdDev_perturbation (hu : 0 ≤ u) {ys yt : List ℝ} (h : RelClose u ys yt)
    (hn : 2 ≤ ys.length) :
    |ssd yt - ssd ys| ≤
      u * Real.sqrt ((ys.map (fun x => x * x)).sum / ((ys.length : ℝ) - 1)) :=
  h.ssd_close hu hn

/-- **Variance.** `|s²(ỹ) − s²(y)| ≤ u·(2 + u)·Σy²/(n − 1)`. -/
theorem variance_perturbation (hu : 0 ≤ u) {ys yt : List ℝ} (h : RelClose u ys yt)
    (hn : 2 ≤ ys.length) :
    |svar yt - svar ys| ≤
      u * (2 + u) * ((ys.map (fun x => x * x)).sum / ((ys.length : ℝ) - 1)) :=
  h.svar_close hu hn

/-! ### 3. the interval in log space / reciprocal space -/

/-- **Transformed-space interval, error of the standard deviation explicit.** `Arithmetic::ci` run
    at `RR fl` on the perturbed list `ỹ` passes its guards and hands `lo`, `hi` to the interval
    constructor of the kind of `conf`; each differs from the exact bound `ȳ ∓ c·s/√n` *of the exact
    list `y`* by at most
    `17u·Σ|y|/n + (1+8u)·c·|sd_fl(ỹ) − s(ỹ)|/√n + 7u·c·s/√n + 2u·c·√(Σy²/(n−1))/√n`. -/
theorem transformed_interval_error (hfl : ∀ x, |fl x - x| ≤ u * |x|) (hu : 0 ≤ u)
    {ys yt : List ℝ} (hrc : RelClose u ys yt) (hn : 2 ≤ ys.length)
    (hs : (ys.length : ℝ) * u ≤ 1 / 1024) (hnat : ∀ m : ℕ, m ≤ ys.length → fl m = m)
    (c : ℝ) (hc : 0 ≤ c) (conf : Confidence (RR fl)) (hp : probOk conf.quantile = true) :
    ∃ lo hi : ℝ,
      Arith.ci (constCrit c) conf (yt.map inj) = intervalOfKind conf (⟨lo⟩ : RR fl) ⟨hi⟩ ∧
      |lo - exLo c ys| ≤
        spaceErr u c |(Arith.fromList (yt.map inj) : Arith (RR fl)).stdDev.val - ssd yt| ys ∧
      |hi - exHi c ys| ≤
        spaceErr u c |(Arith.fromList (yt.map inj) : Arith (RR fl)).stdDev.val - ssd yt| ys := by
  have hcount : (Arith.fromList (yt.map inj) : Arith (RR fl)).count = ys.length := by
    rw [fromList_count', hrc.length_eq]
  refine ⟨loFl (fl := fl) (Arith.fromList (yt.map inj)) c,
    hiFl (fl := fl) (Arith.fromList (yt.map inj)) c, ?_, ?_⟩
  · unfold Arith.ci
    exact ciMean_fl _ c conf (by rw [hcount]; exact hn) (by rw [hcount]; exact hnat) hp
  · exact space_bounds_of_le hfl hu hrc hn hs hnat c hc le_rfl

/-- **Transformed-space interval, either closed form.** The same with the error bounded by any `E`
    dominating `spaceErrSqrt u c ys` (every sample) or, when `s² > 0` and `u·√(Σy²/(n−1)) ≤ s/2`,
    `spaceErrKappa u c ys = 95u·(Σ|y|/n + c·s/√n·(1 + κ))`. -/
theorem transformed_interval_error_closed (hfl : ∀ x, |fl x - x| ≤ u * |x|) (hu : 0 ≤ u)
    {ys yt : List ℝ} (hrc : RelClose u ys yt) (hn : 2 ≤ ys.length)
    (hs : (ys.length : ℝ) * u ≤ 1 / 1024) (hnat : ∀ m : ℕ, m ≤ ys.length → fl m = m)
    (c : ℝ) (hc : 0 ≤ c) (conf : Confidence (RR fl)) (hp : probOk conf.quantile = true)
    {E : ℝ} (hE : SpaceErrBound u c ys E) :
    ∃ lo hi : ℝ,
      Arith.ci (constCrit c) conf (yt.map inj) = intervalOfKind conf (⟨lo⟩ : RR fl) ⟨hi⟩ ∧
      |lo - exLo c ys| ≤ E ∧ |hi - exHi c ys| ≤ E := by
  have hcount : (Arith.fromList (yt.map inj) : Arith (RR fl)).count = ys.length := by
    rw [fromList_count', hrc.length_eq]
  refine ⟨loFl (fl := fl) (Arith.fromList (yt.map inj)) c,
    hiFl (fl := fl) (Arith.fromList (yt.map inj)) c, ?_, ?_⟩
  · unfold Arith.ci
    exact ciMean_fl _ c conf (by rw [hcount]; exact hn) (by rw [hcount]; exact hnat) hp
  · exact space_bounds hfl hu hrc hn hs hnat c hc hE

/-- the square-root form spelled out: `17u·Σ|y|/n + 8·c·√(u·Y)/√n + 7u·c·s/√n + 2u·c·√Y/√n` -/
theorem transformed_interval_error_sqrt (hfl : ∀ x, |fl x - x| ≤ u * |x|) (hu : 0 ≤ u)
    {ys yt : List ℝ} (hrc : RelClose u ys yt) (hn : 2 ≤ ys.length)
    (hs : (ys.length : ℝ) * u ≤ 1 / 1024) (hnat : ∀ m : ℕ, m ≤ ys.length → fl m = m)
    (c : ℝ) (hc : 0 ≤ c) (conf : Confidence (RR fl)) (hp : probOk conf.quantile = true) :
    ∃ lo hi : ℝ,
      Arith.ci (constCrit c) conf (yt.map inj) = intervalOfKind conf (⟨lo⟩ : RR fl) ⟨hi⟩ ∧
      |lo - (smean ys - c * (ssd ys / Real.sqrt ys.length))| ≤
        17 * u * ((ys.map abs).sum / ys.length)
          + 8 * (c * (Real.sqrt (u * ((ys.map (fun x => x * x)).sum / ((ys.length : ℝ) - 1)))
              / Real.sqrt ys.length))
          + 7 * u * (c * (ssd ys / Real.sqrt ys.length))
          + 2 * u * (c * (Real.sqrt ((ys.map (fun x => x * x)).sum / ((ys.length : ℝ) - 1))
              / Real.sqrt ys.length)) ∧
      |hi - (smean ys + c * (ssd ys / Real.sqrt ys.length))| ≤
        17 * u * ((ys.map abs).sum / ys.length)
          + 8 * (c * (Real.sqrt (u * ((ys.map (fun x => x * x)).sum / ((ys.length : ℝ) - 1)))
              / Real.sqrt ys.length))
          + 7 * u * (c * (ssd ys / Real.sqrt ys.length))
          + 2 * u * (c * (Real.sqrt ((ys.map (fun x => x * x)).sum / ((ys.length : ℝ) - 1))
              / Real.sqrt ys.length)) :=
  transformed_interval_error_closed hfl hu hrc hn hs hnat c hc conf hp (Or.inl le_rfl)

/-- the `κ`-form spelled out (first order in `u`): for `s² > 0` and `u·√(Σy²/(n−1)) ≤ s/2`,
    each bound is within `95u·(Σ|y|/n + c·s/√n·(1 + κ))`, `κ = Σy²/((n−1)·s²)` -/
theorem transformed_interval_error_kappa (hfl : ∀ x, |fl x - x| ≤ u * |x|) (hu : 0 ≤ u)
    {ys yt : List ℝ} (hrc : RelClose u ys yt) (hn : 2 ≤ ys.length)
    (hs : (ys.length : ℝ) * u ≤ 1 / 1024) (hnat : ∀ m : ℕ, m ≤ ys.length → fl m = m)
    (c : ℝ) (hc : 0 ≤ c) (conf : Confidence (RR fl)) (hp : probOk conf.quantile = true)
    (hpos : 0 < svar ys)
    (hsmall : u * Real.sqrt ((ys.map (fun x => x * x)).sum / ((ys.length : ℝ) - 1)) ≤
      ssd ys / 2) :
    ∃ lo hi : ℝ,
      Arith.ci (constCrit c) conf (yt.map inj) = intervalOfKind conf (⟨lo⟩ : RR fl) ⟨hi⟩ ∧
      |lo - (smean ys - c * (ssd ys / Real.sqrt ys.length))| ≤
        95 * u * ((ys.map abs).sum / ys.length + c * (ssd ys / Real.sqrt ys.length) *
          (1 + (ys.map (fun x => x * x)).sum / ((ys.length : ℝ) - 1) / svar ys)) ∧
      |hi - (smean ys + c * (ssd ys / Real.sqrt ys.length))| ≤
        95 * u * ((ys.map abs).sum / ys.length + c * (ssd ys / Real.sqrt ys.length) *
          (1 + (ys.map (fun x => x * x)).sum / ((ys.length : ℝ) - 1) / svar ys)) :=
  transformed_interval_error_closed hfl hu hrc hn hs hnat c hc conf hp
    (Or.inr ⟨hpos, hsmall, le_rfl⟩)

/-- **Log space.** The two bounds the geometric `ci_mean` computes at `RR fl` (on the state of the
    rounded logarithms) against the exact arithmetic interval of the exact logarithms. -/
theorem logspace_error (hfl : ∀ x, |fl x - x| ≤ u * |x|) (hu : 0 ≤ u) (xs : List ℝ)
    (hn : 2 ≤ xs.length) (hs : (xs.length : ℝ) * u ≤ 1 / 1024)
    (hnat : ∀ m : ℕ, m ≤ xs.length → fl m = m) (c : ℝ) (hc : 0 ≤ c) {E : ℝ}
    (hE : SpaceErrBound u c (xs.map Real.log) E) :
    |loFl (fl := fl) (Arith.fromList ((flLogs fl xs).map inj)) c - exLo c (xs.map Real.log)| ≤ E ∧
    |hiFl (fl := fl) (Arith.fromList ((flLogs fl xs).map inj)) c - exHi c (xs.map Real.log)| ≤ E :=
  space_bounds hfl hu (relClose_flLogs hfl xs) (by simpa using hn) (by simpa using hs)
    (by simpa using hnat) c hc hE

/-- **Reciprocal space.** The same for the harmonic `ci_mean` and the reciprocals. -/
theorem recipspace_error (hfl : ∀ x, |fl x - x| ≤ u * |x|) (hu : 0 ≤ u) (xs : List ℝ)
    (hn : 2 ≤ xs.length) (hs : (xs.length : ℝ) * u ≤ 1 / 1024)
    (hnat : ∀ m : ℕ, m ≤ xs.length → fl m = m) (c : ℝ) (hc : 0 ≤ c) {E : ℝ}
    (hE : SpaceErrBound u c (xs.map (fun x => 1 / x)) E) :
    |loFl (fl := fl) (Arith.fromList ((flRecips fl xs).map inj)) c
        - exLo c (xs.map (fun x => 1 / x))| ≤ E ∧
    |hiFl (fl := fl) (Arith.fromList ((flRecips fl xs).map inj)) c
        - exHi c (xs.map (fun x => 1 / x))| ≤ E :=
  space_bounds hfl hu (relClose_flRecips hfl xs) (by simpa using hn) (by simpa using hs)
    (by simpa using hnat) c hc hE

/-! ### 4. the back-transforms -/

/-- **`exp`.** A computed log-space bound `b̃` within `E` of the exact `b`:
    `|fl (exp b̃) − exp b| ≤ exp b·(exp E − 1 + u·exp E)`, a relative error of about `E + u`. -/
theorem exp_backtransform (hfl : ∀ x, |fl x - x| ≤ u * |x|) (hu : 0 ≤ u) {bt b E : ℝ}
    (h : |bt - b| ≤ E) :
    |(Scalar.exp (⟨bt⟩ : RR fl)).val - Real.exp b| ≤
      Real.exp b * (Real.exp E - 1 + u * Real.exp E) :=
  exp_back hfl hu h

/-- for `E ≤ 1` the relative error is at most `2E + u·(1 + 2E)` -/
theorem exp_backtransform_small (hfl : ∀ x, |fl x - x| ≤ u * |x|) (hu : 0 ≤ u) {bt b E : ℝ}
    (h : |bt - b| ≤ E) (hE : E ≤ 1) :
    |(Scalar.exp (⟨bt⟩ : RR fl)).val - Real.exp b| ≤ Real.exp b * (2 * E + u * (1 + 2 * E)) := by
  have hE0 : 0 ≤ E := le_trans (abs_nonneg _) h
  exact le_trans (exp_back hfl hu h)
    (mul_le_mul_of_nonneg_left (exp_rel_le hu hE0 hE) (Real.exp_pos _).le)

/-- **`1/·`, the good case.** Exact reciprocal-space bound `r > 0`, computed `r̃` within `E ≤ r/2`:
    the model takes the reciprocal branch of `recipBound` and
    `|fl (1/r̃) − 1/r| ≤ 2E/r² + u·(2/r)`. -/
theorem recip_backtransform (hfl : ∀ x, |fl x - x| ≤ u * |x|) (hu : 0 ≤ u) {rt r E : ℝ}
    (hr : 0 < r) (hE : E ≤ r / 2) (h : |rt - r| ≤ E) :
    Harmonic.recipBound (⟨rt⟩ : RR fl) = ⟨fl (1 / rt)⟩ ∧
    |fl (1 / rt) - 1 / r| ≤ 2 * E / r ^ 2 + u * (2 / r) := by
  obtain ⟨h1, h2⟩ := recip_back hfl hu hr hE h
  exact ⟨recipBound_fl_pos ⟨rt⟩ h1, h2⟩

/-- **`1/·`, the other cases.** With `|r̃ − r| ≤ E` only:
    * `E < r`: still the reciprocal branch, but `|1/r̃ − 1/r| ≤ E/(r·(r − E))` degrades as `r ↓ E`;
    * `r ≤ −E`: the computed bound is `≤ 0` as well, both sides read `+∞` (`posInf`);
    * `−E < r ≤ E`: see `recip_branch_undetermined` — the branch is not determined. -/
theorem recip_branches {rt r E : ℝ} (h : |rt - r| ≤ E) :
    (E < r → Harmonic.recipBound (⟨rt⟩ : RR fl) = ⟨fl (1 / rt)⟩ ∧
      |1 / rt - 1 / r| ≤ E / (r * (r - E))) ∧
    (r ≤ -E → Harmonic.recipBound (⟨rt⟩ : RR fl) = (posInf : RR fl)) := by
  constructor
  · intro hE
    obtain ⟨h1, h2⟩ := recip_far hE h
    exact ⟨recipBound_fl_pos ⟨rt⟩ h1, h2⟩
  · intro hr
    have := (abs_le.mp h).2
    exact recipBound_fl_not_pos ⟨rt⟩ (by show rt ≤ 0; linarith)

/-- **`1/·`, exact bound within `E` of zero.** For `−E < r ≤ E` the hypothesis `|r̃ − r| ≤ E` is
    compatible with *both* branches of `recipBound` on the computed side: there are admissible
    `r̃₁ > 0` (reciprocal branch, a finite value `fl (1/r̃₁)`, arbitrarily large as `r̃₁ ↓ 0`) and
    `r̃₂ ≤ 0` (`+∞`), whatever the exact side does (`1/r` for `r > 0`, `+∞` for `r ≤ 0`).  No error
    bound between the computed and the exact harmonic bound is possible there. -/
theorem recip_branch_undetermined {r E : ℝ} (h1 : -E < r) (h2 : r ≤ E) :
    ∃ rt₁ rt₂ : ℝ, |rt₁ - r| ≤ E ∧ |rt₂ - r| ≤ E ∧
      Harmonic.recipBound (⟨rt₁⟩ : RR fl) = ⟨fl (1 / rt₁)⟩ ∧
      Harmonic.recipBound (⟨rt₂⟩ : RR fl) = (posInf : RR fl) := by
  have hE : 0 ≤ E := by linarith
  refine ⟨r + E, r - E, by simp [abs_of_nonneg hE], by simp [abs_of_nonneg hE], ?_, ?_⟩
  · exact recipBound_fl_pos ⟨r + E⟩ (by show 0 < r + E; linarith)
  · exact recipBound_fl_not_pos ⟨r - E⟩ (by show r - E ≤ 0; linarith)

/-! ### 5. `Geometric::ci` and `Harmonic::ci` -/

/-- the reference: at exact arithmetic `Geometric::ci` with the constant critical value `c` is
    the interval of kind `conf` with bounds `exp (ȳ ∓ c·s/√n)`, `y = ln x` (C05 `geometric_bounds`) -/
theorem geometric_exact (c : ℝ) (conf : Confidence Rex) (xs : List ℝ) (hpos : ∀ x ∈ xs, 0 < x)
    (hn : 2 ≤ xs.length) (h0 : 0 < conf.level.val) (h1 : conf.level.val < 1) :
    Geometric.ci (constCrit c) conf (xs.map inj) =
      (intervalOfKind conf (⟨exLo c (xs.map Real.log)⟩ : Rex) ⟨exHi c (xs.map Real.log)⟩).map
        (Interval.map Scalar.exp) := by
  unfold Geometric.ci
  rw [Geometric.fromList_rex xs hpos, Outcome.bind_ok, Geometric.ciMean_rex]
  show (Arith.ci (constCrit c) conf ((xs.map Real.log).map inj)).map _ = _
  rw [Arith.ci_rex_const c conf _ (by simpa using hn) (probOk_quantile conf h0 h1)]

/-- the reference: at exact arithmetic `Harmonic::ci` builds the arithmetic interval
    `r̄ ∓ c·s/√n`, `r = 1/x`, at the flipped confidence and sends each end through `recipBound`,
    ends exchanged (C05 `harmonic`, `harmonic_not_pos`) -/
theorem harmonic_exact (c : ℝ) (conf : Confidence Rex) (xs : List ℝ) (hpos : ∀ x ∈ xs, 0 < x)
    (hn : 2 ≤ xs.length) (h0 : 0 < conf.level.val) (h1 : conf.level.val < 1) :
    Harmonic.ci (constCrit c) conf (xs.map inj) =
      (intervalOfKind conf.flipped (⟨exLo c (xs.map (fun x => 1 / x))⟩ : Rex)
          ⟨exHi c (xs.map (fun x => 1 / x))⟩).bind fun ci =>
        intervalOfKind conf
          (Harmonic.recipBound (@Interval.highX Rex ⟨negInf, posInf⟩ ci))
          (Harmonic.recipBound (@Interval.lowX Rex ⟨negInf, posInf⟩ ci)) := by
  have hp : probOk conf.flipped.quantile = true := by
    have := probOk_quantile conf h0 h1
    cases conf <;> exact this
  unfold Harmonic.ci
  rw [Harmonic.fromList_rex xs hpos, Outcome.bind_ok]
  unfold Harmonic.ciMean
  show (Arith.ci (constCrit c) conf.flipped ((xs.map (fun x => 1 / x)).map inj)).bind _ = _
  rw [Arith.ci_rex_const c conf.flipped _ (by simpa using hn) hp]

/-- **Geometric interval.** At `RR fl`, strictly positive data, constant critical value `c ≥ 0`,
    any `E` dominating one of the proved log-space error bounds: there are `L`, `H` with
    `|L − exp (ȳ − c·s/√n)| ≤ exp (ȳ − c·s/√n)·(exp E − 1 + u·exp E)` and the same for `H` at
    `ȳ + c·s/√n` (`y = ln x`), such that `Geometric::ci` returns `[L, +∞)` for an upper one-sided
    confidence, `(-∞, H]` for a lower one; for a two-sided confidence it returns `[L, H]` or the
    error `InvalidBounds` of `Interval::new` (the relative-error hypothesis on `fl` alone does not
    order the two rounded ends), and `[L, H]` whenever `fl` is monotone. -/
theorem geometric_ci_error (hfl : ∀ x, |fl x - x| ≤ u * |x|) (hu : 0 ≤ u) (xs : List ℝ)
    (hpos : ∀ x ∈ xs, 0 < x) (hn : 2 ≤ xs.length) (hs : (xs.length : ℝ) * u ≤ 1 / 1024)
    (hnat : ∀ m : ℕ, m ≤ xs.length → fl m = m) (c : ℝ) (hc : 0 ≤ c) (conf : Confidence (RR fl))
    (hp : probOk conf.quantile = true) {E : ℝ} (hE : SpaceErrBound u c (xs.map Real.log) E) :
    ∃ L H : ℝ,
      |L - Real.exp (exLo c (xs.map Real.log))| ≤
        Real.exp (exLo c (xs.map Real.log)) * (Real.exp E - 1 + u * Real.exp E) ∧
      |H - Real.exp (exHi c (xs.map Real.log))| ≤
        Real.exp (exHi c (xs.map Real.log)) * (Real.exp E - 1 + u * Real.exp E) ∧
      match conf with
      | .upper l => Geometric.ci (constCrit c) (.upper l) (xs.map inj) = .ok (.upper (⟨L⟩ : RR fl))
      | .lower l => Geometric.ci (constCrit c) (.lower l) (xs.map inj) = .ok (.lower (⟨H⟩ : RR fl))
      | .twoSided l =>
        (Geometric.ci (constCrit c) (.twoSided l) (xs.map inj) =
            .ok (.twoSided (⟨L⟩ : RR fl) ⟨H⟩) ∨
          Geometric.ci (constCrit c) (.twoSided l) (xs.map inj) =
            (.err (.interval .invalidBounds) : Outcome (Err (RR fl)) (Interval (RR fl)))) ∧
        (Monotone fl → Geometric.ci (constCrit c) (.twoSided l) (xs.map inj) =
            .ok (.twoSided (⟨L⟩ : RR fl) ⟨H⟩)) := by
  obtain ⟨b1, b2⟩ := logspace_error hfl hu xs hn hs hnat c hc hE
  refine ⟨_, _, exp_back hfl hu b1, exp_back hfl hu b2, ?_⟩
  cases conf with
  | upper l => exact Geometric.ci_fl_upper xs hpos hn hnat c l hp
  | lower l => exact Geometric.ci_fl_lower xs hpos hn hnat c l hp
  | twoSided l =>
    obtain ⟨k1, k2⟩ := Geometric.ci_fl_twoSided xs hpos hn hnat c l hp
    constructor
    · by_cases h1 : loFl (fl := fl) (Arith.fromList ((flLogs fl xs).map inj)) c ≤
          hiFl (fl := fl) (Arith.fromList ((flLogs fl xs).map inj)) c
      · by_cases h2 : fl (Real.exp (loFl (fl := fl) (Arith.fromList ((flLogs fl xs).map inj)) c)) ≤
            fl (Real.exp (hiFl (fl := fl) (Arith.fromList ((flLogs fl xs).map inj)) c))
        · exact Or.inl (k1 h1 h2)
        · exact Or.inr (k2 (Or.inr (not_le.mp h2)))
      · exact Or.inr (k2 (Or.inl (not_le.mp h1)))
    · intro hmono
      have h1 := loFl_le_hiFl hfl hmono
        (Arith.fromList ((flLogs fl xs).map inj) : Arith (RR fl)) hc
      exact k1 h1 (hmono (Real.exp_le_exp.mpr h1))

/-- **Harmonic interval, general shape.** At `RR fl` there are computed reciprocal-space bounds
    `lo`, `hi` within `E` of the exact `r̄ − c·s/√n`, `r̄ + c·s/√n` (`r = 1/x`) such that
    `Harmonic::ci` returns `[recipBound hi, +∞)` (upper), `(-∞, recipBound lo]` (lower) or hands
    `(recipBound hi, recipBound lo)` to `Interval::new` (two-sided; `lo ≤ hi` holds when `fl` is
    monotone, otherwise the reciprocal-space `Interval::new` may already reject).  Which branch
    `recipBound` takes and how far `fl (1/·)` is from the exact reciprocal is `recip_backtransform`,
    `recip_branches`, `recip_branch_undetermined` with `r̃ = lo` or `hi`. -/
theorem harmonic_ci_shape (hfl : ∀ x, |fl x - x| ≤ u * |x|) (hu : 0 ≤ u) (xs : List ℝ)
    (hpos : ∀ x ∈ xs, 0 < x) (hn : 2 ≤ xs.length) (hs : (xs.length : ℝ) * u ≤ 1 / 1024)
    (hnat : ∀ m : ℕ, m ≤ xs.length → fl m = m) (c : ℝ) (hc : 0 ≤ c) (conf : Confidence (RR fl))
    (hp : probOk conf.quantile = true) {E : ℝ}
    (hE : SpaceErrBound u c (xs.map (fun x => 1 / x)) E) :
    ∃ lo hi : ℝ,
      |lo - exLo c (xs.map (fun x => 1 / x))| ≤ E ∧ |hi - exHi c (xs.map (fun x => 1 / x))| ≤ E ∧
      match conf with
      | .upper l => Harmonic.ci (constCrit c) (.upper l) (xs.map inj) =
          .ok (.upper (Harmonic.recipBound (⟨hi⟩ : RR fl)))
      | .lower l => Harmonic.ci (constCrit c) (.lower l) (xs.map inj) =
          .ok (.lower (Harmonic.recipBound (⟨lo⟩ : RR fl)))
      | .twoSided l =>
        (lo ≤ hi → Harmonic.ci (constCrit c) (.twoSided l) (xs.map inj) =
          liftI (Interval.new (Harmonic.recipBound (⟨hi⟩ : RR fl))
            (Harmonic.recipBound (⟨lo⟩ : RR fl)))) ∧
        (hi < lo → Harmonic.ci (constCrit c) (.twoSided l) (xs.map inj) =
          (.err (.interval .invalidBounds) : Outcome (Err (RR fl)) (Interval (RR fl)))) ∧
        (Monotone fl → lo ≤ hi) := by
  obtain ⟨b1, b2⟩ := recipspace_error hfl hu xs hn hs hnat c hc hE
  refine ⟨_, _, b1, b2, ?_⟩
  cases conf with
  | upper l => exact Harmonic.ci_fl_upper xs hpos hn hnat c l hp
  | lower l => exact Harmonic.ci_fl_lower xs hpos hn hnat c l hp
  | twoSided l =>
    obtain ⟨k1, k2⟩ := Harmonic.ci_fl_twoSided xs hpos hn hnat c l hp
    exact ⟨k1, k2, fun hmono => loFl_le_hiFl hfl hmono _ hc⟩

/-- **Harmonic interval, upper one-sided, good case.** Exact reciprocal-space upper bound
    `r = r̄ + c·s/√n > 0` and `E ≤ r/2`: `Harmonic::ci` returns `[L, +∞)` with
    `|L − 1/r| ≤ 2E/r² + u·(2/r)` (`1/r` is the exact harmonic bound, C05 `harmonic_upper`). -/
theorem harmonic_ci_error_upper (hfl : ∀ x, |fl x - x| ≤ u * |x|) (hu : 0 ≤ u) (xs : List ℝ)
    (hpos : ∀ x ∈ xs, 0 < x) (hn : 2 ≤ xs.length) (hs : (xs.length : ℝ) * u ≤ 1 / 1024)
    (hnat : ∀ m : ℕ, m ≤ xs.length → fl m = m) (c : ℝ) (hc : 0 ≤ c) (l : RR fl)
    (hp : probOk (Confidence.upper l).quantile = true) {E : ℝ}
    (hE : SpaceErrBound u c (xs.map (fun x => 1 / x)) E)
    (hr : 0 < exHi c (xs.map (fun x => 1 / x))) (hEr : E ≤ exHi c (xs.map (fun x => 1 / x)) / 2) :
    ∃ L : ℝ, Harmonic.ci (constCrit c) (.upper l) (xs.map inj) = .ok (.upper (⟨L⟩ : RR fl)) ∧
      |L - 1 / exHi c (xs.map (fun x => 1 / x))| ≤
        2 * E / exHi c (xs.map (fun x => 1 / x)) ^ 2 +
          u * (2 / exHi c (xs.map (fun x => 1 / x))) := by
  obtain ⟨b1, b2⟩ := recipspace_error hfl hu xs hn hs hnat c hc hE
  obtain ⟨e1, e2⟩ := recip_backtransform hfl hu hr hEr b2
  refine ⟨_, ?_, e2⟩
  rw [Harmonic.ci_fl_upper xs hpos hn hnat c l hp, e1]

/-- **Harmonic interval, lower one-sided, good case.** Exact reciprocal-space lower bound
    `r = r̄ − c·s/√n > 0` and `E ≤ r/2`: `Harmonic::ci` returns `(-∞, H]` with
    `|H − 1/r| ≤ 2E/r² + u·(2/r)`. -/
theorem harmonic_ci_error_lower (hfl : ∀ x, |fl x - x| ≤ u * |x|) (hu : 0 ≤ u) (xs : List ℝ)
    (hpos : ∀ x ∈ xs, 0 < x) (hn : 2 ≤ xs.length) (hs : (xs.length : ℝ) * u ≤ 1 / 1024)
    (hnat : ∀ m : ℕ, m ≤ xs.length → fl m = m) (c : ℝ) (hc : 0 ≤ c) (l : RR fl)
    (hp : probOk (Confidence.lower l).quantile = true) {E : ℝ}
    (hE : SpaceErrBound u c (xs.map (fun x => 1 / x)) E)
    (hr : 0 < exLo c (xs.map (fun x => 1 / x))) (hEr : E ≤ exLo c (xs.map (fun x => 1 / x)) / 2) :
    ∃ H : ℝ, Harmonic.ci (constCrit c) (.lower l) (xs.map inj) = .ok (.lower (⟨H⟩ : RR fl)) ∧
      |H - 1 / exLo c (xs.map (fun x => 1 / x))| ≤
        2 * E / exLo c (xs.map (fun x => 1 / x)) ^ 2 +
          u * (2 / exLo c (xs.map (fun x => 1 / x))) := by
  obtain ⟨b1, b2⟩ := recipspace_error hfl hu xs hn hs hnat c hc hE
  obtain ⟨e1, e2⟩ := recip_backtransform hfl hu hr hEr b1
  refine ⟨_, ?_, e2⟩
  rw [Harmonic.ci_fl_lower xs hpos hn hnat c l hp, e1]

/-- **Harmonic interval, two-sided, good case.** Exact reciprocal-space lower bound
    `a = r̄ − c·s/√n > 0` (so the upper `b = r̄ + c·s/√n ≥ a > 0`), `E ≤ a/2`, `fl` monotone:
    `Harmonic::ci` returns `[L, H]` with `|L − 1/b| ≤ 2E/b² + u·(2/b)` and
    `|H − 1/a| ≤ 2E/a² + u·(2/a)`. -/
theorem harmonic_ci_error_twoSided (hfl : ∀ x, |fl x - x| ≤ u * |x|) (hu : 0 ≤ u) (xs : List ℝ)
    (hpos : ∀ x ∈ xs, 0 < x) (hn : 2 ≤ xs.length) (hs : (xs.length : ℝ) * u ≤ 1 / 1024)
    (hnat : ∀ m : ℕ, m ≤ xs.length → fl m = m) (c : ℝ) (hc : 0 ≤ c) (l : RR fl)
    (hp : probOk (Confidence.twoSided l).quantile = true) {E : ℝ}
    (hE : SpaceErrBound u c (xs.map (fun x => 1 / x)) E) (hmono : Monotone fl)
    (hr : 0 < exLo c (xs.map (fun x => 1 / x))) (hEr : E ≤ exLo c (xs.map (fun x => 1 / x)) / 2) :
    ∃ L H : ℝ,
      Harmonic.ci (constCrit c) (.twoSided l) (xs.map inj) = .ok (.twoSided (⟨L⟩ : RR fl) ⟨H⟩) ∧
      |L - 1 / exHi c (xs.map (fun x => 1 / x))| ≤
        2 * E / exHi c (xs.map (fun x => 1 / x)) ^ 2 +
          u * (2 / exHi c (xs.map (fun x => 1 / x))) ∧
      |H - 1 / exLo c (xs.map (fun x => 1 / x))| ≤
        2 * E / exLo c (xs.map (fun x => 1 / x)) ^ 2 +
          u * (2 / exLo c (xs.map (fun x => 1 / x))) := by
  obtain ⟨b1, b2⟩ := recipspace_error hfl hu xs hn hs hnat c hc hE
  have hle := exLo_le_exHi hc (xs.map (fun x => 1 / x))
  obtain ⟨e1, e2⟩ := recip_backtransform hfl hu hr hEr b1
  obtain ⟨e3, e4⟩ := recip_backtransform hfl hu (lt_of_lt_of_le hr hle) (by linarith) b2
  have hord := loFl_le_hiFl hfl hmono
    (Arith.fromList ((flRecips fl xs).map inj) : Arith (RR fl)) hc
  have hlo0 := (recip_back hfl hu hr hEr b1).1
  refine ⟨_, _, ?_, e4, e2⟩
  rw [(Harmonic.ci_fl_twoSided xs hpos hn hnat c l hp).1 hord, e1, e3]
  have : gt (⟨fl (1 / hiFl (fl := fl) (Arith.fromList ((flRecips fl xs).map inj)) c)⟩ : RR fl)
      (⟨fl (1 / loFl (fl := fl) (Arith.fromList ((flRecips fl xs).map inj)) c)⟩ : RR fl) = false :=
    gt_mk_false (hmono (one_div_le_one_div_of_le hlo0 hord))
  simp only [Interval.new, this, liftI, Bool.false_eq_true, if_false]

/-- **Harmonic interval, one-sided, the exact bound at least `E` below zero.** Then the computed
    reciprocal-space bound is `≤ 0` too and `Harmonic::ci` returns the same `+∞` end as exact
    arithmetic does (C05 `harmonic_not_pos`). -/
theorem harmonic_ci_not_pos (hfl : ∀ x, |fl x - x| ≤ u * |x|) (hu : 0 ≤ u) (xs : List ℝ)
    (hpos : ∀ x ∈ xs, 0 < x) (hn : 2 ≤ xs.length) (hs : (xs.length : ℝ) * u ≤ 1 / 1024)
    (hnat : ∀ m : ℕ, m ≤ xs.length → fl m = m) (c : ℝ) (hc : 0 ≤ c) (l : RR fl) {E : ℝ}
    (hE : SpaceErrBound u c (xs.map (fun x => 1 / x)) E) :
    (probOk (Confidence.upper l).quantile = true → exHi c (xs.map (fun x => 1 / x)) ≤ -E →
      Harmonic.ci (constCrit c) (.upper l) (xs.map inj) = .ok (.upper (posInf : RR fl))) ∧
    (probOk (Confidence.lower l).quantile = true → exLo c (xs.map (fun x => 1 / x)) ≤ -E →
      Harmonic.ci (constCrit c) (.lower l) (xs.map inj) = .ok (.lower (posInf : RR fl))) := by
  obtain ⟨b1, b2⟩ := recipspace_error hfl hu xs hn hs hnat c hc hE
  constructor
  · intro hp hr
    rw [Harmonic.ci_fl_upper xs hpos hn hnat c l hp, (recip_branches b2).2 hr]
  · intro hp hr
    rw [Harmonic.ci_fl_lower xs hpos hn hnat c l hp, (recip_branches b1).2 hr]

/-! ### non-vacuity -/

/-- the hypotheses on `(fl, u, xs)` are met by exact arithmetic and a concrete positive list; the
    error bounds then vanish, `E = 0` is admissible and the theorems give equality with C05 -/
example : (∀ x : ℝ, |id x - x| ≤ 0 * |x|) ∧ (0 : ℝ) ≤ 0 ∧ (∀ x ∈ [(1 : ℝ), 2, 4], 0 < x) ∧
    2 ≤ [(1 : ℝ), 2, 4].length ∧ (([(1 : ℝ), 2, 4].length : ℕ) : ℝ) * 0 ≤ 1 / 1024 ∧
    (∀ m : ℕ, m ≤ [(1 : ℝ), 2, 4].length → id (m : ℝ) = m) ∧
    SpaceErrBound 0 2 ([(1 : ℝ), 2, 4].map Real.log) 0 ∧
    SpaceErrBound 0 2 ([(1 : ℝ), 2, 4].map (fun x => 1 / x)) 0 := by
  refine ⟨by intro x; simp, le_refl _, ?_, by simp, by norm_num, by intro m _; rfl,
    Or.inl (by rw [spaceErrSqrt_zero]), Or.inl (by rw [spaceErrSqrt_zero])⟩
  intro x hx; simp at hx; rcases hx with rfl | rfl | rfl <;> norm_num

/-- … and by a rounding function that is not the identity and is monotone: `fl x = x` for `x ≤ 8`,
    `fl x = x·(1 + 2⁻¹²)` above, `u = 2⁻¹²`, three positive observations -/
example : ∃ (fl : ℝ → ℝ) (u : ℝ) (xs : List ℝ), (∀ x, |fl x - x| ≤ u * |x|) ∧ 0 ≤ u ∧
    (∀ x ∈ xs, 0 < x) ∧ 2 ≤ xs.length ∧ (xs.length : ℝ) * u ≤ 1 / 1024 ∧
    (∀ m : ℕ, m ≤ xs.length → fl m = m) ∧ Monotone fl ∧ fl 16 ≠ 16 := by
  refine ⟨fun x => if x ≤ 8 then x else x * (1 + 1 / 4096), 1 / 4096, [1 / 2, 2, 4], ?_,
    by norm_num, ?_, by simp, by norm_num, ?_, ?_, ?_⟩
  · intro x
    show |(if x ≤ 8 then x else x * (1 + 1 / 4096)) - x| ≤ 1 / 4096 * |x|
    split_ifs with h
    · simp only [sub_self, abs_zero]
      positivity
    · have : x * (1 + 1 / 4096) - x = 1 / 4096 * x := by ring
      rw [this, abs_mul]
      norm_num
  · intro x hx; simp at hx; rcases hx with rfl | rfl | rfl <;> norm_num
  · intro m hm
    have : (m : ℝ) ≤ 8 := by
      have : (m : ℝ) ≤ 3 := by exact_mod_cast hm
      linarith
    show (if (m : ℝ) ≤ 8 then (m : ℝ) else (m : ℝ) * (1 + 1 / 4096)) = m
    rw [if_pos this]
  · intro a b hab
    show (if a ≤ 8 then a else a * (1 + 1 / 4096)) ≤ (if b ≤ 8 then b else b * (1 + 1 / 4096))
    split_ifs with h1 h2 h2
    · exact hab
    · have : 0 ≤ b := by linarith
      nlinarith
    · linarith
    · have : 0 ≤ b - a := by linarith
      nlinarith
  · show (if (16 : ℝ) ≤ 8 then (16 : ℝ) else 16 * (1 + 1 / 4096)) ≠ 16
    norm_num

/-- the side conditions of the first-order (`κ`) form hold for a genuinely inexact `u`: the
    reciprocals `1, 3` of the data `1, 1/3` have `s² = 2 > 0`, `Y = Σr²/(n−1) = 10` and
    `2⁻¹²·√10 ≤ √2/2` -/
example : 0 < svar [(1 : ℝ), 3] ∧
    (1 / 4096 : ℝ) * Real.sqrt ((([(1 : ℝ), 3]).map (fun x => x * x)).sum /
      ((([(1 : ℝ), 3]).length : ℝ) - 1)) ≤ ssd [(1 : ℝ), 3] / 2 := by
  have hv : svar [(1 : ℝ), 3] = 2 := by
    unfold svar sdev2 smean
    norm_num
  refine ⟨by rw [hv]; norm_num, ?_⟩
  have h1 : Real.sqrt ((([(1 : ℝ), 3]).map (fun x => x * x)).sum /
      ((([(1 : ℝ), 3]).length : ℝ) - 1)) ≤ 4 := by
    rw [Real.sqrt_le_left (by norm_num)]
    norm_num
  have h2 : (1 : ℝ) ≤ ssd [(1 : ℝ), 3] := by
    unfold ssd
    rw [hv]
    exact Real.le_sqrt_of_sq_le (by norm_num)
  linarith

/-- the probability hypothesis holds for a one-sided confidence at every `fl` (no arithmetic is
    performed on the level) -/
example (fl : ℝ → ℝ) : probOk (Confidence.upper (⟨0.95⟩ : RR fl)).quantile = true := by
  simp [probOk, Confidence.quantile]
  constructor <;> norm_num

/-- the good case of the harmonic back-transform is inhabited: `r = 2`, `E = 1/2`, `r̃ = 5/2` -/
example : (0 : ℝ) < 2 ∧ (1 / 2 : ℝ) ≤ 2 / 2 ∧ |(5 / 2 : ℝ) - 2| ≤ 1 / 2 := by
  refine ⟨by norm_num, by norm_num, ?_⟩
  rw [abs_of_nonneg (by norm_num)]
  norm_num

/-- the undetermined zone is inhabited, e.g. an exact reciprocal-space bound `r = 0` (exact side:
    `+∞`) with `E = 1`: `r̃ = 1` gives the finite value `fl 1`, `r̃ = −1` gives `+∞` -/
example : Harmonic.recipBound (⟨1⟩ : Rex) = ⟨1⟩ ∧ Harmonic.recipBound (⟨-1⟩ : Rex) = posInf ∧
    Harmonic.recipBound (⟨0⟩ : Rex) = posInf ∧ |(1 : ℝ) - 0| ≤ 1 ∧ |(-1 : ℝ) - 0| ≤ 1 := by
  refine ⟨?_, ?_, ?_, by norm_num, by norm_num⟩
  · rw [recipBound_fl_pos (⟨1⟩ : Rex) (by show (0 : ℝ) < 1; norm_num)]
    apply RR.ext'; simp
  · exact recipBound_fl_not_pos (⟨-1⟩ : Rex) (by show (-1 : ℝ) ≤ 0; norm_num)
  · exact recipBound_fl_not_pos (⟨0⟩ : Rex) (by show (0 : ℝ) ≤ 0; norm_num)

end StatsCI.C05R
