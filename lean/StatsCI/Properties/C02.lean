/-
  C02 — The default proportion interval (Wilson score) returns the two roots of the score
  equation, inside `[0, 1]`, with far ends `1` / `0` for one-sided requests; the Wald variant
  returns `k/n ∓ z·√((k/n)(1-k/n)/n)`; each method accepts exactly its documented domain; every
  front-end returns the interval of the counts it implies.

  All statements are about the model functions of `StatsCI.Model.Proportion` themselves,
  instantiated at exact real arithmetic `Rex = RR id`, with an arbitrary external quantile oracle
  `crit : Crit Rex`.  Abbreviations (from `StatsCI.Lemmas.Wilson`, all reducible):
    `zOf crit conf   := (crit (.z conf.quantile)).val`             the supplied critical value
    `mCentre n k z   := (wilsonCentre ⟨n⟩ ⟨k⟩ ⟨z⟩ : Rex).val`       the model's Wilson centre
    `mSpan n k z     := (wilsonSpan ⟨n⟩ ⟨k⟩ ⟨z⟩ : Rex).val`         the model's Wilson span
    `waldSd n k      := √((k/n)(1 - k/n)/n)`
  A confidence is *valid* when its level `l` satisfies `0 < l < 1` (what every constructor of the
  crate enforces; `validLevel_iff`).

  `ci_wilson` clamps its two bounds into `[0, 1]` (`(mean - span).max(0.)`, `(mean + span).min(1.)`)
  before it builds the interval.  In exact arithmetic the clamp never acts on the domain (both roots
  are proportions, `bounds_in_unit`), so the statements below are about `centre ∓ span` themselves;
  what the clamp guarantees on *every* carrier `RR fl` is `ciWilson_ok_in_unit` (§4).

  What the sign of the oracle's answer does (the model does not know that `z` is a quantile):
  a two-sided request needs `0 ≤ z` for `Interval::new` to accept `centre - span ≤ centre + span`;
  with `z < 0` it answers `Err(IntervalError::InvalidBounds)`.  One-sided Wilson requests are
  accepted for every real `z`.
-/
import StatsCI.Lemmas.Wilson
import StatsCI.Lemmas.WilsonRound

namespace StatsCI.C02
open StatsCI Proportion Wilson

/-! ## 0. valid confidences never make `inverse_cdf` panic -/

/-- the crate's validity test on the level is `0 < l < 1` -/
theorem validLevel_iff (l : Rex) : Confidence.validLevel l = true ↔ 0 < l.val ∧ l.val < 1 :=
  Wilson.validLevel_iff l

/-- the probability handed to the normal quantile: `1 - (1 - l)/2` two-sided, `l` one-sided -/
theorem quantile_val (l : Rex) :
    (Confidence.quantile (.twoSided l)).val = 1 - (1 - l.val) / 2 ∧
    (Confidence.quantile (.upper l)).val = l.val ∧ (Confidence.quantile (.lower l)).val = l.val :=
  ⟨quantile_twoSided_val l, rfl, rfl⟩

/-- for a valid confidence the probability is in `[0,1]`, so `z_value` returns the oracle's answer -/
theorem zValue_ok (crit : Crit Rex) (conf : Confidence Rex) (h0 : 0 < conf.level.val)
    (h1 : conf.level.val < 1) :
    probOk conf.quantile = true ∧ zValue crit conf = .ok (crit (.z conf.quantile)) :=
  ⟨probOk_quantile conf h0 h1, zValue_eq crit conf h0 h1⟩

example : ∃ conf : Confidence Rex, 0 < conf.level.val ∧ conf.level.val < 1 :=
  ⟨.twoSided ⟨0.95⟩, by norm_num [Confidence.level], by norm_num [Confidence.level]⟩

/-! ## 1. bridge: the model's two Wilson numbers in closed form -/

/-- in exact arithmetic `wilsonCentre` is `(k + z²/2)/(n + z²)` and `wilsonSpan` is
    `z/(n + z²) · √(k(n-k)/n + z²/4)` (for all real arguments) -/
theorem bridge (n k z : ℝ) :
    (wilsonCentre (⟨n⟩ : Rex) ⟨k⟩ ⟨z⟩).val = (k + z ^ 2 / 2) / (n + z ^ 2) ∧
    (wilsonSpan (⟨n⟩ : Rex) ⟨k⟩ ⟨z⟩).val
      = z / (n + z ^ 2) * Real.sqrt (k * (n - k) / n + z ^ 2 / 4) :=
  ⟨wilsonCentre_val n k z, wilsonSpan_val n k z⟩

/-! ## 2. the bounds are the two roots of the score equation -/

/-- both `centre - span` and `centre + span` solve `(p - k/n)² = z² p(1-p)/n` -/
theorem score_root (n k : ℕ) (hn : 0 < n) (hk : k ≤ n) (z : ℝ) :
    (mCentre n k z - mSpan n k z - k / n) ^ 2
      = z ^ 2 * ((mCentre n k z - mSpan n k z) * (1 - (mCentre n k z - mSpan n k z))) / n ∧
    (mCentre n k z + mSpan n k z - k / n) ^ 2
      = z ^ 2 * ((mCentre n k z + mSpan n k z) * (1 - (mCentre n k z + mSpan n k z))) / n := by
  have hn' : (0 : ℝ) < n := by exact_mod_cast hn
  have hk0 : (0 : ℝ) ≤ k := by positivity
  have hkn : (k : ℝ) ≤ n := by exact_mod_cast hk
  simp only [mCentre, mSpan, wilsonCentre_val, wilsonSpan_val]
  have hm := Wilson.score_root n k z hn' hk0 hkn (-1) (by norm_num)
  have hp := Wilson.score_root n k z hn' hk0 hkn 1 (by norm_num)
  have e1 : centre n k z + -1 * span n k z = centre n k z - span n k z := by ring
  have e2 : centre n k z + 1 * span n k z = centre n k z + span n k z := by ring
  rw [e1] at hm; rw [e2] at hp
  exact ⟨hm, hp⟩

/-- and they are *the* roots: a real `p` solves the score equation iff it is one of the two bounds -/
theorem score_root_iff (n k : ℕ) (hn : 0 < n) (hk : k ≤ n) (z p : ℝ) :
    (p - k / n) ^ 2 = z ^ 2 * (p * (1 - p)) / n ↔
      p = mCentre n k z - mSpan n k z ∨ p = mCentre n k z + mSpan n k z := by
  have hn' : (0 : ℝ) < n := by exact_mod_cast hn
  have hk0 : (0 : ℝ) ≤ k := by positivity
  have hkn : (k : ℝ) ≤ n := by exact_mod_cast hk
  simp only [mCentre, mSpan, wilsonCentre_val, wilsonSpan_val]
  exact Wilson.score_root_iff n k z p hn' hk0 hkn

example : (0 : ℕ) < 10 ∧ 3 ≤ 10 := by omega

/-! ## 3. the roots lie in `[0, 1]` and enclose `k/n` -/

/-- for every real `z` (negative ones included) `0 ≤ centre - |span| ≤ k/n ≤ centre + |span| ≤ 1` -/
theorem in_unit (n k : ℕ) (hn : 0 < n) (hk : k ≤ n) (z : ℝ) :
    0 ≤ mCentre n k z - |mSpan n k z| ∧
    mCentre n k z - |mSpan n k z| ≤ k / n ∧
    (k : ℝ) / n ≤ mCentre n k z + |mSpan n k z| ∧
    mCentre n k z + |mSpan n k z| ≤ 1 := by
  have hn' : (0 : ℝ) < n := by exact_mod_cast hn
  have hk0 : (0 : ℝ) ≤ k := by positivity
  have hkn : (k : ℝ) ≤ n := by exact_mod_cast hk
  simp only [mCentre, mSpan, wilsonCentre_val, wilsonSpan_val]
  have a := abs_span_le_centre n k z hn' hk0 hkn
  have b := centre_add_abs_span_le_one n k z hn' hk0 hkn
  have c := abs_le.mp (abs_centre_sub_le n k z hn' hk0 hkn)
  refine ⟨by linarith, by linarith [c.2], by linarith [c.1], b⟩

/-- with `z ≥ 0` the span is non-negative, so `|span| = span`; with `z < 0` it is negative -/
theorem span_sign (n k : ℕ) (hn : 0 < n) (hk : k ≤ n) (z : ℝ) :
    (0 ≤ z → |mSpan n k z| = mSpan n k z) ∧ (z < 0 → mSpan n k z < 0) := by
  have hn' : (0 : ℝ) < n := by exact_mod_cast hn
  have hk0 : (0 : ℝ) ≤ k := by positivity
  have hkn : (k : ℝ) ≤ n := by exact_mod_cast hk
  simp only [mSpan, wilsonSpan_val]
  exact ⟨fun hz => abs_of_nonneg (span_nonneg n k z hn' hz), span_neg n k z hn' hk0 hkn⟩

/-- hence both returned bounds are in `[0, 1]` whatever the sign of `z` -/
theorem bounds_in_unit (n k : ℕ) (hn : 0 < n) (hk : k ≤ n) (z : ℝ) :
    0 ≤ mCentre n k z - mSpan n k z ∧ mCentre n k z - mSpan n k z ≤ 1 ∧
    0 ≤ mCentre n k z + mSpan n k z ∧ mCentre n k z + mSpan n k z ≤ 1 := by
  obtain ⟨a, _, _, d⟩ := in_unit n k hn hk z
  have h1 := le_abs_self (mSpan n k z)
  have h2 := neg_abs_le (mSpan n k z)
  refine ⟨by linarith, by linarith, by linarith, by linarith⟩

/-! ## 4. what `ciWilson` returns on its domain, per kind of confidence -/

section kinds
variable (crit : Crit Rex) (l : Rex) (n k : ℕ)

/-- two-sided, `z ≥ 0`: `[centre - span, centre + span]` -/
theorem ciWilson_twoSided (h0 : 0 < l.val) (h1 : l.val < 1) (hk : 2 ≤ k) (hkn : k + 2 ≤ n)
    (hz : 0 ≤ zOf crit (.twoSided l)) :
    ciWilson crit (.twoSided l) n k
      = .ok (.twoSided ⟨mCentre n k (zOf crit (.twoSided l)) - mSpan n k (zOf crit (.twoSided l))⟩
                       ⟨mCentre n k (zOf crit (.twoSided l)) + mSpan n k (zOf crit (.twoSided l))⟩) := by
  rw [ciWilson_of_domain crit (.twoSided l) h0 h1 n k hk hkn]
  apply finish_twoSided
  have hn' : (0 : ℝ) < n := by exact_mod_cast (by omega : 0 < n)
  rw [wilsonSpan_val]; exact span_nonneg _ _ _ hn' hz

/-- two-sided, oracle answers `z < 0`: `Interval::new` rejects the swapped bounds -/
theorem ciWilson_twoSided_neg (h0 : 0 < l.val) (h1 : l.val < 1) (hk : 2 ≤ k) (hkn : k + 2 ≤ n)
    (hz : zOf crit (.twoSided l) < 0) :
    ciWilson crit (.twoSided l) n k = .err (.interval .invalidBounds) := by
  rw [ciWilson_of_domain crit (.twoSided l) h0 h1 n k hk hkn]
  apply finish_twoSided_neg
  have hn' : (0 : ℝ) < n := by exact_mod_cast (by omega : 0 < n)
  have hkn' : (k : ℝ) ≤ n := by exact_mod_cast (by omega : k ≤ n)
  rw [wilsonSpan_val]; exact span_neg _ _ _ hn' (by positivity) hkn' hz

/-- upper one-sided, any real `z`: `[centre - span, 1]` -/
theorem ciWilson_upper (h0 : 0 < l.val) (h1 : l.val < 1) (hk : 2 ≤ k) (hkn : k + 2 ≤ n) :
    ciWilson crit (.upper l) n k
      = .ok (.twoSided ⟨mCentre n k (zOf crit (.upper l)) - mSpan n k (zOf crit (.upper l))⟩ ⟨1⟩) := by
  rw [ciWilson_of_domain crit (.upper l) h0 h1 n k hk hkn]
  apply finish_upper
  exact (bounds_in_unit n k (by omega) (by omega) _).2.1

/-- lower one-sided, any real `z`: `[0, centre + span]` -/
theorem ciWilson_lower (h0 : 0 < l.val) (h1 : l.val < 1) (hk : 2 ≤ k) (hkn : k + 2 ≤ n) :
    ciWilson crit (.lower l) n k
      = .ok (.twoSided ⟨0⟩ ⟨mCentre n k (zOf crit (.lower l)) + mSpan n k (zOf crit (.lower l))⟩) := by
  rw [ciWilson_of_domain crit (.lower l) h0 h1 n k hk hkn]
  apply finish_lower
  exact (bounds_in_unit n k (by omega) (by omega) _).2.2.1

end kinds

/-- all kinds at once: on the domain, with `0 ≤ z` when two-sided, the result is `Ok` of the
    two-sided interval whose finite bounds are `centre ∓ span` and whose far end is `1` / `0` -/
theorem kinds (crit : Crit Rex) (conf : Confidence Rex) (h0 : 0 < conf.level.val)
    (h1 : conf.level.val < 1) (n k : ℕ) (hk : 2 ≤ k) (hkn : k + 2 ≤ n)
    (hz : conf.isTwoSided = true → 0 ≤ zOf crit conf) :
    ciWilson crit conf n k = .ok
      (match conf with
       | .twoSided _ => .twoSided ⟨mCentre n k (zOf crit conf) - mSpan n k (zOf crit conf)⟩
                                  ⟨mCentre n k (zOf crit conf) + mSpan n k (zOf crit conf)⟩
       | .upper _ => .twoSided ⟨mCentre n k (zOf crit conf) - mSpan n k (zOf crit conf)⟩ ⟨1⟩
       | .lower _ => .twoSided ⟨0⟩ ⟨mCentre n k (zOf crit conf) + mSpan n k (zOf crit conf)⟩) := by
  cases conf with
  | twoSided l => exact ciWilson_twoSided crit l n k h0 h1 hk hkn (hz rfl)
  | upper l => exact ciWilson_upper crit l n k h0 h1 hk hkn
  | lower l => exact ciWilson_lower crit l n k h0 h1 hk hkn

/-- the headline: on the domain the result is a two-sided interval `[lo, hi] ⊆ [0,1]`, `lo ≤ hi`,
    each bound is either the far end (`1` for upper, `0` for lower) or a root of the score equation -/
theorem ciWilson_spec (crit : Crit Rex) (conf : Confidence Rex) (h0 : 0 < conf.level.val)
    (h1 : conf.level.val < 1) (n k : ℕ) (hk : 2 ≤ k) (hkn : k + 2 ≤ n)
    (hz : conf.isTwoSided = true → 0 ≤ zOf crit conf) :
    ∃ lo hi : ℝ, ciWilson crit conf n k = .ok (.twoSided ⟨lo⟩ ⟨hi⟩) ∧
      0 ≤ lo ∧ lo ≤ hi ∧ hi ≤ 1 ∧
      (conf.isLower = true ∧ lo = 0 ∨ conf.isLower = false ∧
        (lo - k / n) ^ 2 = (zOf crit conf) ^ 2 * (lo * (1 - lo)) / n) ∧
      (conf.isUpper = true ∧ hi = 1 ∨ conf.isUpper = false ∧
        (hi - k / n) ^ 2 = (zOf crit conf) ^ 2 * (hi * (1 - hi)) / n) := by
  have hn : 0 < n := by omega
  have hkn' : k ≤ n := by omega
  have hk' := kinds crit conf h0 h1 n k hk hkn hz
  obtain ⟨b1, b2, b3, b4⟩ := bounds_in_unit n k hn hkn' (zOf crit conf)
  obtain ⟨r1, r2⟩ := score_root n k hn hkn' (zOf crit conf)
  cases conf with
  | twoSided l =>
    refine ⟨_, _, hk', b1, ?_, b4, Or.inr ⟨rfl, r1⟩, Or.inr ⟨rfl, r2⟩⟩
    have := ((span_sign n k hn hkn' (zOf crit (.twoSided l))).1 (hz rfl))
    have := abs_nonneg (mSpan n k (zOf crit (.twoSided l)))
    linarith
  | upper l => exact ⟨_, _, hk', b1, b2, le_refl _, Or.inr ⟨rfl, r1⟩, Or.inl ⟨rfl, rfl⟩⟩
  | lower l => exact ⟨_, _, hk', le_refl _, b3, b4, Or.inl ⟨rfl, rfl⟩, Or.inr ⟨rfl, r2⟩⟩

/-- the guarantee of the clamp (`(mean - span).max(0.)`, `(mean + span).min(1.)`), on every carrier
    `RR fl` — the reals with an arbitrary function `fl` applied after every arithmetic operation,
    no hypothesis on `fl`; `fl = id` is `Rex` —, for every oracle, every confidence (valid or not)
    and all counts: an `Ok` result of `ciWilson` is a two-sided interval `[lo, hi]` with
    `0 ≤ lo ≤ hi ≤ 1` -/
theorem ciWilson_ok_in_unit {fl : ℝ → ℝ} (crit : Crit (RR fl)) (conf : Confidence (RR fl))
    (n k : ℕ) (iv : Interval (RR fl)) (h : ciWilson crit conf n k = .ok iv) :
    ∃ lo hi : RR fl, iv = .twoSided lo hi ∧ 0 ≤ lo.val ∧ lo.val ≤ hi.val ∧ hi.val ≤ 1 :=
  WilsonRound.ciWilson_ok_unit crit conf n k iv h

/-- non-vacuity of `ciWilson_ok_in_unit`: `Ok` results exist (exact arithmetic, `ciWilson_spec`) -/
example : ∃ iv, ciWilson (constCrit 1.96 : Crit Rex) (.twoSided ⟨0.95⟩) 100 30 = .ok iv := by
  obtain ⟨lo, hi, h, _⟩ := ciWilson_spec (constCrit 1.96) (.twoSided ⟨0.95⟩)
    (by norm_num [Confidence.level]) (by norm_num [Confidence.level]) 100 30 (by omega) (by omega)
    (fun _ => by norm_num [zOf, constCrit])
  exact ⟨_, h⟩

/-- non-vacuity: a valid two-sided confidence, counts on the domain, an oracle answering `z = 1.96` -/
example : ∃ (crit : Crit Rex) (conf : Confidence Rex) (n k : ℕ), 0 < conf.level.val ∧
    conf.level.val < 1 ∧ 2 ≤ k ∧ k + 2 ≤ n ∧ (conf.isTwoSided = true → 0 ≤ zOf crit conf) :=
  ⟨constCrit 1.96, .twoSided ⟨0.95⟩, 100, 30, by norm_num [Confidence.level],
    by norm_num [Confidence.level], by omega, by omega, fun _ => by norm_num [zOf, constCrit]⟩

/-- non-vacuity of the rejecting branch: an oracle answering `z = -1` -/
example : ∃ (crit : Crit Rex) (l : Rex), 0 < l.val ∧ l.val < 1 ∧ zOf crit (.twoSided l) < 0 :=
  ⟨constCrit (-1), ⟨0.95⟩, by norm_num, by norm_num, by norm_num [zOf, constCrit]⟩

/-! ## 5. the domain of `ciWilson` -/

/-- complete case analysis of `ciWilson` for a valid confidence, in the order of the tests:
    `k > n` ⇒ `InvalidSuccesses`; else `k < 2` ⇒ `TooFewSuccesses`; else `n - k < 2` ⇒
    `TooFewFailures`; else (two-sided with a negative oracle answer) `InvalidBounds`; else `Ok` -/
theorem ciWilson_cases (crit : Crit Rex) (conf : Confidence Rex) (h0 : 0 < conf.level.val)
    (h1 : conf.level.val < 1) (n k : ℕ) :
    (n < k ∧ ciWilson crit conf n k = .err (.invalidSuccesses k n)) ∨
    (k ≤ n ∧ k < 2 ∧ ciWilson crit conf n k = .err (.tooFewSuccesses k n ⟨k⟩)) ∨
    (2 ≤ k ∧ k ≤ n ∧ n < k + 2 ∧
      ciWilson crit conf n k = .err (.tooFewFailures (n - k) n ⟨(n : ℝ) - k⟩)) ∨
    (2 ≤ k ∧ k + 2 ≤ n ∧ conf.isTwoSided = true ∧ zOf crit conf < 0 ∧
      ciWilson crit conf n k = .err (.interval .invalidBounds)) ∨
    (2 ≤ k ∧ k + 2 ≤ n ∧ (conf.isTwoSided = true → 0 ≤ zOf crit conf) ∧
      ∃ lo hi, ciWilson crit conf n k = .ok (.twoSided lo hi)) := by
  by_cases a : n < k
  · left; exact ⟨a, by simp [ciWilson, a]⟩
  by_cases b : k < 2
  · right; left
    refine ⟨by omega, b, ?_⟩
    simp only [ciWilson, gt_iff_lt, a, if_false, b, if_true]; rfl
  by_cases c : n - k < 2
  · right; right; left
    refine ⟨by omega, by omega, by omega, ?_⟩
    simp only [ciWilson, gt_iff_lt, a, if_false, b, c, if_true]; rfl
  have hk : 2 ≤ k := by omega
  have hkn : k + 2 ≤ n := by omega
  by_cases d : conf.isTwoSided = true ∧ zOf crit conf < 0
  · right; right; right; left
    obtain ⟨d1, d2⟩ := d
    refine ⟨hk, hkn, d1, d2, ?_⟩
    cases conf with
    | twoSided l => exact ciWilson_twoSided_neg crit l n k h0 h1 hk hkn d2
    | upper l => simp [Confidence.isTwoSided] at d1
    | lower l => simp [Confidence.isTwoSided] at d1
  · right; right; right; right
    have hz : conf.isTwoSided = true → 0 ≤ zOf crit conf := fun h => by
      by_contra h'; exact d ⟨h, lt_of_not_ge h'⟩
    obtain ⟨lo, hi, h, _⟩ := ciWilson_spec crit conf h0 h1 n k hk hkn hz
    exact ⟨hk, hkn, hz, _, _, h⟩

/-- each outcome occurs exactly on its documented set of counts, and a valid confidence never
    panics (no other error variant can occur: see `ciWilson_cases`) -/
theorem domain_wilson (crit : Crit Rex) (conf : Confidence Rex) (h0 : 0 < conf.level.val)
    (h1 : conf.level.val < 1) (n k : ℕ) :
    (ciWilson crit conf n k = .err (.invalidSuccesses k n) ↔ n < k) ∧
    ((∃ w, ciWilson crit conf n k = .err (.tooFewSuccesses k n w)) ↔ k ≤ n ∧ k < 2) ∧
    (k ≤ n → k < 2 → ciWilson crit conf n k = .err (.tooFewSuccesses k n ⟨k⟩)) ∧
    ((∃ f w, ciWilson crit conf n k = .err (.tooFewFailures f n w)) ↔ 2 ≤ k ∧ k ≤ n ∧ n < k + 2) ∧
    (2 ≤ k → k ≤ n → n < k + 2 →
      ciWilson crit conf n k = .err (.tooFewFailures (n - k) n ⟨(n : ℝ) - k⟩)) ∧
    (ciWilson crit conf n k = .err (.interval .invalidBounds) ↔
      2 ≤ k ∧ k + 2 ≤ n ∧ conf.isTwoSided = true ∧ zOf crit conf < 0) ∧
    ((∃ i, ciWilson crit conf n k = .ok i) ↔
      2 ≤ k ∧ k + 2 ≤ n ∧ (conf.isTwoSided = true → 0 ≤ zOf crit conf)) ∧
    (∀ t, ciWilson crit conf n k ≠ .panic t) := by
  rcases ciWilson_cases crit conf h0 h1 n k with
    ⟨a, h⟩ | ⟨a, b, h⟩ | ⟨a, b, c, h⟩ | ⟨a, b, c, d, h⟩ | ⟨a, b, c, lo, hi, h⟩ <;>
  · rw [h]
    refine ⟨?_, ?_, ?_, ?_, ?_, ?_, ?_, ?_⟩ <;>
      simp <;> first | omega | (intros; omega) | skip
    all_goals first
      | exact ⟨a, b, c, d⟩
      | exact ⟨a, b, c⟩
      | exact fun _ _ => ⟨c, d⟩
      | exact fun _ _ => c

/-- what an *invalid* confidence (constructible through the public enum variants) does once the
    count tests are passed: `statrs` panics in `inverse_cdf` exactly when the probability
    `quantile()` is outside `[0, 1]`, i.e. level outside `[-1, 1]` (two-sided) or `[0, 1]`
    (one-sided); there is no other panic. The count errors of `ciWilson_cases` come first and do
    not depend on the confidence at all. -/
theorem panic_iff (crit : Crit Rex) (conf : Confidence Rex) (n k : ℕ) (hk : 2 ≤ k)
    (hkn : k + 2 ≤ n) :
    (ciWilson crit conf n k = .panic "inverse_cdf" ↔ probOk conf.quantile = false) ∧
    (∀ t, ciWilson crit conf n k = .panic t → t = "inverse_cdf") ∧
    (probOk conf.quantile = true ↔
      (match conf with
       | .twoSided l => -1 ≤ l.val ∧ l.val ≤ 1
       | .upper l => 0 ≤ l.val ∧ l.val ≤ 1
       | .lower l => 0 ≤ l.val ∧ l.val ≤ 1)) := by
  have a : ¬ k > n := by omega
  have b : ¬ k < 2 := by omega
  have c : ¬ n - k < 2 := by omega
  refine ⟨?_, ?_, probOk_quantile_iff conf⟩
  · cases h : probOk conf.quantile
    · simp [ciWilson, a, b, c, zValue, h]
    · simp only [ciWilson, a, b, c, if_false, zValue, h, if_true, Outcome.bind_ok]
      simpa using WilsonRound.finishWilson_ne_panic conf _ _ _
  · intro t
    cases h : probOk conf.quantile
    · simp [ciWilson, a, b, c, zValue, h]
      intro h; exact h.symm
    · simp only [ciWilson, a, b, c, if_false, zValue, h, if_true, Outcome.bind_ok]
      intro h'; exact absurd h' (WilsonRound.finishWilson_ne_panic conf _ _ _)

/-- the count tests do not look at the confidence: for *every* confidence, valid or not -/
theorem count_errors_any_conf (crit : Crit Rex) (conf : Confidence Rex) (n k : ℕ) :
    (n < k → ciWilson crit conf n k = .err (.invalidSuccesses k n)) ∧
    (k ≤ n → k < 2 → ciWilson crit conf n k = .err (.tooFewSuccesses k n ⟨k⟩)) ∧
    (2 ≤ k → k ≤ n → n < k + 2 →
      ciWilson crit conf n k = .err (.tooFewFailures (n - k) n ⟨(n : ℝ) - k⟩)) := by
  refine ⟨fun a => by simp [ciWilson, a], fun a b => ?_, fun a b c => ?_⟩
  · have a' : ¬ k > n := by omega
    simp only [ciWilson, a', if_false, b, if_true]; rfl
  · have a' : ¬ k > n := by omega
    have b' : ¬ k < 2 := by omega
    have c' : n - k < 2 := by omega
    simp only [ciWilson, a', if_false, b', c', if_true]; rfl

example : ∃ conf : Confidence Rex, probOk conf.quantile = false :=
  ⟨.upper ⟨2⟩, by rw [Bool.eq_false_iff, Ne, probOk_quantile_iff]; norm_num⟩

/-- non-vacuity: all five cases occur -/
example : ((5 : ℕ) < 7) ∧ ((1 : ℕ) ≤ 9 ∧ 1 < 2) ∧ (2 ≤ 8 ∧ 8 ≤ 9 ∧ 9 < 8 + 2) ∧ (2 ≤ 4 ∧ 4 + 2 ≤ 9) := by
  omega

/-! ## 6. the Wald variant `ciZNormal` -/

section wald
variable (crit : Crit Rex) (l : Rex) (n k : ℕ)

/-- two-sided, `z ≥ 0`: `k/n ∓ z·√((k/n)(1-k/n)/n)` -/
theorem wald_twoSided (h0 : 0 < l.val) (h1 : l.val < 1) (hk : 10 ≤ k) (hkn : k + 10 ≤ n)
    (hz : 0 ≤ zOf crit (.twoSided l)) :
    ciZNormal crit (.twoSided l) n k
      = .ok (.twoSided
          ⟨(k : ℝ) / n - zOf crit (.twoSided l) * Real.sqrt ((k : ℝ) / n * (1 - (k : ℝ) / n) / n)⟩
          ⟨(k : ℝ) / n + zOf crit (.twoSided l) * Real.sqrt ((k : ℝ) / n * (1 - (k : ℝ) / n) / n)⟩) := by
  rw [ciZNormal_of_domain crit (.twoSided l) h0 h1 n k hk hkn]
  exact finish_twoSided _ _ _ (mul_nonneg hz (Real.sqrt_nonneg _))

/-- two-sided, `z < 0`: rejected by `Interval::new` -/
theorem wald_twoSided_neg (h0 : 0 < l.val) (h1 : l.val < 1) (hk : 10 ≤ k) (hkn : k + 10 ≤ n)
    (hz : zOf crit (.twoSided l) < 0) :
    ciZNormal crit (.twoSided l) n k = .err (.interval .invalidBounds) := by
  rw [ciZNormal_of_domain crit (.twoSided l) h0 h1 n k hk hkn]
  apply finish_twoSided_neg
  have hk' : (0 : ℝ) < k := by exact_mod_cast (by omega : 0 < k)
  have hkn' : (k : ℝ) < n := by exact_mod_cast (by omega : k < n)
  exact mul_neg_of_neg_of_pos hz (waldSd_pos n k hk' hkn')

/-- upper one-sided: `[k/n - z·sd, 1]` exactly when that lower bound is `≤ 1` (true for `z ≥ 0`),
    otherwise `InvalidBounds` -/
theorem wald_upper (h0 : 0 < l.val) (h1 : l.val < 1) (hk : 10 ≤ k) (hkn : k + 10 ≤ n) :
    ((k : ℝ) / n - zOf crit (.upper l) * waldSd n k ≤ 1 →
      ciZNormal crit (.upper l) n k
        = .ok (.twoSided ⟨(k : ℝ) / n - zOf crit (.upper l) * waldSd n k⟩ ⟨1⟩)) ∧
    (1 < (k : ℝ) / n - zOf crit (.upper l) * waldSd n k →
      ciZNormal crit (.upper l) n k = .err (.interval .invalidBounds)) ∧
    (0 ≤ zOf crit (.upper l) → (k : ℝ) / n - zOf crit (.upper l) * waldSd n k ≤ 1) := by
  rw [ciZNormal_of_domain crit (.upper l) h0 h1 n k hk hkn]
  refine ⟨fun h => finish_upper _ _ _ h, fun h => finish_upper_rej _ _ _ h, fun hz => ?_⟩
  have hn' : (0 : ℝ) < n := by exact_mod_cast (by omega : 0 < n)
  have hkn' : (k : ℝ) ≤ n := by exact_mod_cast (by omega : k ≤ n)
  have : (k : ℝ) / n ≤ 1 := (div_le_one hn').mpr hkn'
  have := mul_nonneg hz (Real.sqrt_nonneg ((k : ℝ) / n * (1 - (k : ℝ) / n) / n))
  unfold waldSd; linarith

/-- lower one-sided: `[0, k/n + z·sd]` exactly when that upper bound is `≥ 0` (true for `z ≥ 0`),
    otherwise `InvalidBounds` -/
theorem wald_lower (h0 : 0 < l.val) (h1 : l.val < 1) (hk : 10 ≤ k) (hkn : k + 10 ≤ n) :
    (0 ≤ (k : ℝ) / n + zOf crit (.lower l) * waldSd n k →
      ciZNormal crit (.lower l) n k
        = .ok (.twoSided ⟨0⟩ ⟨(k : ℝ) / n + zOf crit (.lower l) * waldSd n k⟩)) ∧
    ((k : ℝ) / n + zOf crit (.lower l) * waldSd n k < 0 →
      ciZNormal crit (.lower l) n k = .err (.interval .invalidBounds)) ∧
    (0 ≤ zOf crit (.lower l) → 0 ≤ (k : ℝ) / n + zOf crit (.lower l) * waldSd n k) := by
  rw [ciZNormal_of_domain crit (.lower l) h0 h1 n k hk hkn]
  refine ⟨fun h => finish_lower _ _ _ h, fun h => finish_lower_rej _ _ _ h, fun hz => ?_⟩
  have : (0 : ℝ) ≤ (k : ℝ) / n := by positivity
  have := mul_nonneg hz (Real.sqrt_nonneg ((k : ℝ) / n * (1 - (k : ℝ) / n) / n))
  unfold waldSd; linarith

end wald

/-- under `0 ≤ z` the Wald variant returns, on its domain, `k/n ∓ z·sd` with far ends `1` / `0` -/
theorem wald (crit : Crit Rex) (conf : Confidence Rex) (h0 : 0 < conf.level.val)
    (h1 : conf.level.val < 1) (n k : ℕ) (hk : 10 ≤ k) (hkn : k + 10 ≤ n)
    (hz : 0 ≤ zOf crit conf) :
    ciZNormal crit conf n k = .ok
      (match conf with
       | .twoSided _ => .twoSided ⟨(k : ℝ) / n - zOf crit conf * waldSd n k⟩
                                  ⟨(k : ℝ) / n + zOf crit conf * waldSd n k⟩
       | .upper _ => .twoSided ⟨(k : ℝ) / n - zOf crit conf * waldSd n k⟩ ⟨1⟩
       | .lower _ => .twoSided ⟨0⟩ ⟨(k : ℝ) / n + zOf crit conf * waldSd n k⟩) := by
  cases conf with
  | twoSided l => exact wald_twoSided crit l n k h0 h1 hk hkn hz
  | upper l =>
    obtain ⟨a, _, c⟩ := wald_upper crit l n k h0 h1 hk hkn
    exact a (c hz)
  | lower l =>
    obtain ⟨a, _, c⟩ := wald_lower crit l n k h0 h1 hk hkn
    exact a (c hz)

/-- the domain of the Wald variant, in the order of its tests; the `f64` payloads are `n·p` and
    `n·q` with `p = k/n`, `q = 1 - p`; on the domain `10 ≤ k ∧ 10 ≤ n - k` the outcome is an
    interval or `InvalidBounds`, never a panic -/
theorem domain_wald (crit : Crit Rex) (conf : Confidence Rex) (h0 : 0 < conf.level.val)
    (h1 : conf.level.val < 1) (n k : ℕ) :
    (n < k ∧ ciZNormal crit conf n k = .err (.invalidSuccesses k n)) ∨
    (k ≤ n ∧ k < 10 ∧
      ciZNormal crit conf n k = .err (.tooFewSuccesses k n ⟨(n : ℝ) * ((k : ℝ) / n)⟩)) ∨
    (10 ≤ k ∧ k ≤ n ∧ n < k + 10 ∧
      ciZNormal crit conf n k
        = .err (.tooFewFailures (n - k) n ⟨(n : ℝ) * (1 - (k : ℝ) / n)⟩)) ∨
    (10 ≤ k ∧ k + 10 ≤ n ∧
      (ciZNormal crit conf n k = .err (.interval .invalidBounds) ∨
        ∃ lo hi, ciZNormal crit conf n k = .ok (.twoSided lo hi))) := by
  by_cases a : n < k
  · left; exact ⟨a, by simp [ciZNormal, a]⟩
  by_cases b : k < 10
  · right; left
    refine ⟨by omega, b, ?_⟩
    simp only [ciZNormal, gt_iff_lt, a, if_false, b, if_true]; rfl
  by_cases c : n - k < 10
  · right; right; left
    refine ⟨by omega, by omega, by omega, ?_⟩
    simp only [ciZNormal, gt_iff_lt, a, if_false, b, c, if_true]; rfl
  right; right; right
  have hk : 10 ≤ k := by omega
  have hkn : k + 10 ≤ n := by omega
  refine ⟨hk, hkn, ?_⟩
  cases conf with
  | twoSided l =>
    rcases lt_or_ge (zOf crit (.twoSided l)) 0 with hz | hz
    · left; exact wald_twoSided_neg crit l n k h0 h1 hk hkn hz
    · right; exact ⟨_, _, wald_twoSided crit l n k h0 h1 hk hkn hz⟩
  | upper l =>
    obtain ⟨p, q, _⟩ := wald_upper crit l n k h0 h1 hk hkn
    rcases le_or_gt ((k : ℝ) / n - zOf crit (.upper l) * waldSd n k) 1 with hz | hz
    · right; exact ⟨_, _, p hz⟩
    · left; exact q hz
  | lower l =>
    obtain ⟨p, q, _⟩ := wald_lower crit l n k h0 h1 hk hkn
    rcases le_or_gt 0 ((k : ℝ) / n + zOf crit (.lower l) * waldSd n k) with hz | hz
    · right; exact ⟨_, _, p hz⟩
    · left; exact q hz

/-- the documented conditions `n·p ≥ 10`, `n·q ≥ 10` (with `p = k/n`, `q = 1 - p` in exact
    arithmetic) are the integer tests `k ≥ 10`, `n - k ≥ 10` the code makes -/
theorem wald_np_nq (n k : ℕ) (hn : 0 < n) :
    (10 ≤ (n : ℝ) * ((k : ℝ) / n) ∧ 10 ≤ (n : ℝ) * (1 - (k : ℝ) / n)) ↔ (10 ≤ k ∧ k + 10 ≤ n) := by
  have hn' : (n : ℝ) ≠ 0 := by exact_mod_cast hn.ne'
  have e1 : (n : ℝ) * ((k : ℝ) / n) = k := by field_simp
  have e2 : (n : ℝ) * (1 - (k : ℝ) / n) = n - k := by field_simp
  rw [e1, e2]
  constructor
  · rintro ⟨a, b⟩
    have a' : 10 ≤ k := by exact_mod_cast a
    have b' : ((k + 10 : ℕ) : ℝ) ≤ n := by push_cast; linarith
    exact ⟨a', by exact_mod_cast b'⟩
  · rintro ⟨a, b⟩
    have a' : (10 : ℝ) ≤ k := by exact_mod_cast a
    have b' : ((k + 10 : ℕ) : ℝ) ≤ n := by exact_mod_cast b
    push_cast at b'
    exact ⟨a', by linarith⟩

example : ∃ (crit : Crit Rex) (conf : Confidence Rex) (n k : ℕ), 0 < conf.level.val ∧
    conf.level.val < 1 ∧ 10 ≤ k ∧ k + 10 ≤ n ∧ 0 ≤ zOf crit conf :=
  ⟨constCrit 1.96, .upper ⟨0.95⟩, 100, 30, by norm_num [Confidence.level],
    by norm_num [Confidence.level], by omega, by omega, by norm_num [zOf, constCrit]⟩

/-! ## 7. the front-ends return the interval of the counts they imply -/

section frontends
variable {W : Type} [Scalar W]

/-- collecting booleans counts the population and the `true`s -/
theorem fromList_eq (bs : List Bool) : Stats.fromList bs = ⟨bs.length, bs.count true⟩ := by
  simp [Stats.fromList, extend_eq, Stats.empty]

/-- collecting through a predicate counts the population and the elements satisfying it -/
theorem extendIf_empty_eq {T : Type} (xs : List T) (p : T → Bool) :
    Stats.empty.extendIf xs p = ⟨xs.length, xs.countP p⟩ := by
  simp [extendIf_eq, Stats.empty]

/-- `ci` is `ci_wilson` -/
theorem ci_eq (crit : Crit W) (conf : Confidence W) (n k : ℕ) :
    Proportion.ci crit conf n k = ciWilson crit conf n k := rfl

/-- `Stats::ci` -/
theorem stats_ci_eq (crit : Crit W) (conf : Confidence W) (s : Stats) :
    s.ci crit conf = ciWilson crit conf s.population s.successes := rfl

/-- `ci_true` -/
theorem ciTrue_eq (crit : Crit W) (conf : Confidence W) (bs : List Bool) :
    ciTrue crit conf bs = ciWilson crit conf bs.length (bs.count true) := by
  simp [ciTrue, fromList_eq, Stats.ci, Proportion.ci]

/-- `ci_if` -/
theorem ciIf_eq {T : Type} (crit : Crit W) (conf : Confidence W) (xs : List T) (p : T → Bool) :
    ciIf crit conf xs p = ciWilson crit conf xs.length (xs.countP p) := by
  simp [ciIf, extendIf_empty_eq, Stats.ci, Proportion.ci]

end frontends

/-- `ci_wilson_ratio`: a non-positive rate is `NonPositiveValue`; a positive rate `r` is the
    interval of the count `round(r·n)` -/
theorem ratio (crit : Crit Rex) (conf : Confidence Rex) (n : ℕ) (r : Rex) :
    (r.val ≤ 0 → ciWilsonRatio crit conf n r = .err (.nonPositiveValue r)) ∧
    (0 < r.val → ciWilsonRatio crit conf n r
      = ciWilson crit conf n (round (r.val * n)).toNat) := by
  constructor
  · intro h
    have : Cmp.le r (NumOps.zero : Rex) = true := by simpa using h
    simp [ciWilsonRatio, this]
  · intro h
    have : ¬ (Cmp.le r (NumOps.zero : Rex) = true) := by simpa using h
    simp only [ciWilsonRatio, this]
    rfl

/-- in particular the rate `k/n` (exact division) gives back the interval of the counts `n, k` -/
theorem ratio_exact (crit : Crit Rex) (conf : Confidence Rex) (n k : ℕ) (hn : 0 < n) (hk : 0 < k) :
    ciWilsonRatio crit conf n ⟨(k : ℝ) / n⟩ = ciWilson crit conf n k := by
  have hn' : (0 : ℝ) < n := by exact_mod_cast hn
  have hk' : (0 : ℝ) < k := by exact_mod_cast hk
  rw [(ratio crit conf n ⟨(k : ℝ) / n⟩).2 (div_pos hk' hn')]
  have : (k : ℝ) / n * n = ((k : ℤ) : ℝ) := by
    rw [div_mul_cancel₀ _ hn'.ne']; norm_cast
  simp only [this, round_intCast, Int.toNat_natCast]

example : ∃ r : Rex, 0 < r.val := ⟨⟨0.3⟩, by norm_num⟩
example : ∃ r : Rex, r.val ≤ 0 := ⟨⟨0⟩, le_refl _⟩

/-! ## 8. the supplied `z` is recoverable from a Wilson interval (used by C06) -/

/-- from the centre alone, unless `k = n/2` (then the centre is `1/2` for every `z`) -/
theorem z_of_wilson_centre (n k : ℕ) (hn : 0 < n) (z : ℝ) :
    (mCentre n k z = 1 / 2 ↔ 2 * k = n) ∧
    (2 * k ≠ n → z ^ 2 = (k - n * mCentre n k z) / (mCentre n k z - 1 / 2)) := by
  have hn' : (0 : ℝ) < n := by exact_mod_cast hn
  simp only [mCentre, wilsonCentre_val]
  have hiff : centre n k z = 1 / 2 ↔ 2 * k = n := by
    rw [centre_eq_half_iff (n : ℝ) k z hn']; norm_cast
  exact ⟨hiff, fun h => zsq_of_centre n k z hn' (fun hc => h (hiff.mp hc))⟩

/-- from either finite bound `p = centre ∓ span` when `0 < k < n`: the bound is neither `0` nor `1`
    (`p(1-p) ≠ 0`) and `z² = n (p - k/n)² / (p (1-p))`; with `z ≥ 0`,
    `z` itself is the square root of that -/
theorem z_of_wilson (n k : ℕ) (hk : 0 < k) (hkn : k < n) (z : ℝ) (p : ℝ)
    (hp : p = mCentre n k z - mSpan n k z ∨ p = mCentre n k z + mSpan n k z) :
    p * (1 - p) ≠ 0 ∧ z ^ 2 = n * (p - k / n) ^ 2 / (p * (1 - p)) ∧
    (0 ≤ z → z = Real.sqrt (n * (p - k / n) ^ 2 / (p * (1 - p)))) := by
  have hk' : (0 : ℝ) < k := by exact_mod_cast hk
  have hkn' : (k : ℝ) < n := by exact_mod_cast hkn
  simp only [mCentre, mSpan, wilsonCentre_val, wilsonSpan_val] at hp
  have key : p * (1 - p) ≠ 0 ∧ z ^ 2 = n * (p - k / n) ^ 2 / (p * (1 - p)) := by
    rcases hp with hp | hp
    · have := zsq_of_root n k z hk' hkn' (-1) (by norm_num)
      have e : centre n k z + -1 * span n k z = p := by rw [hp]; ring
      rwa [e] at this
    · have := zsq_of_root n k z hk' hkn' 1 (by norm_num)
      have e : centre n k z + 1 * span n k z = p := by rw [hp]; ring
      rwa [e] at this
  refine ⟨key.1, key.2, fun hz => ?_⟩
  rw [← key.2, Real.sqrt_sq hz]

example : (0 : ℕ) < 30 ∧ 30 < 100 := by omega

end StatsCI.C02
