/-
  C03R — The ranks of the quantile confidence interval computed in floating point are within one
  position of the ranks computed in exact arithmetic (the "one position" allowance of the
  differential oracle, as a theorem).

  All theorems are about the model functions `Quantile.index` and `Quantile.ciIndices`
  (`StatsCI.Model.Quantile`) themselves, run once at `RR fl` — reals with a rounding function
  `fl` applied after every arithmetic operation — and once at exact arithmetic `Rex = RR id`.

  `ci_wilson` clamps its two bounds into `[0, 1]` (`(mean − span).max(0.)`, `(mean + span).min(1.)`).
  In exact arithmetic the clamp is inert (C03); in rounded arithmetic it is what keeps a computed
  bound that slipped below 0 or above 1 from becoming an `IndexError` of `ci_indices`
  (`ciWilson_fl_bounds`, `ciIndices_fl_no_indexError`), and it never moves a computed bound
  further from the exact one (`wilsonClose_of_unclamped`).

  Vocabulary (`StatsCI.RankRound`, in `Lemmas/RankRound.lean`; `StatsCI.QSpec`):
  * `Rounds fl u n`: `0 ≤ u`, `|fl x − x| ≤ u·|x|` for every `x`, `fl m = m` for naturals `m ≤ n`;
  * `delta u ε p n = n·ε + u·n·(p + ε)`: how far the product `fl (p̃·n)` computed from a
    probability `p̃` with `|p̃ − p| ≤ ε` can be from the exact product `p·n`;
  * `WithinOne i j`: `i = j ∨ i = j + 1 ∨ i + 1 = j`;
    `IntervalWithinOne I J`: `I`, `J` of the same kind, their ranks pairwise `WithinOne`;
  * `RankStable u ε n p`: `min ⌊p·n − delta⌋₊ (n−1) = min ⌊p·n + delta⌋₊ (n−1)` — no rank
    boundary within `delta` of `p·n`;
  * `rankFl fl n p = min ⌊fl (p · fl n)⌋₊ (n−1)`: the rank `Stats::index` computes at `RR fl`;
    `rank n p = min ⌊p·n⌋₊ (n−1)`, `successes q n = (round (q·n)).toNat`: the exact ones;
  * `WilsonClose ε rF r`: if the two `ci_wilson` outcomes are `Ok [aF, bF]` and `Ok [a, b]`
    then `|aF − a| ≤ ε` and `|bF − b| ≤ ε`  (a **hypothesis** of the lifts: the bound
    `ε = C·u·(1 + z²)` on the Wilson numbers is proved elsewhere; `wilsonClose_of_unclamped`
    below reduces it to the closeness of the *unclamped* bounds);
  * `nudge a b`: the rounding function that moves the single value `a` to `b`.
-/
import StatsCI.Lemmas.RankRound

namespace StatsCI.C03R
open StatsCI Quantile QSpec RankRound NumOps Scalar

variable {fl : ℝ → ℝ} {u ε : ℝ} {n : ℕ}

/-! ## 1. `Stats::index` -/

/-- **Rank transfer.** The rank computed at `RR fl` from a probability `p̃` and the rank computed
    exactly from `p`, `|p̃ − p| ≤ ε`, are at most one position apart as soon as the error radius
    `delta u ε p n = n·ε + u·n·(p + ε)` of the product is below one. (`Stats::index` succeeds
    only for `n ≠ 0` and a probability in `[0, 1]`; the `min(·, n − 1)` clamp is included.) -/
theorem index_within_one (hR : Rounds fl u n) (pt : RR fl) (p : Rex)
    (hpp : |pt.val - p.val| ≤ ε) (hδ : delta u ε p.val n < 1) (i j : ℕ)
    (hi : Quantile.index n pt = .ok i) (hj : Quantile.index n p = .ok j) : WithinOne i j := by
  rw [index_fl] at hi hj
  split_ifs at hi hj with h1 h2 h3
  cases hi; cases hj
  rw [not_or, not_lt, not_lt] at h3
  exact rankFl_withinOne hR.err hR.nonneg (hR.nat n le_rfl) h3.1 hpp hδ

/-- the same under the uniform smallness condition `(ε + u·(1 + ε))·n < 1` -/
theorem index_within_one' (hR : Rounds fl u n) (pt : RR fl) (p : Rex)
    (hpp : |pt.val - p.val| ≤ ε) (hs : (ε + u * (1 + ε)) * n < 1) (i j : ℕ)
    (hi : Quantile.index n pt = .ok i) (hj : Quantile.index n p = .ok j) : WithinOne i j := by
  have hp1 : p.val ≤ 1 := by
    rw [index_fl] at hj
    split_ifs at hj with h1 h2
    rw [not_or, not_lt, not_lt] at h2
    exact h2.2
  exact index_within_one hR pt p hpp (delta_lt_one n hR.nonneg hp1 hs) i j hi hj

/-- the same, as a statement on the integer difference of the two ranks -/
theorem index_diff_mem (hR : Rounds fl u n) (pt : RR fl) (p : Rex)
    (hpp : |pt.val - p.val| ≤ ε) (hs : (ε + u * (1 + ε)) * n < 1) (i j : ℕ)
    (hi : Quantile.index n pt = .ok i) (hj : Quantile.index n p = .ok j) :
    (i : ℤ) - j ∈ ({-1, 0, 1} : Set ℤ) :=
  (withinOne_iff_mem i j).mp (index_within_one' hR pt p hpp hs i j hi hj)

/-- **Equal ranks away from the rank boundaries.** The two ranks are *equal* unless a rank
    boundary lies within `delta` of `p·n`: it suffices that the clamped floors of
    `p·n − delta` and `p·n + delta` agree (no smallness condition is needed). -/
theorem index_eq_of_stable (hR : Rounds fl u n) (pt : RR fl) (p : Rex)
    (hpp : |pt.val - p.val| ≤ ε) (hst : RankStable u ε n p.val) (i j : ℕ)
    (hi : Quantile.index n pt = .ok i) (hj : Quantile.index n p = .ok j) : i = j := by
  rw [index_fl] at hi hj
  split_ifs at hi hj with h1 h2 h3
  cases hi; cases hj
  rw [not_or, not_lt, not_lt] at h3
  exact rankFl_eq_rank hR.err hR.nonneg (hR.nat n le_rfl) h3.1 hpp hst

/-- in particular when no integer lies within `delta` of `p·n` -/
theorem index_eq_of_floor (hR : Rounds fl u n) (pt : RR fl) (p : Rex)
    (hpp : |pt.val - p.val| ≤ ε)
    (hf : ⌊p.val * n - delta u ε p.val n⌋ = ⌊p.val * n + delta u ε p.val n⌋) (i j : ℕ)
    (hi : Quantile.index n pt = .ok i) (hj : Quantile.index n p = .ok j) : i = j :=
  index_eq_of_stable hR pt p hpp (rankStable_of_floor hf) i j hi hj

/-- `Stats::index` succeeds on both sides for probabilities in `[0, 1]` (so that the theorems
    above are not vacuous), with the ranks `rankFl`, `rank` -/
theorem index_ok (pt : RR fl) (p : Rex) (hn : n ≠ 0) (ht : 0 ≤ pt.val ∧ pt.val ≤ 1)
    (hp : 0 ≤ p.val ∧ p.val ≤ 1) :
    Quantile.index n pt = .ok (rankFl fl n pt.val) ∧ Quantile.index n p = .ok (rank n p.val) :=
  ⟨index_fl_ok n pt hn ht.1 ht.2, index_eq n p hn hp.1 hp.2⟩

/-! ## 2. the success count `round(q·n)` -/

/-- **Success count, equality.** `round (fl (q̃·n))` computed at `RR fl` and `round (q·n)` are
    equal unless a half-integer lies within `delta` of `q·n` -/
theorem successes_eq_of_floor (hR : Rounds fl u n) (qt : RR fl) (q : Rex) (hq : 0 ≤ q.val)
    (hqq : |qt.val - q.val| ≤ ε)
    (hf : ⌊q.val * n + 1 / 2 - delta u ε q.val n⌋ = ⌊q.val * n + 1 / 2 + delta u ε q.val n⌋) :
    roundToNat (mul qt (Scalar.ofNat n : RR fl)) = roundToNat (mul q (Scalar.ofNat n : Rex)) := by
  rw [roundToNat_fl, Quantile.roundToNat_eq]
  exact succFl_eq_successes hR.err hR.nonneg (hR.nat n le_rfl) hq hqq hf

/-- **Success count, one apart.** In any case the two counts differ by at most one when
    `delta < 1` -/
theorem successes_within_one (hR : Rounds fl u n) (qt : RR fl) (q : Rex) (hq : 0 ≤ q.val)
    (hqq : |qt.val - q.val| ≤ ε) (hδ : delta u ε q.val n < 1) :
    WithinOne (roundToNat (mul qt (Scalar.ofNat n : RR fl)))
      (roundToNat (mul q (Scalar.ofNat n : Rex))) := by
  rw [roundToNat_fl, Quantile.roundToNat_eq]
  exact succFl_withinOne hR.err hR.nonneg (hR.nat n le_rfl) hq hqq hδ

/-- **Success count near a natural number.** If `q·n` is within `1/2 − delta` of the natural
    number `m`, both counts are `m` -/
theorem successes_eq_of_near (hR : Rounds fl u n) (qt : RR fl) (q : Rex) (hq : 0 ≤ q.val)
    (hqq : |qt.val - q.val| ≤ ε) (m : ℕ) (hm : |q.val * n - m| + delta u ε q.val n < 1 / 2) :
    roundToNat (mul qt (Scalar.ofNat n : RR fl)) = m ∧
      roundToNat (mul q (Scalar.ofNat n : Rex)) = m := by
  rw [roundToNat_fl, Quantile.roundToNat_eq]
  exact succ_eq_of_near hR.err hR.nonneg (hR.nat n le_rfl) hq hqq m hm

/-- the same quantile on both sides (`ε = 0`): the error radius is `u·q·n`; the counts are equal
    unless `q·n` is within `u·q·n` of a half-integer, and at most one apart when `u·q·n < 1` -/
theorem successes_same_input (hR : Rounds fl u n) (qt : RR fl) (q : Rex) (hq : 0 ≤ q.val)
    (hqq : qt.val = q.val) :
    (⌊q.val * n + 1 / 2 - u * q.val * n⌋ = ⌊q.val * n + 1 / 2 + u * q.val * n⌋ →
      roundToNat (mul qt (Scalar.ofNat n : RR fl)) = roundToNat (mul q (Scalar.ofNat n : Rex))) ∧
    (u * q.val * n < 1 →
      WithinOne (roundToNat (mul qt (Scalar.ofNat n : RR fl)))
        (roundToNat (mul q (Scalar.ofNat n : Rex)))) := by
  have hd : delta u 0 q.val n = u * q.val * n := by unfold delta; ring
  have hqq' : |qt.val - q.val| ≤ 0 := by rw [hqq]; simp
  constructor
  · intro hf
    exact successes_eq_of_floor hR qt q hq hqq' (by rw [hd]; exact hf)
  · intro hδ
    exact successes_within_one hR qt q hq hqq' (by rw [hd]; exact hδ)

/-! ## 3. `ci_indices` -/

section lift
variable (critF : Crit (RR fl)) (confF : Confidence (RR fl)) (qF : RR fl)
  (crit : Crit Rex) (conf : Confidence Rex) (q : Rex)

/-- **The clamp of `ci_wilson` holds at every rounding function.** Whatever `fl` does, an `Ok`
    result of `ci_wilson` at `RR fl` is a two-sided interval `[a, b]` of proportions:
    `0 ≤ a ≤ b ≤ 1`. (No hypothesis on `fl` at all.) -/
theorem ciWilson_fl_bounds (k : ℕ) (I : Interval (RR fl))
    (h : Proportion.ciWilson critF confF n k = .ok I) :
    ∃ a b, I = .twoSided a b ∧ 0 ≤ a.val ∧ a.val ≤ b.val ∧ b.val ≤ 1 :=
  ciWilson_ok_inv critF confF n k I h

/-- **The computed side, all branches.** Once `ci_wilson` has produced `[a, b]` at `RR fl`,
    `ci_indices` returns the ranks `rankFl` of `a` and `b` in the shape of the confidence
    (`Interval::new` rejecting inverted ranks). There is no `IndexError` branch any more: the
    bounds `ci_wilson` reports are clamped into `[0, 1]`. -/
theorem ciIndices_fl_outcome (hq : 0 < qF.val ∧ qF.val < 1) (hn4 : 4 ≤ n) (a b : RR fl)
    (hW : Proportion.ciWilson critF confF n (roundToNat (mul qF (Scalar.ofNat n : RR fl))) =
      .ok (.twoSided a b)) :
    ciIndices critF confF n qF =
      match (generalizing := false) confF with
        | .twoSided _ =>
            if rankFl fl n b.val < rankFl fl n a.val then .err (.interval .invalidBounds)
            else .ok (.twoSided (rankFl fl n a.val) (rankFl fl n b.val))
        | .upper _ => .ok (.upper (rankFl fl n a.val))
        | .lower _ => .ok (.lower (rankFl fl n b.val)) := by
  rw [roundToNat_fl] at hW
  exact ciIndices_of_wilson critF confF n qF hq hn4 a b hW

/-- **No `IndexError` in rounded arithmetic.** `ci_indices` at `RR fl` never returns an
    `IndexError`, for any rounding function and any inputs: a Wilson bound that rounding pushed
    below 0 or above 1 is clamped by `ci_wilson` before `ci_indices` tests it. -/
theorem ciIndices_fl_no_indexError (x : RR fl) (m : ℕ) :
    ciIndices critF confF n qF ≠ .err (.indexError x m) :=
  ciIndices_ne_indexError critF confF n qF x m

/-- with a monotone rounding function the computed side succeeds as soon as `ci_wilson` does
    (the computed Wilson bounds are inside `[0, 1]` by the clamp, and ordered, so their ranks
    are ordered) -/
theorem ciIndices_fl_ok (hR : Rounds fl u n) (hmono : Monotone fl)
    (hq : 0 < qF.val ∧ qF.val < 1) (hn4 : 4 ≤ n) (a b : RR fl)
    (hW : Proportion.ciWilson critF confF n (roundToNat (mul qF (Scalar.ofNat n : RR fl))) =
      .ok (.twoSided a b)) :
    ciIndices critF confF n qF =
      .ok (match (generalizing := false) confF with
           | .twoSided _ => .twoSided (rankFl fl n a.val) (rankFl fl n b.val)
           | .upper _ => .upper (rankFl fl n a.val)
           | .lower _ => .lower (rankFl fl n b.val)) := by
  rw [ciIndices_fl_outcome critF confF qF hq hn4 a b hW]
  rw [roundToNat_fl] at hW
  obtain ⟨a', b', hab, -, hle, -⟩ := ciWilson_ok_inv critF confF n _ _ hW
  cases hab
  have hn0 : (0 : ℝ) ≤ fl n := by rw [hR.nat n le_rfl]; exact Nat.cast_nonneg n
  cases confF with
  | twoSided l =>
    simp only
    rw [if_neg (not_lt.mpr (rankFl_mono hmono hn0 hle))]
  | upper l => rfl
  | lower l => rfl

/-- **The clamp does not hurt the accuracy.** If the *unclamped* bounds `fl (c̃ − s̃)`,
    `fl (c̃ + s̃)` that `ci_wilson` computes at `RR fl` (from its computed centre `c̃` and span `s̃`)
    are within `ε` of the exact Wilson bounds `pLow`, `pHigh`, then the hypothesis `WilsonClose ε`
    of the lifts below holds for the clamped bounds `ci_wilson` reports: the exact bounds are
    proportions, and clamping towards `[0, 1]` never moves a number further from a point of
    `[0, 1]`. -/
theorem wilsonClose_of_unclamped (hkind : confF.kind = conf.kind) (k : ℕ) (hn : 0 < n)
    (hkn : k ≤ n)
    (h1 : |(sub (Proportion.wilsonCentre (Scalar.ofNat n : RR fl) (Scalar.ofNat k)
                  (critF (.z confF.quantile)))
                (Proportion.wilsonSpan (Scalar.ofNat n : RR fl) (Scalar.ofNat k)
                  (critF (.z confF.quantile)))).val - pLow n k (zOf crit conf)| ≤ ε)
    (h2 : |(add (Proportion.wilsonCentre (Scalar.ofNat n : RR fl) (Scalar.ofNat k)
                  (critF (.z confF.quantile)))
                (Proportion.wilsonSpan (Scalar.ofNat n : RR fl) (Scalar.ofNat k)
                  (critF (.z confF.quantile)))).val - pHigh n k (zOf crit conf)| ≤ ε) :
    WilsonClose ε (Proportion.ciWilson critF confF n k) (Proportion.ciWilson crit conf n k) :=
  ciWilson_close critF confF crit conf hkind n k hn hkn h1 h2

/-- **Lift to `ci_indices`: one position.** Run `ci_indices` at `RR fl` (inputs `critF`, `confF`,
    `qF`) and at exact arithmetic (`crit`, `conf`, `q`) for the same sample size, with confidences
    of the same kind. Assume the two success counts agree (section 2 says when), and that the
    Wilson bounds computed for that count at `RR fl` are within `ε` of the exact ones
    (`WilsonClose`, a hypothesis), with `(ε + u·(1 + ε))·n < 1`. Then whenever both runs succeed,
    the two rank intervals have the same kind and each reported rank differs by at most one
    position. -/
theorem ciIndices_within_one (hR : Rounds fl u n) (hkind : confF.kind = conf.kind)
    (hk : roundToNat (mul qF (Scalar.ofNat n : RR fl)) = successes q.val n)
    (hW : WilsonClose ε (Proportion.ciWilson critF confF n (successes q.val n))
      (Proportion.ciWilson crit conf n (successes q.val n)))
    (hs : (ε + u * (1 + ε)) * n < 1) (IF I : Interval ℕ)
    (hF : ciIndices critF confF n qF = .ok IF) (hE : ciIndices crit conf n q = .ok I) :
    IntervalWithinOne IF I := by
  rw [roundToNat_fl] at hk
  obtain ⟨-, -, aF, bF, hWF, haF, -, hbF, hIF, -⟩ := ciIndices_ok_inv critF confF n qF IF hF
  obtain ⟨-, -, a, b, hWE, ha, hab, hb, hI, -⟩ := ciIndices_ok_inv crit conf n q I hE
  rw [hk] at hWF
  rw [succFl_id] at hWE
  obtain ⟨hca, hcb⟩ := hW aF bF a b hWF hWE
  have hn := hR.nat n le_rfl
  have wa : WithinOne (rankFl fl n aF.val) (rank n a.val) :=
    rankFl_withinOne hR.err hR.nonneg hn ha hca
      (delta_lt_one n hR.nonneg (le_trans hab hb) hs)
  have wb : WithinOne (rankFl fl n bF.val) (rank n b.val) :=
    rankFl_withinOne hR.err hR.nonneg hn (le_trans ha hab) hcb (delta_lt_one n hR.nonneg hb hs)
  subst hIF hI
  cases confF <;> cases conf <;> simp [Confidence.kind] at hkind <;>
    simp only [IntervalWithinOne, rankFl_id] <;> first | exact ⟨wa, wb⟩ | exact wa | exact wb

/-- **Lift to `ci_indices`: equality.** Under the same hypotheses (no smallness condition), the
    two rank intervals are *equal* when no rank boundary lies within `delta` of `n` times a
    reported exact Wilson bound. -/
theorem ciIndices_eq_of_stable (hR : Rounds fl u n) (hkind : confF.kind = conf.kind)
    (hk : roundToNat (mul qF (Scalar.ofNat n : RR fl)) = successes q.val n)
    (hW : WilsonClose ε (Proportion.ciWilson critF confF n (successes q.val n))
      (Proportion.ciWilson crit conf n (successes q.val n)))
    (hst : ∀ a b : Rex, Proportion.ciWilson crit conf n (successes q.val n) = .ok (.twoSided a b) →
      (conf.isLower = false → RankStable u ε n a.val) ∧
      (conf.isUpper = false → RankStable u ε n b.val))
    (IF I : Interval ℕ)
    (hF : ciIndices critF confF n qF = .ok IF) (hE : ciIndices crit conf n q = .ok I) :
    IF = I := by
  rw [roundToNat_fl] at hk
  obtain ⟨-, -, aF, bF, hWF, haF, -, hbF, hIF, -⟩ := ciIndices_ok_inv critF confF n qF IF hF
  obtain ⟨-, -, a, b, hWE, ha, hab, hb, hI, -⟩ := ciIndices_ok_inv crit conf n q I hE
  rw [hk] at hWF
  rw [succFl_id] at hWE
  obtain ⟨hca, hcb⟩ := hW aF bF a b hWF hWE
  obtain ⟨sa, sb⟩ := hst a b hWE
  have hn := hR.nat n le_rfl
  have ea : conf.isLower = false → rankFl fl n aF.val = rank n a.val := fun h =>
    rankFl_eq_rank hR.err hR.nonneg hn ha hca (sa h)
  have eb : conf.isUpper = false → rankFl fl n bF.val = rank n b.val := fun h =>
    rankFl_eq_rank hR.err hR.nonneg hn (le_trans ha hab) hcb (sb h)
  subst hIF hI
  cases confF <;> cases conf <;> simp [Confidence.kind] at hkind <;>
    simp only [Confidence.isLower, Confidence.isUpper, forall_const] at ea eb <;>
    simp only [rankFl_id, ea, eb]

/-- **Lift with the success counts discharged.** The same quantile on both sides, `q·n` within
    `1/2 − u·q·n` of a natural number `m`: both runs use `m` successes, and the hypothesis
    `successes agree` of `ciIndices_within_one` is not needed. -/
theorem ciIndices_within_one_of_near (hR : Rounds fl u n) (hkind : confF.kind = conf.kind)
    (hqq : qF.val = q.val) (m : ℕ) (hm : |q.val * n - m| + u * q.val * n < 1 / 2)
    (hW : WilsonClose ε (Proportion.ciWilson critF confF n m) (Proportion.ciWilson crit conf n m))
    (hs : (ε + u * (1 + ε)) * n < 1) (IF I : Interval ℕ)
    (hF : ciIndices critF confF n qF = .ok IF) (hE : ciIndices crit conf n q = .ok I) :
    IntervalWithinOne IF I := by
  have hq0 : 0 ≤ q.val := (ciIndices_ok_inv crit conf n q I hE).1.1.le
  have hd : delta u 0 q.val n = u * q.val * n := by unfold delta; ring
  have hqq' : |qF.val - q.val| ≤ 0 := by rw [hqq]; simp
  obtain ⟨k1, k2⟩ := successes_eq_of_near hR qF q hq0 hqq' m (by rw [hd]; exact hm)
  rw [Quantile.roundToNat_eq] at k2
  exact ciIndices_within_one critF confF qF crit conf q hR hkind (by rw [k1, k2])
    (by rw [k2]; exact hW) hs IF I hF hE

end lift

/-! ## non-vacuity, and the allowance is necessary

  * `flIdx = nudge 3.001 2.999`, `u = 1/1000`, `n = 10`: `Rounds` holds, the product
    `0.3001·10 = 3.001` is rounded to `2.999`, and `Stats::index` returns rank 2 at `RR flIdx`
    but rank 3 exactly — all hypotheses of `index_within_one'` hold (`ε = 0`), the ranks differ
    by one.
  * `flRnd = nudge 2.4999 2.5001`: the success count is 3 at `RR flRnd`, 2 exactly.
  * `fl16 = nudge 12.8 13`, `u = 1/64`, `n = 16`, `q = 1/2`, `z = 3`, lower one-sided: every
    Wilson number is computed exactly (`pHigh = 4/5` on both sides, `ε = 0`), the product
    `0.8·16 = 12.8` is rounded to `13`, and `ci_indices` returns `(←, 13]` at `RR fl16` but
    `(←, 12]` exactly — all hypotheses of `ciIndices_within_one` hold.
  * `flC = nudge 0.8 1.1`, `u = 1/2`, same instance: the unclamped upper Wilson bound is computed
    as `1.1`, `ci_wilson` reports the clamped `[0, 1]`, and `ci_indices` returns `(←, 15]`
    instead of an `IndexError` — the clamp does act at `RR fl`.
  * exact arithmetic `fl = id` with positive `u`, `ε`: the hypotheses of the lift hold with the
    two-sided instance of C03 (`n = 10`, `q = 1/2`, `z = 2`, ranks `[2, 7]`). -/

section nonvacuity

/-- `index`: hypotheses satisfiable, and the two ranks really are one position apart -/
example :
    Rounds flIdx (1 / 1000) 10 ∧
    |(inj (3001 / 10000) : RR flIdx).val - (inj (3001 / 10000) : Rex).val| ≤ 0 ∧
    ((0 : ℝ) + 1 / 1000 * (1 + 0)) * ((10 : ℕ) : ℝ) < 1 ∧
    Quantile.index 10 (inj (3001 / 10000) : RR flIdx) = .ok 2 ∧
    Quantile.index 10 (inj (3001 / 10000) : Rex) = .ok 3 ∧
    WithinOne 2 3 := by
  have h := index_ok (n := 10) (inj (3001 / 10000) : RR flIdx) (inj (3001 / 10000) : Rex)
    (by norm_num) (by constructor <;> norm_num) (by constructor <;> norm_num)
  have h1 : Quantile.index 10 (inj (3001 / 10000) : RR flIdx) = .ok 2 := by
    rw [h.1, inj_val, rankFl_flIdx]
  have h2 : Quantile.index 10 (inj (3001 / 10000) : Rex) = .ok 3 := by
    rw [h.2, inj_val, rank_idx]
  have hpp : |(inj (3001 / 10000) : RR flIdx).val - (inj (3001 / 10000) : Rex).val| ≤ 0 := by simp
  have hs : ((0 : ℝ) + 1 / 1000 * (1 + 0)) * ((10 : ℕ) : ℝ) < 1 := by norm_num
  exact ⟨rounds_flIdx, hpp, hs, h1, h2,
    index_within_one' rounds_flIdx _ _ hpp hs 2 3 h1 h2⟩

/-- `index_eq_of_floor`: hypotheses satisfiable (`p = 0.35`, `n = 10`, `p·n = 3.5` is far from
    every integer), same rounding function as above -/
example :
    ⌊(inj (7 / 20) : Rex).val * ((10 : ℕ) : ℝ) - delta (1 / 1000) 0 (inj (7 / 20) : Rex).val 10⌋ =
      ⌊(inj (7 / 20) : Rex).val * ((10 : ℕ) : ℝ) + delta (1 / 1000) 0 (inj (7 / 20) : Rex).val 10⌋ ∧
    ∃ i, Quantile.index 10 (inj (7 / 20) : RR flIdx) = .ok i ∧
      Quantile.index 10 (inj (7 / 20) : Rex) = .ok i := by
  have h := index_ok (n := 10) (inj (7 / 20) : RR flIdx) (inj (7 / 20) : Rex)
    (by norm_num) (by constructor <;> norm_num) (by constructor <;> norm_num)
  have hf : ⌊(inj (7 / 20) : Rex).val * ((10 : ℕ) : ℝ) - delta (1 / 1000) 0 (inj (7 / 20) : Rex).val 10⌋ =
      ⌊(inj (7 / 20) : Rex).val * ((10 : ℕ) : ℝ) + delta (1 / 1000) 0 (inj (7 / 20) : Rex).val 10⌋ := by
    have e1 : ⌊(inj (7 / 20) : Rex).val * ((10 : ℕ) : ℝ) - delta (1 / 1000) 0 (inj (7 / 20) : Rex).val 10⌋ = 3 := by
      rw [Int.floor_eq_iff]; unfold delta; constructor <;> norm_num
    have e2 : ⌊(inj (7 / 20) : Rex).val * ((10 : ℕ) : ℝ) + delta (1 / 1000) 0 (inj (7 / 20) : Rex).val 10⌋ = 3 := by
      rw [Int.floor_eq_iff]; unfold delta; constructor <;> norm_num
    rw [e1, e2]
  refine ⟨hf, _, h.1, ?_⟩
  rw [index_eq_of_floor rounds_flIdx (inj (7 / 20)) (inj (7 / 20)) (by simp) hf _ _ h.1 h.2]
  exact h.2

/-- the success count: hypotheses of `successes_within_one` satisfiable (`ε = 0`,
    `delta = u·q·n < 1`), and the two counts really are one apart -/
example :
    Rounds flRnd (1 / 1000) 10 ∧ delta (1 / 1000) 0 (inj (24999 / 100000) : Rex).val 10 < 1 ∧
    roundToNat (mul (inj (24999 / 100000) : RR flRnd) (Scalar.ofNat 10)) = 3 ∧
    roundToNat (mul (inj (24999 / 100000) : Rex) (Scalar.ofNat 10)) = 2 := by
  refine ⟨rounds_flRnd, by unfold delta; norm_num, ?_, ?_⟩
  · rw [roundToNat_fl, inj_val, succFl_flRnd]
  · rw [Quantile.roundToNat_eq, inj_val, successes_rnd]

/-- the success count: hypotheses of `successes_eq_of_near` satisfiable (`q = 1/2`, `n = 16`,
    `m = 8`) -/
example :
    |(inj (1 / 2) : Rex).val * ((16 : ℕ) : ℝ) - ((8 : ℕ) : ℝ)| +
      delta (1 / 64) 0 (inj (1 / 2) : Rex).val 16 < 1 / 2 := by
  unfold delta; norm_num

/-- `ci_indices`: every hypothesis of `ciIndices_within_one` holds for the rounding function
    `fl16` (`u = 1/64`, `ε = 0`), both runs succeed, and the reported ranks are 13 and 12: the
    "one position" allowance is attained -/
example :
    Rounds fl16 (1 / 64) 16 ∧
    (Confidence.lower (inj (9 / 10)) : Confidence (RR fl16)).kind =
      (Confidence.lower (inj (9 / 10)) : Confidence Rex).kind ∧
    roundToNat (mul (inj (1 / 2) : RR fl16) (Scalar.ofNat 16)) =
      successes (inj (1 / 2) : Rex).val 16 ∧
    WilsonClose 0
      (Proportion.ciWilson (constCrit 3 : Crit (RR fl16)) (.lower (inj (9 / 10))) 16
        (successes (inj (1 / 2) : Rex).val 16))
      (Proportion.ciWilson (constCrit 3 : Crit Rex) (.lower (inj (9 / 10))) 16
        (successes (inj (1 / 2) : Rex).val 16)) ∧
    ((0 : ℝ) + 1 / 64 * (1 + 0)) * ((16 : ℕ) : ℝ) < 1 ∧
    ciIndices (constCrit 3 : Crit (RR fl16)) (.lower (inj (9 / 10))) 16 (inj (1 / 2)) =
      .ok (.lower 13) ∧
    ciIndices (constCrit 3 : Crit Rex) (.lower (inj (9 / 10))) 16 (inj (1 / 2)) =
      .ok (.lower 12) ∧
    IntervalWithinOne (.lower 13) (.lower 12) := by
  have hk : successes (inj (1 / 2) : Rex).val 16 = 8 := successes_half_16
  have hk' : roundToNat (mul (inj (1 / 2) : RR fl16) (Scalar.ofNat 16)) =
      successes (inj (1 / 2) : Rex).val 16 := by
    rw [roundToNat_fl, inj_val, succFl_fl16, hk]
  have hW : WilsonClose 0
      (Proportion.ciWilson (constCrit 3 : Crit (RR fl16)) (.lower (inj (9 / 10))) 16
        (successes (inj (1 / 2) : Rex).val 16))
      (Proportion.ciWilson (constCrit 3 : Crit Rex) (.lower (inj (9 / 10))) 16
        (successes (inj (1 / 2) : Rex).val 16)) := by
    rw [hk, ciWilson_fl16, ciWilson_ex16]
    intro aF bF a b h1 h2
    cases h1; cases h2
    simp
  have hs : ((0 : ℝ) + 1 / 64 * (1 + 0)) * ((16 : ℕ) : ℝ) < 1 := by norm_num
  exact ⟨rounds_fl16, rfl, hk', hW, hs, ciIndices_fl16, ciIndices_ex16,
    ciIndices_within_one _ _ _ _ _ _ rounds_fl16 rfl hk' hW hs _ _ ciIndices_fl16 ciIndices_ex16⟩

/-- `ci_indices`, two-sided, positive `u` and `ε` (exact arithmetic meets `Rounds id u n` for
    every `u ≥ 0`): the hypotheses of the lift hold and both runs return `[2, 7]` -/
example :
    Rounds id (1 / 1000) 10 ∧
    roundToNat (mul (inj (1 / 2) : Rex) (Scalar.ofNat 10)) = successes (inj (1 / 2) : Rex).val 10 ∧
    WilsonClose (fl := id) (1 / 1000)
      (Proportion.ciWilson (constCrit 2 : Crit Rex) (.twoSided (inj (9 / 10))) 10
        (successes (inj (1 / 2) : Rex).val 10))
      (Proportion.ciWilson (constCrit 2 : Crit Rex) (.twoSided (inj (9 / 10))) 10
        (successes (inj (1 / 2) : Rex).val 10)) ∧
    ((1 / 1000 : ℝ) + 1 / 1000 * (1 + 1 / 1000)) * ((10 : ℕ) : ℝ) < 1 ∧
    ciIndices (constCrit 2 : Crit Rex) (.twoSided (inj (9 / 10))) 10 (inj (1 / 2)) =
      .ok (.twoSided 2 7) := by
  refine ⟨rounds_id (by norm_num) 10, Quantile.roundToNat_eq _ _,
    wilsonClose_self (by norm_num) _, by norm_num, ?_⟩
  have hq : ValidQuantile (inj (1 / 2)) := by
    show 0 < (1 / 2 : ℝ) ∧ (1 / 2 : ℝ) < 1; norm_num
  have hk : successes (inj (1 / 2) : Rex).val 10 = 5 := successes_half_ten
  rw [ciIndices_main _ _ 10 _ validLevel_example hq (by norm_num) (by rw [hk]; norm_num)
    (by rw [hk]; norm_num)]
  have hz : ((constCrit 2 : Crit Rex)
      (.z (Confidence.twoSided (inj (9 / 10)) : Confidence Rex).quantile)).val = 2 := rfl
  simp only [hz, hk, ranks_10_5_2.1, ranks_10_5_2.2]
  rw [if_neg (by norm_num)]

/-- `ciIndices_fl_ok`: its hypotheses hold for the (monotone) identity on the `n = 16` instance
    (the single-point `nudge` functions above are not monotone) -/
example :
    Monotone (id : ℝ → ℝ) ∧ Rounds id (1 / 64) 16 ∧
    Proportion.ciWilson (constCrit 3 : Crit Rex) (.lower (inj (9 / 10))) 16
      (roundToNat (mul (inj (1 / 2) : Rex) (Scalar.ofNat 16))) =
        .ok (.twoSided (inj 0) (inj (4 / 5))) := by
  refine ⟨monotone_id, rounds_id (by norm_num) 16, ?_⟩
  rw [Quantile.roundToNat_eq, inj_val, successes_half_16]
  exact ciWilson_ex16

/-- the clamp acts at `RR fl`: with `flC` (`Rounds flC (1/2) 16`) the unclamped upper bound is
    computed as `1.1`, `ci_wilson` reports `[0, 1]` (`ciWilson_fl_bounds`, `ciIndices_fl_outcome`
    apply), and `ci_indices` returns the last position instead of `IndexError(1.1, 16)` -/
example :
    Rounds flC (1 / 2) 16 ∧
    (add (Proportion.wilsonCentre (Scalar.ofNat 16 : RR flC) (Scalar.ofNat 8) (inj 3))
      (Proportion.wilsonSpan (Scalar.ofNat 16 : RR flC) (Scalar.ofNat 8) (inj 3))).val = 11 / 10 ∧
    Proportion.ciWilson (constCrit 3 : Crit (RR flC)) (.lower (inj (9 / 10))) 16
      (roundToNat (mul (inj (1 / 2) : RR flC) (Scalar.ofNat 16))) =
        .ok (.twoSided (inj 0) (inj 1)) ∧
    ciIndices (constCrit 3 : Crit (RR flC)) (.lower (inj (9 / 10))) 16 (inj (1 / 2)) =
      .ok (.lower 15) := by
  refine ⟨rounds_flC, unclamped_flC, ?_, ciIndices_flC⟩
  rw [roundToNat_fl, inj_val, succFl_flC]
  exact ciWilson_flC

/-- `wilsonClose_of_unclamped`: its hypotheses hold with `ε = 0` on the `fl16` instance (every
    Wilson number is computed exactly there: `pLow = 1/5`, `pHigh = 4/5`) -/
example :
    (Confidence.lower (inj (9 / 10)) : Confidence (RR fl16)).kind =
      (Confidence.lower (inj (9 / 10)) : Confidence Rex).kind ∧ 0 < 16 ∧ 8 ≤ 16 ∧
    |(sub (Proportion.wilsonCentre (Scalar.ofNat 16 : RR fl16) (Scalar.ofNat 8)
            ((constCrit 3 : Crit (RR fl16))
              (.z (Confidence.lower (inj (9 / 10)) : Confidence (RR fl16)).quantile)))
          (Proportion.wilsonSpan (Scalar.ofNat 16 : RR fl16) (Scalar.ofNat 8)
            ((constCrit 3 : Crit (RR fl16))
              (.z (Confidence.lower (inj (9 / 10)) : Confidence (RR fl16)).quantile)))).val -
        pLow 16 8 (zOf (constCrit 3 : Crit Rex) (.lower (inj (9 / 10))))| ≤ 0 ∧
    |(add (Proportion.wilsonCentre (Scalar.ofNat 16 : RR fl16) (Scalar.ofNat 8)
            ((constCrit 3 : Crit (RR fl16))
              (.z (Confidence.lower (inj (9 / 10)) : Confidence (RR fl16)).quantile)))
          (Proportion.wilsonSpan (Scalar.ofNat 16 : RR fl16) (Scalar.ofNat 8)
            ((constCrit 3 : Crit (RR fl16))
              (.z (Confidence.lower (inj (9 / 10)) : Confidence (RR fl16)).quantile)))).val -
        pHigh 16 8 (zOf (constCrit 3 : Crit Rex) (.lower (inj (9 / 10))))| ≤ 0 := by
  have hzF : (constCrit 3 : Crit (RR fl16))
      (.z (Confidence.lower (inj (9 / 10)) : Confidence (RR fl16)).quantile) = inj 3 := rfl
  have hz : zOf (constCrit 3 : Crit Rex) (.lower (inj (9 / 10))) = 3 := rfl
  refine ⟨rfl, by norm_num, by norm_num, ?_, ?_⟩
  · rw [hzF, hz, centre_fl16, span_fl16, pLow_16_8_3]
    norm_num [fl16, nudge]
  · rw [hzF, hz, centre_fl16, span_fl16, pHigh_16_8_3]
    norm_num [fl16, nudge]

end nonvacuity

end StatsCI.C03R
