/-
  C20 — serialized state round-trips losslessly (the modelled clause).

  The clause "the crate builds under each advertised feature combination" is a statement about
  the compiler and the manifest; it is decided by building (bin/check C20), not by a theorem.
-/
import StatsCI.Model.Serde
import StatsCI.Model.Program

namespace StatsCI.C20
open StatsCI Serde

variable {α : Type}

/-- a `Confidence` survives serialize / deserialize unchanged -/
theorem roundtrip_confidence (c : Confidence α) : decConfidence (encConfidence c) = some c := by
  cases c <;> rfl

/-- an `Interval` survives serialize / deserialize unchanged -/
theorem roundtrip_interval (i : Interval α) : decInterval (encInterval i) = some i := by
  cases i <;> rfl

/-- a compensated-sum register survives with its compensation term -/
theorem roundtrip_kahan (k : Kahan α) : decKahan (encKahan k) = some k := by
  cases k; simp [encKahan, decKahan, field, List.find?]

/-- an `Arithmetic` state survives: both registers (sum and compensation each) and the count -/
theorem roundtrip_arith (a : Arith α) : decArith (encArith a) = some a := by
  obtain ⟨s, q, n⟩ := a
  simp [encArith, decArith, field, List.find?, roundtrip_kahan]

theorem roundtrip_harmonic (h : Harmonic α) : decHarmonic (encHarmonic h) = some h := by
  obtain ⟨a⟩ := h
  simp [encHarmonic, decHarmonic, field, List.find?, roundtrip_arith]

theorem roundtrip_geometric (g : Geometric α) : decGeometric (encGeometric g) = some g := by
  obtain ⟨a⟩ := g
  simp [encGeometric, decGeometric, field, List.find?, roundtrip_arith]

theorem roundtrip_paired (p : Paired α) : decPaired (encPaired p) = some p := by
  obtain ⟨a⟩ := p
  simp [encPaired, decPaired, field, List.find?, roundtrip_arith]

theorem roundtrip_unpaired (u : Unpaired α) : decUnpaired (encUnpaired u) = some u := by
  obtain ⟨a, b⟩ := u
  simp [encUnpaired, decUnpaired, field, List.find?, roundtrip_arith]

theorem roundtrip_propStats (s : Proportion.Stats) :
    decPropStats (encPropStats (α := α) s) = some s := by
  obtain ⟨n, k⟩ := s
  simp [encPropStats, decPropStats, field, List.find?]

/-- the deserializer does not depend on the order of the fields of a map -/
theorem decKahan_field_order (s c : α) :
    decKahan (.obj [("compensation", .num c), ("sum", .num s)]) = some ⟨s, c⟩ := by
  simp [decKahan, field, List.find?]

/-- encodings are injective: different states never serialize to the same tree -/
theorem encArith_injective (a b : Arith α) (h : encArith a = encArith b) : a = b := by
  have := congrArg decArith h
  simpa [roundtrip_arith] using this

theorem encInterval_injective (a b : Interval α) (h : encInterval a = encInterval b) : a = b := by
  have := congrArg decInterval h
  simpa [roundtrip_interval] using this

theorem encConfidence_injective (a b : Confidence α) (h : encConfidence a = encConfidence b) : a = b := by
  have := congrArg decConfidence h
  simpa [roundtrip_confidence] using this

section continue_
variable [Scalar α]

/-- the restored state continues to accumulate identically: for every further history of appends,
    extends and merges (with any other state) started from the restored value -/
theorem continue_arith (a a' : Arith α) (h : decArith (encArith a) = some a')
    (f : Arith α → Arith α) : f a' = f a := by
  rw [roundtrip_arith] at h
  cases h; rfl

/-- in particular statistics and intervals reported by the restored state are identical -/
theorem continue_arith_queries {W : Type} [Scalar W] [Widen α W] (a a' : Arith α)
    (h : decArith (encArith a) = some a') (crit : Crit W) (conf : Confidence W) (xs : List α) (b : Arith α) :
    (a'.extend xs).mean = (a.extend xs).mean ∧
    (a'.extend xs).variance = (a.extend xs).variance ∧
    ((a'.extend xs).merge b).ciMean crit conf = ((a.extend xs).merge b).ciMean crit conf := by
  rw [roundtrip_arith] at h
  cases h; exact ⟨rfl, rfl, rfl⟩

end continue_

/-! non-vacuity: a register with a non-zero compensation term round-trips, field for field -/
example : decKahan (encKahan (⟨3, 1⟩ : Kahan Nat)) = some ⟨3, 1⟩ := roundtrip_kahan _
example : encArith (⟨⟨3, 1⟩, ⟨9, 2⟩, 4⟩ : Arith Nat) =
    .obj [("sum", .obj [("sum", .num 3), ("compensation", .num 1)]),
          ("sum_sq", .obj [("sum", .num 9), ("compensation", .num 2)]), ("count", .nat 4)] := rfl

end StatsCI.C20
