/-
  C18 — A `Confidence` exists only for a level strictly between 0 and 1; its accessors are
  mutually consistent; `flipped` is an involution preserving the level; confidences are ordered
  exactly within a kind, by level; equality is equality of kind and level.

  `valid` is stated on the carrier `XR = ℝ ∪ {NaN, −∞, +∞}` (IEEE comparisons) and, as far as it
  does not mention special values, for every carrier. `accessors` and `flipped` hold for every
  carrier. `order` is stated at exact reals (`Rex`) and at `XR`, where the NaN case is made explicit.

  Known finding outside the model's reach (D11): the enum variants are public in the crate, so
  `Confidence::TwoSided(1.5)` can be written down without passing any constructor. The theorems
  below are about the constructors and conversions.
-/
import StatsCI.Lemmas.XR
import StatsCI.Lemmas.RR

namespace StatsCI.C18
open StatsCI Confidence

/-! ## 1. valid -/

/-- on `XR` the shared validity test accepts exactly the finite levels strictly between 0 and 1 -/
theorem validLevel_iff (l : XR) :
    validLevel l = true ↔ ∃ r : ℝ, l = .fin r ∧ 0 < r ∧ r < 1 := by
  cases l <;> simp [validLevel]

/-- `new_two_sided` succeeds exactly on a finite level in `(0,1)`, and then wraps that level -/
theorem newTwoSided_some_iff (l : XR) (c : Confidence XR) :
    newTwoSided? l = some c ↔ ∃ r : ℝ, l = .fin r ∧ 0 < r ∧ r < 1 ∧ c = .twoSided l := by
  unfold newTwoSided?
  by_cases h : validLevel l = true
  · obtain ⟨r, rfl, h0, h1⟩ := (validLevel_iff l).mp h
    simp only [h, if_true, Option.some.injEq]
    constructor
    · rintro rfl; exact ⟨r, rfl, h0, h1, rfl⟩
    · rintro ⟨_, _, _, _, rfl⟩; rfl
  · simp only [h, Bool.false_eq_true, if_false]
    constructor
    · intro h'; cases h'
    · rintro ⟨r, rfl, h0, h1, _⟩; exact absurd ((validLevel_iff _).mpr ⟨r, rfl, h0, h1⟩) h

/-- `new_upper` likewise -/
theorem newUpper_some_iff (l : XR) (c : Confidence XR) :
    newUpper? l = some c ↔ ∃ r : ℝ, l = .fin r ∧ 0 < r ∧ r < 1 ∧ c = .upper l := by
  unfold newUpper?
  by_cases h : validLevel l = true
  · obtain ⟨r, rfl, h0, h1⟩ := (validLevel_iff l).mp h
    simp only [h, if_true, Option.some.injEq]
    constructor
    · rintro rfl; exact ⟨r, rfl, h0, h1, rfl⟩
    · rintro ⟨_, _, _, _, rfl⟩; rfl
  · simp only [h, Bool.false_eq_true, if_false]
    constructor
    · intro h'; cases h'
    · rintro ⟨r, rfl, h0, h1, _⟩; exact absurd ((validLevel_iff _).mpr ⟨r, rfl, h0, h1⟩) h

/-- `new_lower` likewise -/
theorem newLower_some_iff (l : XR) (c : Confidence XR) :
    newLower? l = some c ↔ ∃ r : ℝ, l = .fin r ∧ 0 < r ∧ r < 1 ∧ c = .lower l := by
  unfold newLower?
  by_cases h : validLevel l = true
  · obtain ⟨r, rfl, h0, h1⟩ := (validLevel_iff l).mp h
    simp only [h, if_true, Option.some.injEq]
    constructor
    · rintro rfl; exact ⟨r, rfl, h0, h1, rfl⟩
    · rintro ⟨_, _, _, _, rfl⟩; rfl
  · simp only [h, Bool.false_eq_true, if_false]
    constructor
    · intro h'; cases h'
    · rintro ⟨r, rfl, h0, h1, _⟩; exact absurd ((validLevel_iff _).mpr ⟨r, rfl, h0, h1⟩) h

/-- the constructors panic (`none`) on everything else: NaN, both infinities, and finite levels
    `≤ 0` or `≥ 1` -/
theorem constructors_panic_iff (l : XR) :
    (newTwoSided? l = none ↔ ¬ ∃ r : ℝ, l = .fin r ∧ 0 < r ∧ r < 1) ∧
    (newUpper? l = none ↔ ¬ ∃ r : ℝ, l = .fin r ∧ 0 < r ∧ r < 1) ∧
    (newLower? l = none ↔ ¬ ∃ r : ℝ, l = .fin r ∧ 0 < r ∧ r < 1) := by
  rw [← validLevel_iff]
  unfold newTwoSided? newUpper? newLower?
  by_cases h : validLevel l = true <;> simp [h]

/-- the special values and the closed ends, one by one -/
theorem constructors_reject (r : ℝ) (hr : r ≤ 0 ∨ 1 ≤ r) :
    newTwoSided? XR.nan = none ∧ newUpper? XR.nan = none ∧ newLower? XR.nan = none ∧
    newTwoSided? XR.ninf = none ∧ newUpper? XR.ninf = none ∧ newLower? XR.ninf = none ∧
    newTwoSided? XR.pinf = none ∧ newUpper? XR.pinf = none ∧ newLower? XR.pinf = none ∧
    newTwoSided? (XR.fin r) = none ∧ newUpper? (XR.fin r) = none ∧ newLower? (XR.fin r) = none := by
  have hv : validLevel (XR.fin r) = false := by
    rw [Bool.eq_false_iff, Ne, validLevel_iff]
    rintro ⟨s, hs, h0, h1⟩
    cases hs
    rcases hr with h | h <;> linarith
  refine ⟨?_, ?_, ?_, ?_, ?_, ?_, ?_, ?_, ?_, ?_, ?_, ?_⟩ <;>
    simp [newTwoSided?, newUpper?, newLower?, hv] <;> simp [validLevel]

example : (0.5 : ℝ) ≤ 0 ∨ 1 ≤ (1 : ℝ) := Or.inr le_rfl

/-- the fallible conversion, for **every** carrier: `Ok(two-sided l)` when the test passes,
    `InvalidConfidenceLevel(l)` otherwise — it never reaches the constructor's panic -/
theorem tryFrom_eq {W : Type} [Scalar W] (l : W) :
    tryFrom l = if validLevel l = true then .ok (.twoSided l) else .err (.invalidConfidenceLevel l) := by
  unfold tryFrom newTwoSided?
  by_cases h : validLevel l = true <;> simp [h]

/-- `tryFrom` never panics, on any carrier -/
theorem tryFrom_never_panics {W : Type} [Scalar W] (l : W) : (tryFrom l).isPanic = false := by
  rw [tryFrom_eq]; split <;> rfl

/-- on `XR`: `Ok` exactly for a finite level in `(0,1)` -/
theorem tryFrom_ok_iff (l : XR) :
    tryFrom l = .ok (.twoSided l) ↔ ∃ r : ℝ, l = .fin r ∧ 0 < r ∧ r < 1 := by
  rw [tryFrom_eq, ← validLevel_iff]
  by_cases h : validLevel l = true <;> simp [h]

/-- on `XR`: `InvalidConfidenceLevel` for everything else, NaN and the infinities included -/
theorem tryFrom_err_iff (l : XR) :
    tryFrom l = .err (.invalidConfidenceLevel l) ↔ ¬ ∃ r : ℝ, l = .fin r ∧ 0 < r ∧ r < 1 := by
  rw [tryFrom_eq, ← validLevel_iff]
  by_cases h : validLevel l = true <;> simp [h]

theorem tryFrom_specials :
    tryFrom XR.nan = .err (.invalidConfidenceLevel XR.nan) ∧
    tryFrom XR.ninf = .err (.invalidConfidenceLevel XR.ninf) ∧
    tryFrom XR.pinf = .err (.invalidConfidenceLevel XR.pinf) ∧
    tryFrom (XR.fin 0) = .err (.invalidConfidenceLevel (XR.fin 0)) ∧
    tryFrom (XR.fin 1) = .err (.invalidConfidenceLevel (XR.fin 1)) ∧
    tryFrom (XR.fin (1/2)) = .ok (.twoSided (XR.fin (1/2))) := by
  refine ⟨?_, ?_, ?_, ?_, ?_, ?_⟩ <;> rw [tryFrom_eq] <;> simp [validLevel] <;> norm_num

/-- carrier-independent form: whatever a constructor returns passed the test, carries the level it
    was given, and has the kind of the constructor -/
theorem constructors_sound {W : Type} [Scalar W] (l : W) (c : Confidence W) :
    (newTwoSided? l = some c → validLevel l = true ∧ c.level = l ∧ c.kind = .twoSided) ∧
    (newUpper? l = some c → validLevel l = true ∧ c.level = l ∧ c.kind = .upper) ∧
    (newLower? l = some c → validLevel l = true ∧ c.level = l ∧ c.kind = .lower) ∧
    (tryFrom l = .ok c → validLevel l = true ∧ c.level = l ∧ c.kind = .twoSided) := by
  unfold newTwoSided? newUpper? newLower?
  rw [tryFrom_eq]
  by_cases h : validLevel l = true <;> simp [h] <;>
    refine ⟨?_, ?_, ?_, ?_⟩ <;> rintro rfl <;> exact ⟨rfl, rfl⟩

/-- carrier-independent form: a level failing the test yields no confidence at all -/
theorem constructors_complete {W : Type} [Scalar W] (l : W) :
    (validLevel l = true → newTwoSided? l = some (.twoSided l) ∧ newUpper? l = some (.upper l) ∧
      newLower? l = some (.lower l) ∧ tryFrom l = .ok (.twoSided l)) ∧
    (validLevel l = false → newTwoSided? l = none ∧ newUpper? l = none ∧ newLower? l = none ∧
      tryFrom l = .err (.invalidConfidenceLevel l)) := by
  unfold newTwoSided? newUpper? newLower?
  rw [tryFrom_eq]
  constructor <;> intro h <;> simp [h]

/-! ## 2. accessors (every carrier) -/

section accessors
variable {W : Type}

/-- `level()` returns the wrapped level -/
theorem level_eq (l : W) :
    (Confidence.twoSided l).level = l ∧ (Confidence.upper l).level = l ∧
    (Confidence.lower l).level = l := ⟨rfl, rfl, rfl⟩

/-- `kind` of each constructor -/
theorem kind_eq (l : W) :
    (Confidence.twoSided l).kind = .twoSided ∧ (Confidence.upper l).kind = .upper ∧
    (Confidence.lower l).kind = .lower := ⟨rfl, rfl, rfl⟩

/-- the `is_*` predicates read off the kind -/
theorem is_iff_kind (c : Confidence W) :
    (c.isTwoSided = true ↔ c.kind = .twoSided) ∧ (c.isUpper = true ↔ c.kind = .upper) ∧
    (c.isLower = true ↔ c.kind = .lower) ∧ (c.isOneSided = true ↔ c.kind ≠ .twoSided) := by
  cases c <;> simp [isTwoSided, isUpper, isLower, isOneSided, kind]

/-- exactly one of `is_two_sided`, `is_upper`, `is_lower` holds -/
theorem is_exactly_one (c : Confidence W) :
    (c.isTwoSided = true ∧ c.isUpper = false ∧ c.isLower = false) ∨
    (c.isTwoSided = false ∧ c.isUpper = true ∧ c.isLower = false) ∨
    (c.isTwoSided = false ∧ c.isUpper = false ∧ c.isLower = true) := by
  cases c <;> simp [isTwoSided, isUpper, isLower]

/-- `is_one_sided` is the negation of `is_two_sided`, and the disjunction of the two directions -/
theorem isOneSided_eq (c : Confidence W) :
    c.isOneSided = !c.isTwoSided ∧ c.isOneSided = (c.isUpper || c.isLower) := by
  cases c <;> simp [isTwoSided, isUpper, isLower, isOneSided]

/-- the `kind()` string determines the kind (and is the documented text) -/
theorem kindStr_spec (c d : Confidence W) :
    (c.kindStr = d.kindStr ↔ c.kind = d.kind) ∧
    (c.kind = .twoSided → c.kindStr = "two-sided") ∧
    (c.kind = .upper → c.kindStr = "upper one-sided") ∧
    (c.kind = .lower → c.kindStr = "lower one-sided") := by
  cases c <;> cases d <;> simp [kindStr, kind]

/-- `percent()` is `level · 100`, computed in the carrier -/
theorem percent_eq [Scalar W] (c : Confidence W) :
    c.percent = NumOps.mul c.level (Scalar.ofNat 100) := by
  cases c <;> rfl

/-- at exact reals: `percent = 100 · level` -/
theorem percent_val (c : Confidence Rex) : c.percent.val = c.level.val * 100 := by
  rw [percent_eq]; simp

/-- a confidence is determined by kind and level -/
theorem eq_of_kind_level (c d : Confidence W) (hk : c.kind = d.kind) (hl : c.level = d.level) :
    c = d := by
  cases c <;> cases d <;> simp_all [kind, level]

example : (Confidence.upper (1 : Nat)).kind = (Confidence.upper (1 : Nat)).kind ∧
    (Confidence.upper (1 : Nat)).level = (Confidence.upper 1).level := ⟨rfl, rfl⟩

end accessors

/-! ## 3. flipped (every carrier) -/

section flipped
variable {W : Type}

/-- `flipped` is an involution -/
theorem flipped_flipped (c : Confidence W) : c.flipped.flipped = c := by cases c <;> rfl

/-- `flipped` preserves the level -/
theorem flipped_level (c : Confidence W) : c.flipped.level = c.level := by cases c <;> rfl

/-- `flipped` fixes two-sided confidences and exchanges upper and lower -/
theorem flipped_kind (c : Confidence W) :
    c.flipped.kind = match c.kind with
      | .twoSided => .twoSided
      | .upper => .lower
      | .lower => .upper := by
  cases c <;> rfl

theorem flipped_cases (l : W) :
    (Confidence.twoSided l).flipped = .twoSided l ∧ (Confidence.upper l).flipped = .lower l ∧
    (Confidence.lower l).flipped = .upper l := ⟨rfl, rfl, rfl⟩

/-- a confidence is its own flip exactly when it is two-sided -/
theorem flipped_eq_self_iff (c : Confidence W) : c.flipped = c ↔ c.kind = .twoSided := by
  cases c <;> simp [flipped, kind]

/-- `flipped` leaves the quantile (hence the critical value) unchanged -/
theorem flipped_quantile [Scalar W] (c : Confidence W) : c.flipped.quantile = c.quantile := by
  cases c <;> rfl

/-- `flipped` leaves the percentage unchanged -/
theorem flipped_percent [Scalar W] (c : Confidence W) : c.flipped.percent = c.percent := by
  cases c <;> rfl

end flipped

/-! ## 4. order -/

/-- at exact reals two confidences are comparable exactly when they are of the same kind -/
theorem partialCmp_isSome_iff (a b : Confidence Rex) :
    partialCmp a b ≠ none ↔ a.kind = b.kind := by
  cases a <;> cases b <;> simp only [partialCmp, kind, ne_eq, not_true_eq_false, reduceCtorEq,
    not_false_eq_true] <;>
  · rename_i x y
    simp only [RR.lt_iff, RR.eq_iff, iff_true]
    rcases lt_trichotomy x.val y.val with h | h | h
    · simp [h]
    · simp [h]
    · simp [h, not_lt.mpr h.le, h.ne']

/-- … and then they compare as their levels do -/
theorem partialCmp_eq_compare (a b : Confidence Rex) (hk : a.kind = b.kind) :
    partialCmp a b = some (compare a.level.val b.level.val) := by
  cases a <;> cases b <;> simp only [kind, reduceCtorEq] at hk <;>
  · rename_i x y
    simp only [partialCmp, level, RR.lt_iff, RR.eq_iff]
    rcases lt_trichotomy x.val y.val with h | h | h
    · simp [h, compare_lt_iff_lt.mpr h]
    · simp [h]
    · simp [h, not_lt.mpr h.le, h.ne', compare_gt_iff_gt.mpr h]

example : (Confidence.upper (inj 0.9 : Rex)).kind = (Confidence.upper (inj 0.95 : Rex)).kind := rfl

/-- confidences of different kinds are never ordered, on any carrier -/
theorem partialCmp_none_of_kind_ne {W : Type} [Scalar W] (a b : Confidence W)
    (hk : a.kind ≠ b.kind) : partialCmp a b = none := by
  cases a <;> cases b <;> simp_all [partialCmp, kind]

example : (Confidence.upper (1 : Nat)).kind ≠ (Confidence.lower (1 : Nat)).kind := by decide

/-- at exact reals `==` is equality of kind and level — i.e. equality -/
theorem beq_iff (a b : Confidence Rex) :
    beq a b = true ↔ a.kind = b.kind ∧ a.level.val = b.level.val := by
  cases a <;> cases b <;> simp [beq, kind, level]

theorem beq_iff_eq (a b : Confidence Rex) : beq a b = true ↔ a = b := by
  rw [beq_iff]
  constructor
  · rintro ⟨hk, hl⟩; exact eq_of_kind_level a b hk (RR.ext' hl)
  · rintro rfl; exact ⟨rfl, rfl⟩

/-- `==` agrees with `partial_cmp(..) == Some(Equal)` (consistency of `PartialEq` with `PartialOrd`) -/
theorem beq_iff_partialCmp_eq (a b : Confidence Rex) :
    beq a b = true ↔ partialCmp a b = some .eq := by
  cases a <;> cases b <;> simp only [beq, partialCmp, reduceCtorEq, Bool.false_eq_true] <;>
  · rename_i x y
    simp only [RR.lt_iff, RR.eq_iff]
    rcases lt_trichotomy x.val y.val with h | h | h
    · simp [h, h.ne]
    · simp [h]
    · simp [h, not_lt.mpr h.le, h.ne']

/-- on `XR` with levels that are not NaN (so in particular for every constructible confidence)
    the same holds: comparable exactly within a kind -/
theorem partialCmp_isSome_iff_XR (a b : Confidence XR) (ha : a.level ≠ .nan) (hb : b.level ≠ .nan) :
    partialCmp a b ≠ none ↔ a.kind = b.kind := by
  cases a <;> cases b <;> simp only [partialCmp, kind, ne_eq, not_true_eq_false, reduceCtorEq,
    not_false_eq_true, level] at * <;>
  · rename_i x y
    cases x <;> cases y <;> simp at ha hb ⊢
    rename_i r s
    rcases lt_trichotomy r s with h | h | h
    · simp [h]
    · simp [h]
    · simp [h, not_lt.mpr h.le, h.ne']

/-- on `XR`, finite levels: ordered by level -/
theorem partialCmp_eq_compare_XR (a b : Confidence XR) (r s : ℝ) (hk : a.kind = b.kind)
    (ha : a.level = .fin r) (hb : b.level = .fin s) :
    partialCmp a b = some (compare r s) := by
  cases a <;> cases b <;> simp only [kind, reduceCtorEq, level] at hk ha hb <;>
  · subst ha hb
    simp only [partialCmp, XR.lt_fin_fin, XR.eq_fin_fin, decide_eq_true_eq]
    rcases lt_trichotomy r s with h | h | h
    · simp [h, compare_lt_iff_lt.mpr h]
    · simp [h]
    · simp [h, not_lt.mpr h.le, h.ne', compare_gt_iff_gt.mpr h]

example : (Confidence.upper (XR.fin 0.9)).kind = (Confidence.upper (XR.fin 0.95)).kind ∧
    (Confidence.upper (XR.fin 0.9)).level = .fin 0.9 ∧ (Confidence.upper (XR.fin 0.9)).level ≠ .nan :=
  ⟨rfl, rfl, by simp [level]⟩

/-- on `XR`, finite levels: `==` is equality of kind and level -/
theorem beq_iff_XR (a b : Confidence XR) (r s : ℝ) (ha : a.level = .fin r) (hb : b.level = .fin s) :
    beq a b = true ↔ a.kind = b.kind ∧ r = s := by
  cases a <;> cases b <;> simp only [level] at ha hb <;> subst ha hb <;> simp [beq, kind]

/-- honest IEEE semantics: a confidence with a NaN level (not constructible through the
    constructors, see `valid`) is neither equal nor comparable to itself -/
theorem nan_level_not_reflexive (c : Confidence XR) (h : c.level = .nan) :
    beq c c = false ∧ partialCmp c c = none := by
  cases c <;> simp only [level] at h <;> subst h <;> simp [beq, partialCmp]

example : (Confidence.twoSided XR.nan).level = .nan := rfl

/-- …whereas every constructible confidence on `XR` equals itself and compares `Equal` to itself -/
theorem constructible_reflexive (l : XR) (c : Confidence XR)
    (h : newTwoSided? l = some c ∨ newUpper? l = some c ∨ newLower? l = some c) :
    beq c c = true ∧ partialCmp c c = some .eq := by
  rcases h with h | h | h
  · obtain ⟨r, rfl, _, _, rfl⟩ := (newTwoSided_some_iff l c).mp h; simp [beq, partialCmp]
  · obtain ⟨r, rfl, _, _, rfl⟩ := (newUpper_some_iff l c).mp h; simp [beq, partialCmp]
  · obtain ⟨r, rfl, _, _, rfl⟩ := (newLower_some_iff l c).mp h; simp [beq, partialCmp]

example : newUpper? (XR.fin (1/2)) = some (.upper (XR.fin (1/2))) := by
  rw [newUpper_some_iff]; exact ⟨1/2, rfl, by norm_num, by norm_num, rfl⟩

end StatsCI.C18
