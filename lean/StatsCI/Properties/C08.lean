/-
  C08 — Compensated summation error is O(u·Σ|x|), independent of the number of terms.

  All theorems are about the model's `Kahan` register (`Kahan.add`, `Kahan.addList`,
  `Kahan.merge`, `Kahan.value`) and `Prog.evalK` / `Prog.evalA`, instantiated at the carrier
  `RR fl`: ℝ with an arbitrary rounding function `fl` applied after every operation, of which
  only `∀ x, |fl x − x| ≤ u·|x|` with `0 ≤ u ≤ 1/64` is assumed.

  The invariant `G u S T E s c` (`StatsCI.KahanLemmas.G`) says: the register `(s, c)` tracks
  the target `S` through `s − c`, with magnitude budget `T` and error allowance `E`:
  `|S| ≤ T ∧ |c| ≤ 3uT ∧ |s − c − S| ≤ E ∧ E ≤ T/4`.
-/
import StatsCI.Lemmas.Kahan
import StatsCI.Lemmas.KahanProg

namespace StatsCI.C08
open StatsCI KahanLemmas

variable {fl : ℝ → ℝ} {u : ℝ}

/-- the hypotheses on `(fl, u)` used throughout are satisfiable by a rounding function that is
    not the identity (`fl x = x·(1 + 1/128)`, `u = 1/128`) -/
example : ∃ (fl : ℝ → ℝ) (u : ℝ), 0 ≤ u ∧ u ≤ 1 / 64 ∧ (∀ x, |fl x - x| ≤ u * |x|) ∧ fl 1 ≠ 1 := by
  refine ⟨fun x => x * (1 + 1 / 128), 1 / 128, by norm_num, by norm_num, ?_, by norm_num⟩
  intro x
  have : x * (1 + 1 / 128) - x = 1 / 128 * x := by ring
  rw [this, abs_mul]
  norm_num

/-! ### 1. One-step drift -/

/-- **Drift identity.** One `Kahan.add` step of the model at `RR fl`, for *any* `fl`: with
    `a = x − c`, `y = fl a`, `t = fl (s + y)`, `d = fl (t − s)`, `c' = fl (d − y)` the new register
    is `(t, c')` and
    `(t − c') − ((s − c) + x) = (y − a) − (c' − (d − y)) − (d − (t − s))`.
    The rounding error `t − (s + y)` of the main addition does not appear. -/
theorem drift_identity (k : Kahan (RR fl)) (x : RR fl) :
    let s := k.sum.val
    let c := k.comp.val
    let a := x.val - c
    let y := fl a
    let t := fl (s + y)
    let d := fl (t - s)
    let c' := fl (d - y)
    (k.add x).sum.val = t ∧ (k.add x).comp.val = c' ∧
    ((k.add x).sum.val - (k.add x).comp.val) - ((s - c) + x.val)
      = (y - a) - (c' - (d - y)) - (d - (t - s)) :=
  KahanLemmas.drift_identity k x

/-- consequence: the tracked quantity `sum − comp` drifts by at most three *small* roundings -/
theorem drift_bound (hfl : ∀ x, |fl x - x| ≤ u * |x|) (k : Kahan (RR fl)) (x : RR fl) :
    |((k.add x).sum.val - (k.add x).comp.val) - ((k.sum.val - k.comp.val) + x.val)| ≤
      u * |x.val - k.comp.val|
        + (u * |fl (k.sum.val + fl (x.val - k.comp.val)) - k.sum.val|
          + u * |fl (fl (k.sum.val + fl (x.val - k.comp.val)) - k.sum.val)
                  - fl (x.val - k.comp.val)|) :=
  step_drift hfl k x

/-! ### 2. The invariant is preserved by a model step; re-targeting -/

/-- **Invariant step.** If the register `k` satisfies `G u S T E`, then `k.add x` satisfies `G`
    with `S, T, E` advanced by `x`, `|x|`, `2u|x| + 9u²(T + |x|)`; the side condition for the next
    step (`E' ≤ T'/4`) is supplied by the caller. -/
theorem inv_step (hu : 0 ≤ u) (hu' : u ≤ 1 / 64) (hfl : ∀ x, |fl x - x| ≤ u * |x|)
    (S T E : ℝ) (k : Kahan (RR fl)) (x : RR fl) (h : G u S T E k.sum.val k.comp.val)
    (hnext : E + 2 * u * |x.val| + 9 * u ^ 2 * (T + |x.val|) ≤ (T + |x.val|) / 4) :
    G u (S + x.val) (T + |x.val|) (E + 2 * u * |x.val| + 9 * u ^ 2 * (T + |x.val|))
      (k.add x).sum.val (k.add x).comp.val :=
  g_step hu hu' hfl S T E k x h hnext

/-- **Re-targeting.** The same register tracks a nearby target `S'` with a larger budget and an
    allowance enlarged by `|S' − S|`. -/
theorem retarget (S S' T T' E E' : ℝ) (k : Kahan (RR fl)) (h : G u S T E k.sum.val k.comp.val)
    (hu : 0 ≤ u) (hS : |S' - S| ≤ E' - E) (hT : T ≤ T') (hS' : |S'| ≤ T') (hE' : E' ≤ T' / 4) :
    G u S' T' E' k.sum.val k.comp.val :=
  g_retarget S S' T T' E E' _ _ h hu hS hT hS' hE'

/-- non-vacuity of `inv_step`: the register `(1, 0)` tracks `1`, and the step hypothesis holds -/
example : G (1 / 128 : ℝ) 1 1 (1 / 8) (1 : ℝ) 0 ∧
    (1 / 8 : ℝ) + 2 * (1 / 128) * |(2 : ℝ)| + 9 * (1 / 128) ^ 2 * (1 + |(2 : ℝ)|) ≤ (1 + |(2 : ℝ)|) / 4 := by
  refine ⟨⟨by norm_num, by norm_num, by norm_num, by norm_num⟩, ?_⟩
  rw [abs_of_pos (by norm_num : (0 : ℝ) < 2)]
  norm_num

/-! ### 3. Sequential summation -/

/-- **Sequential bound.** Feeding any list to the empty register one `+=` at a time and reading
    it with the crate's `value()`: the error is at most `(10u + 9(n+2)u²)·Σ|x|`. -/
theorem sequential (hu : 0 ≤ u) (hu' : u ≤ 1 / 64) (hfl : ∀ x, |fl x - x| ≤ u * |x|)
    (xs : List ℝ) (hn : (xs.length : ℝ) * u ≤ 1) :
    |((Kahan.empty : Kahan (RR fl)).addList (xs.map inj)).value.val - xs.sum| ≤
      (10 * u + 9 * (xs.length + 2) * u ^ 2) * (xs.map abs).sum :=
  kahan_sequential hu hu' hfl xs hn

example : (([1, 2, 3] : List ℝ).length : ℝ) * (1 / 128) ≤ 1 := by norm_num

/-! ### 4. Arbitrary accumulation histories (merge trees)

`Tb u p` (magnitude budget) and `Eb u p` (error allowance) are defined by recursion over the
history in `StatsCI.KahanLemmas.budget`; `Ok u p` is the node-wise side condition `Eb ≤ Tb/4`
(at every node, and after every element of an `extend`). The recursion is restated here as
`budget_recursion`. Compared with the sketch in DESIGN.md Appendix A.2 the magnitude of the right
operand is bounded through the *exact* `Σ|data r|` instead of `Tb r`
(`|s_r| + |c_r| ≤ Σ|data r| + Eb r + 6u·Tb r`), which keeps `Tb ≤ 5/4·Σ|x|` at every depth. -/

/-- the recursion defining the budgets -/
theorem budget_recursion (u : ℝ) :
    Tb u .empty = 0 ∧ Eb u .empty = 0 ∧
    (∀ p x, Tb u (.append p x) = Tb u p + |x|) ∧
    (∀ p x, Eb u (.append p x) = Eb u p + 2 * u * |x| + 9 * u ^ 2 * Tb u (.append p x)) ∧
    (∀ p, Tb u (.extend p []) = Tb u p ∧ Eb u (.extend p []) = Eb u p) ∧
    (∀ p x xs, Tb u (.extend p (x :: xs)) = Tb u (.extend (.append p x) xs) ∧
               Eb u (.extend p (x :: xs)) = Eb u (.extend (.append p x) xs)) ∧
    (∀ l r, Tb u (.merge l r) = Tb u l + ((r.data.map abs).sum + Eb u r + 6 * u * Tb u r)) ∧
    (∀ l r, Eb u (.merge l r) = Eb u l + Eb u r + 6 * u * Tb u r
        + 2 * u * ((r.data.map abs).sum + Eb u r + 6 * u * Tb u r)
        + 18 * u ^ 2 * Tb u (.merge l r)) :=
  ⟨rfl, rfl, fun _ _ => rfl, fun _ _ => rfl, fun _ => ⟨rfl, rfl⟩, fun _ _ _ => ⟨rfl, rfl⟩,
    fun _ _ => rfl, fun _ _ => rfl⟩

/-- **Program theorem.** For every accumulation history `p` (any tree of `append`, `extend`,
    `merge`) satisfying the node-wise side condition, the register reached by the model satisfies
    the invariant `G` with target the exact sum of the delivered data and the budgets
    `Tb u p`, `Eb u p`; and `value()` is within `Eb + 8u·Tb` of the exact sum. -/
theorem program (hu : 0 ≤ u) (hu' : u ≤ 1 / 64) (hfl : ∀ x, |fl x - x| ≤ u * |x|)
    (p : Prog ℝ) (hok : Ok u p) :
    G u p.data.sum (Tb u p) (Eb u p)
      ((p.map inj).evalK : Kahan (RR fl)).sum.val ((p.map inj).evalK : Kahan (RR fl)).comp.val ∧
    |((p.map inj).evalK : Kahan (RR fl)).value.val - p.data.sum| ≤ Eb u p + 8 * u * Tb u p :=
  ⟨prog_inv hu hu' hfl p hok, prog_value hu hu' hfl p hok⟩

/-- **Closed form of the budgets.** If the relative allowance
    `(2 + 10·rdepth)·u + 12·steps·u²` is at most `1/8`, the side condition holds at every node,
    `Σ|x| ≤ Tb ≤ 5/4·Σ|x|` and `Eb ≤ ((2 + 10·rdepth)·u + 12·steps·u²)·Σ|x|`. -/
theorem program_budgets (hu : 0 ≤ u) (hu' : u ≤ 1 / 64) (p : Prog ℝ)
    (hs : (2 + 10 * p.rdepth) * u + 12 * p.steps * u ^ 2 ≤ 1 / 8) :
    Ok u p ∧ (p.data.map abs).sum ≤ Tb u p ∧ Tb u p ≤ 5 / 4 * (p.data.map abs).sum ∧
    Eb u p ≤ ((2 + 10 * p.rdepth) * u + 12 * p.steps * u ^ 2) * (p.data.map abs).sum := by
  obtain ⟨h1, h2, h3⟩ := budget_closed hu hu' p hs
  exact ⟨h1, (budget_facts hu p).2, h2, h3⟩

/-- **Closed form, general smallness hypothesis.** -/
theorem program_closed' (hu : 0 ≤ u) (hu' : u ≤ 1 / 64) (hfl : ∀ x, |fl x - x| ≤ u * |x|)
    (p : Prog ℝ) (hs : (2 + 10 * p.rdepth) * u + 12 * p.steps * u ^ 2 ≤ 1 / 8) :
    |((p.map inj).evalK : Kahan (RR fl)).value.val - p.data.sum| ≤
      ((12 + 10 * p.rdepth) * u + 12 * p.steps * u ^ 2) * (p.data.map abs).sum :=
  prog_value_closed hu hu' hfl p hs

/-- **Closed form.** For every accumulation history with `steps·u ≤ 1` and
    `(rdepth + 1)·u ≤ 1/128` the error of `value()` is at most
    `((12 + 10·rdepth)·u + 12·steps·u²)·Σ|x|`: the first-order constant depends on how often a
    register is consumed as the *right* operand of a merge on the way to the root (because `+=`
    adds `+rhs.compensation`), never on the number of terms. -/
theorem program_closed (hu : 0 ≤ u) (hfl : ∀ x, |fl x - x| ≤ u * |x|) (p : Prog ℝ)
    (hn : (p.steps : ℝ) * u ≤ 1) (hd : ((p.rdepth : ℝ) + 1) * u ≤ 1 / 128) :
    |((p.map inj).evalK : Kahan (RR fl)).value.val - p.data.sum| ≤
      ((12 + 10 * p.rdepth) * u + 12 * p.steps * u ^ 2) * (p.data.map abs).sum := by
  have hu' : u ≤ 1 / 64 := by
    have : 0 ≤ (p.rdepth : ℝ) * u := mul_nonneg (Nat.cast_nonneg _) hu
    linarith
  exact prog_value_closed hu hu' hfl p (eps_small hu _ _ hn hd)

/-- **Left fold.** Chunks summed sequentially and merged into one accumulator from the left
    (`leftFold`): the right-depth is at most 1 whatever the number of chunks, so the constant is
    absolute: `22u + 12·steps·u²`. -/
theorem program_leftFold (hu : 0 ≤ u) (hu' : u ≤ 1 / 256) (hfl : ∀ x, |fl x - x| ≤ u * |x|)
    (chunks : List (List ℝ)) (hn : ((leftFold chunks).steps : ℝ) * u ≤ 1) :
    |(((leftFold chunks).map inj).evalK : Kahan (RR fl)).value.val - chunks.flatten.sum| ≤
      (22 * u + 12 * (leftFold chunks).steps * u ^ 2) * (chunks.flatten.map abs).sum := by
  have hd1 : ((leftFold chunks).rdepth : ℝ) ≤ 1 := by exact_mod_cast rdepth_leftFold_le chunks
  have hdu : ((leftFold chunks).rdepth : ℝ) * u ≤ 1 * u := mul_le_mul_of_nonneg_right hd1 hu
  have h := program_closed hu hfl (leftFold chunks) hn (by linarith)
  rw [data_leftFold] at h
  have hA : 0 ≤ (chunks.flatten.map abs).sum := sumAbs_nonneg _
  have q : ((leftFold chunks).rdepth : ℝ) * u * (chunks.flatten.map abs).sum
      ≤ 1 * u * (chunks.flatten.map abs).sum := mul_le_mul_of_nonneg_right hdu hA
  linarith

/-- non-vacuity of `program_closed`: a merge of two sequentially built registers, `u = 2⁻¹⁰` -/
example : let p : Prog ℝ := .merge (.extend .empty [1, -2]) (.append (.extend .empty [3]) 4)
    ((p.steps : ℝ) * (1 / 1024) ≤ 1) ∧ (((p.rdepth : ℝ) + 1) * (1 / 1024) ≤ 1 / 128) := by
  norm_num [Prog.steps, Prog.rdepth]

/-- non-vacuity of `program`: that history satisfies the node-wise side condition -/
example : Ok (1 / 1024)
    (.merge (.extend .empty [1, -2]) (.append (.extend .empty [3]) 4) : Prog ℝ) := by
  refine (program_budgets (by norm_num) (by norm_num) _ ?_).1
  norm_num [Prog.steps, Prog.rdepth]

/-! ### 5. Exact arithmetic -/

/-- **Exactness.** With `fl = id` every accumulation history holds the exact sum of the data it
    delivered, every compensation is `0`, and `value()` is the exact sum. -/
theorem exact (p : Prog ℝ) :
    ((p.map inj).evalK : Kahan Rex).sum.val = p.data.sum ∧
    ((p.map inj).evalK : Kahan Rex).comp.val = 0 ∧
    ((p.map inj).evalK : Kahan Rex).value.val = p.data.sum := by
  obtain ⟨h1, h2⟩ := evalK_exact p
  refine ⟨h1, h2, ?_⟩
  rw [value_val, h1, h2]; simp

/-! ### 6. `Arithmetic`'s two registers are `Kahan` registers of the same history -/

/-- **Inheritance.** For every history (over any carrier, in particular `RR fl`) the `sum`
    register of `Arithmetic` is the `Kahan` register of the history, the `sum_sq` register is the
    `Kahan` register of the history of squares `x ↦ x*x` (computed in the carrier), and `count` is
    the number of observations; so `sequential` and `program` apply to both registers. -/
theorem stats_inherit (p : Prog (RR fl)) :
    p.evalA.sum = p.evalK ∧
    p.evalA.sumSq = (p.map fun x => NumOps.mul x x).evalK ∧
    p.evalA.count = p.data.length :=
  evalA_fields p

/-- the same for an arbitrary carrier (operations only, no laws) -/
theorem stats_inherit_generic {α : Type} [Scalar α] (p : Prog α) :
    p.evalA.sum = p.evalK ∧
    p.evalA.sumSq = (p.map fun x => NumOps.mul x x).evalK ∧
    p.evalA.count = p.data.length :=
  evalA_fields p

end StatsCI.C08
