/-
  C19 — Approximate comparison of two intervals holds exactly when both are of the same kind and
  every corresponding bound compares approximately equal under the same tolerance; it is reflexive
  and symmetric, implied by exact equality, and never relates intervals of different kinds.
  `Display` renders exactly "[low, high]", "[low,->)" and "(<-,high]" with the element type's own
  formatting.

  `Interval.approxEq e` is the common shape of `abs_diff_eq` / `relative_eq` / `ulps_eq`: `e` is the
  element predicate with the tolerance(s) already applied (the same `e` for both bounds, i.e. the
  same tolerance). All theorems hold for an ARBITRARY element predicate `e` and element type.
-/
import StatsCI.Lemmas.Order

namespace StatsCI.C19
open StatsCI Interval
variable {α : Type}

/-- approximate equality holds exactly when the kinds agree and the corresponding bounds are
    approximately equal -/
theorem approx_iff (e : α → α → Bool) (a b : Interval α) :
    approxEq e a b = true ↔
      (∃ x y u v, a = .twoSided x y ∧ b = .twoSided u v ∧ e x u = true ∧ e y v = true) ∨
      (∃ x u, a = .upper x ∧ b = .upper u ∧ e x u = true) ∨
      (∃ y v, a = .lower y ∧ b = .lower v ∧ e y v = true) := by
  cases a <;> cases b <;> simp [approxEq]

/-- the same, read through the accessors: same kind, and `left`/`right` pairwise related
    (`Option.all₂`-style: both missing or both present and related) -/
theorem approx_iff_bounds (e : α → α → Bool) (a b : Interval α) :
    approxEq e a b = true ↔
      (a.isTwoSided = b.isTwoSided ∧ a.isUpper = b.isUpper ∧ a.isLower = b.isLower) ∧
      (∀ x u, a.left = some x → b.left = some u → e x u = true) ∧
      (∀ y v, a.right = some y → b.right = some v → e y v = true) := by
  cases a <;> cases b <;> simp [approxEq, isTwoSided, isUpper, isLower, left, right]

/-- reflexive when the element predicate is -/
theorem approx_refl (e : α → α → Bool) (he : ∀ x, e x x = true) (a : Interval α) :
    approxEq e a a = true := by
  cases a <;> simp [approxEq, he]

/-- symmetric when the element predicate is -/
theorem approx_symm (e : α → α → Bool) (he : ∀ x y, e x y = e y x) (a b : Interval α) :
    approxEq e a b = approxEq e b a := by
  cases a <;> cases b <;> simp [approxEq, he _ _]

/-- symmetric, as an implication (element predicate symmetric as an implication) -/
theorem approx_symm' (e : α → α → Bool) (he : ∀ x y, e x y = true → e y x = true)
    (a b : Interval α) (h : approxEq e a b = true) : approxEq e b a = true := by
  cases a <;> cases b <;> simp_all [approxEq]

/-- implied by exact equality (reflexive element predicate) -/
theorem approx_of_eq (e : α → α → Bool) (he : ∀ x, e x x = true) (a b : Interval α) (h : a = b) :
    approxEq e a b = true := by
  subst h; exact approx_refl e he a

/-- implied by the derived `PartialEq` over a linear order (reflexive element predicate) -/
theorem approx_of_beq [LinearOrder α] (e : α → α → Bool) (he : ∀ x, e x x = true)
    (a b : Interval α) (h : @Interval.beq α (Cmp.ofLinearOrder α) a b = true) :
    approxEq e a b = true := by
  cases a <;> cases b <;> simp_all [approxEq, beq]

/-- intervals of different kinds are never approximately equal, whatever the element predicate
    and the bounds -/
theorem approx_diff_kind (e : α → α → Bool) (a b : Interval α)
    (h : a.isTwoSided ≠ b.isTwoSided ∨ a.isUpper ≠ b.isUpper ∨ a.isLower ≠ b.isLower) :
    approxEq e a b = false := by
  cases a <;> cases b <;> simp_all [approxEq, isTwoSided, isUpper, isLower]

/-- the six mixed-kind pairs, explicitly (same bound allowed) -/
theorem approx_diff_kind_table (e : α → α → Bool) (x y z : α) :
    approxEq e (.twoSided x y) (.upper z) = false ∧ approxEq e (.twoSided x y) (.lower z) = false ∧
    approxEq e (.upper z) (.twoSided x y) = false ∧ approxEq e (.lower z) (.twoSided x y) = false ∧
    approxEq e (.upper x) (.lower x) = false ∧ approxEq e (.lower x) (.upper x) = false :=
  ⟨rfl, rfl, rfl, rfl, rfl, rfl⟩

/-- `Display`: the three shapes, with the element type's own formatting `fmt` -/
theorem display_shapes (fmt : α → String) (lo hi : α) :
    display fmt (.twoSided lo hi) = "[" ++ fmt lo ++ ", " ++ fmt hi ++ "]" ∧
    display fmt (.upper lo) = "[" ++ fmt lo ++ ",->)" ∧
    display fmt (.lower hi) = "(<-," ++ fmt hi ++ "]" :=
  ⟨rfl, rfl, rfl⟩

/-- every interval is rendered in one of the three shapes -/
theorem display_cases (fmt : α → String) (i : Interval α) :
    (∃ lo hi, i = .twoSided lo hi ∧ display fmt i = "[" ++ fmt lo ++ ", " ++ fmt hi ++ "]") ∨
    (∃ lo, i = .upper lo ∧ display fmt i = "[" ++ fmt lo ++ ",->)") ∨
    (∃ hi, i = .lower hi ∧ display fmt i = "(<-," ++ fmt hi ++ "]") := by
  cases i <;> simp [display]

/-! non-vacuity: a reflexive symmetric tolerance predicate on ℤ (`|x - y| ≤ 1`), and concrete
    renderings -/
example : let e : ℤ → ℤ → Bool := fun x y => decide ((x - y).natAbs ≤ 1)
    (∀ x, e x x = true) ∧ (∀ x y, e x y = e y x) ∧
    approxEq e (.twoSided 1 5) (.twoSided 2 4) = true ∧
    approxEq e (.twoSided 1 5) (.twoSided 3 4) = false ∧
    approxEq e (.upper 1) (.lower 1) = false := by
  refine ⟨by intro x; simp, ?_, by decide, by decide, by decide⟩
  intro x y
  have : (x - y).natAbs = (y - x).natAbs := by rw [← Int.natAbs_neg]; congr 1; omega
  simp [this]

example : display (fun n : ℤ => toString n) (.twoSided 1 2) = "[1, 2]" ∧
    display (fun n : ℤ => toString n) (.upper 1) = "[1,->)" ∧
    display (fun n : ℤ => toString n) (.lower 2) = "(<-,2]" := by
  refine ⟨by decide, by decide, by decide⟩

end StatsCI.C19
