/-
  C12 (structural part) — what the coverage of the proportion and quantile intervals is the
  probability *of*.

  The numerical evaluation of coverage (binomial sums at given `n`, `p`, level) is done elsewhere;
  here are the exact identities it rests on, stated on the model at exact real arithmetic
  (`Rex = RR id`):

  * test inversion: `p` lies in the Wilson interval iff the score statistic at `p` is at most `z`
    (`duality`, one-sided analogues, and the same for the interval `Proportion.ciWilson` returns);
  * hence the coverage probability is the `w`-weighted count of the `k` accepted by the score test
    (`coverage_form`; `coverage_form_crate` for the model function, which rejects `k < 2` and
    `n − k < 2`);
  * for the quantile interval `[s[lo], s[hi]]` of the sorted data, containing `ξ` is a statement
    about the two counts `#{x ≤ ξ}` and `#{x < ξ}` (`quantile_form`).

  `lowerR n k z` / `upperR n k z` are by definition
  `(wilsonCentre ⟨n⟩ ⟨k⟩ ⟨z⟩).val ∓ (wilsonSpan ⟨n⟩ ⟨k⟩ ⟨z⟩).val` (`Lemmas/WilsonMono.lean`).
-/
import StatsCI.Lemmas.WilsonMono
import Mathlib.Algebra.BigOperators.Group.Finset.Basic

namespace StatsCI.C12
open StatsCI Proportion WilsonMono

/-! ### 1. test inversion -/

/-- `p` is inside the Wilson interval iff the score test at `p` accepts: `(p − k/n)² ≤ z² p(1−p)/n`.
    Every real `p` (no restriction to `[0,1]`), every real `0 ≤ k ≤ n`, `z ≥ 0`. -/
theorem duality (n k z p : ℝ) (hn : 0 < n) (hz : 0 ≤ z) (hk0 : 0 ≤ k) (hkn : k ≤ n) :
    (lowerR n k z ≤ p ∧ p ≤ upperR n k z) ↔ (p - k / n) ^ 2 ≤ z ^ 2 * (p * (1 - p)) / n :=
  WilsonMono.duality n k z p hn hz hk0 hkn

example : (lowerR 10 3 2 ≤ 0.4 ∧ 0.4 ≤ upperR 10 3 2) ↔
    ((0.4 : ℝ) - 3 / 10) ^ 2 ≤ 2 ^ 2 * (0.4 * (1 - 0.4)) / 10 :=
  duality 10 3 2 0.4 (by norm_num) (by norm_num) (by norm_num) (by norm_num)

/-- both sides of the equivalence occur: `0.4` is inside, `0.9` is outside the interval for 3/10, z = 2 -/
example : (lowerR 10 3 2 ≤ 0.4 ∧ 0.4 ≤ upperR 10 3 2) ∧ ¬ (lowerR 10 3 2 ≤ 0.9 ∧ 0.9 ≤ upperR 10 3 2) := by
  rw [duality 10 3 2 0.4 (by norm_num) (by norm_num) (by norm_num) (by norm_num),
    duality 10 3 2 0.9 (by norm_num) (by norm_num) (by norm_num) (by norm_num)]
  norm_num

/-- both ends are roots of the score equation -/
theorem score_roots (n k z : ℝ) (hn : 0 < n) (hk0 : 0 ≤ k) (hkn : k ≤ n) :
    (lowerR n k z - k / n) ^ 2 = z ^ 2 * (lowerR n k z * (1 - lowerR n k z)) / n ∧
    (upperR n k z - k / n) ^ 2 = z ^ 2 * (upperR n k z * (1 - upperR n k z)) / n :=
  ⟨score_root_lower n k z hn hk0 hkn, score_root_upper n k z hn hk0 hkn⟩

/-! ### 2. one-sided analogues -/

/-- the lower confidence bound is below `p` iff the one-sided score test does not reject `p` as too
    small: `k/n − p ≤ z √(p(1−p)/n)`.  Every real `p`. -/
theorem duality_lower_bound (n k z p : ℝ) (hn : 0 < n) (hz : 0 ≤ z) (hk0 : 0 ≤ k) (hkn : k ≤ n) :
    lowerR n k z ≤ p ↔ k / n - p ≤ z * Real.sqrt (p * (1 - p) / n) :=
  duality_lower n k z p hn hz hk0 hkn

/-- the upper confidence bound is above `p` iff `p − k/n ≤ z √(p(1−p)/n)`.  Every real `p`. -/
theorem duality_upper_bound (n k z p : ℝ) (hn : 0 < n) (hz : 0 ≤ z) (hk0 : 0 ≤ k) (hkn : k ≤ n) :
    p ≤ upperR n k z ↔ p - k / n ≤ z * Real.sqrt (p * (1 - p) / n) :=
  duality_upper n k z p hn hz hk0 hkn

example : lowerR 10 3 2 ≤ 0.2 ↔ (3 : ℝ) / 10 - 0.2 ≤ 2 * Real.sqrt (0.2 * (1 - 0.2) / 10) :=
  duality_lower_bound 10 3 2 0.2 (by norm_num) (by norm_num) (by norm_num) (by norm_num)

/-- test inversion for the interval the model function returns, all three kinds of confidence.
    For the one-sided kinds the far end is `1` resp. `0`, so `p` is taken on the near side of it. -/
theorem duality_interval (crit : Crit Rex) (conf : Confidence Rex) (n k : ℕ) (hk : 2 ≤ k)
    (hkn : k + 2 ≤ n) (hv : Confidence.validLevel conf.level = true)
    (hz : 0 ≤ (crit (.z conf.quantile)).val) :
    ∃ i : Interval Rex, ciWilson crit conf n k = .ok i ∧
      match (generalizing := false) conf with
      | .twoSided _ => ∀ p : ℝ, i.contains ⟨p⟩ = true ↔
          (p - k / n) ^ 2 ≤ (crit (.z conf.quantile)).val ^ 2 * (p * (1 - p)) / n
      | .upper _ => ∀ p : ℝ, p ≤ 1 → (i.contains ⟨p⟩ = true ↔
          k / n - p ≤ (crit (.z conf.quantile)).val * Real.sqrt (p * (1 - p) / n))
      | .lower _ => ∀ p : ℝ, 0 ≤ p → (i.contains ⟨p⟩ = true ↔
          p - k / n ≤ (crit (.z conf.quantile)).val * Real.sqrt (p * (1 - p) / n)) := by
  have hn : (0 : ℝ) < n := by exact_mod_cast (by omega : 0 < n)
  have h0 : (0 : ℝ) ≤ k := by positivity
  have h2 : (k : ℝ) ≤ n := by exact_mod_cast (by omega : k ≤ n)
  refine ⟨_, ciWilson_eq crit conf n k hk hkn (probOk_of_valid conf hv) hz, ?_⟩
  cases conf with
  | twoSided l =>
    intro p
    simp only [shape]
    rw [contains_twoSided]
    exact duality n k _ p hn hz h0 h2
  | upper l =>
    intro p hp
    simp only [shape]
    rw [contains_twoSided, ← duality_lower_bound n k _ p hn hz h0 h2]
    exact ⟨fun h => h.1, fun h => ⟨h, hp⟩⟩
  | lower l =>
    intro p hp
    simp only [shape]
    rw [contains_twoSided, ← duality_upper_bound n k _ p hn hz h0 h2]
    exact ⟨fun h => h.2, fun h => ⟨hp, h⟩⟩

example : Confidence.validLevel (Confidence.twoSided (⟨0.95⟩ : Rex)).level = true ∧
    0 ≤ ((constCrit 2 : Crit Rex) (.z (Confidence.twoSided (⟨0.95⟩ : Rex)).quantile)).val := by
  constructor
  · rw [validLevel_iff]; norm_num [Confidence.level]
  · norm_num [constCrit]

/-! ### 3. coverage as a weighted count of accepted outcomes -/

/-- With `w k` the probability of `k` successes (the binomial pmf, but any weights do), the
    coverage probability of the Wilson interval at `p` is the total weight of the `k` the score test
    accepts. -/
theorem coverage_form (n : ℕ) (hn : 0 < n) (z p : ℝ) (hz : 0 ≤ z) (w : ℕ → ℝ) :
    ∑ k ∈ Finset.range (n + 1),
        w k * (if lowerR n k z ≤ p ∧ p ≤ upperR n k z then 1 else 0)
      = ∑ k ∈ Finset.range (n + 1),
        w k * (if (p - k / n) ^ 2 ≤ z ^ 2 * (p * (1 - p)) / n then 1 else 0) := by
  apply Finset.sum_congr rfl
  intro k hk
  have hkn : (k : ℝ) ≤ n := by exact_mod_cast Nat.lt_succ_iff.mp (Finset.mem_range.mp hk)
  have h := duality n k z p (by exact_mod_cast hn) hz (by positivity) hkn
  simp only [h]

example : ∑ k ∈ Finset.range (10 + 1),
      (fun _ => (1 : ℝ) / 11) k * (if lowerR (10 : ℕ) k 2 ≤ 0.3 ∧ 0.3 ≤ upperR (10 : ℕ) k 2 then 1 else 0)
    = ∑ k ∈ Finset.range (10 + 1),
      (fun _ => (1 : ℝ) / 11) k * (if ((0.3 : ℝ) - k / (10 : ℕ)) ^ 2 ≤ 2 ^ 2 * (0.3 * (1 - 0.3)) / (10 : ℕ) then 1 else 0) :=
  coverage_form 10 (by norm_num) 2 0.3 (by norm_num) _

/-- The same for the model function: counting an outcome as covered when `ci_wilson` returns an
    interval that contains `p` (`coversB`; a rejected call covers nothing), the coverage of the
    two-sided interval is the weight of the accepted `k` among `2 ≤ k ≤ n − 2` only — the outcomes
    `k < 2` and `k > n − 2`, which the crate rejects, are lost. -/
theorem coverage_form_crate (crit : Crit Rex) (l : Rex) (n : ℕ) (p : ℝ) (w : ℕ → ℝ)
    (hv : Confidence.validLevel l = true)
    (hz : 0 ≤ (crit (.z (Confidence.twoSided l).quantile)).val) :
    ∑ k ∈ Finset.range (n + 1),
        w k * (if coversB crit (.twoSided l) n k p = true then 1 else 0)
      = ∑ k ∈ (Finset.range (n + 1)).filter (fun k => 2 ≤ k ∧ k + 2 ≤ n),
        w k * (if (p - k / n) ^ 2
            ≤ (crit (.z (Confidence.twoSided l).quantile)).val ^ 2 * (p * (1 - p)) / n
          then 1 else 0) := by
  rw [Finset.sum_filter]
  apply Finset.sum_congr rfl
  intro k _
  by_cases hc : 2 ≤ k ∧ k + 2 ≤ n
  · rw [if_pos hc]
    obtain ⟨i, hi, hd⟩ := duality_interval crit (.twoSided l) n k hc.1 hc.2 hv hz
    rw [coversB_of_ok hi]
    simp only [hd p]
  · rw [if_neg hc, coversB_outside crit _ n k p hc]
    simp

example : ∑ k ∈ Finset.range (10 + 1),
      (fun _ => (1 : ℝ) / 11) k * (if coversB (constCrit 2) (.twoSided ⟨0.95⟩) 10 k 0.3 = true then 1 else 0)
    = ∑ k ∈ (Finset.range (10 + 1)).filter (fun k => 2 ≤ k ∧ k + 2 ≤ 10),
      (fun _ => (1 : ℝ) / 11) k * (if ((0.3 : ℝ) - k / (10 : ℕ)) ^ 2
          ≤ ((constCrit 2 : Crit Rex) (.z (Confidence.twoSided (⟨0.95⟩ : Rex)).quantile)).val ^ 2
            * (0.3 * (1 - 0.3)) / (10 : ℕ) then 1 else 0) :=
  coverage_form_crate (constCrit 2) ⟨0.95⟩ 10 0.3 _ (by rw [validLevel_iff]; norm_num)
    (by norm_num [constCrit])

/-! ### 4. the quantile interval: coverage is a statement about two counts -/

section quantile
variable {α : Type} [LinearOrder α]

/-- For the sorted data `s` (the model's `sortData`: `List.mergeSort` with the `≤` test), indices
    `lo`, `hi` in range and any `ξ`:
    `s[lo] ≤ ξ` iff at least `lo + 1` data points are `≤ ξ`; `ξ ≤ s[hi]` iff at most `hi` data points
    are `< ξ`.  So `ξ ∈ [s[lo], s[hi]]` iff `lo + 1 ≤ #{x ≤ ξ}` and `#{x < ξ} ≤ hi` (for a continuous
    distribution the two counts agree almost surely and are Binomial(n, q) at the `q`-quantile `ξ`). -/
theorem quantile_form (xs : List α) (ξ : α) (lo hi : ℕ)
    (hlo : lo < (xs.mergeSort (fun a b => decide (a ≤ b))).length)
    (hhi : hi < (xs.mergeSort (fun a b => decide (a ≤ b))).length) :
    ((xs.mergeSort (fun a b => decide (a ≤ b)))[lo] ≤ ξ
        ↔ lo + 1 ≤ xs.countP (fun x => decide (x ≤ ξ))) ∧
    (ξ ≤ (xs.mergeSort (fun a b => decide (a ≤ b)))[hi]
        ↔ xs.countP (fun x => decide (x < ξ)) ≤ hi) ∧
    ((xs.mergeSort (fun a b => decide (a ≤ b)))[lo] ≤ ξ ∧
      ξ ≤ (xs.mergeSort (fun a b => decide (a ≤ b)))[hi]
        ↔ lo + 1 ≤ xs.countP (fun x => decide (x ≤ ξ)) ∧
          xs.countP (fun x => decide (x < ξ)) ≤ hi) := by
  have h1 := sortL_le_iff xs ξ lo hlo
  have h2 := le_sortL_iff xs ξ hi hhi
  exact ⟨h1, h2, and_congr h1 h2⟩

/-- the sorted version has the length of the data, so `lo ≤ hi < xs.length` are in range -/
theorem sorted_length (xs : List α) :
    (xs.mergeSort (fun a b => decide (a ≤ b))).length = xs.length :=
  List.length_mergeSort _

attribute [local instance] Cmp.ofLinearOrder in
/-- that list is what the model's `Quantile.sortData` produces on a linearly ordered element type
    (no incomparable element, hence no panic) -/
theorem sortData_is_mergeSort {W : Type} [Scalar W] (xs : List α) :
    Quantile.sortData (W := W) xs = .ok (xs.mergeSort (fun a b => decide (a ≤ b))) :=
  sortData_eq xs

end quantile

/-- data `3,1,2` (sorted `1,2,3`), `ξ = 2`, `lo = 0`, `hi = 1`: the indices are in range, and since
    `#{x ≤ 2} = 2 ≥ 1` and `#{x < 2} = 1 ≤ 1`, `s[0] ≤ 2 ≤ s[1]` -/
example : ∃ (h0 : 0 < (([3, 1, 2] : List ℤ).mergeSort (fun a b => decide (a ≤ b))).length)
    (h1 : 1 < (([3, 1, 2] : List ℤ).mergeSort (fun a b => decide (a ≤ b))).length),
    (([3, 1, 2] : List ℤ).mergeSort (fun a b => decide (a ≤ b)))[0] ≤ 2 ∧
    2 ≤ (([3, 1, 2] : List ℤ).mergeSort (fun a b => decide (a ≤ b)))[1] :=
  ⟨by rw [sorted_length]; decide, by rw [sorted_length]; decide,
   (quantile_form ([3, 1, 2] : List ℤ) 2 0 1 _ _).2.2.mpr (by decide)⟩

end StatsCI.C12
