/-
  C12 (structural part) — what the coverage of the proportion and quantile intervals is the
  probability *of*.

  The numerical evaluation of coverage (binomial sums at given `n`, `p`, level) is done elsewhere;
  here are the exact identities it rests on, stated on the model at exact real arithmetic
  (`Rex = RR id`):

  * test inversion: `p` lies in the Wilson interval iff the score statistic at `p` is at most `z`
    (`duality`, one-sided analogues, and the same for the interval `Proportion.ciWilson` returns);
  * hence the coverage probability is the `w`-weighted count of the `k` accepted by the score test
    (`coverage_form`; `coverage_form_crate` for the model function, which rejects `k < 2` and
    `n − k < 2`);
  * for the quantile interval `[s[lo], s[hi]]` of the sorted data, containing `ξ` is a statement
    about the two counts `#{x ≤ ξ}` and `#{x < ξ}` (`quantile_form`);
  * a quantitative floor under the *exact* binomial coverage, for every `n ≥ 1`, every
    `p ∈ [0,1]` and every critical value `z > 0` (§5): the Wilson interval covers `p` with probability
    at least `1 − 1/z²` (`coverage_floor`, Chebyshev with the binomial variance `p(1−p)/n`), the
    interval the crate returns with probability at least `1 − 1/z² −` the mass of the outcomes it
    rejects (`coverage_floor_crate`), the one-sided intervals cover at least as often as the
    two-sided one at the same critical value (`coverage_one_sided_ge`), and each one-sided bound is on
    the right side of `p` with probability at least `z²/(1 + z²)` (`coverage_floor_lower_bound`,
    `coverage_floor_upper_bound`: Cantelli's inequality, proved from the binomial mean and variance).  This is far from the
    nominal level (0.74 at z = 1.96) but it holds for all `n` and `p` at once; how close to nominal
    the coverage actually is remains a numerical fact, evaluated exactly by the driver.

  `lowerR n k z` / `upperR n k z` are by definition
  `(wilsonCentre ⟨n⟩ ⟨k⟩ ⟨z⟩).val ∓ (wilsonSpan ⟨n⟩ ⟨k⟩ ⟨z⟩).val` (`Lemmas/WilsonMono.lean`).
-/
import StatsCI.Lemmas.WilsonMono
import Mathlib.Algebra.BigOperators.Group.Finset.Basic
import StatsCI.Lemmas.Binomial

namespace StatsCI.C12
open StatsCI Proportion WilsonMono

/-! ### 1. test inversion -/

/-- `p` is inside the Wilson interval iff the score test at `p` accepts: `(p − k/n)² ≤ z² p(1−p)/n`.
    Every real `p` (no restriction to `[0,1]`), every real `0 ≤ k ≤ n`, `z ≥ 0`. -/
theorem duality (n k z p : ℝ) (hn : 0 < n) (hz : 0 ≤ z) (hk0 : 0 ≤ k) (hkn : k ≤ n) :
    (lowerR n k z ≤ p ∧ p ≤ upperR n k z) ↔ (p - k / n) ^ 2 ≤ z ^ 2 * (p * (1 - p)) / n :=
  WilsonMono.duality n k z p hn hz hk0 hkn

example : (lowerR 10 3 2 ≤ 0.4 ∧ 0.4 ≤ upperR 10 3 2) ↔
    ((0.4 : ℝ) - 3 / 10) ^ 2 ≤ 2 ^ 2 * (0.4 * (1 - 0.4)) / 10 :=
  duality 10 3 2 0.4 (by norm_num) (by norm_num) (by norm_num) (by norm_num)

/-- both sides of the equivalence occur: `0.4` is inside, `0.9` is outside the interval for 3/10, z = 2 -/
example : (lowerR 10 3 2 ≤ 0.4 ∧ 0.4 ≤ upperR 10 3 2) ∧ ¬ (lowerR 10 3 2 ≤ 0.9 ∧ 0.9 ≤ upperR 10 3 2) := by
  rw [duality 10 3 2 0.4 (by norm_num) (by norm_num) (by norm_num) (by norm_num),
    duality 10 3 2 0.9 (by norm_num) (by norm_num) (by norm_num) (by norm_num)]
  norm_num

/-- both ends are roots of the score equation -/
theorem score_roots (n k z : ℝ) (hn : 0 < n) (hk0 : 0 ≤ k) (hkn : k ≤ n) :
    (lowerR n k z - k / n) ^ 2 = z ^ 2 * (lowerR n k z * (1 - lowerR n k z)) / n ∧
    (upperR n k z - k / n) ^ 2 = z ^ 2 * (upperR n k z * (1 - upperR n k z)) / n :=
  ⟨score_root_lower n k z hn hk0 hkn, score_root_upper n k z hn hk0 hkn⟩

/-! ### 2. one-sided analogues -/

/-- the lower confidence bound is below `p` iff the one-sided score test does not reject `p` as too
    small: `k/n − p ≤ z √(p(1−p)/n)`.  Every real `p`. -/
theorem duality_lower_bound (n k z p : ℝ) (hn : 0 < n) (hz : 0 ≤ z) (hk0 : 0 ≤ k) (hkn : k ≤ n) :
    lowerR n k z ≤ p ↔ k / n - p ≤ z * Real.sqrt (p * (1 - p) / n) :=
  duality_lower n k z p hn hz hk0 hkn

/-- the upper confidence bound is above `p` iff `p − k/n ≤ z √(p(1−p)/n)`.  Every real `p`. -/
theorem duality_upper_bound (n k z p : ℝ) (hn : 0 < n) (hz : 0 ≤ z) (hk0 : 0 ≤ k) (hkn : k ≤ n) :
    p ≤ upperR n k z ↔ p - k / n ≤ z * Real.sqrt (p * (1 - p) / n) :=
  duality_upper n k z p hn hz hk0 hkn

example : lowerR 10 3 2 ≤ 0.2 ↔ (3 : ℝ) / 10 - 0.2 ≤ 2 * Real.sqrt (0.2 * (1 - 0.2) / 10) :=
  duality_lower_bound 10 3 2 0.2 (by norm_num) (by norm_num) (by norm_num) (by norm_num)

/-- test inversion for the interval the model function returns, all three kinds of confidence.
    For the one-sided kinds the far end is `1` resp. `0`, so `p` is taken on the near side of it. -/
theorem duality_interval (crit : Crit Rex) (conf : Confidence Rex) (n k : ℕ) (hk : 2 ≤ k)
    (hkn : k + 2 ≤ n) (hv : Confidence.validLevel conf.level = true)
    (hz : 0 ≤ (crit (.z conf.quantile)).val) :
    ∃ i : Interval Rex, ciWilson crit conf n k = .ok i ∧
      match (generalizing := false) conf with
      | .twoSided _ => ∀ p : ℝ, i.contains ⟨p⟩ = true ↔
          (p - k / n) ^ 2 ≤ (crit (.z conf.quantile)).val ^ 2 * (p * (1 - p)) / n
      | .upper _ => ∀ p : ℝ, p ≤ 1 → (i.contains ⟨p⟩ = true ↔
          k / n - p ≤ (crit (.z conf.quantile)).val * Real.sqrt (p * (1 - p) / n))
      | .lower _ => ∀ p : ℝ, 0 ≤ p → (i.contains ⟨p⟩ = true ↔
          p - k / n ≤ (crit (.z conf.quantile)).val * Real.sqrt (p * (1 - p) / n)) := by
  have hn : (0 : ℝ) < n := by exact_mod_cast (by omega : 0 < n)
  have h0 : (0 : ℝ) ≤ k := by positivity
  have h2 : (k : ℝ) ≤ n := by exact_mod_cast (by omega : k ≤ n)
  refine ⟨_, ciWilson_eq crit conf n k hk hkn (probOk_of_valid conf hv) hz, ?_⟩
  cases conf with
  | twoSided l =>
    intro p
    simp only [shape]
    rw [contains_twoSided]
    exact duality n k _ p hn hz h0 h2
  | upper l =>
    intro p hp
    simp only [shape]
    rw [contains_twoSided, ← duality_lower_bound n k _ p hn hz h0 h2]
    exact ⟨fun h => h.1, fun h => ⟨h, hp⟩⟩
  | lower l =>
    intro p hp
    simp only [shape]
    rw [contains_twoSided, ← duality_upper_bound n k _ p hn hz h0 h2]
    exact ⟨fun h => h.2, fun h => ⟨hp, h⟩⟩

example : Confidence.validLevel (Confidence.twoSided (⟨0.95⟩ : Rex)).level = true ∧
    0 ≤ ((constCrit 2 : Crit Rex) (.z (Confidence.twoSided (⟨0.95⟩ : Rex)).quantile)).val := by
  constructor
  · rw [validLevel_iff]; norm_num [Confidence.level]
  · norm_num [constCrit]

/-! ### 3. coverage as a weighted count of accepted outcomes -/

/-- With `w k` the probability of `k` successes (the binomial pmf, but any weights do), the
    coverage probability of the Wilson interval at `p` is the total weight of the `k` the score test
    accepts. -/
theorem coverage_form (n : ℕ) (hn : 0 < n) (z p : ℝ) (hz : 0 ≤ z) (w : ℕ → ℝ) :
    ∑ k ∈ Finset.range (n + 1),
        w k * (if lowerR n k z ≤ p ∧ p ≤ upperR n k z then 1 else 0)
      = ∑ k ∈ Finset.range (n + 1),
        w k * (if (p - k / n) ^ 2 ≤ z ^ 2 * (p * (1 - p)) / n then 1 else 0) := by
  apply Finset.sum_congr rfl
  intro k hk
  have hkn : (k : ℝ) ≤ n := by exact_mod_cast Nat.lt_succ_iff.mp (Finset.mem_range.mp hk)
  have h := duality n k z p (by exact_mod_cast hn) hz (by positivity) hkn
  simp only [h]

example : ∑ k ∈ Finset.range (10 + 1),
      (fun _ => (1 : ℝ) / 11) k * (if lowerR (10 : ℕ) k 2 ≤ 0.3 ∧ 0.3 ≤ upperR (10 : ℕ) k 2 then 1 else 0)
    = ∑ k ∈ Finset.range (10 + 1),
      (fun _ => (1 : ℝ) / 11) k * (if ((0.3 : ℝ) - k / (10 : ℕ)) ^ 2 ≤ 2 ^ 2 * (0.3 * (1 - 0.3)) / (10 : ℕ) then 1 else 0) :=
  coverage_form 10 (by norm_num) 2 0.3 (by norm_num) _

/-- The same for the model function: counting an outcome as covered when `ci_wilson` returns an
    interval that contains `p` (`coversB`; a rejected call covers nothing), the coverage of the
    two-sided interval is the weight of the accepted `k` among `2 ≤ k ≤ n − 2` only — the outcomes
    `k < 2` and `k > n − 2`, which the crate rejects, are lost. -/
theorem coverage_form_crate (crit : Crit Rex) (l : Rex) (n : ℕ) (p : ℝ) (w : ℕ → ℝ)
    (hv : Confidence.validLevel l = true)
    (hz : 0 ≤ (crit (.z (Confidence.twoSided l).quantile)).val) :
    ∑ k ∈ Finset.range (n + 1),
        w k * (if coversB crit (.twoSided l) n k p = true then 1 else 0)
      = ∑ k ∈ (Finset.range (n + 1)).filter (fun k => 2 ≤ k ∧ k + 2 ≤ n),
        w k * (if (p - k / n) ^ 2
            ≤ (crit (.z (Confidence.twoSided l).quantile)).val ^ 2 * (p * (1 - p)) / n
          then 1 else 0) := by
  rw [Finset.sum_filter]
  apply Finset.sum_congr rfl
  intro k _
  by_cases hc : 2 ≤ k ∧ k + 2 ≤ n
  · rw [if_pos hc]
    obtain ⟨i, hi, hd⟩ := duality_interval crit (.twoSided l) n k hc.1 hc.2 hv hz
    rw [coversB_of_ok hi]
    simp only [hd p]
  · rw [if_neg hc, coversB_outside crit _ n k p hc]
    simp

example : ∑ k ∈ Finset.range (10 + 1),
      (fun _ => (1 : ℝ) / 11) k * (if coversB (constCrit 2) (.twoSided ⟨0.95⟩) 10 k 0.3 = true then 1 else 0)
    = ∑ k ∈ (Finset.range (10 + 1)).filter (fun k => 2 ≤ k ∧ k + 2 ≤ 10),
      (fun _ => (1 : ℝ) / 11) k * (if ((0.3 : ℝ) - k / (10 : ℕ)) ^ 2
          ≤ ((constCrit 2 : Crit Rex) (.z (Confidence.twoSided (⟨0.95⟩ : Rex)).quantile)).val ^ 2
            * (0.3 * (1 - 0.3)) / (10 : ℕ) then 1 else 0) :=
  coverage_form_crate (constCrit 2) ⟨0.95⟩ 10 0.3 _ (by rw [validLevel_iff]; norm_num)
    (by norm_num [constCrit])

/-! ### 4. the quantile interval: coverage is a statement about two counts -/

section quantile
variable {α : Type} [LinearOrder α]

/-- For the sorted data `s` (the model's `sortData`: `List.mergeSort` with the `≤` test), indices
    `lo`, `hi` in range and any `ξ`:
    `s[lo] ≤ ξ` iff at least `lo + 1` data points are `≤ ξ`; `ξ ≤ s[hi]` iff at most `hi` data points
    are `< ξ`.  So `ξ ∈ [s[lo], s[hi]]` iff `lo + 1 ≤ #{x ≤ ξ}` and `#{x < ξ} ≤ hi` (for a continuous
    distribution the two counts agree almost surely and are Binomial(n, q) at the `q`-quantile `ξ`). -/
theorem quantile_form (xs : List α) (ξ : α) (lo hi : ℕ)
    (hlo : lo < (xs.mergeSort (fun a b => decide (a ≤ b))).length)
    (hhi : hi < (xs.mergeSort (fun a b => decide (a ≤ b))).length) :
    ((xs.mergeSort (fun a b => decide (a ≤ b)))[lo] ≤ ξ
        ↔ lo + 1 ≤ xs.countP (fun x => decide (x ≤ ξ))) ∧
    (ξ ≤ (xs.mergeSort (fun a b => decide (a ≤ b)))[hi]
        ↔ xs.countP (fun x => decide (x < ξ)) ≤ hi) ∧
    ((xs.mergeSort (fun a b => decide (a ≤ b)))[lo] ≤ ξ ∧
      ξ ≤ (xs.mergeSort (fun a b => decide (a ≤ b)))[hi]
        ↔ lo + 1 ≤ xs.countP (fun x => decide (x ≤ ξ)) ∧
          xs.countP (fun x => decide (x < ξ)) ≤ hi) := by
  have h1 := sortL_le_iff xs ξ lo hlo
  have h2 := le_sortL_iff xs ξ hi hhi
  exact ⟨h1, h2, and_congr h1 h2⟩

/-- the sorted version has the length of the data, so `lo ≤ hi < xs.length` are in range -/
theorem sorted_length (xs : List α) :
    (xs.mergeSort (fun a b => decide (a ≤ b))).length = xs.length :=
  List.length_mergeSort _

attribute [local instance] Cmp.ofLinearOrder in
/-- that list is what the model's `Quantile.sortData` produces on a linearly ordered element type
    (no incomparable element, hence no panic) -/
theorem sortData_is_mergeSort {W : Type} [Scalar W] (xs : List α) :
    Quantile.sortData (W := W) xs = .ok (xs.mergeSort (fun a b => decide (a ≤ b))) :=
  sortData_eq xs

end quantile

/-- data `3,1,2` (sorted `1,2,3`), `ξ = 2`, `lo = 0`, `hi = 1`: the indices are in range, and since
    `#{x ≤ 2} = 2 ≥ 1` and `#{x < 2} = 1 ≤ 1`, `s[0] ≤ 2 ≤ s[1]` -/
example : ∃ (h0 : 0 < (([3, 1, 2] : List ℤ).mergeSort (fun a b => decide (a ≤ b))).length)
    (h1 : 1 < (([3, 1, 2] : List ℤ).mergeSort (fun a b => decide (a ≤ b))).length),
    (([3, 1, 2] : List ℤ).mergeSort (fun a b => decide (a ≤ b)))[0] ≤ 2 ∧
    2 ≤ (([3, 1, 2] : List ℤ).mergeSort (fun a b => decide (a ≤ b)))[1] :=
  ⟨by rw [sorted_length]; decide, by rw [sorted_length]; decide,
   (quantile_form ([3, 1, 2] : List ℤ) 2 0 1 _ _).2.2.mpr (by decide)⟩

/-! ### 5. a floor under the exact binomial coverage, for every `n`, `p` and `z` -/

open Binomial in
/-- **Coverage floor.**  `k ~ Bin(n, p)`: the Wilson interval `[lowerR n k z, upperR n k z]`
    contains `p` with probability at least `1 − 1/z²`, whatever `n ≥ 1`, `p ∈ [0,1]`, `z > 0`. -/
theorem coverage_floor (n : ℕ) (hn : 0 < n) (z p : ℝ) (hz : 0 < z) (hp0 : 0 ≤ p) (hp1 : p ≤ 1) :
    1 - 1 / z ^ 2 ≤ ∑ k ∈ Finset.range (n + 1),
      Binomial.pmf n k p * (if lowerR n k z ≤ p ∧ p ≤ upperR n k z then 1 else 0) := by
  rw [coverage_form n hn z p hz.le]
  exact Binomial.score_region_mass n (Nat.pos_iff_ne_zero.mp hn) hp0 hp1 hz

/-- the weights are a probability distribution -/
theorem pmf_is_distribution (n : ℕ) (p : ℝ) (hp0 : 0 ≤ p) (hp1 : p ≤ 1) :
    (∀ k, 0 ≤ Binomial.pmf n k p) ∧ ∑ k ∈ Finset.range (n + 1), Binomial.pmf n k p = 1 :=
  ⟨fun k => Binomial.pmf_nonneg n k hp0 hp1, Binomial.pmf_sum n hp0 hp1⟩

/-- a coverage never exceeds one (so the floor is not met by an ill-normalised sum) -/
theorem coverage_le_one (n : ℕ) (z p : ℝ) (hp0 : 0 ≤ p) (hp1 : p ≤ 1) :
    ∑ k ∈ Finset.range (n + 1),
      Binomial.pmf n k p * (if lowerR n k z ≤ p ∧ p ≤ upperR n k z then 1 else 0) ≤ 1 := by
  refine le_trans (Finset.sum_le_sum (g := fun k => Binomial.pmf n k p) ?_) (Binomial.pmf_sum n hp0 hp1).le
  intro k _
  have := Binomial.pmf_nonneg n k hp0 hp1
  split_ifs <;> simp <;> linarith

/-- **Coverage floor for the model function** (`ci_wilson`, two-sided): the outcomes `k < 2` and
    `k > n − 2`, which the crate rejects, are lost; nothing else is. -/
theorem coverage_floor_crate (crit : Crit Rex) (l : Rex) (n : ℕ) (hn : 0 < n) (p : ℝ)
    (hp0 : 0 ≤ p) (hp1 : p ≤ 1) (hv : Confidence.validLevel l = true)
    (hz : 0 < (crit (.z (Confidence.twoSided l).quantile)).val) :
    1 - 1 / (crit (.z (Confidence.twoSided l).quantile)).val ^ 2 - Binomial.edgeMass n p
      ≤ ∑ k ∈ Finset.range (n + 1),
        Binomial.pmf n k p * (if coversB crit (.twoSided l) n k p = true then 1 else 0) := by
  rw [coverage_form_crate crit l n p _ hv hz.le]
  exact Binomial.score_region_mass_inner n (Nat.pos_iff_ne_zero.mp hn) hp0 hp1 hz

/-- at the same critical value a one-sided interval covers whenever the two-sided one does -/
theorem coverage_one_sided_ge (crit : Crit Rex) (l : Rex) (n k : ℕ) (p : ℝ)
    (hp0 : 0 ≤ p) (hp1 : p ≤ 1) (hv : Confidence.validLevel l = true)
    (hzq : ∀ c : Confidence Rex, 0 ≤ (crit (.z c.quantile)).val)
    (hsame : (crit (.z (Confidence.upper l).quantile)).val = (crit (.z (Confidence.twoSided l).quantile)).val ∧
             (crit (.z (Confidence.lower l).quantile)).val = (crit (.z (Confidence.twoSided l).quantile)).val)
    (h2 : coversB crit (.twoSided l) n k p = true) :
    coversB crit (.upper l) n k p = true ∧ coversB crit (.lower l) n k p = true := by
  by_cases hc : 2 ≤ k ∧ k + 2 ≤ n
  · obtain ⟨i2, hi2, hd2⟩ := duality_interval crit (.twoSided l) n k hc.1 hc.2 hv (hzq _)
    obtain ⟨iu, hiu, hdu⟩ := duality_interval crit (.upper l) n k hc.1 hc.2 hv (hzq _)
    obtain ⟨il, hil, hdl⟩ := duality_interval crit (.lower l) n k hc.1 hc.2 hv (hzq _)
    rw [coversB_of_ok hi2] at h2
    rw [coversB_of_ok hiu, coversB_of_ok hil]
    have hs := (hd2 p).mp h2
    set z := (crit (.z (Confidence.twoSided l).quantile)).val with hzdef
    have hz0 : 0 ≤ z := hzq _
    have hn : (0 : ℝ) < n := by exact_mod_cast (by omega : 0 < n)
    have hv0 : 0 ≤ p * (1 - p) / n := by
      have : 0 ≤ 1 - p := by linarith
      positivity
    have habs : |p - k / n| ≤ z * Real.sqrt (p * (1 - p) / n) := by
      have h1 : (p - k / n) ^ 2 ≤ z ^ 2 * (p * (1 - p) / n) := by
        calc (p - k / n) ^ 2 ≤ z ^ 2 * (p * (1 - p)) / n := hs
          _ = z ^ 2 * (p * (1 - p) / n) := by ring
      have h2' := Real.abs_le_sqrt h1
      rwa [Real.sqrt_mul (sq_nonneg z), Real.sqrt_sq hz0] at h2'
    have hab := abs_le.mp habs
    refine ⟨(hdu p hp1).mpr ?_, (hdl p hp0).mpr ?_⟩
    · rw [hsame.1]; linarith [hab.1]
    · rw [hsame.2]; linarith [hab.2]
  · rw [coversB_outside crit _ n k p hc] at h2
    exact absurd h2 (by simp)

/-- **One-sided coverage floor** (Cantelli's inequality for the binomial distribution): the lower
    confidence bound — the finite end of the upper one-sided interval `[lowerR n k z, 1]` — lies below `p`
    with probability at least `1 − 1/(1 + z²) = z²/(1 + z²)`, for every `n ≥ 1`, `p ∈ [0, 1]`, `z > 0`
    (sharper than the two-sided floor `1 − 1/z²`: 0.73 instead of 0.63 at `z = 1.645`). -/
theorem coverage_floor_lower_bound (n : ℕ) (hn : 0 < n) (z p : ℝ) (hz : 0 < z) (hp0 : 0 ≤ p)
    (hp1 : p ≤ 1) :
    1 - 1 / (1 + z ^ 2) ≤ ∑ k ∈ Finset.range (n + 1),
      Binomial.pmf n k p * (if lowerR n k z ≤ p then 1 else 0) := by
  have h := Binomial.one_sided_region_mass n (Nat.pos_iff_ne_zero.mp hn) (s := 1) (by norm_num)
    hp0 hp1 hz
  refine le_trans h (le_of_eq (Finset.sum_congr rfl ?_))
  intro k hk
  have hkn : (k : ℝ) ≤ n := by exact_mod_cast Nat.lt_succ_iff.mp (Finset.mem_range.mp hk)
  have hd := duality_lower_bound n k z p (by exact_mod_cast hn) hz.le (by positivity) hkn
  simp only [one_mul, hd]

/-- the same for the upper confidence bound (the finite end of the lower one-sided interval
    `[0, upperR n k z]`) -/
theorem coverage_floor_upper_bound (n : ℕ) (hn : 0 < n) (z p : ℝ) (hz : 0 < z) (hp0 : 0 ≤ p)
    (hp1 : p ≤ 1) :
    1 - 1 / (1 + z ^ 2) ≤ ∑ k ∈ Finset.range (n + 1),
      Binomial.pmf n k p * (if p ≤ upperR n k z then 1 else 0) := by
  have h := Binomial.one_sided_region_mass n (Nat.pos_iff_ne_zero.mp hn) (s := -1) (by norm_num)
    hp0 hp1 hz
  refine le_trans h (le_of_eq (Finset.sum_congr rfl ?_))
  intro k hk
  have hkn : (k : ℝ) ≤ n := by exact_mod_cast Nat.lt_succ_iff.mp (Finset.mem_range.mp hk)
  have hd := duality_upper_bound n k z p (by exact_mod_cast hn) hz.le (by positivity) hkn
  have e : (-1 : ℝ) * ((k : ℝ) / n - p) = p - k / n := by ring
  simp only [e, hd]

example : 1 - 1 / (1 + (2 : ℝ) ^ 2) ≤ ∑ k ∈ Finset.range (10 + 1),
      Binomial.pmf 10 k 0.3 * (if lowerR (10 : ℕ) k 2 ≤ 0.3 then 1 else 0) :=
  coverage_floor_lower_bound 10 (by norm_num) 2 0.3 (by norm_num) (by norm_num) (by norm_num)

/-- the floor is not vacuous: `n = 10`, `p = 0.3`, `z = 2` — at least 3/4 of the mass is covered -/
example : 1 - 1 / (2 : ℝ) ^ 2 ≤ ∑ k ∈ Finset.range (10 + 1),
      Binomial.pmf 10 k 0.3 * (if lowerR (10 : ℕ) k 2 ≤ 0.3 ∧ 0.3 ≤ upperR (10 : ℕ) k 2 then 1 else 0) :=
  coverage_floor 10 (by norm_num) 2 0.3 (by norm_num) (by norm_num) (by norm_num)

example : 1 - 1 / ((constCrit 2 : Crit Rex) (.z (Confidence.twoSided (⟨0.95⟩ : Rex)).quantile)).val ^ 2
      - Binomial.edgeMass 10 0.3
    ≤ ∑ k ∈ Finset.range (10 + 1),
      Binomial.pmf 10 k 0.3 * (if coversB (constCrit 2) (.twoSided ⟨0.95⟩) 10 k 0.3 = true then 1 else 0) :=
  coverage_floor_crate (constCrit 2) ⟨0.95⟩ 10 (by norm_num) 0.3 (by norm_num) (by norm_num)
    (by rw [validLevel_iff]; norm_num) (by norm_num [constCrit])

end StatsCI.C12
