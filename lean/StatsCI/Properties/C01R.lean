/-
  C01R — Forward rounding-error bounds for the one-sample mean interval.

  The same model functions (`Arith.fromList`, `Arith.mean`, `Arith.variance`, `Arith.stdDev`,
  `Arith.ci`) are run at the carrier `RR fl` (ℝ with a rounding function `fl` applied after every
  operation) and at `Rex = RR id` (exact arithmetic), on the same real data `xs`, and the results
  are compared.  Hypotheses on `(fl, u, xs)`, the same in every theorem:

  * `hfl  : ∀ x, |fl x − x| ≤ u·|x|`, `hu : 0 ≤ u` — relative rounding error at most `u`;
  * `hn   : 2 ≤ n` (`n = xs.length`), `hs : n·u ≤ 1/1024` — enough data, `u` small;
  * `hnat : ∀ m ≤ n, fl m = m` — the counts `n`, `n − 1` are exactly representable.

  Not modelled (as everywhere at `RR fl`): overflow, NaN, gradual underflow.

  Constants: `Σ`-register `11u`, `Σ²`-register `13u` (from C08 `sequential`: `10u + 9(n+2)u²`
  and `n·u ≤ 1/1024`), mean `13`, variance `44`, standard deviation `46` (relative form) / `49`
  (square-root form), interval `15`, `1 + 8u`, `7`; `κ`-form `47`.  They are not tight.

  The variance bound is in units of `u·Σx²/(n − 1)`, not of `u·s²`: the one-pass formula
  `(Σx² − x̄·Σx)/(n − 1)` the crate uses loses accuracy like `κ = Σx²/((n − 1)s²)`.
-/
import StatsCI.Lemmas.MeanRound

namespace StatsCI.C01R
open StatsCI StatsCI.MeanLemmas StatsCI.MeanRound NumOps Scalar

variable {fl : ℝ → ℝ} {u : ℝ}

/-! ### 0. the registers -/

/-- the two Kahan registers after `from_iter(xs)` at `RR fl`: `|sum.value() − Σx| ≤ 11u·Σ|x|` and
    `|sum_sq.value() − Σx²| ≤ 13u·Σx²` (the squares are themselves rounded) -/
theorem registers_error (hfl : ∀ x, |fl x - x| ≤ u * |x|) (hu : 0 ≤ u) (xs : List ℝ)
    (hn : 2 ≤ xs.length) (hs : (xs.length : ℝ) * u ≤ 1 / 1024) :
    |(Arith.fromList (xs.map inj) : Arith (RR fl)).sum.value.val - xs.sum| ≤
      11 * u * (xs.map abs).sum ∧
    |(Arith.fromList (xs.map inj) : Arith (RR fl)).sumSq.value.val - (xs.map (fun x => x * x)).sum| ≤
      13 * u * (xs.map (fun x => x * x)).sum :=
  ⟨sum_value_bound hfl hu xs hn hs, sumSq_value_bound hfl hu xs hn hs⟩

/-! ### 1. mean -/

/-- **Mean.** `|mean_fl − mean_exact| ≤ 13·u·Σ|x|/n`; `mean_exact = Σx/n` (C01 `mean_exact`). -/
theorem mean_error (hfl : ∀ x, |fl x - x| ≤ u * |x|) (hu : 0 ≤ u) (xs : List ℝ)
    (hn : 2 ≤ xs.length) (hs : (xs.length : ℝ) * u ≤ 1 / 1024)
    (hnat : ∀ m : ℕ, m ≤ xs.length → fl m = m) :
    |(Arith.fromList (xs.map inj) : Arith (RR fl)).mean.val
        - (Arith.fromList (xs.map inj) : Arith Rex).mean.val| ≤
      13 * u * ((xs.map abs).sum / xs.length) := by
  rw [Arith.fromList_mean]
  exact mean_bound hfl hu xs hn hs hnat

/-! ### 2. variance -/

/-- **Variance.** `|variance_fl − variance_exact| ≤ 44·u·Σx²/(n − 1)`, for the clamped value
    `sample_variance()` returns; `variance_exact = Σ(x − x̄)²/(n − 1)` (C01 `variance_exact`).
    The clamp at zero is handled inside: the exact variance is non-negative, so replacing a
    negative computed value by `0` moves it towards the exact one. -/
theorem variance_error (hfl : ∀ x, |fl x - x| ≤ u * |x|) (hu : 0 ≤ u) (xs : List ℝ)
    (hn : 2 ≤ xs.length) (hs : (xs.length : ℝ) * u ≤ 1 / 1024)
    (hnat : ∀ m : ℕ, m ≤ xs.length → fl m = m) :
    |(Arith.fromList (xs.map inj) : Arith (RR fl)).variance.val
        - (Arith.fromList (xs.map inj) : Arith Rex).variance.val| ≤
      44 * u * ((xs.map (fun x => x * x)).sum / ((xs.length : ℝ) - 1)) := by
  rw [Arith.fromList_variance xs hn]
  exact variance_bound hfl hu xs hn hs hnat

/-- the computed variance is non-negative (the clamp), and `variance?` (the crate's function,
    with its `count − 1` underflow guard) returns it -/
theorem variance_nonneg_and_total (xs : List ℝ) (hn : 2 ≤ xs.length) :
    0 ≤ (Arith.fromList (xs.map inj) : Arith (RR fl)).variance.val ∧
    (Arith.fromList (xs.map inj) : Arith (RR fl)).variance? =
      some (Arith.fromList (xs.map inj) : Arith (RR fl)).variance := by
  refine ⟨variance_nonneg _, ?_⟩
  have hc : ¬ (Arith.fromList (xs.map inj) : Arith (RR fl)).count = 0 := by
    rw [fromList_count']; omega
  unfold Arith.variance? Arith.variance
  simp [hc]

/-! ### 3. standard deviation -/

/-- **Standard deviation, square-root form** (valid also when `sd_exact = 0`):
    `|sd_fl − sd_exact| ≤ √(49·u·Σx²/(n − 1))`. -/
theorem stdDev_error_sqrt (hfl : ∀ x, |fl x - x| ≤ u * |x|) (hu : 0 ≤ u) (xs : List ℝ)
    (hn : 2 ≤ xs.length) (hs : (xs.length : ℝ) * u ≤ 1 / 1024)
    (hnat : ∀ m : ℕ, m ≤ xs.length → fl m = m) :
    |(Arith.fromList (xs.map inj) : Arith (RR fl)).stdDev.val
        - (Arith.fromList (xs.map inj) : Arith Rex).stdDev.val| ≤
      Real.sqrt (49 * u * ((xs.map (fun x => x * x)).sum / ((xs.length : ℝ) - 1))) := by
  rw [Arith.fromList_stdDev xs hn]
  have e : Real.sqrt (49 * u * ((xs.map (fun x => x * x)).sum / ((xs.length : ℝ) - 1))) =
      7 * Real.sqrt (u * ((xs.map (fun x => x * x)).sum / ((xs.length : ℝ) - 1))) := by
    rw [mul_assoc, Real.sqrt_mul (by norm_num : (0 : ℝ) ≤ 49),
      show (49 : ℝ) = 7 ^ 2 by norm_num, Real.sqrt_sq (by norm_num : (0 : ℝ) ≤ 7)]
  rw [e]
  exact (stdDev_bound hfl hu xs hn hs hnat).1

/-- **Standard deviation, relative form**: if `sd_exact > 0`,
    `|sd_fl − sd_exact| ≤ 46·u·Σx²/((n − 1)·sd_exact)`. -/
theorem stdDev_error_rel (hfl : ∀ x, |fl x - x| ≤ u * |x|) (hu : 0 ≤ u) (xs : List ℝ)
    (hn : 2 ≤ xs.length) (hs : (xs.length : ℝ) * u ≤ 1 / 1024)
    (hnat : ∀ m : ℕ, m ≤ xs.length → fl m = m)
    (hpos : 0 < (Arith.fromList (xs.map inj) : Arith Rex).stdDev.val) :
    |(Arith.fromList (xs.map inj) : Arith (RR fl)).stdDev.val
        - (Arith.fromList (xs.map inj) : Arith Rex).stdDev.val| ≤
      46 * u * ((xs.map (fun x => x * x)).sum / ((xs.length : ℝ) - 1))
        / (Arith.fromList (xs.map inj) : Arith Rex).stdDev.val := by
  rw [Arith.fromList_stdDev xs hn] at hpos ⊢
  rw [le_div_iff₀ hpos]
  exact (stdDev_bound hfl hu xs hn hs hnat).2

/-- **Standard deviation.** Both forms at once, for `sd_exact > 0`. -/
theorem stdDev_error (hfl : ∀ x, |fl x - x| ≤ u * |x|) (hu : 0 ≤ u) (xs : List ℝ)
    (hn : 2 ≤ xs.length) (hs : (xs.length : ℝ) * u ≤ 1 / 1024)
    (hnat : ∀ m : ℕ, m ≤ xs.length → fl m = m)
    (hpos : 0 < (Arith.fromList (xs.map inj) : Arith Rex).stdDev.val) :
    |(Arith.fromList (xs.map inj) : Arith (RR fl)).stdDev.val
        - (Arith.fromList (xs.map inj) : Arith Rex).stdDev.val| ≤
      min (46 * u * ((xs.map (fun x => x * x)).sum / ((xs.length : ℝ) - 1))
            / (Arith.fromList (xs.map inj) : Arith Rex).stdDev.val)
          (Real.sqrt (49 * u * ((xs.map (fun x => x * x)).sum / ((xs.length : ℝ) - 1)))) :=
  le_min (stdDev_error_rel hfl hu xs hn hs hnat hpos) (stdDev_error_sqrt hfl hu xs hn hs hnat)

/-! ### 4. the interval -/

/-- the reference: at exact arithmetic with the constant critical value `c` the interval is
    built from `x̄ ∓ c·s/√n` (C01 `bounds` at `crit = constCrit c`) -/
theorem interval_exact (c : ℝ) (conf : Confidence Rex) (xs : List ℝ) (hn : 2 ≤ xs.length)
    (h0 : 0 < conf.level.val) (h1 : conf.level.val < 1) :
    Arith.ci (constCrit c) conf (xs.map inj) =
      intervalOfKind conf (⟨smean xs - c * (ssd xs / Real.sqrt xs.length)⟩ : Rex)
        ⟨smean xs + c * (ssd xs / Real.sqrt xs.length)⟩ := by
  rw [Arith.ci_rex (constCrit c) conf xs hn (probOk_quantile conf h0 h1)]
  simp only [halfWidth, critVal, constCrit, mul_div_assoc]

/-- **Interval bounds, error of the standard deviation explicit.** At `RR fl`, with a constant
    critical value `c ≥ 0` and a probability the quantile routine accepts, `Arithmetic::ci` passes
    its guards and hands two bounds `lo`, `hi` to the interval constructor of the kind of `conf`;
    each differs from the exact `x̄ ∓ c·s/√n` by at most
    `15·u·Σ|x|/n + (1 + 8u)·c·|sd_fl − s|/√n + 7·u·c·s/√n`. -/
theorem interval_error (hfl : ∀ x, |fl x - x| ≤ u * |x|) (hu : 0 ≤ u) (xs : List ℝ)
    (hn : 2 ≤ xs.length) (hs : (xs.length : ℝ) * u ≤ 1 / 1024)
    (hnat : ∀ m : ℕ, m ≤ xs.length → fl m = m) (c : ℝ) (hc : 0 ≤ c)
    (conf : Confidence (RR fl)) (hp : probOk conf.quantile = true) :
    ∃ lo hi : ℝ,
      Arith.ci (constCrit c) conf (xs.map inj) = intervalOfKind conf (⟨lo⟩ : RR fl) ⟨hi⟩ ∧
      |lo - (smean xs - c * (ssd xs / Real.sqrt xs.length))| ≤
        15 * u * ((xs.map abs).sum / xs.length)
          + (1 + 8 * u) * (c * (|(Arith.fromList (xs.map inj) : Arith (RR fl)).stdDev.val - ssd xs|
              / Real.sqrt xs.length))
          + 7 * u * (c * (ssd xs / Real.sqrt xs.length)) ∧
      |hi - (smean xs + c * (ssd xs / Real.sqrt xs.length))| ≤
        15 * u * ((xs.map abs).sum / xs.length)
          + (1 + 8 * u) * (c * (|(Arith.fromList (xs.map inj) : Arith (RR fl)).stdDev.val - ssd xs|
              / Real.sqrt xs.length))
          + 7 * u * (c * (ssd xs / Real.sqrt xs.length)) := by
  have hcount := fromList_count' (fl := fl) xs
  refine ⟨loFl (fl := fl) (Arith.fromList (xs.map inj)) c,
    hiFl (fl := fl) (Arith.fromList (xs.map inj)) c, ?_, ?_⟩
  · unfold Arith.ci
    exact ciMean_fl _ c conf (by rw [hcount]; exact hn) (by rw [hcount]; exact hnat) hp
  · exact bounds_bound hfl hu xs hn hs hnat c hc

/-- **Interval bounds, closed form valid for every sample** (also `s = 0`):
    `15·u·Σ|x|/n + (1 + 8u)·c·7·√(u·Σx²/(n − 1))/√n + 7·u·c·s/√n`. -/
theorem interval_error_sqrt (hfl : ∀ x, |fl x - x| ≤ u * |x|) (hu : 0 ≤ u) (xs : List ℝ)
    (hn : 2 ≤ xs.length) (hs : (xs.length : ℝ) * u ≤ 1 / 1024)
    (hnat : ∀ m : ℕ, m ≤ xs.length → fl m = m) (c : ℝ) (hc : 0 ≤ c)
    (conf : Confidence (RR fl)) (hp : probOk conf.quantile = true) :
    ∃ lo hi : ℝ,
      Arith.ci (constCrit c) conf (xs.map inj) = intervalOfKind conf (⟨lo⟩ : RR fl) ⟨hi⟩ ∧
      |lo - (smean xs - c * (ssd xs / Real.sqrt xs.length))| ≤
        15 * u * ((xs.map abs).sum / xs.length)
          + (1 + 8 * u) * (c * (7 * Real.sqrt (u * ((xs.map (fun x => x * x)).sum
              / ((xs.length : ℝ) - 1))) / Real.sqrt xs.length))
          + 7 * u * (c * (ssd xs / Real.sqrt xs.length)) ∧
      |hi - (smean xs + c * (ssd xs / Real.sqrt xs.length))| ≤
        15 * u * ((xs.map abs).sum / xs.length)
          + (1 + 8 * u) * (c * (7 * Real.sqrt (u * ((xs.map (fun x => x * x)).sum
              / ((xs.length : ℝ) - 1))) / Real.sqrt xs.length))
          + 7 * u * (c * (ssd xs / Real.sqrt xs.length)) := by
  have hcount := fromList_count' (fl := fl) xs
  refine ⟨loFl (fl := fl) (Arith.fromList (xs.map inj)) c,
    hiFl (fl := fl) (Arith.fromList (xs.map inj)) c, ?_, ?_⟩
  · unfold Arith.ci
    exact ciMean_fl _ c conf (by rw [hcount]; exact hn) (by rw [hcount]; exact hnat) hp
  · exact bounds_bound_of_le hfl hu xs hn hs hnat c hc (stdDev_bound hfl hu xs hn hs hnat).1

/-- **Interval bounds, `κ`-form** (the shape of the tolerance of the differential test,
    `16·u·(mean|x| + halfwidth·(1 + κ))`, as a theorem with the constant `47`): for `s² > 0`, with
    `κ = Σx²/((n − 1)·s²)` and `halfwidth = c·s/√n`, each bound computed at `RR fl` differs from
    the exact one by at most `47·u·(Σ|x|/n + halfwidth·(1 + κ))`. -/
theorem interval_error_kappa (hfl : ∀ x, |fl x - x| ≤ u * |x|) (hu : 0 ≤ u) (xs : List ℝ)
    (hn : 2 ≤ xs.length) (hs : (xs.length : ℝ) * u ≤ 1 / 1024)
    (hnat : ∀ m : ℕ, m ≤ xs.length → fl m = m) (c : ℝ) (hc : 0 ≤ c)
    (conf : Confidence (RR fl)) (hp : probOk conf.quantile = true) (hpos : 0 < svar xs) :
    ∃ lo hi : ℝ,
      Arith.ci (constCrit c) conf (xs.map inj) = intervalOfKind conf (⟨lo⟩ : RR fl) ⟨hi⟩ ∧
      |lo - (smean xs - c * (ssd xs / Real.sqrt xs.length))| ≤
        47 * u * ((xs.map abs).sum / xs.length + c * (ssd xs / Real.sqrt xs.length) *
          (1 + (xs.map (fun x => x * x)).sum / ((xs.length : ℝ) - 1) / svar xs)) ∧
      |hi - (smean xs + c * (ssd xs / Real.sqrt xs.length))| ≤
        47 * u * ((xs.map abs).sum / xs.length + c * (ssd xs / Real.sqrt xs.length) *
          (1 + (xs.map (fun x => x * x)).sum / ((xs.length : ℝ) - 1) / svar xs)) := by
  have hN : (2 : ℝ) ≤ xs.length := by exact_mod_cast hn
  have hu' := u_small hu hN hs
  have hcount := fromList_count' (fl := fl) xs
  have hsd : 0 < ssd xs := Real.sqrt_pos.mpr hpos
  have hR : 0 < Real.sqrt xs.length := Real.sqrt_pos.mpr (by linarith)
  have hrel : |(Arith.fromList (xs.map inj) : Arith (RR fl)).stdDev.val - ssd xs| ≤
      46 * u * (sumSq xs / ((xs.length : ℝ) - 1)) / ssd xs := by
    rw [le_div_iff₀ hsd]
    exact (stdDev_bound hfl hu xs hn hs hnat).2
  obtain ⟨b1, b2⟩ := bounds_bound_of_le hfl hu xs hn hs hnat c hc hrel
  have hX : 0 ≤ KahanLemmas.sumAbs xs / (xs.length : ℝ) :=
    div_nonneg (KahanLemmas.sumAbs_nonneg xs) (by linarith)
  have hY : 0 ≤ sumSq xs / ((xs.length : ℝ) - 1) := div_nonneg (sumSq_nonneg xs) (by linarith)
  have hk := kappa_form hu hu' hX hY hsd hR hc
  have hss : ssd xs * ssd xs = svar xs := Real.mul_self_sqrt hpos.le
  rw [hss] at hk
  refine ⟨loFl (fl := fl) (Arith.fromList (xs.map inj)) c,
    hiFl (fl := fl) (Arith.fromList (xs.map inj)) c, ?_, ?_, ?_⟩
  · unfold Arith.ci
    exact ciMean_fl _ c conf (by rw [hcount]; exact hn) (by rw [hcount]; exact hnat) hp
  · exact le_trans b1 hk
  · exact le_trans b2 hk

/-! ### non-vacuity -/

/-- the hypotheses on `(fl, u, xs)` are met by exact arithmetic … -/
example : (∀ x : ℝ, |id x - x| ≤ 0 * |x|) ∧ (0 : ℝ) ≤ 0 ∧ 2 ≤ [(1 : ℝ), 2, 4].length ∧
    (([(1 : ℝ), 2, 4].length : ℕ) : ℝ) * 0 ≤ 1 / 1024 ∧
    (∀ m : ℕ, m ≤ [(1 : ℝ), 2, 4].length → id (m : ℝ) = m) := by
  refine ⟨by intro x; simp, le_refl _, by simp, by norm_num, by intro m _; rfl⟩

/-- … and by a rounding function that is not the identity: `fl x = x` on the natural numbers,
    `fl x = x·(1 + 2⁻¹²)` elsewhere, `u = 2⁻¹²`, three observations -/
example : ∃ (fl : ℝ → ℝ) (u : ℝ) (xs : List ℝ), (∀ x, |fl x - x| ≤ u * |x|) ∧ 0 ≤ u ∧
    2 ≤ xs.length ∧ (xs.length : ℝ) * u ≤ 1 / 1024 ∧ (∀ m : ℕ, m ≤ xs.length → fl m = m) ∧
    fl (1 / 2) ≠ 1 / 2 := by
  classical
  refine ⟨fun x => if ∃ m : ℕ, (m : ℝ) = x then x else x * (1 + 1 / 4096), 1 / 4096,
    [1 / 2, 2, 4], ?_, by norm_num, by simp, by norm_num, ?_, ?_⟩
  · intro x
    show |(if ∃ m : ℕ, (m : ℝ) = x then x else x * (1 + 1 / 4096)) - x| ≤ 1 / 4096 * |x|
    split_ifs with h
    · simp only [sub_self, abs_zero]
      positivity
    · have : x * (1 + 1 / 4096) - x = 1 / 4096 * x := by ring
      rw [this, abs_mul]
      norm_num
  · intro m _
    show (if ∃ k : ℕ, (k : ℝ) = (m : ℝ) then (m : ℝ) else (m : ℝ) * (1 + 1 / 4096)) = m
    rw [if_pos ⟨m, rfl⟩]
  · show (if ∃ m : ℕ, (m : ℝ) = 1 / 2 then (1 / 2 : ℝ) else 1 / 2 * (1 + 1 / 4096)) ≠ 1 / 2
    have hno : ¬ ∃ m : ℕ, (m : ℝ) = 1 / 2 := by
      rintro ⟨m, hm⟩
      rcases Nat.eq_zero_or_pos m with h | h
      · rw [h] at hm; norm_num at hm
      · have : (1 : ℝ) ≤ m := by exact_mod_cast h
        linarith
    rw [if_neg hno]
    norm_num

/-- the probability hypothesis of the interval theorems holds for a one-sided confidence at every
    `fl` (no arithmetic is performed on the level) -/
example (fl : ℝ → ℝ) : probOk (Confidence.upper (⟨0.95⟩ : RR fl)).quantile = true := by
  simp [probOk, Confidence.quantile]
  constructor <;> norm_num

/-- … and for the two-sided 95% confidence at exact arithmetic -/
example : probOk (Confidence.twoSided (⟨0.95⟩ : Rex)).quantile = true :=
  probOk_quantile _ (by simp [Confidence.level]; norm_num) (by simp [Confidence.level]; norm_num)

/-- `s² > 0` (hypothesis of the `κ`-form and of the relative form): the sample `1, 2, 4` -/
example : 0 < svar [1, 2, 4] ∧
    0 < (Arith.fromList (([1, 2, 4] : List ℝ).map inj) : Arith Rex).stdDev.val := by
  have h : 0 < svar [1, 2, 4] := by
    simp [svar, sdev2, smean]
    norm_num
  refine ⟨h, ?_⟩
  rw [Arith.fromList_stdDev _ (by simp)]
  exact Real.sqrt_pos.mpr h

end StatsCI.C01R
