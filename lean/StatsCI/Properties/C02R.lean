/-
  C02R — forward rounding-error bound for the proportion intervals: under the standard model of
  floating-point arithmetic the Wilson score interval computed by the model at `RR fl` is within
  `8 u` of the interval the same model computes in exact arithmetic (`Rex = RR id`), uniformly in
  the counts and in the critical value; the Wald interval is within `(2.01 + 1.2 |z|) u`.

  Setting.  `fl : ℝ → ℝ` is applied after every arithmetic operation of the model (`RR fl`).
  Hypotheses on `fl`, always explicit:
    `hfl  : ∀ x, |fl x - x| ≤ u * |x|`       the standard model, unit roundoff `u`
    `hu0  : 0 ≤ u`,  `hu : u ≤ 1 / 1024`      (`2⁻¹⁰`; `f64` has `u = 2⁻⁵³`)
    `hnat : ∀ m : ℕ, m ≤ n → fl m = m`        counts up to the population are exact
                                              (true of `f64` below `2⁵³`)
  and, only where stated, `hmono : Monotone fl` (true of every IEEE rounding mode).
  Not modelled by `RR fl`: overflow, NaN, gradual underflow (see `Lemmas/RR.lean`).

  Abbreviations (all reducible):
    `flCentre fl n k z := (wilsonCentre ⟨n⟩ ⟨k⟩ ⟨z⟩ : RR fl).val`   the model's centre at `RR fl`
    `flSpan   fl n k z := (wilsonSpan   ⟨n⟩ ⟨k⟩ ⟨z⟩ : RR fl).val`   the model's span at `RR fl`
    `mCentre n k z = flCentre id n k z`, `mSpan n k z = flSpan id n k z`  (exact arithmetic, C02)
  The critical value `z` is the same real number on both sides: it is what `z_value` returns
  (`zValue crit conf = .ok ⟨z⟩`), e.g. from a constant oracle `constCrit z`.

  The clamp.  `ci_wilson` clamps its two bounds into `[0, 1]` before it builds the interval:
  `low = (mean - span).max(0.)`, `high = (mean + span).min(1.)` (`Proportion.finishWilson`).  In
  exact arithmetic the clamp never acts on the domain (both roots are proportions, C02); at `RR fl`
  it can.  Hence (a) for *every* `fl`, without any hypothesis, an `Ok` result of `ciWilson` has
  `0 ≤ lo ≤ hi ≤ 1` (`ciWilson_ok_in_unit`); (b) the distance theorems keep their constants,
  because clamping a computed bound towards `[0, 1]` never moves it further from an exact bound that
  lies in `[0, 1]` (`clamped_bounds_rounding`).  The Wald function `ci_z_normal` does not clamp.

  What comes out.  The bound does **not** grow with `z`: every quantity of the Wilson formula is a
  quotient/product/sum of non-negative numbers or a square root (no cancellation), so centre and
  span carry *relative* errors `≤ 7 u`, and `0 ≤ centre`, `centre + |span| ≤ 1` turn that into the
  absolute bound `8 u` for `centre ∓ span` including the final subtraction/addition.  The form
  `C·u·(1 + z²)` asked for is therefore a corollary with `C = 8` (`bounds_rounding_zsq`).

  What needs more than the standard model.  Whether `Interval::new` *accepts* the rounded, clamped
  pair is a comparison of two rounded numbers; the standard model alone does not decide it (see
  `ciWilson_rounding_statement`, refuted by `ciWilson_rounding_statement_false`: the clamp does not
  help, the offending pair lies strictly inside `(0, 1)`).  It is decided (a) when `fl` is monotone
  and `0 ≤ z` (`ciWilson_rounding`), or (b) when the exact interval is wider than `16 u`
  (`ciWilson_rounding_of_width`); in general the rounded call returns the rounded, clamped pair or
  `InvalidBounds` (`ciWilson_rounding_general`).
-/
import StatsCI.Lemmas.WilsonRound

namespace StatsCI.C02R
open StatsCI Proportion Wilson WilsonRound

variable {fl : ℝ → ℝ} {u : ℝ}

/-! ## 1. centre, span, and the two bounds -/

/-- the Wilson centre: relative error `7 u`, hence absolute error `7 u` (the centre is in `[0,1]`) -/
theorem centre_rounding (hfl : ∀ x, |fl x - x| ≤ u * |x|) (hu0 : 0 ≤ u) (hu : u ≤ 1 / 1024)
    (n k : ℕ) (hnat : ∀ m : ℕ, m ≤ n → fl m = m) (hk : 2 ≤ k) (hkn : k + 2 ≤ n) (z : ℝ) :
    |flCentre fl n k z - mCentre n k z| ≤ 7 * u * mCentre n k z ∧
    |flCentre fl n k z - mCentre n k z| ≤ 7 * u ∧
    0 ≤ mCentre n k z ∧ mCentre n k z ≤ 1 := by
  obtain ⟨c0, c1, _, _⟩ := centre_span_facts n k (by omega) (by omega) z
  have h := flCentre_relErr hfl hu0 hu n k hnat (by omega) z
  simp only [mCentre, wilsonCentre_val]
  unfold RelErr at h
  rw [abs_of_nonneg c0] at h
  have huc : 0 ≤ u * centre n k z := mul_nonneg hu0 c0
  have h1 : u * centre n k z ≤ u * 1 := mul_le_mul_of_nonneg_left c1 hu0
  have e1 : 6.03 * u * centre n k z = 6.03 * (u * centre n k z) := by ring
  have e2 : 7 * u * centre n k z = 7 * (u * centre n k z) := by ring
  rw [e1] at h
  rw [e2]
  refine ⟨by linarith, by linarith, c0, c1⟩

/-- the Wilson span: relative error `7 u`, hence absolute error `3.5 u` (`|span| ≤ 1/2`) -/
theorem span_rounding (hfl : ∀ x, |fl x - x| ≤ u * |x|) (hu0 : 0 ≤ u) (hu : u ≤ 1 / 1024)
    (n k : ℕ) (hnat : ∀ m : ℕ, m ≤ n → fl m = m) (hk : 2 ≤ k) (hkn : k + 2 ≤ n) (z : ℝ) :
    |flSpan fl n k z - mSpan n k z| ≤ 7 * u * |mSpan n k z| ∧
    |flSpan fl n k z - mSpan n k z| ≤ 7 / 2 * u ∧
    |mSpan n k z| ≤ 1 / 2 := by
  obtain ⟨_, _, _, s1⟩ := centre_span_facts n k (by omega) (by omega) z
  have h := flSpan_relErr hfl hu0 hu n k hnat (by omega) (by omega) z
  simp only [mSpan, wilsonSpan_val]
  unfold RelErr at h
  have hus : 0 ≤ u * |span n k z| := mul_nonneg hu0 (abs_nonneg _)
  have h1 : u * |span n k z| ≤ u * (1 / 2) := mul_le_mul_of_nonneg_left s1 hu0
  have e1 : 6.56 * u * |span n k z| = 6.56 * (u * |span n k z|) := by ring
  have e2 : 7 * u * |span n k z| = 7 * (u * |span n k z|) := by ring
  rw [e1] at h
  rw [e2]
  refine ⟨by linarith, by linarith, s1⟩

/-- both rounded bounds `fl (centre' ∓ span')` are within `8 u` of the exact `centre ∓ span`,
    for every real `z` and all counts on the domain -/
theorem bounds_rounding (hfl : ∀ x, |fl x - x| ≤ u * |x|) (hu0 : 0 ≤ u) (hu : u ≤ 1 / 1024)
    (n k : ℕ) (hnat : ∀ m : ℕ, m ≤ n → fl m = m) (hk : 2 ≤ k) (hkn : k + 2 ≤ n) (z : ℝ) :
    |fl (flCentre fl n k z - flSpan fl n k z) - (mCentre n k z - mSpan n k z)| ≤ 8 * u ∧
    |fl (flCentre fl n k z + flSpan fl n k z) - (mCentre n k z + mSpan n k z)| ≤ 8 * u := by
  obtain ⟨c0, _, cs, _⟩ := centre_span_facts n k (by omega) (by omega) z
  simp only [mCentre, mSpan, wilsonCentre_val, wilsonSpan_val]
  exact bound_err hfl hu0 hu (flCentre_relErr hfl hu0 hu n k hnat (by omega) z)
    (flSpan_relErr hfl hu0 hu n k hnat (by omega) (by omega) z) c0 cs

/-- the bounds `ci_wilson` actually returns are the clamped ones, `max (fl (centre' - span')) 0` and
    `min (fl (centre' + span')) 1`: they are within the same `8 u` of the exact `centre ∓ span`
    (clamping towards `[0, 1]` never moves a number away from a proportion), and they are
    proportions themselves -/
theorem clamped_bounds_rounding (hfl : ∀ x, |fl x - x| ≤ u * |x|) (hu0 : 0 ≤ u) (hu : u ≤ 1 / 1024)
    (n k : ℕ) (hnat : ∀ m : ℕ, m ≤ n → fl m = m) (hk : 2 ≤ k) (hkn : k + 2 ≤ n) (z : ℝ) :
    |max (fl (flCentre fl n k z - flSpan fl n k z)) 0 - (mCentre n k z - mSpan n k z)| ≤ 8 * u ∧
    |min (fl (flCentre fl n k z + flSpan fl n k z)) 1 - (mCentre n k z + mSpan n k z)| ≤ 8 * u ∧
    0 ≤ max (fl (flCentre fl n k z - flSpan fl n k z)) 0 ∧
    min (fl (flCentre fl n k z + flSpan fl n k z)) 1 ≤ 1 := by
  obtain ⟨a, b⟩ := bounds_rounding hfl hu0 hu n k hnat hk hkn z
  obtain ⟨c0, _, cs, _⟩ := centre_span_facts n k (by omega) (by omega) z
  have hc : mCentre n k z = centre n k z := wilsonCentre_val _ _ _
  have hs : mSpan n k z = span n k z := wilsonSpan_val _ _ _
  have l1 := neg_abs_le (span (n : ℝ) k z)
  have l2 := le_abs_self (span (n : ℝ) k z)
  have hn : (0 : ℝ) < n := by exact_mod_cast (by omega : 0 < n)
  have acs := abs_span_le_centre (n : ℝ) k z hn (Nat.cast_nonneg k)
    (by exact_mod_cast (by omega : k ≤ n))
  refine ⟨(abs_max_zero_sub_le' ?_).trans a, (abs_min_one_sub_le' ?_).trans b,
    le_max_right _ _, min_le_right _ _⟩
  · rw [hc, hs]; linarith
  · rw [hc, hs]; linarith

/-- the same in the form `C · u · (1 + z²)` with `C = 8` (weaker: the factor is not needed) -/
theorem bounds_rounding_zsq (hfl : ∀ x, |fl x - x| ≤ u * |x|) (hu0 : 0 ≤ u) (hu : u ≤ 1 / 1024)
    (n k : ℕ) (hnat : ∀ m : ℕ, m ≤ n → fl m = m) (hk : 2 ≤ k) (hkn : k + 2 ≤ n) (z : ℝ) :
    |flCentre fl n k z - mCentre n k z| ≤ 8 * u * (1 + z ^ 2) ∧
    |flSpan fl n k z - mSpan n k z| ≤ 8 * u * (1 + z ^ 2) ∧
    |fl (flCentre fl n k z - flSpan fl n k z) - (mCentre n k z - mSpan n k z)|
      ≤ 8 * u * (1 + z ^ 2) ∧
    |fl (flCentre fl n k z + flSpan fl n k z) - (mCentre n k z + mSpan n k z)|
      ≤ 8 * u * (1 + z ^ 2) := by
  obtain ⟨_, a, _, _⟩ := centre_rounding hfl hu0 hu n k hnat hk hkn z
  obtain ⟨_, b, _⟩ := span_rounding hfl hu0 hu n k hnat hk hkn z
  obtain ⟨c, d⟩ := bounds_rounding hfl hu0 hu n k hnat hk hkn z
  have hz : 0 ≤ u * z ^ 2 := mul_nonneg hu0 (sq_nonneg z)
  have e : 8 * u * (1 + z ^ 2) = 8 * u + 8 * (u * z ^ 2) := by ring
  rw [e]
  refine ⟨by linarith, by linarith, by linarith, by linarith⟩

/-- non-vacuity: exact arithmetic (`fl = id`, `u = 0`) satisfies the hypotheses … -/
example : ∃ (fl : ℝ → ℝ) (u : ℝ) (n k : ℕ), (∀ x, |fl x - x| ≤ u * |x|) ∧ 0 ≤ u ∧ u ≤ 1 / 1024 ∧
    (∀ m : ℕ, m ≤ n → fl m = m) ∧ 2 ≤ k ∧ k + 2 ≤ n :=
  ⟨id, 0, 100, 30, by simp, le_refl _, by norm_num, fun _ _ => rfl, by omega, by omega⟩

/-- … and so does a genuinely inexact `fl`: everything strictly between `0` and `1` is inflated
    by the full relative amount `u = 2⁻¹⁰` (naturals are untouched) -/
example : ∃ (fl : ℝ → ℝ) (u : ℝ) (n k : ℕ), (∀ x, |fl x - x| ≤ u * |x|) ∧ 0 < u ∧ u ≤ 1 / 1024 ∧
    (∀ m : ℕ, m ≤ n → fl m = m) ∧ 2 ≤ k ∧ k + 2 ≤ n ∧ fl (1 / 2) ≠ 1 / 2 := by
  refine ⟨fun x => if 0 < x ∧ x < 1 then x * (1 + 1 / 1024) else x, 1 / 1024, 100, 30, ?_,
    by norm_num, le_refl _, ?_, by omega, by omega, ?_⟩
  · intro x
    by_cases h : 0 < x ∧ x < 1
    · simp only [h, and_self, if_true]
      have e : x * (1 + 1 / 1024) - x = 1 / 1024 * x := by ring
      rw [e, abs_mul]
      simp
    · simp only [h, if_false, sub_self, abs_zero]
      positivity
  · intro m _
    have h : ¬ ((0 : ℝ) < m ∧ (m : ℝ) < 1) := by
      rintro ⟨a, b⟩
      have a' : 0 < m := by exact_mod_cast a
      have b' : m < 1 := by exact_mod_cast b
      omega
    simp only [h, if_false]
  · norm_num

/-! ## 2. the lift to `ciWilson` -/

/-- what `ci_wilson` computes at `RR fl` on its domain once `z_value` has answered `z`: the rounded
    bounds clamped into `[0, 1]` — `max (fl (centre' - span')) 0` and `min (fl (centre' + span')) 1`
    — (far end `1` / `0` for one-sided requests) if `Interval::new` finds the pair ordered, else
    `InvalidBounds`.  (In the one-sided arms the finite bound is clamped on both sides — the repair
    of D17 —, so a one-sided request on the domain is never rejected, whatever `fl` and `z` are.) -/
theorem ciWilson_fl (crit : Crit (RR fl)) (conf : Confidence (RR fl)) (n k : ℕ)
    (hnat : ∀ m : ℕ, m ≤ n → fl m = m) (hk : 2 ≤ k) (hkn : k + 2 ≤ n) (z : ℝ)
    (hz : zValue crit conf = .ok ⟨z⟩) :
    ciWilson crit conf n k =
      match conf with
      | .twoSided _ =>
        if max (fl (flCentre fl n k z - flSpan fl n k z)) 0
            ≤ min (fl (flCentre fl n k z + flSpan fl n k z)) 1 then
          .ok (.twoSided ⟨max (fl (flCentre fl n k z - flSpan fl n k z)) 0⟩
                         ⟨min (fl (flCentre fl n k z + flSpan fl n k z)) 1⟩)
        else .err (.interval .invalidBounds)
      | .upper _ =>
        .ok (.twoSided ⟨min (max (fl (flCentre fl n k z - flSpan fl n k z)) 0) 1⟩ ⟨1⟩)
      | .lower _ =>
        .ok (.twoSided ⟨0⟩ ⟨max (min (fl (flCentre fl n k z + flSpan fl n k z)) 1) 0⟩) := by
  rw [ciWilson_eq_fl crit conf n k hnat hk hkn z hz]
  cases conf with
  | twoSided l => rfl
  | upper l =>
    simp only [Confidence.kind, wLo, wHi]
    exact if_pos (min_le_right _ _)
  | lower l =>
    simp only [Confidence.kind, wLo, wHi]
    exact if_pos (le_max_right _ _)

/-- on its domain a *one-sided* request always succeeds at `RR fl` — every rounding function exact on
    the counts, every real critical value (negative ones included: one-sided levels below 1/2) — and
    the reported finite bound lies in `[0, 1]` (D17: before the repair a bound rounded past the far
    end made `Interval::new` fail with `InvalidBounds`) -/
theorem ciWilson_one_sided_total (crit : Crit (RR fl)) (conf : Confidence (RR fl)) (n k : ℕ)
    (hnat : ∀ m : ℕ, m ≤ n → fl m = m) (hk : 2 ≤ k) (hkn : k + 2 ≤ n) (z : ℝ)
    (hz : zValue crit conf = .ok ⟨z⟩) (hkind : conf.kind ≠ .twoSided) :
    ∃ lo hi : RR fl, ciWilson crit conf n k = .ok (.twoSided lo hi) ∧
      0 ≤ lo.val ∧ lo.val ≤ hi.val ∧ hi.val ≤ 1 := by
  rw [ciWilson_fl crit conf n k hnat hk hkn z hz]
  cases conf with
  | twoSided l => exact absurd rfl hkind
  | upper l =>
    exact ⟨_, _, rfl, le_min (le_max_right _ _) zero_le_one, min_le_right _ _, le_rfl⟩
  | lower l =>
    exact ⟨_, _, rfl, le_rfl, le_max_right _ _, max_le (min_le_right _ _) zero_le_one⟩

/-- for every `fl` whatsoever — no standard model, no monotonicity, no exactness on the counts —,
    every oracle, every confidence (valid or not) and all counts: an `Ok` result of `ci_wilson` at
    `RR fl` is a two-sided interval `[lo, hi]` with `0 ≤ lo ≤ hi ≤ 1`.  This is what the clamp buys;
    before it, a rounded bound could leave `[0, 1]` by up to `8 u`. -/
theorem ciWilson_ok_in_unit (fl : ℝ → ℝ) (crit : Crit (RR fl)) (conf : Confidence (RR fl))
    (n k : ℕ) (iv : Interval (RR fl)) (h : ciWilson crit conf n k = .ok iv) :
    ∃ lo hi : RR fl, iv = .twoSided lo hi ∧ 0 ≤ lo.val ∧ lo.val ≤ hi.val ∧ hi.val ≤ 1 :=
  ciWilson_ok_unit crit conf n k iv h

/-- non-vacuity of `ciWilson_ok_in_unit`, on a carrier where the clamp does act: with the (absurd)
    "rounding" `fl = fun _ => 2` every arithmetic result is `2`, a lower one-sided request computes
    the upper bound `fl (2 + 2) = 2`, and the call returns `[0, 1]` -/
example : ciWilson (constCrit 1 : Crit (RR (fun _ => 2))) (.lower ⟨1 / 2⟩) 4 2
    = .ok (.twoSided ⟨0⟩ ⟨1⟩) := by
  have hq : zValue (constCrit 1 : Crit (RR (fun _ => 2))) (.lower ⟨1 / 2⟩) = .ok ⟨1⟩ := by
    apply zValue_constCrit
    simp only [probOk, Bool.and_eq_true, RR.le_iff, Confidence.quantile, RR.zero_val, RR.one_val]
    norm_num
  have a : ¬ 2 > 4 := by omega
  have b : ¬ 2 < 2 := by omega
  simp only [ciWilson, a, b, if_false, hq, Outcome.bind_ok, finishWilson_eq, Confidence.kind,
    wLo, wHi]
  norm_num

/-- standard model only, every real `z`, every kind of confidence: both the exact and the
    rounded call form a pair of (clamped) bounds and return it iff it is ordered (`InvalidBounds`
    otherwise); corresponding bounds are within `8 u`; all four lie on the right side of `0` / `1` -/
theorem ciWilson_rounding_general (hfl : ∀ x, |fl x - x| ≤ u * |x|) (hu0 : 0 ≤ u)
    (hu : u ≤ 1 / 1024) (n k : ℕ) (hnat : ∀ m : ℕ, m ≤ n → fl m = m) (hk : 2 ≤ k)
    (hkn : k + 2 ≤ n) (critF : Crit (RR fl)) (critE : Crit Rex) (confF : Confidence (RR fl))
    (confE : Confidence Rex) (hkind : confF.kind = confE.kind) (z : ℝ)
    (hzF : zValue critF confF = .ok ⟨z⟩) (hzE : zValue critE confE = .ok ⟨z⟩) :
    ∃ lo hi lo' hi' : ℝ,
      ciWilson critE confE n k =
        (if lo ≤ hi then .ok (.twoSided ⟨lo⟩ ⟨hi⟩) else .err (.interval .invalidBounds)) ∧
      ciWilson critF confF n k =
        (if lo' ≤ hi' then .ok (.twoSided ⟨lo'⟩ ⟨hi'⟩) else .err (.interval .invalidBounds)) ∧
      |lo' - lo| ≤ 8 * u ∧ |hi' - hi| ≤ 8 * u ∧ 0 ≤ lo ∧ hi ≤ 1 ∧ 0 ≤ lo' ∧ hi' ≤ 1 := by
  obtain ⟨c0, _, cs, _⟩ := centre_span_facts n k (by omega) (by omega) z
  refine ⟨_, _, _, _, ciWilson_eq_fl critE confE n k (fun _ _ => rfl) hk hkn z hzE,
    ciWilson_eq_fl critF confF n k hnat hk hkn z hzF, ?_, ?_, wLo_nonneg _ _ _ _,
    wHi_le_one _ _ _ _, wLo_nonneg _ _ _ _, wHi_le_one _ _ _ _⟩
  all_goals
    rw [hkind]
    simp only [flCentre, flSpan, wilsonCentre_val, wilsonSpan_val]
  · exact (wfin_close hfl hu0 hu confE.kind (flCentre_relErr hfl hu0 hu n k hnat (by omega) z)
      (flSpan_relErr hfl hu0 hu n k hnat (by omega) (by omega) z) c0 cs).1
  · exact (wfin_close hfl hu0 hu confE.kind (flCentre_relErr hfl hu0 hu n k hnat (by omega) z)
      (flSpan_relErr hfl hu0 hu n k hnat (by omega) (by omega) z) c0 cs).2

/-- standard model only: if the exact call returns `[lo, hi]` (it never returns another shape)
    and `hi - lo ≥ 16 u`, the rounded call returns an interval `[lo', hi'] ⊆ [0, 1]` with both
    bounds within `8 u` -/
theorem ciWilson_rounding_of_width (hfl : ∀ x, |fl x - x| ≤ u * |x|) (hu0 : 0 ≤ u)
    (hu : u ≤ 1 / 1024) (n k : ℕ) (hnat : ∀ m : ℕ, m ≤ n → fl m = m) (hk : 2 ≤ k)
    (hkn : k + 2 ≤ n) (critF : Crit (RR fl)) (critE : Crit Rex) (confF : Confidence (RR fl))
    (confE : Confidence Rex) (hkind : confF.kind = confE.kind) (z : ℝ)
    (hzF : zValue critF confF = .ok ⟨z⟩) (hzE : zValue critE confE = .ok ⟨z⟩)
    (lo hi : Rex) (hE : ciWilson critE confE n k = .ok (.twoSided lo hi))
    (hw : lo.val + 16 * u ≤ hi.val) :
    ∃ lo' hi' : RR fl, ciWilson critF confF n k = .ok (.twoSided lo' hi') ∧
      |lo'.val - lo.val| ≤ 8 * u ∧ |hi'.val - hi.val| ≤ 8 * u ∧ 0 ≤ lo'.val ∧ hi'.val ≤ 1 := by
  obtain ⟨a, b, a', b', hEe, hFe, h1, h2, _, _, p1, p2⟩ :=
    ciWilson_rounding_general hfl hu0 hu n k hnat hk hkn critF critE confF confE hkind z hzF hzE
  rw [hEe] at hE
  split at hE
  · injection hE with hE
    injection hE with hlo hhi
    subst hlo; subst hhi
    simp only at hw
    have hab : a' ≤ b' := by
      have := (abs_le.mp h1).2
      have := (abs_le.mp h2).1
      linarith
    exact ⟨⟨a'⟩, ⟨b'⟩, by rw [hFe, if_pos hab], h1, h2, p1, p2⟩
  · cases hE

/-- non-vacuity of `ciWilson_rounding_of_width`, with a rounding function that obeys the standard
    model but is **not** monotone (`badFl`, §3): `n = 4`, `k = 2`, two-sided, `z = 1`; the exact
    interval has half-width `span ≥ 1/5`, far more than `8 u = 2⁻⁷` -/
example : ∃ (fl : ℝ → ℝ) (u : ℝ) (n k : ℕ) (confF : Confidence (RR fl)) (confE : Confidence Rex)
    (z : ℝ) (lo hi : Rex), (∀ x, |fl x - x| ≤ u * |x|) ∧ 0 < u ∧ u ≤ 1 / 1024 ∧ ¬ Monotone fl ∧
    (∀ m : ℕ, m ≤ n → fl m = m) ∧ 2 ≤ k ∧ k + 2 ≤ n ∧ confF.kind = confE.kind ∧
    zValue (constCrit z) confF = .ok ⟨z⟩ ∧ zValue (constCrit z) confE = .ok ⟨z⟩ ∧
    ciWilson (constCrit z) confE n k = .ok (.twoSided lo hi) ∧ lo.val + 16 * u ≤ hi.val := by
  have hzE : zValue (constCrit 1 : Crit Rex) (.twoSided ⟨1 / 2⟩) = .ok ⟨1⟩ :=
    zValue_constCrit _ _ (probOk_quantile _ (by norm_num [Confidence.level])
      (by norm_num [Confidence.level]))
  have hzF : zValue (constCrit 1 : Crit (RR badFl)) (.twoSided ⟨1 / 2⟩) = .ok ⟨1⟩ := by
    apply zValue_constCrit
    simp only [probOk, Bool.and_eq_true, RR.le_iff, Confidence.quantile, RR.zero_val, RR.one_val,
      RR.sub_val, RR.div_val, RR.add_val]
    norm_num [badFl]
  have eE := ciWilson_eq_fl (constCrit 1 : Crit Rex) (.twoSided ⟨1 / 2⟩) 4 2
    (fun _ _ => rfl) (by omega) (by omega) _ hzE
  simp only [flCentre, wilsonCentre_val, flSpan, wilsonSpan_val] at eE
  rw [if_pos (wfin_ordered_exact _ 4 2 (by omega) (by omega) (by norm_num))] at eE
  obtain ⟨c0, _, cs, _⟩ := centre_span_facts 4 2 (by omega) (by omega) 1
  have acs := abs_span_le_centre ((4 : ℕ) : ℝ) ((2 : ℕ) : ℝ) 1 (by norm_num) (by norm_num)
    (by norm_num)
  have l1 := neg_abs_le (span ((4 : ℕ) : ℝ) ((2 : ℕ) : ℝ) 1)
  have l2 := le_abs_self (span ((4 : ℕ) : ℝ) ((2 : ℕ) : ℝ) 1)
  rw [wLo_id_eq _ (by linarith) (by linarith), wHi_id_eq _ (by linarith) (by linarith)] at eE
  refine ⟨badFl, 1 / 1024, 4, 2, .twoSided ⟨1 / 2⟩, .twoSided ⟨1 / 2⟩, 1, _, _, badFl_err,
    by norm_num, le_rfl, badFl_not_monotone, fun m _ => badFl_nat m, by omega, by omega, rfl,
    hzF, hzE, eE, ?_⟩
  show centre ((4 : ℕ) : ℝ) ((2 : ℕ) : ℝ) 1 - span ((4 : ℕ) : ℝ) ((2 : ℕ) : ℝ) 1 + 16 * (1 / 1024)
    ≤ centre ((4 : ℕ) : ℝ) ((2 : ℕ) : ℝ) 1 + span ((4 : ℕ) : ℝ) ((2 : ℕ) : ℝ) 1
  have r : 1 ≤ √(((2 : ℕ) : ℝ) * (((4 : ℕ) : ℝ) - ((2 : ℕ) : ℝ)) / ((4 : ℕ) : ℝ) + 1 ^ 2 / 4) := by
    rw [Real.one_le_sqrt]; norm_num
  have hs : (1 : ℝ) / 5 ≤ span ((4 : ℕ) : ℝ) ((2 : ℕ) : ℝ) 1 := by
    unfold span
    have := mul_le_mul_of_nonneg_left r
      (show (0 : ℝ) ≤ 1 / (((4 : ℕ) : ℝ) + 1 ^ 2) by positivity)
    norm_num at this ⊢
    linarith
  linarith

/-- the headline.  Standard model + monotone rounding, `0 ≤ z` (what a level `≥ 1/2` gives):
    both calls succeed, return intervals of the same shape, and corresponding bounds differ by at
    most `8 u` — uniformly in `n`, `k`, `z` -/
theorem ciWilson_rounding (hfl : ∀ x, |fl x - x| ≤ u * |x|) (hu0 : 0 ≤ u) (hu : u ≤ 1 / 1024)
    (hmono : Monotone fl) (n k : ℕ) (hnat : ∀ m : ℕ, m ≤ n → fl m = m) (hk : 2 ≤ k)
    (hkn : k + 2 ≤ n) (critF : Crit (RR fl)) (critE : Crit Rex) (confF : Confidence (RR fl))
    (confE : Confidence Rex) (hkind : confF.kind = confE.kind) (z : ℝ) (hz : 0 ≤ z)
    (hzF : zValue critF confF = .ok ⟨z⟩) (hzE : zValue critE confE = .ok ⟨z⟩) :
    ∃ (iv : Interval Rex) (iv' : Interval (RR fl)),
      ciWilson critE confE n k = .ok iv ∧ ciWilson critF confF n k = .ok iv' ∧
      Close (8 * u) iv iv' := by
  obtain ⟨c0, _, cs, _⟩ := centre_span_facts n k (by omega) (by omega) z
  have hu1 : u ≤ 1 := by linarith
  have oE := wfin_ordered_exact confE.kind n k (by omega) (by omega) hz
  have oF := wfin_ordered_fl hfl hu0 hu1 hmono confF.kind n k hnat (by omega) (by omega) hz
  have eE := ciWilson_eq_fl critE confE n k (fun _ _ => rfl) hk hkn z hzE
  have eF := ciWilson_eq_fl critF confF n k hnat hk hkn z hzF
  simp only [flCentre, wilsonCentre_val, flSpan, wilsonSpan_val] at eE
  rw [if_pos oE] at eE
  rw [if_pos oF] at eF
  refine ⟨_, _, eE, eF, ?_⟩
  rw [hkind]
  exact wfin_close hfl hu0 hu confE.kind (flCentre_relErr hfl hu0 hu n k hnat (by omega) z)
    (flSpan_relErr hfl hu0 hu n k hnat (by omega) (by omega) z) c0 cs

/-- the same with a constant oracle answering `z ≥ 0` and valid levels on both sides (the levels
    need not even agree: only the answer of the quantile routine enters) -/
theorem ciWilson_rounding_const (hfl : ∀ x, |fl x - x| ≤ u * |x|) (hu0 : 0 ≤ u)
    (hu : u ≤ 1 / 1024) (hmono : Monotone fl) (n k : ℕ) (hnat : ∀ m : ℕ, m ≤ n → fl m = m)
    (hk : 2 ≤ k) (hkn : k + 2 ≤ n) (confF : Confidence (RR fl)) (confE : Confidence Rex)
    (hkind : confF.kind = confE.kind) (lF0 : 0 < confF.level.val) (lF1 : confF.level.val < 1)
    (lE0 : 0 < confE.level.val) (lE1 : confE.level.val < 1) (z : ℝ) (hz : 0 ≤ z) :
    ∃ (iv : Interval Rex) (iv' : Interval (RR fl)),
      ciWilson (constCrit z) confE n k = .ok iv ∧ ciWilson (constCrit z) confF n k = .ok iv' ∧
      Close (8 * u) iv iv' := by
  have hu1 : u ≤ 1 := by linarith
  have pF := probOk_quantile_fl hfl hu1 hmono (nat_one hnat (by omega)) (nat_two hnat (by omega))
    confF lF0 lF1
  exact ciWilson_rounding hfl hu0 hu hmono n k hnat hk hkn _ _ confF confE hkind z hz
    (zValue_constCrit z confF pF) (zValue_constCrit z confE (probOk_quantile confE lE0 lE1))

/-- non-vacuity of the lift: a monotone, genuinely inexact rounding (inflate `(0,1)` by `2⁻¹⁰`,
    clamped at `1`), a two-sided 95 % request answered by `z = 1.96`, counts `30` of `100` -/
example : ∃ (fl : ℝ → ℝ) (u : ℝ) (n k : ℕ) (confF : Confidence (RR fl)) (confE : Confidence Rex)
    (z : ℝ), (∀ x, |fl x - x| ≤ u * |x|) ∧ 0 < u ∧ u ≤ 1 / 1024 ∧ Monotone fl ∧
    (∀ m : ℕ, m ≤ n → fl m = m) ∧ 2 ≤ k ∧ k + 2 ≤ n ∧ confF.kind = confE.kind ∧ 0 ≤ z ∧
    zValue (constCrit z) confF = .ok ⟨z⟩ ∧ zValue (constCrit z) confE = .ok ⟨z⟩ ∧
    fl (1 / 2) ≠ 1 / 2 := by
  let g : ℝ → ℝ := fun x => if 0 < x ∧ x < 1 then min (x * (1 + 1 / 1024)) 1 else x
  have hg : ∀ x, |g x - x| ≤ 1 / 1024 * |x| := by
    intro x
    by_cases h : 0 < x ∧ x < 1
    · simp only [g, h, and_self, if_true]
      rw [abs_of_pos h.1]
      rcases min_cases (x * (1 + 1 / 1024)) 1 with ⟨e, _⟩ | ⟨e, h'⟩
      · rw [e, abs_of_nonneg (by linarith)]; linarith
      · rw [e, abs_of_nonneg (by linarith)]; linarith
    · simp only [g, h, if_false, sub_self, abs_zero]
      positivity
  have hmono : Monotone g := by
    intro x y hxy
    by_cases hx : 0 < x ∧ x < 1
    · by_cases hy : 0 < y ∧ y < 1
      · simp only [g, hx, hy, and_self, if_true]
        exact min_le_min (by nlinarith) le_rfl
      · simp only [g, hx, hy, and_self, if_true, if_false]
        have : 1 ≤ y := by
          by_contra h; exact hy ⟨by linarith, lt_of_not_ge h⟩
        exact (min_le_right _ _).trans this
    · by_cases hy : 0 < y ∧ y < 1
      · simp only [g, hx, hy, and_self, if_true, if_false]
        have hx0 : x ≤ 0 := by
          by_contra h; exact hx ⟨lt_of_not_ge h, by linarith⟩
        exact hx0.trans (le_min (by nlinarith) zero_le_one)
      · simp only [g, hx, hy, if_false]; exact hxy
  have hnat : ∀ m : ℕ, m ≤ 100 → g m = m := by
    intro m _
    have h : ¬ ((0 : ℝ) < m ∧ (m : ℝ) < 1) := by
      rintro ⟨a, b⟩
      have a' : 0 < m := by exact_mod_cast a
      have b' : m < 1 := by exact_mod_cast b
      omega
    simp only [g, h, if_false]
  have hu1 : (1 / 1024 : ℝ) ≤ 1 := by norm_num
  refine ⟨g, 1 / 1024, 100, 30, .twoSided ⟨0.95⟩, .twoSided ⟨0.95⟩, 1.96, hg, by norm_num,
    le_refl _, hmono, hnat, by omega, by omega, rfl, by norm_num, ?_, ?_, ?_⟩
  · exact zValue_constCrit _ _ (probOk_quantile_fl hg hu1 hmono (nat_one hnat (by omega))
      (nat_two hnat (by omega)) _ (by norm_num [Confidence.level]) (by norm_num [Confidence.level]))
  · exact zValue_constCrit _ _ (probOk_quantile _ (by norm_num [Confidence.level])
      (by norm_num [Confidence.level]))
  · have h : (0 : ℝ) < 1 / 2 ∧ (1 / 2 : ℝ) < 1 := by norm_num
    simp only [g, h, and_self, if_true]
    rw [min_eq_left (by norm_num)]
    norm_num

/-! ## 3. the ideal statement, and why it needs one more hypothesis -/

/-- the ideal lift, from the standard model alone: *whenever* the exact call returns an interval,
    the rounded call returns an interval of the same shape with bounds within `C·u·(1 + z²)`.
    It is **false** (`ciWilson_rounding_statement_false`): the standard model does not make `fl`
    monotone, so a lower bound can be rounded above an upper bound `2 span < u` away and
    `Interval::new` rejects the pair.  What is true: the bounds themselves are always within
    `8 u` (`bounds_rounding`, `clamped_bounds_rounding`, `ciWilson_rounding_general`); the rounded
    call succeeds when `fl` is monotone and `0 ≤ z` (`ciWilson_rounding`) or when the exact interval is wider than `16 u`
    (`ciWilson_rounding_of_width`).  (For a monotone `fl` and a *negative* `z` on a one-sided
    request — level below `1/2` — the exact bound `centre + |span|` can be closer to the far end
    `1` than `8 u` when `n ≳ 1/u`, so the width condition cannot simply be dropped there: the
    clamp does not rescue this case either, the lower bound is clamped from below only and
    `Interval::new(low, 1.)` still rejects a `low` rounded above `1`.)  The clamp into `[0, 1]`
    leaves the refutation untouched: the witness pair lies strictly inside `(0, 1)`. -/
def ciWilson_rounding_statement : Prop :=
  ∃ C : ℝ, ∀ (fl : ℝ → ℝ) (u : ℝ), (∀ x, |fl x - x| ≤ u * |x|) → 0 ≤ u → u ≤ 1 / 1024 →
    ∀ n k : ℕ, (∀ m : ℕ, m ≤ n → fl m = m) → 2 ≤ k → k + 2 ≤ n →
    ∀ (critF : Crit (RR fl)) (critE : Crit Rex) (confF : Confidence (RR fl))
      (confE : Confidence Rex), confF.kind = confE.kind →
    ∀ z : ℝ, zValue critF confF = .ok ⟨z⟩ → zValue critE confE = .ok ⟨z⟩ →
    ∀ iv, ciWilson critE confE n k = .ok iv →
      ∃ iv', ciWilson critF confF n k = .ok iv' ∧ Close (C * u * (1 + z ^ 2)) iv iv'

/-- refutation on a concrete witness: `fl = badFl` (exact except on `(1/2 - 1/8000, 1/2)`, which
    is inflated by `2⁻¹⁰`; obeys the standard model with `u = 2⁻¹⁰`, exact on all naturals, not
    monotone), `n = 4`, `k = 2`, two-sided level `1/2`, oracle answer `z = 1/4096`: the exact
    call returns `[1/2 - s, 1/2 + s]`, the rounded call returns `InvalidBounds` -/
theorem ciWilson_rounding_statement_false : ¬ ciWilson_rounding_statement := by
  rintro ⟨C, h⟩
  have hzE : zValue (constCrit (1 / 4096) : Crit Rex) (.twoSided ⟨1 / 2⟩) = .ok ⟨1 / 4096⟩ :=
    zValue_constCrit _ _ (probOk_quantile _ (by norm_num [Confidence.level])
      (by norm_num [Confidence.level]))
  have hzF : zValue (constCrit (1 / 4096) : Crit (RR badFl)) (.twoSided ⟨1 / 2⟩)
      = .ok ⟨1 / 4096⟩ := by
    apply zValue_constCrit
    simp only [probOk, Bool.and_eq_true, RR.le_iff, Confidence.quantile, RR.zero_val, RR.one_val,
      RR.sub_val, RR.div_val, RR.add_val]
    norm_num [badFl]
  have eE := ciWilson_eq_fl (constCrit (1 / 4096) : Crit Rex) (.twoSided ⟨1 / 2⟩) 4 2
    (fun _ _ => rfl) (by omega) (by omega) _ hzE
  simp only [flCentre, wilsonCentre_val, flSpan, wilsonSpan_val] at eE
  rw [if_pos (wfin_ordered_exact _ 4 2 (by omega) (by omega) (by norm_num))] at eE
  obtain ⟨iv', hF, _⟩ := h badFl (1 / 1024) badFl_err (by norm_num) le_rfl 4 2
    (fun m _ => badFl_nat m) (by omega) (by omega) _ _ (.twoSided ⟨1 / 2⟩) (.twoSided ⟨1 / 2⟩) rfl
    (1 / 4096) hzF hzE _ eE
  rw [badFl_ciWilson] at hF
  cases hF

/-- the witness rounding function indeed obeys every hypothesis of the ideal statement, and is
    not monotone -/
example : (∀ x, |badFl x - x| ≤ 1 / 1024 * |x|) ∧ (∀ m : ℕ, badFl m = m) ∧ ¬ Monotone badFl :=
  ⟨badFl_err, badFl_nat, badFl_not_monotone⟩

/-! ## 4. the Wald interval `ciZNormal`

  Here the bound does grow with `z`, linearly: `p̂ = k/n` carries the relative error `u`, but
  `q̂ = 1 - p̂` is a genuine cancellation (its relative error is `≈ u p̂/q̂`, unbounded as
  `n → ∞`), so the chain is run in absolute terms; `n p̂ q̂ ≥ 5` on the domain keeps the square
  root well-conditioned (`|√y - √x| ≤ |y - x|/√x`), the standard deviation gets absolute error
  `< u` and is then multiplied by `z`. -/

/-- `p̂`, the span `z·sd`, and both bounds of the Wald interval at `RR fl` against exact
    arithmetic: `u`, `1.05 |z| u`, `(2.01 + 1.2 |z|) u` -/
theorem wald_rounding (hfl : ∀ x, |fl x - x| ≤ u * |x|) (hu0 : 0 ≤ u) (hu : u ≤ 1 / 1024)
    (n k : ℕ) (hk : 10 ≤ k) (hkn : k + 10 ≤ n) (z : ℝ) :
    |flWaldP fl n k - (k : ℝ) / n| ≤ u ∧
    |flWaldW fl n k z - z * waldSd n k| ≤ 1.05 * |z| * u ∧
    |fl (flWaldP fl n k - flWaldW fl n k z) - ((k : ℝ) / n - z * waldSd n k)|
      ≤ (2.01 + 1.2 * |z|) * u ∧
    |fl (flWaldP fl n k + flWaldW fl n k z) - ((k : ℝ) / n + z * waldSd n k)|
      ≤ (2.01 + 1.2 * |z|) * u :=
  wald_err hfl hu0 hu n k hk hkn z

/-- in the rounder form `3 u (1 + |z|)` -/
theorem wald_rounding_simple (hfl : ∀ x, |fl x - x| ≤ u * |x|) (hu0 : 0 ≤ u) (hu : u ≤ 1 / 1024)
    (n k : ℕ) (hk : 10 ≤ k) (hkn : k + 10 ≤ n) (z : ℝ) :
    |fl (flWaldP fl n k - flWaldW fl n k z) - ((k : ℝ) / n - z * waldSd n k)|
      ≤ 3 * u * (1 + |z|) ∧
    |fl (flWaldP fl n k + flWaldW fl n k z) - ((k : ℝ) / n + z * waldSd n k)|
      ≤ 3 * u * (1 + |z|) := by
  obtain ⟨_, _, a, b⟩ := wald_err hfl hu0 hu n k hk hkn z
  have hz : 0 ≤ |z| * u := mul_nonneg (abs_nonneg z) hu0
  have e1 : (2.01 + 1.2 * |z|) * u = 2.01 * u + 1.2 * (|z| * u) := by ring
  have e2 : 3 * u * (1 + |z|) = 3 * u + 3 * (|z| * u) := by ring
  rw [e1] at a b
  rw [e2]
  exact ⟨by linarith, by linarith⟩

/-- what `ci_z_normal` computes at `RR fl` on its domain: `flWaldP` is the rounded `k/n`,
    `flWaldW` the rounded `z·√(p̂ q̂/n)` -/
theorem ciZNormal_fl (crit : Crit (RR fl)) (conf : Confidence (RR fl)) (n k : ℕ)
    (hnat : ∀ m : ℕ, m ≤ n → fl m = m) (hk : 10 ≤ k) (hkn : k + 10 ≤ n) (z : ℝ)
    (hz : zValue crit conf = .ok ⟨z⟩) :
    ciZNormal crit conf n k =
      match conf with
      | .twoSided _ =>
        if fl (flWaldP fl n k - flWaldW fl n k z) ≤ fl (flWaldP fl n k + flWaldW fl n k z) then
          .ok (.twoSided ⟨fl (flWaldP fl n k - flWaldW fl n k z)⟩
                         ⟨fl (flWaldP fl n k + flWaldW fl n k z)⟩)
        else .err (.interval .invalidBounds)
      | .upper _ =>
        if fl (flWaldP fl n k - flWaldW fl n k z) ≤ 1 then
          .ok (.twoSided ⟨fl (flWaldP fl n k - flWaldW fl n k z)⟩ ⟨1⟩)
        else .err (.interval .invalidBounds)
      | .lower _ =>
        if 0 ≤ fl (flWaldP fl n k + flWaldW fl n k z) then
          .ok (.twoSided ⟨0⟩ ⟨fl (flWaldP fl n k + flWaldW fl n k z)⟩)
        else .err (.interval .invalidBounds) := by
  rw [ciZNormal_eq_fl crit conf n k hnat hk hkn z hz]
  cases conf <;> rfl

/-- standard model only, every real `z`: both calls form a pair of bounds and return it iff it
    is ordered (`InvalidBounds` otherwise); corresponding bounds are within `(2.01 + 1.2|z|) u` -/
theorem ciZNormal_rounding_general (hfl : ∀ x, |fl x - x| ≤ u * |x|) (hu0 : 0 ≤ u)
    (hu : u ≤ 1 / 1024) (n k : ℕ) (hnat : ∀ m : ℕ, m ≤ n → fl m = m) (hk : 10 ≤ k)
    (hkn : k + 10 ≤ n) (critF : Crit (RR fl)) (critE : Crit Rex) (confF : Confidence (RR fl))
    (confE : Confidence Rex) (hkind : confF.kind = confE.kind) (z : ℝ)
    (hzF : zValue critF confF = .ok ⟨z⟩) (hzE : zValue critE confE = .ok ⟨z⟩) :
    ∃ lo hi lo' hi' : ℝ,
      ciZNormal critE confE n k =
        (if lo ≤ hi then .ok (.twoSided ⟨lo⟩ ⟨hi⟩) else .err (.interval .invalidBounds)) ∧
      ciZNormal critF confF n k =
        (if lo' ≤ hi' then .ok (.twoSided ⟨lo'⟩ ⟨hi'⟩) else .err (.interval .invalidBounds)) ∧
      |lo' - lo| ≤ (2.01 + 1.2 * |z|) * u ∧ |hi' - hi| ≤ (2.01 + 1.2 * |z|) * u := by
  refine ⟨_, _, _, _, ciZNormal_eq_fl critE confE n k (fun _ _ => rfl) hk hkn z hzE,
    ciZNormal_eq_fl critF confF n k hnat hk hkn z hzF, ?_⟩
  rw [hkind, flWaldP_id, flWaldW_id]
  exact wald_fin_close hfl hu0 hu confE.kind n k hk hkn z

/-- standard model + monotone rounding, `0 ≤ z`: both calls succeed, same shape, corresponding
    bounds within `(2.01 + 1.2 z) u ≤ 3 u (1 + z)` -/
theorem ciZNormal_rounding (hfl : ∀ x, |fl x - x| ≤ u * |x|) (hu0 : 0 ≤ u) (hu : u ≤ 1 / 1024)
    (hmono : Monotone fl) (n k : ℕ) (hnat : ∀ m : ℕ, m ≤ n → fl m = m) (hk : 10 ≤ k)
    (hkn : k + 10 ≤ n) (critF : Crit (RR fl)) (critE : Crit Rex) (confF : Confidence (RR fl))
    (confE : Confidence Rex) (hkind : confF.kind = confE.kind) (z : ℝ) (hz : 0 ≤ z)
    (hzF : zValue critF confF = .ok ⟨z⟩) (hzE : zValue critE confE = .ok ⟨z⟩) :
    ∃ (iv : Interval Rex) (iv' : Interval (RR fl)),
      ciZNormal critE confE n k = .ok iv ∧ ciZNormal critF confF n k = .ok iv' ∧
      Close ((2.01 + 1.2 * z) * u) iv iv' := by
  have hu1 : u ≤ 1 := by linarith
  have oE := wald_ordered_exact confE.kind n k hk hkn hz
  have oF := wald_ordered_fl hfl hu1 hmono confF.kind n k hnat hk hkn hz
  have eE := ciZNormal_eq_fl critE confE n k (fun _ _ => rfl) hk hkn z hzE
  have eF := ciZNormal_eq_fl critF confF n k hnat hk hkn z hzF
  rw [flWaldP_id, flWaldW_id, if_pos oE] at eE
  rw [if_pos oF] at eF
  refine ⟨_, _, eE, eF, ?_⟩
  have := wald_fin_close hfl hu0 hu confE.kind n k hk hkn z
  rw [abs_of_nonneg hz] at this
  rw [hkind]
  exact this

/-- non-vacuity for the Wald statements: counts `30` of `100`, `z = 1.96`, a valid upper request
    (exact arithmetic; the inexact monotone `fl` of §2 works here as well) -/
example : ∃ (fl : ℝ → ℝ) (u : ℝ) (n k : ℕ) (confF : Confidence (RR fl)) (confE : Confidence Rex)
    (z : ℝ), (∀ x, |fl x - x| ≤ u * |x|) ∧ 0 ≤ u ∧ u ≤ 1 / 1024 ∧ Monotone fl ∧
    (∀ m : ℕ, m ≤ n → fl m = m) ∧ 10 ≤ k ∧ k + 10 ≤ n ∧ confF.kind = confE.kind ∧ 0 ≤ z ∧
    zValue (constCrit z) confF = .ok ⟨z⟩ ∧ zValue (constCrit z) confE = .ok ⟨z⟩ :=
  ⟨id, 0, 100, 30, .upper ⟨0.95⟩, .upper ⟨0.95⟩, 1.96, by simp, le_refl _, by norm_num,
    monotone_id, fun _ _ => rfl, by omega, by omega, rfl, by norm_num,
    zValue_constCrit _ _ (probOk_quantile _ (by norm_num [Confidence.level])
      (by norm_num [Confidence.level])),
    zValue_constCrit _ _ (probOk_quantile _ (by norm_num [Confidence.level])
      (by norm_num [Confidence.level]))⟩

end StatsCI.C02R
