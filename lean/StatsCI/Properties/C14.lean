/-
  C14 — Every interval obtained through a fallible constructor or conversion satisfies
  low <= high; inverted bounds are rejected with InvalidBounds and the doubly unbounded case with
  EmptyInterval. Accessors and conversions return exactly the stored bounds and round-trip. The kind
  predicates, is_degenerate and width are mutually consistent, copies compare equal, and equal
  intervals hash equally while intervals of different kinds with the same bound do not compare
  equal.

  Stated over the model functions of `StatsCI.Model.Interval`, with the comparison operations of an
  arbitrary linear order (and the arithmetic of an ordered ring where `width` is involved).
-/
import StatsCI.Lemmas.IntervalAlg

namespace StatsCI.C14
open StatsCI StatsCI.Interval

/-! ### 1. constructors and conversions -/
section constructors
variable {α : Type} [LinearOrder α]
attribute [local instance] Cmp.ofLinearOrder

/-- `Interval::new` succeeds exactly on `lo ≤ hi`, with the bounds stored as given -/
theorem new_ok_iff (lo hi : α) (i : Interval α) :
    Interval.new lo hi = .ok i ↔ lo ≤ hi ∧ i = .twoSided lo hi := by
  unfold Interval.new
  by_cases h : hi < lo
  · simp [h, not_le.mpr h]
  · simp only [gt_iff', h, if_false, Except.ok.injEq, not_lt.mp h, true_and]
    exact eq_comm

/-- inverted bounds are rejected with `InvalidBounds` (and nothing else is) -/
theorem new_error_iff (lo hi : α) (e : IntervalError) :
    Interval.new lo hi = .error e ↔ hi < lo ∧ e = .invalidBounds := by
  unfold Interval.new
  by_cases h : hi < lo
  · simp only [gt_iff', h, if_true, Except.error.injEq, true_and]
    exact eq_comm
  · simp [h]

theorem new_invalid (lo hi : α) (h : hi < lo) : Interval.new lo hi = .error .invalidBounds :=
  (new_error_iff lo hi _).mpr ⟨h, rfl⟩

/-- `TryFrom<(T, T)>` -/
theorem tryFromPair_ok_iff (lo hi : α) (i : Interval α) :
    tryFromPair (lo, hi) = .ok i ↔ lo ≤ hi ∧ i = .twoSided lo hi := by
  unfold tryFromPair
  by_cases h : lo ≤ hi
  · simp [h, new_ok_iff]
  · simp [h]

theorem tryFromPair_error_iff (lo hi : α) (e : IntervalError) :
    tryFromPair (lo, hi) = .error e ↔ hi < lo ∧ e = .invalidBounds := by
  unfold tryFromPair
  by_cases h : lo ≤ hi
  · simp [h, new_error_iff, not_lt.mpr h]
  · simp only [cmp_le_iff, h, if_false, Except.error.injEq, not_le.mp h, true_and]
    exact eq_comm

theorem tryFromPair_invalid (lo hi : α) (h : hi < lo) :
    tryFromPair (lo, hi) = .error .invalidBounds :=
  (tryFromPair_error_iff lo hi _).mpr ⟨h, rfl⟩

/-- `TryFrom<RangeInclusive<T>>` -/
theorem tryFromRangeInclusive_ok_iff (lo hi : α) (i : Interval α) :
    tryFromRangeInclusive lo hi = .ok i ↔ lo ≤ hi ∧ i = .twoSided lo hi :=
  new_ok_iff lo hi i

theorem tryFromRangeInclusive_error_iff (lo hi : α) (e : IntervalError) :
    tryFromRangeInclusive lo hi = .error e ↔ hi < lo ∧ e = .invalidBounds :=
  new_error_iff lo hi e

theorem tryFromRangeInclusive_invalid (lo hi : α) (h : hi < lo) :
    tryFromRangeInclusive lo hi = .error .invalidBounds :=
  new_invalid lo hi h

/-- `TryFrom<(Option<T>, Option<T>)>`, both bounds present -/
theorem tryFromOptPair_some_some_ok_iff (lo hi : α) (i : Interval α) :
    tryFromOptPair (some lo, some hi) = .ok i ↔ lo ≤ hi ∧ i = .twoSided lo hi :=
  new_ok_iff lo hi i

theorem tryFromOptPair_some_some_error_iff (lo hi : α) (e : IntervalError) :
    tryFromOptPair (some lo, some hi) = .error e ↔ hi < lo ∧ e = .invalidBounds :=
  new_error_iff lo hi e

theorem tryFromOptPair_invalid (lo hi : α) (h : hi < lo) :
    tryFromOptPair (some lo, some hi) = .error .invalidBounds :=
  new_invalid lo hi h

/-- the doubly unbounded case is rejected with `EmptyInterval` -/
theorem tryFromOptPair_none_none :
    tryFromOptPair ((none, none) : Option α × Option α) = .error .emptyInterval := rfl

/-- `EmptyInterval` is returned for the doubly unbounded pair only -/
theorem tryFromOptPair_emptyInterval_iff (p : Option α × Option α) :
    tryFromOptPair p = .error .emptyInterval ↔ p = (none, none) := by
  obtain ⟨_ | lo, _ | hi⟩ := p <;> simp [tryFromOptPair, newUpper, newLower]
  intro h
  have := (new_error_iff lo hi _).mp h
  simp at this

/-- the one-sided constructors and conversions are total -/
theorem oneSided_total (x : α) :
    newUpper x = .upper x ∧ newLower x = .lower x ∧
    fromRangeFrom x = .upper x ∧ fromRangeToInclusive x = .lower x ∧
    tryFromOptPair (some x, none) = .ok (.upper x) ∧
    tryFromOptPair (none, some x) = .ok (.lower x) :=
  ⟨rfl, rfl, rfl, rfl, rfl, rfl⟩

/-- every interval returned by `TryFrom<(Option<T>, Option<T>)>` satisfies `low ≤ high` -/
theorem tryFromOptPair_ok_WF (p : Option α × Option α) (i : Interval α)
    (h : tryFromOptPair p = .ok i) : i.WF := by
  obtain ⟨_ | a, _ | b⟩ := p
  · simp [tryFromOptPair] at h
  · simp only [tryFromOptPair, newLower, Except.ok.injEq] at h; subst h; trivial
  · simp only [tryFromOptPair, newUpper, Except.ok.injEq] at h; subst h; trivial
  · obtain ⟨h1, rfl⟩ := (tryFromOptPair_some_some_ok_iff _ _ _).mp h; exact h1

/-- every interval returned by a fallible constructor or conversion satisfies `low ≤ high` -/
theorem ok_WF (lo hi : α) (p : Option α × Option α) (i : Interval α)
    (h : Interval.new lo hi = .ok i ∨ tryFromPair (lo, hi) = .ok i ∨
      tryFromRangeInclusive lo hi = .ok i ∨ tryFromOptPair p = .ok i) : i.WF := by
  rcases h with h | h | h | h
  · obtain ⟨h1, rfl⟩ := (new_ok_iff _ _ _).mp h; exact h1
  · obtain ⟨h1, rfl⟩ := (tryFromPair_ok_iff _ _ _).mp h; exact h1
  · obtain ⟨h1, rfl⟩ := (tryFromRangeInclusive_ok_iff _ _ _).mp h; exact h1
  · exact tryFromOptPair_ok_WF p i h

/-- the infallible constructors and conversions return well-formed intervals as well -/
theorem oneSided_WF (x : α) :
    (newUpper x).WF ∧ (newLower x).WF ∧ (fromRangeFrom x).WF ∧ (fromRangeToInclusive x).WF :=
  ⟨trivial, trivial, trivial, trivial⟩

/-- the fallible constructors agree with one another on every input -/
theorem constructors_agree (lo hi : α) :
    tryFromPair (lo, hi) = Interval.new lo hi ∧
    tryFromRangeInclusive lo hi = Interval.new lo hi ∧
    tryFromOptPair (some lo, some hi) = Interval.new lo hi := by
  refine ⟨?_, rfl, rfl⟩
  unfold tryFromPair
  by_cases h : lo ≤ hi
  · simp [h]
  · simp [h, new_invalid lo hi (not_le.mp h)]

/-! ### 2. accessors, conversions back, round trips -/

/-- `(Option<T>, Option<T>)` round trip, starting from a well-formed interval -/
theorem roundtrip_optPair (i : Interval α) (hi : i.WF) : tryFromOptPair i.toOptPair = .ok i := by
  cases i with
  | twoSided lo hi' => exact (new_ok_iff lo hi' _).mpr ⟨hi, rfl⟩
  | upper lo => rfl
  | lower hi' => rfl

/-- `(Option<T>, Option<T>)` round trip, starting from the pair -/
theorem roundtrip_optPair' (p : Option α × Option α) (i : Interval α)
    (h : tryFromOptPair p = .ok i) : i.toOptPair = p := by
  obtain ⟨_ | a, _ | b⟩ := p
  · simp [tryFromOptPair] at h
  · simp only [tryFromOptPair, newLower, Except.ok.injEq] at h; subst h; rfl
  · simp only [tryFromOptPair, newUpper, Except.ok.injEq] at h; subst h; rfl
  · obtain ⟨_, rfl⟩ := (tryFromOptPair_some_some_ok_iff _ _ _).mp h; rfl

/-- the round trip fails only for an interval that is not well-formed (which no constructor
    returns): then the bounds are rejected -/
theorem roundtrip_optPair_iff (i : Interval α) : tryFromOptPair i.toOptPair = .ok i ↔ i.WF :=
  ⟨tryFromOptPair_ok_WF _ i, roundtrip_optPair i⟩

omit [LinearOrder α] in
/-- `left`/`right`/`low`/`high` return exactly the stored bounds (`none` for a missing side) -/
theorem accessors (lo hi : α) :
    (Interval.twoSided lo hi).left = some lo ∧ (Interval.twoSided lo hi).right = some hi ∧
    (Interval.twoSided lo hi).low = some lo ∧ (Interval.twoSided lo hi).high = some hi ∧
    (Interval.upper lo).left = some lo ∧ (Interval.upper lo).right = none ∧
    (Interval.upper lo).low = some lo ∧ (Interval.upper lo).high = none ∧
    (Interval.lower hi).left = none ∧ (Interval.lower hi).right = some hi ∧
    (Interval.lower hi).low = none ∧ (Interval.lower hi).high = some hi :=
  ⟨rfl, rfl, rfl, rfl, rfl, rfl, rfl, rfl, rfl, rfl, rfl, rfl⟩

omit [LinearOrder α] in
/-- `toOptPair` is the pair of the accessors, for every interval -/
theorem toOptPair_eq (i : Interval α) : i.toOptPair = (i.left, i.right) := by
  cases i <;> rfl

omit [LinearOrder α] in
/-- `low`/`high` agree with `left`/`right` -/
theorem low_high_eq (i : Interval α) : i.low = i.left ∧ i.high = i.right := ⟨rfl, rfl⟩

/-- the accessors of a constructed interval return the arguments of the constructor -/
theorem accessors_new (lo hi : α) (i : Interval α) (h : Interval.new lo hi = .ok i) :
    i.left = some lo ∧ i.right = some hi := by
  obtain ⟨_, rfl⟩ := (new_ok_iff _ _ _).mp h; exact ⟨rfl, rfl⟩

omit [LinearOrder α] in
/-- the `RangeBounds` view returns the stored bounds, inclusive, `Unbounded` for a missing side -/
theorem rangeBounds (lo hi : α) :
    (Interval.twoSided lo hi).startBound = .included lo ∧
    (Interval.twoSided lo hi).endBound = .included hi ∧
    (Interval.upper lo).startBound = .included lo ∧ (Interval.upper lo).endBound = .unbounded ∧
    (Interval.lower hi).startBound = .unbounded ∧ (Interval.lower hi).endBound = .included hi :=
  ⟨rfl, rfl, rfl, rfl, rfl, rfl⟩

section extremes
variable [Extremes α]

omit [LinearOrder α] in
/-- `low_f`/`high_f` (`low_i`, `low_u`, …) and `From<Interval<x>> for (x, x)`: the stored bounds,
    with `MIN`/`MAX` (`∓∞` for floats) standing in for a missing side -/
theorem accessors_extremes (lo hi : α) :
    (Interval.twoSided lo hi).lowX = lo ∧ (Interval.twoSided lo hi).highX = hi ∧
    (Interval.upper lo).lowX = lo ∧ (Interval.upper lo).highX = Extremes.maxValue ∧
    (Interval.lower hi).lowX = Extremes.minValue ∧ (Interval.lower hi).highX = hi ∧
    (Interval.twoSided lo hi).toPair = (lo, hi) ∧
    (Interval.upper lo).toPair = (lo, Extremes.maxValue) ∧
    (Interval.lower hi).toPair = (Extremes.minValue, hi) :=
  ⟨rfl, rfl, rfl, rfl, rfl, rfl, rfl, rfl, rfl⟩

omit [LinearOrder α] in
/-- `toPair` is the pair of `lowX`/`highX`; these agree with `left`/`right` wherever those are
    present -/
theorem toPair_eq (i : Interval α) :
    i.toPair = (i.lowX, i.highX) ∧ (∀ x, i.left = some x → i.lowX = x) ∧
    (∀ x, i.right = some x → i.highX = x) := by
  cases i <;> simp [toPair, lowX, highX, left, right]

/-- `(T, T)` round trip of a two-sided interval: `tryFromPair` after `toPair` -/
theorem roundtrip_pair (lo hi : α) (h : lo ≤ hi) :
    tryFromPair (Interval.twoSided lo hi).toPair = .ok (.twoSided lo hi) ∧
    ∀ i, tryFromPair (lo, hi) = .ok i → i.toPair = (lo, hi) := by
  refine ⟨(tryFromPair_ok_iff lo hi _).mpr ⟨h, rfl⟩, ?_⟩
  intro i hi'
  obtain ⟨_, rfl⟩ := (tryFromPair_ok_iff _ _ _).mp hi'; rfl

/-- the `(T, T)` round trip of a one-sided interval does NOT return it: the stand-in for the
    missing side becomes a stored bound (recorded behaviour, not a defect of the model) -/
theorem roundtrip_pair_oneSided (x : α) (i : Interval α) :
    (tryFromPair (Interval.upper x).toPair = .ok i → i = .twoSided x Extremes.maxValue) ∧
    (tryFromPair (Interval.lower x).toPair = .ok i → i = .twoSided Extremes.minValue x) := by
  constructor <;> intro h
  · exact ((tryFromPair_ok_iff _ _ _).mp h).2
  · exact ((tryFromPair_ok_iff _ _ _).mp h).2

end extremes

/-! ### 3. kind predicates, `is_degenerate` -/

omit [LinearOrder α] in
/-- exactly one of `is_two_sided`, `is_upper`, `is_lower` holds -/
theorem kind_exclusive (i : Interval α) :
    (i.isTwoSided = true ∧ i.isUpper = false ∧ i.isLower = false) ∨
    (i.isTwoSided = false ∧ i.isUpper = true ∧ i.isLower = false) ∨
    (i.isTwoSided = false ∧ i.isUpper = false ∧ i.isLower = true) := by
  cases i <;> simp [isTwoSided, isUpper, isLower]

omit [LinearOrder α] in
/-- the kind predicates recognise exactly their constructor -/
theorem kind_iff (i : Interval α) :
    (i.isTwoSided = true ↔ ∃ lo hi, i = .twoSided lo hi) ∧
    (i.isUpper = true ↔ ∃ lo, i = .upper lo) ∧
    (i.isLower = true ↔ ∃ hi, i = .lower hi) := by
  cases i <;> simp [isTwoSided, isUpper, isLower]

omit [LinearOrder α] in
/-- `is_one_sided` is the negation of `is_two_sided`, i.e. `is_upper || is_lower` -/
theorem isOneSided_eq (i : Interval α) :
    i.isOneSided = !i.isTwoSided ∧ i.isOneSided = (i.isUpper || i.isLower) := by
  cases i <;> simp [isOneSided, isTwoSided, isUpper, isLower]

omit [LinearOrder α] in
/-- the kind predicates agree with the presence of the bounds -/
theorem kind_bounds (i : Interval α) :
    (i.isTwoSided = true ↔ i.left.isSome = true ∧ i.right.isSome = true) ∧
    (i.isUpper = true ↔ i.left.isSome = true ∧ i.right = none) ∧
    (i.isLower = true ↔ i.left = none ∧ i.right.isSome = true) := by
  cases i <;> simp [isTwoSided, isUpper, isLower, left, right]

/-- `is_degenerate` holds exactly for the two-sided intervals with equal bounds -/
theorem isDegenerate_iff (i : Interval α) : i.isDegenerate = true ↔ ∃ x, i = .twoSided x x := by
  cases i with
  | twoSided lo hi =>
    simp only [isDegenerate, cmp_eq_iff, twoSided.injEq]
    constructor
    · rintro rfl; exact ⟨lo, rfl, rfl⟩
    · rintro ⟨x, rfl, rfl⟩; rfl
  | upper lo => simp [isDegenerate]
  | lower hi => simp [isDegenerate]

/-- a degenerate interval is two-sided, well-formed, and denotes a single point -/
theorem isDegenerate_den (i : Interval α) (h : i.isDegenerate = true) :
    i.isTwoSided = true ∧ i.WF ∧ ∃ x, i.den = {x} := by
  obtain ⟨x, rfl⟩ := (isDegenerate_iff i).mp h
  exact ⟨rfl, le_refl x, x, by simp [den]⟩

/-! ### 4. equality, hashing, copies -/

/-- the derived `PartialEq` is equality of the stored data -/
theorem beq_iff (i j : Interval α) : i.beq j = true ↔ i = j := by
  cases i <;> cases j <;> simp [beq]

/-- equal intervals hash equally: the same items are fed to the hasher -/
theorem hash_of_beq (i j : Interval α) (h : i.beq j = true) : i.hashSeq = j.hashSeq := by
  rw [(beq_iff i j).mp h]

omit [LinearOrder α] in
/-- and only equal intervals feed the same items (the discriminant is hashed first) -/
theorem hashSeq_inj (i j : Interval α) : i.hashSeq = j.hashSeq ↔ i = j := by
  cases i <;> cases j <;> simp [hashSeq]

/-- intervals of different kinds never compare equal, whatever their bounds -/
theorem beq_diff_kind (i j : Interval α)
    (h : i.isTwoSided ≠ j.isTwoSided ∨ i.isUpper ≠ j.isUpper ∨ i.isLower ≠ j.isLower) :
    i.beq j = false := by
  cases i <;> cases j <;> simp_all [beq, isTwoSided, isUpper, isLower]

/-- in particular with the same bound -/
theorem beq_diff_kind_same_bound (x y : α) :
    (Interval.upper x).beq (.lower x) = false ∧ (Interval.lower x).beq (.upper x) = false ∧
    (Interval.twoSided x y).beq (.upper x) = false ∧ (Interval.twoSided x y).beq (.lower y) = false ∧
    (Interval.upper x).beq (.twoSided x y) = false ∧ (Interval.lower y).beq (.twoSided x y) = false ∧
    (Interval.twoSided x x).beq (.upper x) = false ∧ (Interval.twoSided x x).beq (.lower x) = false :=
  ⟨rfl, rfl, rfl, rfl, rfl, rfl, rfl, rfl⟩

omit [LinearOrder α] in
/-- … and they do not hash equally either -/
theorem hash_diff_kind (i j : Interval α)
    (h : i.isTwoSided ≠ j.isTwoSided ∨ i.isUpper ≠ j.isUpper ∨ i.isLower ≠ j.isLower) :
    i.hashSeq ≠ j.hashSeq := by
  cases i <;> cases j <;> simp_all [hashSeq, isTwoSided, isUpper, isLower]

/-- a copy is the interval itself and compares equal to it (both ways round) -/
theorem clone_eq (i : Interval α) :
    i.clone = i ∧ i.clone.beq i = true ∧ i.beq i.clone = true := by
  have h : i.clone = i := by cases i <;> rfl
  rw [h]; exact ⟨rfl, (beq_iff i i).mpr rfl, (beq_iff i i).mpr rfl⟩

/-- `==` is an equivalence relation -/
theorem beq_equiv (i j k : Interval α) :
    i.beq i = true ∧ (i.beq j = j.beq i) ∧ (i.beq j = true → j.beq k = true → i.beq k = true) := by
  refine ⟨(beq_iff i i).mpr rfl, ?_, ?_⟩
  · rw [Bool.eq_iff_iff, beq_iff, beq_iff, eq_comm]
  · intro h1 h2; rw [beq_iff] at *; exact h1.trans h2

end constructors

/-! ### 3'. `width` (ordered ring) -/
section width
variable {α : Type} [CommRing α] [LinearOrder α] [IsStrictOrderedRing α]
attribute [local instance] NumOps.ofRing

/-- `width` is `high - low` of a two-sided interval -/
theorem width_twoSided (lo hi : α) : (Interval.twoSided lo hi).width = some (hi - lo) := rfl

/-- `width` is `None` exactly for the one-sided intervals -/
theorem width_none_iff (i : Interval α) : i.width = none ↔ i.isOneSided = true := by
  cases i <;> simp [width, isOneSided, isTwoSided]

theorem width_isSome_iff (i : Interval α) : i.width.isSome = true ↔ i.isTwoSided = true := by
  cases i <;> simp [width, isTwoSided]

/-- `is_degenerate` holds exactly for the two-sided intervals of width zero -/
theorem isDegenerate_iff_width (i : Interval α) :
    i.isDegenerate = true ↔ i.isTwoSided = true ∧ i.width = some 0 := by
  cases i with
  | twoSided lo hi =>
    simp only [isDegenerate, ofRing_eq_iff, isTwoSided, width, ofRing_sub, Option.some.injEq,
      true_and]
    constructor
    · rintro rfl; exact sub_self _
    · intro h; exact (sub_eq_zero.mp h).symm
  | upper lo => simp [isDegenerate, isTwoSided]
  | lower hi => simp [isDegenerate, isTwoSided]

/-- the width of a well-formed interval is non-negative (and conversely) -/
theorem width_nonneg (i : Interval α) (w : α) (hw : i.width = some w) : i.WF ↔ 0 ≤ w := by
  cases i with
  | twoSided lo hi =>
    simp only [width, ofRing_sub, Option.some.injEq] at hw
    subst hw
    exact sub_nonneg.symm
  | upper lo => simp [width] at hw
  | lower hi => simp [width] at hw

/-- width zero, positive: degenerate, or containing two different points -/
theorem width_pos_iff (lo hi : α) (w : α) (hw : (Interval.twoSided lo hi).width = some w) :
    0 < w ↔ lo < hi := by
  simp only [width, ofRing_sub, Option.some.injEq] at hw
  subst hw
  exact sub_pos

end width

/-! ### non-vacuity -/
section examples
attribute [local instance] Cmp.ofLinearOrder

example : Interval.new (1 : ℤ) 3 = .ok (.twoSided 1 3) ∧
    Interval.new (3 : ℤ) 1 = .error .invalidBounds ∧
    Interval.new (2 : ℤ) 2 = .ok (.twoSided 2 2) ∧
    tryFromPair ((3 : ℤ), 1) = .error .invalidBounds ∧
    tryFromOptPair ((none, none) : Option ℤ × Option ℤ) = .error .emptyInterval ∧
    tryFromOptPair (some (1 : ℤ), none) = .ok (.upper 1) := by
  refine ⟨by decide, by decide, by decide, by decide, by decide, by decide⟩

example : (Interval.twoSided (1 : ℤ) 3).WF ∧ (Interval.twoSided (2 : ℤ) 2).isDegenerate = true ∧
    (Interval.upper (2 : ℤ)).beq (.lower 2) = false ∧
    (Interval.upper (2 : ℤ)).hashSeq ≠ (Interval.lower (2 : ℤ)).hashSeq := by
  refine ⟨by simp, by decide, by decide, by decide⟩

attribute [local instance] NumOps.ofRing in
example : (Interval.twoSided (1 : ℤ) 3).width = some 2 ∧ (Interval.upper (1 : ℤ)).width = none := by
  refine ⟨by decide, by decide⟩

end examples
end StatsCI.C14
