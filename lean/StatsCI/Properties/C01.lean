/-
  C01 — Arithmetic mean: in exact arithmetic (`Rex = RR id`) the model's `Arithmetic` computes
  `x̄ = Σx/n`, `s² = Σ(x - x̄)²/(n-1)` and the interval `x̄ ∓ c·s/√n`, where `c` is the critical
  value the model requests (`t` with `n - 1` degrees of freedom below the population limit,
  `z` from it on); the ways of feeding data agree; fewer than two samples are rejected.

  Real statistics (`StatsCI.MeanLemmas`, file `Lemmas/MeanExact.lean`): `smean xs = xs.sum / xs.length`,
  `sdev2 xs = Σ (x - smean xs)²`, `svar xs = sdev2 xs / (n - 1)`, `ssd xs = √(svar xs)`,
  `critVal crit conf n = (crit (critReq conf ⟨n - 1⟩)).val`,
  `halfWidth crit conf xs = critVal crit conf n * ssd xs / √n`.
-/
import StatsCI.Lemmas.MeanExact

namespace StatsCI.C01
open StatsCI StatsCI.MeanLemmas NumOps Scalar

/-! ### 1. mean -/

/-- `sample_mean()` of real data is `Σx / n` -/
theorem mean_exact (xs : List ℝ) :
    (Arith.fromList (xs.map inj) : Arith Rex).mean.val = xs.sum / xs.length :=
  Arith.fromList_mean xs

/-! ### 2. variance -/

/-- `sample_variance()` of `n ≥ 2` real data is `Σ(x - x̄)² / (n - 1)` -/
theorem variance_exact (xs : List ℝ) (hn : 2 ≤ xs.length) :
    (Arith.fromList (xs.map inj) : Arith Rex).variance.val =
      (xs.map (fun x => (x - xs.sum / xs.length) ^ 2)).sum / ((xs.length : ℝ) - 1) :=
  Arith.fromList_variance xs hn

/-- the clamp `if v < 0 { 0 }` of `sample_variance()` never fires in exact arithmetic: the
    quotient `(Σx² - x̄·Σx)/(n - 1)` the model forms is the (non-negative) sample variance -/
theorem variance_clamp_inactive (xs : List ℝ) (hn : 2 ≤ xs.length) :
    let a : Arith Rex := Arith.fromList (xs.map inj)
    let v : Rex := div (sub a.sumSq.value (mul a.mean a.sum.value)) (Scalar.ofNat (a.count - 1))
    lt v (zero : Rex) = false ∧ v.val = svar xs ∧ a.variance = v ∧
      a.variance? = some v := by
  intro a v
  have hcast : ((xs.length - 1 : ℕ) : ℝ) = (xs.length : ℝ) - 1 := by
    rw [Nat.cast_sub (by omega)]; simp
  have hc : a.count = xs.length := by simp [a, Arith.fromList_count]
  have hv : v.val = svar xs := by
    simp only [v, a, RR.div_val, RR.sub_val, RR.mul_val, RR.ofNat_val, id_eq,
      Arith.fromList_sumSq_value, Arith.fromList_mean, Arith.fromList_sum_value,
      Arith.fromList_count, List.length_map, hcast, svar, sdev2_eq xs (by omega)]
  have h0 : lt v (zero : Rex) = false := by
    rw [Bool.eq_false_iff, Ne, RR.lt_iff, hv]
    exact not_lt.mpr (svar_nonneg xs (by omega))
  have hne : ¬ a.count = 0 := by omega
  refine ⟨h0, hv, ?_, ?_⟩
  · show (if lt v (zero : Rex) then zero else v) = v
    simp [h0]
  · show (if a.count = 0 then none else some (if lt v (zero : Rex) then zero else v)) = some v
    simp [h0, hne]

/-- `sample_std_dev()` is `s = √s²` -/
theorem stdDev_exact (xs : List ℝ) (hn : 2 ≤ xs.length) :
    (Arith.fromList (xs.map inj) : Arith Rex).stdDev.val = Real.sqrt (svar xs) :=
  Arith.fromList_stdDev xs hn

/-! ### 3. the critical value requested -/

/-- below the population limit the request is Student's t with `n - 1` degrees of freedom at
    the probability `conf.quantile` -/
theorem crit_args_t (conf : Confidence Rex) (n : ℕ) (h : (n : ℝ) - 1 < 100000) :
    critReq conf (⟨(n : ℝ) - 1⟩ : Rex) = .t ⟨(n : ℝ) - 1⟩ conf.quantile := by
  have : lt (⟨(n : ℝ) - 1⟩ : Rex) (populationLimit : Rex) = true := by
    simp [populationLimit, h]
  simp [critReq, this]

/-- from the population limit on the request is the normal quantile at `conf.quantile` -/
theorem crit_args_z (conf : Confidence Rex) (n : ℕ) (h : 100000 ≤ (n : ℝ) - 1) :
    critReq conf (⟨(n : ℝ) - 1⟩ : Rex) = .z conf.quantile := by
  have : lt (⟨(n : ℝ) - 1⟩ : Rex) (populationLimit : Rex) = false := by
    rw [Bool.eq_false_iff, Ne, RR.lt_iff]
    simp [populationLimit, not_lt.mpr h]
  simp [critReq, this]

/-- the request as a function of `n`: `t(n - 1)` below the population limit `100000`, `z` from
    it on, in both cases at the probability `conf.quantile` -/
theorem crit_args (conf : Confidence Rex) (n : ℕ) :
    critReq conf (⟨(n : ℝ) - 1⟩ : Rex) =
      if (n : ℝ) - 1 < 100000 then .t ⟨(n : ℝ) - 1⟩ conf.quantile else .z conf.quantile := by
  by_cases h : (n : ℝ) - 1 < 100000
  · rw [if_pos h]; exact crit_args_t conf n h
  · rw [if_neg h]; exact crit_args_z conf n (not_lt.mp h)

/-- two-sided: the model's `1 - (1 - L)/2` is `(1 + L)/2` -/
theorem quantile_twoSided (l : Rex) : (Confidence.twoSided l).quantile.val = (1 + l.val) / 2 := by
  simp [Confidence.quantile]; ring

/-- one-sided: the probability is the level itself -/
theorem quantile_oneSided (l : Rex) :
    (Confidence.upper l).quantile = l ∧ (Confidence.lower l).quantile = l := ⟨rfl, rfl⟩

/-- a valid level `0 < L < 1` gives a probability that `inverse_cdf` accepts -/
theorem quantile_admissible (conf : Confidence Rex) (h0 : 0 < conf.level.val)
    (h1 : conf.level.val < 1) : probOk conf.quantile = true :=
  probOk_quantile conf h0 h1

/-- the result depends on the quantile routine only through its answer to that one request -/
theorem crit_only_request (crit crit' : Crit Rex) (conf : Confidence Rex) (xs : List ℝ)
    (hn : 2 ≤ xs.length) (h0 : 0 < conf.level.val) (h1 : conf.level.val < 1)
    (h : crit (critReq conf ⟨(xs.length : ℝ) - 1⟩) = crit' (critReq conf ⟨(xs.length : ℝ) - 1⟩)) :
    Arith.ci crit conf (xs.map inj : List Rex) = Arith.ci crit' conf (xs.map inj : List Rex) := by
  rw [Arith.ci_rex crit conf xs hn (probOk_quantile conf h0 h1),
    Arith.ci_rex crit' conf xs hn (probOk_quantile conf h0 h1)]
  simp only [halfWidth, critVal, h]

/-! ### 4. the bounds -/

/-- all three kinds at once: the bounds are `x̄ ∓ c·s/√n`, assembled by the constructor that
    belongs to the kind of the confidence -/
theorem bounds (crit : Crit Rex) (conf : Confidence Rex) (xs : List ℝ) (hn : 2 ≤ xs.length)
    (h0 : 0 < conf.level.val) (h1 : conf.level.val < 1) :
    Arith.ci crit conf (xs.map inj) =
      intervalOfKind conf (⟨smean xs - halfWidth crit conf xs⟩ : Rex)
        ⟨smean xs + halfWidth crit conf xs⟩ :=
  Arith.ci_rex crit conf xs hn (probOk_quantile conf h0 h1)

/-- two-sided: `[x̄ - c·s/√n, x̄ + c·s/√n]`; `Interval::new` rejects exactly when the half-width
    is negative (`low > high`) -/
theorem bounds_twoSided (crit : Crit Rex) (l : Rex) (xs : List ℝ) (hn : 2 ≤ xs.length)
    (h0 : 0 < l.val) (h1 : l.val < 1) :
    Arith.ci crit (.twoSided l) (xs.map inj) =
      if 0 ≤ halfWidth crit (.twoSided l) xs then
        .ok (.twoSided (⟨smean xs - halfWidth crit (.twoSided l) xs⟩ : Rex)
          ⟨smean xs + halfWidth crit (.twoSided l) xs⟩)
      else .err (.interval .invalidBounds) := by
  rw [bounds crit (.twoSided l) xs hn h0 h1]
  simp only [intervalOfKind, Interval.new]
  by_cases h : 0 ≤ halfWidth crit (.twoSided l) xs
  · have : gt (⟨smean xs - halfWidth crit (.twoSided l) xs⟩ : Rex)
        ⟨smean xs + halfWidth crit (.twoSided l) xs⟩ = false := by
      rw [Bool.eq_false_iff, Ne, RR.gt_iff]; simp only [not_lt]; linarith
    simp [this, h, liftI]
  · have : gt (⟨smean xs - halfWidth crit (.twoSided l) xs⟩ : Rex)
        ⟨smean xs + halfWidth crit (.twoSided l) xs⟩ = true := by
      rw [RR.gt_iff]; simp only; linarith [not_le.mp h]
    simp [this, h, liftI]

/-- a non-negative critical value gives a non-negative half-width, hence a two-sided interval -/
theorem bounds_twoSided_of_nonneg (crit : Crit Rex) (l : Rex) (xs : List ℝ) (hn : 2 ≤ xs.length)
    (h0 : 0 < l.val) (h1 : l.val < 1) (hc : 0 ≤ critVal crit (.twoSided l) xs.length) :
    Arith.ci crit (.twoSided l) (xs.map inj) =
      .ok (.twoSided (⟨smean xs - halfWidth crit (.twoSided l) xs⟩ : Rex)
        ⟨smean xs + halfWidth crit (.twoSided l) xs⟩) := by
  have h : 0 ≤ halfWidth crit (.twoSided l) xs := by
    unfold halfWidth ssd
    exact div_nonneg (mul_nonneg hc (Real.sqrt_nonneg _)) (Real.sqrt_nonneg _)
  rw [bounds_twoSided crit l xs hn h0 h1, if_pos h]

/-- upper one-sided: `[x̄ - c·s/√n, +∞)` -/
theorem bounds_upper (crit : Crit Rex) (l : Rex) (xs : List ℝ) (hn : 2 ≤ xs.length)
    (h0 : 0 < l.val) (h1 : l.val < 1) :
    Arith.ci crit (.upper l) (xs.map inj) =
      .ok (.upper (⟨smean xs - halfWidth crit (.upper l) xs⟩ : Rex)) := by
  rw [bounds crit (.upper l) xs hn h0 h1]; rfl

/-- lower one-sided: `(-∞, x̄ + c·s/√n]` -/
theorem bounds_lower (crit : Crit Rex) (l : Rex) (xs : List ℝ) (hn : 2 ≤ xs.length)
    (h0 : 0 < l.val) (h1 : l.val < 1) :
    Arith.ci crit (.lower l) (xs.map inj) =
      .ok (.lower (⟨smean xs + halfWidth crit (.lower l) xs⟩ : Rex)) := by
  rw [bounds crit (.lower l) xs hn h0 h1]; rfl

/-- with `n ≥ 2` and a valid level the call never panics (`dof = n - 1 > 0`, `0 ≤ p ≤ 1`) -/
theorem no_panic (crit : Crit Rex) (conf : Confidence Rex) (xs : List ℝ) (hn : 2 ≤ xs.length)
    (h0 : 0 < conf.level.val) (h1 : conf.level.val < 1) :
    (Arith.ci crit conf (xs.map inj : List Rex)).isPanic = false := by
  rw [bounds crit conf xs hn h0 h1]
  cases conf with
  | twoSided l =>
    simp only [intervalOfKind, Interval.new]
    split <;> rfl
  | upper l => rfl
  | lower l => rfl

/-! ### 5. the ways of feeding data agree (every carrier) -/

section styles
variable {F W : Type} [Scalar F] [Scalar W] [Widen F W]

/-- `Arithmetic::ci(conf, data)`, `from_iter(data).ci_mean(conf)` and
    `new().extend(data).ci_mean(conf)` are the same computation -/
theorem styles_agree (crit : Crit W) (conf : Confidence W) (ys : List F) :
    Arith.ci crit conf ys = (Arith.fromList ys).ciMean crit conf ∧
    Arith.ci crit conf ys = ((Arith.empty : Arith F).extend ys).ciMean crit conf :=
  ⟨rfl, rfl⟩

/-- appending one value at a time is `extend`: `extend` is the left fold of `append`, and
    appending after extending is extending by the longer list -/
theorem append_is_extend (a : Arith F) (ys : List F) (y : F) :
    a.extend ys = ys.foldl Arith.append a ∧
    (a.extend ys).append y = a.extend (ys ++ [y]) ∧
    (a.append y).extend ys = a.extend (y :: ys) := by
  refine ⟨rfl, ?_, rfl⟩
  rw [Arith.extend_append]; rfl

/-- feeding in two batches is feeding the concatenation -/
theorem extend_extend (a : Arith F) (ys zs : List F) :
    (a.extend ys).extend zs = a.extend (ys ++ zs) :=
  (Arith.extend_append a ys zs).symm

/-! ### 6. too few samples (every carrier) -/

/-- fewer than two samples: `TooFewSamples(n)` -/
theorem too_few (crit : Crit W) (conf : Confidence W) (ys : List F) (h : ys.length < 2) :
    Arith.ci crit conf ys = .err (.tooFewSamples ys.length) := by
  unfold Arith.ci
  rw [Arith.ciMean_too_few crit _ conf (by rw [Arith.fromList_count]; exact h),
    Arith.fromList_count]

end styles

/-! ### non-vacuity -/

/-- the hypotheses are met by the sample `1, 2, 4` at level `0.95`; there the mean is `7/3` -/
example : 2 ≤ [(1 : ℝ), 2, 4].length ∧ 0 < (Confidence.twoSided (⟨0.95⟩ : Rex)).level.val ∧
    (Confidence.twoSided (⟨0.95⟩ : Rex)).level.val < 1 ∧ smean [1, 2, 4] = 7 / 3 := by
  refine ⟨by simp, by simp [Confidence.level]; norm_num, by simp [Confidence.level]; norm_num, ?_⟩
  simp [smean]; norm_num

example : ((3 : ℕ) : ℝ) - 1 < 100000 ∧ (100000 : ℝ) ≤ ((100001 : ℕ) : ℝ) - 1 := by
  constructor <;> norm_num

example : ([] : List ℝ).length < 2 ∧ [(5 : ℝ)].length < 2 := by simp

end StatsCI.C01
