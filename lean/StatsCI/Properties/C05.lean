/-
  C05 — Geometric / harmonic CIs are the back-transformed arithmetic CIs.

  Items 1–5 are at exact arithmetic `Rex = RR id` for positive real data `xs`; items 2b and 6 hold
  for *every* carrier. Real statistics as in C01 (`smean`, `svar`, `ssd`, `halfWidth`).

  Harmonic: the model takes the reciprocal of a reciprocal-space bound `r` through
  `Harmonic.recipBound r = if r > 0 then 1/r else +∞`. Item 2 is the branch `r > 0` (hypothesis on
  exactly the bound that is used), item 2b the other branch.
-/
import StatsCI.Lemmas.MeanLog
import StatsCI.Lemmas.MeanUnpaired
import StatsCI.Lemmas.XR

set_option linter.unusedSectionVars false

namespace StatsCI.C05
open StatsCI StatsCI.MeanLemmas NumOps Scalar

/-! ### 1. geometric -/

/-- `Geometric::ci` is the arithmetic CI of the logarithms mapped through `exp` bound by bound,
    with the same kind (for a two-sided result `exp lo ≤ exp hi` holds, so `Interval::new`
    accepts); errors and panics of the log-space computation pass through unchanged -/
theorem geometric (crit : Crit Rex) (conf : Confidence Rex) (xs : List ℝ)
    (hpos : ∀ x ∈ xs, 0 < x) :
    Geometric.ci crit conf (xs.map inj) =
      (Arith.ci crit conf ((xs.map Real.log).map inj : List Rex)).map
        (Interval.map Scalar.exp) := by
  unfold Geometric.ci
  rw [Geometric.fromList_rex xs hpos, Outcome.bind_ok, Geometric.ciMean_rex]
  rfl

/-- explicit bounds for `n ≥ 2` and a valid level: `exp(ȳ ∓ c·s_y/√n)` with `y = ln x` -/
theorem geometric_bounds (crit : Crit Rex) (conf : Confidence Rex) (xs : List ℝ)
    (hpos : ∀ x ∈ xs, 0 < x) (hn : 2 ≤ xs.length) (h0 : 0 < conf.level.val)
    (h1 : conf.level.val < 1) :
    Geometric.ci crit conf (xs.map inj) =
      match conf with
      | .twoSided _ =>
        if 0 ≤ halfWidth crit conf (xs.map Real.log) then
          .ok (.twoSided
            (⟨Real.exp (smean (xs.map Real.log) - halfWidth crit conf (xs.map Real.log))⟩ : Rex)
            ⟨Real.exp (smean (xs.map Real.log) + halfWidth crit conf (xs.map Real.log))⟩)
        else .err (.interval .invalidBounds)
      | .upper _ =>
        .ok (.upper
          (⟨Real.exp (smean (xs.map Real.log) - halfWidth crit conf (xs.map Real.log))⟩ : Rex))
      | .lower _ =>
        .ok (.lower
          (⟨Real.exp (smean (xs.map Real.log) + halfWidth crit conf (xs.map Real.log))⟩ : Rex)) := by
  rw [geometric crit conf xs hpos,
    Arith.ci_rex crit conf (xs.map Real.log) (by simpa using hn) (probOk_quantile conf h0 h1),
    intervalOfKind_pm]
  cases conf with
  | twoSided l =>
    by_cases h : 0 ≤ halfWidth crit (.twoSided l) (xs.map Real.log)
    · simp only [h, if_true]; rfl
    · simp only [h, if_false]; rfl
  | upper l => rfl
  | lower l => rfl

/-! ### 2. harmonic -/

/-- `Harmonic::ci` runs `ci_mean` on the arithmetic state of the reciprocals -/
theorem harmonic_state (crit : Crit Rex) (conf : Confidence Rex) (xs : List ℝ)
    (hpos : ∀ x ∈ xs, 0 < x) :
    Harmonic.ci crit conf (xs.map inj) =
      Harmonic.ciMean crit
        (⟨Arith.fromList ((xs.map (fun x => 1 / x)).map inj)⟩ : Harmonic Rex) conf := by
  unfold Harmonic.ci
  rw [Harmonic.fromList_rex xs hpos, Outcome.bind_ok]

/-- two-sided: if the arithmetic CI of the reciprocals (flipped confidence = same two-sided
    confidence) is `[a, b]` with `0 < a`, the result is `[1/b, 1/a]` -/
theorem harmonic_twoSided (crit : Crit Rex) (l : Rex) (xs : List ℝ) (hpos : ∀ x ∈ xs, 0 < x)
    (a b : Rex)
    (hJ : Arith.ci crit (Confidence.twoSided l).flipped ((xs.map (fun x => 1 / x)).map inj) =
      .ok (.twoSided a b))
    (ha : 0 < a.val) :
    Harmonic.ci crit (.twoSided l) (xs.map inj) =
      .ok (.twoSided (⟨1 / b.val⟩ : Rex) ⟨1 / a.val⟩) := by
  rw [harmonic_state crit _ xs hpos]
  exact Harmonic.ciMean_twoSided_pos crit _ l a b hJ ha

/-- two-sided without the positivity hypothesis: the model hands
    `(recipBound b, recipBound a)` to `Interval::new`, where `recipBound r` is `1/r` for `r > 0`
    and `+∞` otherwise (see `recipBound_pos`, `recipBound_not_pos`) -/
theorem harmonic_twoSided_general (crit : Crit Rex) (l : Rex) (xs : List ℝ)
    (hpos : ∀ x ∈ xs, 0 < x) (a b : Rex)
    (hJ : Arith.ci crit (Confidence.twoSided l).flipped ((xs.map (fun x => 1 / x)).map inj) =
      .ok (.twoSided a b)) :
    Harmonic.ci crit (.twoSided l) (xs.map inj) =
      liftI (Interval.new (Harmonic.recipBound b) (Harmonic.recipBound a)) := by
  rw [harmonic_state crit _ xs hpos]
  exact Harmonic.ciMean_twoSided_recipBound crit _ l a b hJ

/-- upper one-sided confidence: the flipped confidence is lower one-sided, the reciprocal-space
    interval is `(-∞, b]` and, when `0 < b`, the result is `[1/b, +∞)` -/
theorem harmonic_upper (crit : Crit Rex) (l : Rex) (xs : List ℝ) (hpos : ∀ x ∈ xs, 0 < x)
    (b : Rex)
    (hJ : Arith.ci crit (Confidence.upper l).flipped ((xs.map (fun x => 1 / x)).map inj) =
      .ok (.lower b))
    (hb : 0 < b.val) :
    Harmonic.ci crit (.upper l) (xs.map inj) = .ok (.upper (⟨1 / b.val⟩ : Rex)) := by
  rw [harmonic_state crit _ xs hpos]
  exact Harmonic.ciMean_upper crit _ l b hJ hb

/-- lower one-sided confidence: the flipped confidence is upper one-sided, the reciprocal-space
    interval is `[a, +∞)` and, when `0 < a`, the result is `(-∞, 1/a]` -/
theorem harmonic_lower (crit : Crit Rex) (l : Rex) (xs : List ℝ) (hpos : ∀ x ∈ xs, 0 < x)
    (a : Rex)
    (hJ : Arith.ci crit (Confidence.lower l).flipped ((xs.map (fun x => 1 / x)).map inj) =
      .ok (.upper a))
    (ha : 0 < a.val) :
    Harmonic.ci crit (.lower l) (xs.map inj) = .ok (.lower (⟨1 / a.val⟩ : Rex)) := by
  rw [harmonic_state crit _ xs hpos]
  exact Harmonic.ciMean_lower crit _ l a hJ ha

/-- the three kinds together; in each the reciprocal-space bound that is used is strictly
    positive (two-sided: `0 < a` and `a ≤ b` give `0 < b` as well) -/
theorem harmonic (crit : Crit Rex) (l : Rex) (xs : List ℝ) (hpos : ∀ x ∈ xs, 0 < x) :
    (∀ a b : Rex,
      Arith.ci crit (Confidence.twoSided l).flipped ((xs.map (fun x => 1 / x)).map inj) =
        .ok (.twoSided a b) → 0 < a.val →
      Harmonic.ci crit (.twoSided l) (xs.map inj) =
        .ok (.twoSided (⟨1 / b.val⟩ : Rex) ⟨1 / a.val⟩)) ∧
    (∀ b : Rex,
      Arith.ci crit (Confidence.upper l).flipped ((xs.map (fun x => 1 / x)).map inj) =
        .ok (.lower b) → 0 < b.val →
      Harmonic.ci crit (.upper l) (xs.map inj) = .ok (.upper (⟨1 / b.val⟩ : Rex))) ∧
    (∀ a : Rex,
      Arith.ci crit (Confidence.lower l).flipped ((xs.map (fun x => 1 / x)).map inj) =
        .ok (.upper a) → 0 < a.val →
      Harmonic.ci crit (.lower l) (xs.map inj) = .ok (.lower (⟨1 / a.val⟩ : Rex))) :=
  ⟨fun a b hJ ha => harmonic_twoSided crit l xs hpos a b hJ ha,
   fun b hJ hb => harmonic_upper crit l xs hpos b hJ hb,
   fun a hJ ha => harmonic_lower crit l xs hpos a hJ ha⟩

/-- the three cases above are exhaustive: a successful reciprocal-space interval at the flipped
    confidence has the flipped kind; errors and panics pass through unchanged -/
theorem harmonic_cases (crit : Crit Rex) (conf : Confidence Rex) (xs : List ℝ)
    (hpos : ∀ x ∈ xs, 0 < x) :
    (∀ J, Arith.ci crit conf.flipped ((xs.map (fun x => 1 / x)).map inj : List Rex) = .ok J →
      match conf with
      | .twoSided _ => ∃ a b, J = .twoSided a b ∧ a.val ≤ b.val
      | .upper _ => ∃ b, J = .lower b
      | .lower _ => ∃ a, J = .upper a) ∧
    (∀ e, Arith.ci crit conf.flipped ((xs.map (fun x => 1 / x)).map inj : List Rex) = .err e →
      Harmonic.ci crit conf (xs.map inj : List Rex) = .err e) ∧
    (∀ t, Arith.ci crit conf.flipped ((xs.map (fun x => 1 / x)).map inj : List Rex) = .panic t →
      Harmonic.ci crit conf (xs.map inj : List Rex) = .panic t) := by
  refine ⟨?_, ?_, ?_⟩
  · intro J hJ
    have hk := Arith.ciMean_ok_kind crit _ conf.flipped J hJ
    cases conf with
    | twoSided l =>
      obtain ⟨a, b, rfl, hg⟩ := hk
      refine ⟨a, b, rfl, ?_⟩
      rw [Bool.eq_false_iff, Ne, RR.gt_iff] at hg
      exact not_lt.mp hg
    | upper l => exact hk
    | lower l => exact hk
  · intro e he
    rw [harmonic_state crit _ xs hpos]
    exact (Harmonic.ciMean_not_ok crit _ conf).1 e he
  · intro t ht
    rw [harmonic_state crit _ xs hpos]
    exact (Harmonic.ciMean_not_ok crit _ conf).2 t ht

/-- explicit one-sided bounds for `n ≥ 2` and a valid level, with `r = 1/x`:
    upper confidence gives `[1/(r̄ + c·s_r/√n), +∞)` when `r̄ + c·s_r/√n > 0`, lower gives
    `(-∞, 1/(r̄ - c·s_r/√n)]` when `r̄ - c·s_r/√n > 0`, the critical value being requested at the
    flipped confidence (same probability) -/
theorem harmonic_bounds_oneSided (crit : Crit Rex) (l : Rex) (xs : List ℝ)
    (hpos : ∀ x ∈ xs, 0 < x) (hn : 2 ≤ xs.length) (h0 : 0 < l.val) (h1 : l.val < 1) :
    (0 < smean (xs.map (fun x => 1 / x)) + halfWidth crit (.lower l) (xs.map (fun x => 1 / x)) →
      Harmonic.ci crit (.upper l) (xs.map inj) =
        .ok (.upper (⟨1 / (smean (xs.map (fun x => 1 / x)) +
          halfWidth crit (.lower l) (xs.map (fun x => 1 / x)))⟩ : Rex))) ∧
    (0 < smean (xs.map (fun x => 1 / x)) - halfWidth crit (.upper l) (xs.map (fun x => 1 / x)) →
      Harmonic.ci crit (.lower l) (xs.map inj) =
        .ok (.lower (⟨1 / (smean (xs.map (fun x => 1 / x)) -
          halfWidth crit (.upper l) (xs.map (fun x => 1 / x)))⟩ : Rex))) := by
  constructor
  · intro hb
    refine harmonic_upper crit l xs hpos
      (⟨smean (xs.map (fun x => 1 / x)) +
        halfWidth crit (.lower l) (xs.map (fun x => 1 / x))⟩ : Rex) ?_ hb
    rw [show (Confidence.upper l).flipped = .lower l from rfl,
      Arith.ci_rex crit (.lower l) _ (by simpa using hn) (probOk_quantile (.lower l) h0 h1)]
    rfl
  · intro ha
    refine harmonic_lower crit l xs hpos
      (⟨smean (xs.map (fun x => 1 / x)) -
        halfWidth crit (.upper l) (xs.map (fun x => 1 / x))⟩ : Rex) ?_ ha
    rw [show (Confidence.lower l).flipped = .upper l from rfl,
      Arith.ci_rex crit (.upper l) _ (by simpa using hn) (probOk_quantile (.upper l) h0 h1)]
    rfl

/-- explicit two-sided bounds when the half-width is non-negative and the reciprocal-space lower
    bound `r̄ - c·s_r/√n` is positive: `[1/(r̄ + h), 1/(r̄ - h)]` -/
theorem harmonic_bounds_twoSided (crit : Crit Rex) (l : Rex) (xs : List ℝ)
    (hpos : ∀ x ∈ xs, 0 < x) (hn : 2 ≤ xs.length) (h0 : 0 < l.val) (h1 : l.val < 1)
    (hh : 0 ≤ halfWidth crit (.twoSided l) (xs.map (fun x => 1 / x)))
    (hlo : 0 < smean (xs.map (fun x => 1 / x)) -
      halfWidth crit (.twoSided l) (xs.map (fun x => 1 / x))) :
    Harmonic.ci crit (.twoSided l) (xs.map inj) =
      .ok (.twoSided
        (⟨1 / (smean (xs.map (fun x => 1 / x)) +
          halfWidth crit (.twoSided l) (xs.map (fun x => 1 / x)))⟩ : Rex)
        ⟨1 / (smean (xs.map (fun x => 1 / x)) -
          halfWidth crit (.twoSided l) (xs.map (fun x => 1 / x)))⟩) := by
  have hJ : Arith.ci crit (Confidence.twoSided l).flipped
      ((xs.map (fun x => 1 / x)).map inj) =
      .ok (.twoSided
        (⟨smean (xs.map (fun x => 1 / x)) -
          halfWidth crit (.twoSided l) (xs.map (fun x => 1 / x))⟩ : Rex)
        ⟨smean (xs.map (fun x => 1 / x)) +
          halfWidth crit (.twoSided l) (xs.map (fun x => 1 / x))⟩) := by
    rw [show (Confidence.twoSided l).flipped = .twoSided l from rfl,
      Arith.ci_rex crit (.twoSided l) _ (by simpa using hn)
        (probOk_quantile (.twoSided l) h0 h1), intervalOfKind_pm]
    simp only [hh, if_true]
  exact harmonic_twoSided crit l xs hpos _ _ hJ hlo

/-! ### 2b. harmonic: the branch where the reciprocal-space bound is not strictly positive

  Stated for *every* carrier `F`/`W` (so in particular for `f64`, where `posInf` is `+∞`; at `Rex`
  the field `posInf` is only the stand-in `⟨0⟩`, which is why the statements keep `posInf`
  symbolic). `gt r zero = false` covers `r ≤ 0` and, at a float carrier, an unordered `r`. -/

section branch
variable {F W : Type} [Scalar F] [Scalar W] [Widen F W]

/-- the reciprocal of a strictly positive reciprocal-space bound is `1/r` -/
theorem recipBound_pos (r : F) (h : gt r (zero : F) = true) :
    Harmonic.recipBound r = div one r :=
  Harmonic.recipBound_of_pos r h

/-- the reciprocal of a reciprocal-space bound that is not strictly positive is `+∞` -/
theorem recipBound_not_pos (r : F) (h : gt r (zero : F) = false) :
    Harmonic.recipBound r = posInf :=
  Harmonic.recipBound_of_not_pos r h

/-- `Harmonic::ci` is `ci_mean` of the state built by `from_iter` -/
theorem harmonic_ci_of_state (crit : Crit W) (conf : Confidence W) (xs : List F) (h : Harmonic F)
    (hf : (Harmonic.fromList xs : Outcome (Err W) (Harmonic F)) = .ok h) :
    Harmonic.ci crit conf xs = h.ciMean crit conf :=
  Harmonic.ci_of_fromList crit conf xs h hf

/-- the three kinds through `recipBound`, no sign hypothesis: ends exchanged, an upper one-sided
    request uses the lower one-sided reciprocal-space bound and vice versa -/
theorem harmonic_ciMean_recipBound (crit : Crit W) (h : Harmonic F) (l : W) :
    (∀ a b : F, h.recip.ciMean crit (Confidence.twoSided l).flipped = .ok (.twoSided a b) →
      h.ciMean crit (.twoSided l) =
        liftI (Interval.new (Harmonic.recipBound b) (Harmonic.recipBound a))) ∧
    (∀ b : F, h.recip.ciMean crit (Confidence.upper l).flipped = .ok (.lower b) →
      h.ciMean crit (.upper l) = .ok (.upper (Harmonic.recipBound b))) ∧
    (∀ a : F, h.recip.ciMean crit (Confidence.lower l).flipped = .ok (.upper a) →
      h.ciMean crit (.lower l) = .ok (.lower (Harmonic.recipBound a))) :=
  ⟨fun a b hJ => Harmonic.ciMean_twoSided_recipBound crit h l a b hJ,
   fun b hJ => Harmonic.ciMean_upper_recipBound crit h l b hJ,
   fun a hJ => Harmonic.ciMean_lower_recipBound crit h l a hJ⟩

/-- lower one-sided confidence, reciprocal-space interval `[a, +∞)` with `a` not strictly
    positive: the result is `(-∞, +∞]` -/
theorem harmonic_lower_not_pos (crit : Crit W) (h : Harmonic F) (l : W) (a : F)
    (hJ : h.recip.ciMean crit (Confidence.lower l).flipped = .ok (.upper a))
    (ha : gt a (zero : F) = false) :
    h.ciMean crit (.lower l) = .ok (.lower (posInf : F)) :=
  Harmonic.ciMean_lower_not_pos crit h l a hJ ha

/-- upper one-sided confidence, reciprocal-space interval `(-∞, b]` with `b` not strictly
    positive: the lower bound returned is `+∞` -/
theorem harmonic_upper_not_pos (crit : Crit W) (h : Harmonic F) (l : W) (b : F)
    (hJ : h.recip.ciMean crit (Confidence.upper l).flipped = .ok (.lower b))
    (hb : gt b (zero : F) = false) :
    h.ciMean crit (.upper l) = .ok (.upper (posInf : F)) :=
  Harmonic.ciMean_upper_not_pos crit h l b hJ hb

/-- two-sided, reciprocal-space interval `[a, b]` with `a` not strictly positive and `b > 0`:
    `Interval::new(1/b, +∞)` -/
theorem harmonic_twoSided_straddle (crit : Crit W) (h : Harmonic F) (l : W) (a b : F)
    (hJ : h.recip.ciMean crit (Confidence.twoSided l).flipped = .ok (.twoSided a b))
    (ha : gt a (zero : F) = false) (hb : gt b (zero : F) = true) :
    h.ciMean crit (.twoSided l) = liftI (Interval.new (div one b) (posInf : F)) :=
  Harmonic.ciMean_twoSided_straddle crit h l a b hJ ha hb

/-- two-sided, neither end of the reciprocal-space interval strictly positive:
    `Interval::new(+∞, +∞)` -/
theorem harmonic_twoSided_not_pos (crit : Crit W) (h : Harmonic F) (l : W) (a b : F)
    (hJ : h.recip.ciMean crit (Confidence.twoSided l).flipped = .ok (.twoSided a b))
    (ha : gt a (zero : F) = false) (hb : gt b (zero : F) = false) :
    h.ciMean crit (.twoSided l) = liftI (Interval.new (posInf : F) (posInf : F)) :=
  Harmonic.ciMean_twoSided_not_pos crit h l a b hJ ha hb

/-- and the positive branch for every carrier: `1/r` computed by the carrier's own division -/
theorem harmonic_ciMean_pos (crit : Crit W) (h : Harmonic F) (l : W) :
    (∀ a b : F, h.recip.ciMean crit (Confidence.twoSided l).flipped = .ok (.twoSided a b) →
      gt a (zero : F) = true → gt b (zero : F) = true →
      h.ciMean crit (.twoSided l) = liftI (Interval.new (div one b) (div one a))) ∧
    (∀ b : F, h.recip.ciMean crit (Confidence.upper l).flipped = .ok (.lower b) →
      gt b (zero : F) = true →
      h.ciMean crit (.upper l) = .ok (.upper (div one b))) ∧
    (∀ a : F, h.recip.ciMean crit (Confidence.lower l).flipped = .ok (.upper a) →
      gt a (zero : F) = true →
      h.ciMean crit (.lower l) = .ok (.lower (div one a))) :=
  ⟨fun a b hJ ha hb => Harmonic.ciMean_twoSided_of_pos crit h l a b hJ ha hb,
   fun b hJ hb => Harmonic.ciMean_upper_of_pos crit h l b hJ hb,
   fun a hJ ha => Harmonic.ciMean_lower_of_pos crit h l a hJ ha⟩

end branch

/-- the same branch for positive real data at `Rex`, in terms of the arithmetic interval of the
    reciprocals (`posInf : Rex` is the stand-in `⟨0⟩`; the content is in the generic statements) -/
theorem harmonic_not_pos (crit : Crit Rex) (l : Rex) (xs : List ℝ) (hpos : ∀ x ∈ xs, 0 < x) :
    (∀ a b : Rex,
      Arith.ci crit (Confidence.twoSided l).flipped ((xs.map (fun x => 1 / x)).map inj) =
        .ok (.twoSided a b) → a.val ≤ 0 → 0 < b.val →
      Harmonic.ci crit (.twoSided l) (xs.map inj) =
        liftI (Interval.new (⟨1 / b.val⟩ : Rex) posInf)) ∧
    (∀ b : Rex,
      Arith.ci crit (Confidence.upper l).flipped ((xs.map (fun x => 1 / x)).map inj) =
        .ok (.lower b) → b.val ≤ 0 →
      Harmonic.ci crit (.upper l) (xs.map inj) = .ok (.upper (posInf : Rex))) ∧
    (∀ a : Rex,
      Arith.ci crit (Confidence.lower l).flipped ((xs.map (fun x => 1 / x)).map inj) =
        .ok (.upper a) → a.val ≤ 0 →
      Harmonic.ci crit (.lower l) (xs.map inj) = .ok (.lower (posInf : Rex))) := by
  refine ⟨?_, ?_, ?_⟩
  · intro a b hJ ha hb
    have hb' : (div one b : Rex) = ⟨1 / b.val⟩ := by apply RR.ext'; simp
    rw [harmonic_state crit _ xs hpos, ← hb']
    exact Harmonic.ciMean_twoSided_straddle crit _ l a b hJ (Rex.gt_zero_of_not_pos a ha)
      (Rex.gt_zero_of_pos b hb)
  · intro b hJ hb
    rw [harmonic_state crit _ xs hpos]
    exact Harmonic.ciMean_upper_not_pos crit _ l b hJ (Rex.gt_zero_of_not_pos b hb)
  · intro a hJ ha
    rw [harmonic_state crit _ xs hpos]
    exact Harmonic.ciMean_lower_not_pos crit _ l a hJ (Rex.gt_zero_of_not_pos a ha)

/-! ### 3. the sample means -/

/-- positive data are accepted; `Geometric::sample_mean()` is `exp(mean ln x)` and
    `Harmonic::sample_mean()` is `1/(mean 1/x)` -/
theorem means (xs : List ℝ) (hpos : ∀ x ∈ xs, 0 < x) :
    (∃ g : Geometric Rex,
      (Geometric.fromList (xs.map inj) : Outcome (Err Rex) (Geometric Rex)) = .ok g ∧
      g.logs = Arith.fromList ((xs.map Real.log).map inj) ∧
      g.mean.val = Real.exp (smean (xs.map Real.log))) ∧
    (∃ h : Harmonic Rex,
      (Harmonic.fromList (xs.map inj) : Outcome (Err Rex) (Harmonic Rex)) = .ok h ∧
      h.recip = Arith.fromList ((xs.map (fun x => 1 / x)).map inj) ∧
      h.mean.val = 1 / smean (xs.map (fun x => 1 / x))) := by
  constructor
  · refine ⟨_, Geometric.fromList_rex xs hpos, rfl, ?_⟩
    simp only [Geometric.mean, RR.exp_val, id_eq, Arith.fromList_mean]
  · refine ⟨_, Harmonic.fromList_rex xs hpos, rfl, ?_⟩
    simp only [Harmonic.mean, RR.div_val, RR.one_val, id_eq, Arith.fromList_mean]

/-! ### 4. harmonic ≤ geometric ≤ arithmetic -/

/-- the sample means of the three model states built from the same non-empty positive data -/
theorem hm_le_gm_le_am (xs : List ℝ) (hne : xs ≠ []) (hpos : ∀ x ∈ xs, 0 < x) :
    ∃ (h : Harmonic Rex) (g : Geometric Rex),
      (Harmonic.fromList (xs.map inj) : Outcome (Err Rex) (Harmonic Rex)) = .ok h ∧
      (Geometric.fromList (xs.map inj) : Outcome (Err Rex) (Geometric Rex)) = .ok g ∧
      h.mean.val ≤ g.mean.val ∧
      g.mean.val ≤ (Arith.fromList (xs.map inj) : Arith Rex).mean.val := by
  refine ⟨_, _, Harmonic.fromList_rex xs hpos, Geometric.fromList_rex xs hpos, ?_, ?_⟩
  · simp only [Harmonic.mean, Geometric.mean, RR.div_val, RR.one_val, RR.exp_val, id_eq,
      Arith.fromList_mean]
    exact hm_le_gm xs hne hpos
  · simp only [Geometric.mean, RR.exp_val, id_eq, Arith.fromList_mean]
    exact gm_le_am xs hne hpos

/-- the real inequality itself -/
theorem hm_le_gm_le_am_real (xs : List ℝ) (hne : xs ≠ []) (hpos : ∀ x ∈ xs, 0 < x) :
    1 / smean (xs.map (fun x => 1 / x)) ≤ Real.exp (smean (xs.map Real.log)) ∧
      Real.exp (smean (xs.map Real.log)) ≤ smean xs :=
  ⟨hm_le_gm xs hne hpos, gm_le_am xs hne hpos⟩

/-! ### 5. standard errors (delta method) -/

/-- `Geometric::sample_sem()` is `G · sd(ln x)/√(n-1)` and `Harmonic::sample_sem()` is
    `H² · sd(1/x)/√(n-1)` (`n ≥ 2`; note the crate's `√(n-1)`) -/
theorem sem (xs : List ℝ) (hn : 2 ≤ xs.length) :
    (⟨Arith.fromList ((xs.map Real.log).map inj)⟩ : Geometric Rex).sem.val =
      Real.exp (smean (xs.map Real.log)) * ssd (xs.map Real.log) /
        Real.sqrt ((xs.length : ℝ) - 1) ∧
    (⟨Arith.fromList ((xs.map (fun x => 1 / x)).map inj)⟩ : Harmonic Rex).sem.val =
      (1 / smean (xs.map (fun x => 1 / x))) * (1 / smean (xs.map (fun x => 1 / x))) *
        ssd (xs.map (fun x => 1 / x)) / Real.sqrt ((xs.length : ℝ) - 1) := by
  constructor
  · simp only [Geometric.sem, Geometric.mean, RR.div_val, RR.mul_val, RR.exp_val, RR.sqrt_val,
      RR.ofNat_val, id_eq, Arith.fromList_mean, Arith.fromList_count, List.length_map,
      Arith.fromList_stdDev _ (show 2 ≤ (xs.map Real.log).length by simpa using hn),
      natCast_pred xs.length (by omega)]
  · simp only [Harmonic.sem, Harmonic.mean, RR.div_val, RR.mul_val, RR.one_val, RR.sqrt_val,
      RR.ofNat_val, id_eq, Arith.fromList_mean, Arith.fromList_count, List.length_map,
      Arith.fromList_stdDev _ (show 2 ≤ (xs.map (fun x => 1 / x)).length by simpa using hn),
      natCast_pred xs.length (by omega)]

/-! ### 6. rejection of non-positive values (every carrier) -/

section reject
variable {F W : Type} [Scalar F] [Scalar W] [Widen F W]

/-- `append` of a value `x <= 0` returns `NonPositiveValue(x)`; nothing else is returned, so the
    caller's state is the one it had (the model's `append` is a pure function of the state) -/
theorem reject_append (h : Harmonic F) (g : Geometric F) (x : F) (hx : le x (zero : F) = true) :
    (Harmonic.append h x : Outcome (Err W) (Harmonic F)) = .err (.nonPositiveValue (Widen.up x)) ∧
    (Geometric.append g x : Outcome (Err W) (Geometric F)) =
      .err (.nonPositiveValue (Widen.up x)) := by
  simp [Harmonic.append, Geometric.append, hx]

/-- `extend` stops at the first rejected value wherever it stands: the error names that value and
    the state left behind is exactly the state after the accepted prefix -/
theorem reject_extend_harmonic (h : Harmonic F) (pre post : List F) (x : F)
    (hpre : ∀ y ∈ pre, le y (zero : F) = false) (hx : le x (zero : F) = true) :
    (Harmonic.extend h (pre ++ x :: post) : Outcome (Err W) (Harmonic F) × Harmonic F) =
      (.err (.nonPositiveValue (Widen.up x)),
        (Harmonic.extend h pre : Outcome (Err W) (Harmonic F) × Harmonic F).2) ∧
    (Harmonic.extend h pre : Outcome (Err W) (Harmonic F) × Harmonic F) =
      (.ok ⟨h.recip.extend (pre.map (fun y => div one y))⟩,
        ⟨h.recip.extend (pre.map (fun y => div one y))⟩) := by
  rw [Harmonic.extend_rejected h pre post x hpre hx, Harmonic.extend_accepted h pre hpre]
  exact ⟨rfl, rfl⟩

theorem reject_extend_geometric (g : Geometric F) (pre post : List F) (x : F)
    (hpre : ∀ y ∈ pre, le y (zero : F) = false) (hx : le x (zero : F) = true) :
    (Geometric.extend g (pre ++ x :: post) : Outcome (Err W) (Geometric F) × Geometric F) =
      (.err (.nonPositiveValue (Widen.up x)),
        (Geometric.extend g pre : Outcome (Err W) (Geometric F) × Geometric F).2) ∧
    (Geometric.extend g pre : Outcome (Err W) (Geometric F) × Geometric F) =
      (.ok ⟨g.logs.extend (pre.map ln)⟩, ⟨g.logs.extend (pre.map ln)⟩) := by
  rw [Geometric.extend_rejected g pre post x hpre hx, Geometric.extend_accepted g pre hpre]
  exact ⟨rfl, rfl⟩

/-- all of item 6 for both means -/
theorem reject (h : Harmonic F) (g : Geometric F) (pre post : List F) (x : F)
    (hpre : ∀ y ∈ pre, le y (zero : F) = false) (hx : le x (zero : F) = true) :
    (Harmonic.append h x : Outcome (Err W) (Harmonic F)) = .err (.nonPositiveValue (Widen.up x)) ∧
    (Geometric.append g x : Outcome (Err W) (Geometric F)) =
      .err (.nonPositiveValue (Widen.up x)) ∧
    (Harmonic.extend h (pre ++ x :: post) : Outcome (Err W) (Harmonic F) × Harmonic F) =
      (.err (.nonPositiveValue (Widen.up x)),
        (Harmonic.extend h pre : Outcome (Err W) (Harmonic F) × Harmonic F).2) ∧
    (Geometric.extend g (pre ++ x :: post) : Outcome (Err W) (Geometric F) × Geometric F) =
      (.err (.nonPositiveValue (Widen.up x)),
        (Geometric.extend g pre : Outcome (Err W) (Geometric F) × Geometric F).2) :=
  ⟨(reject_append h g x hx).1, (reject_append h g x hx).2,
   (reject_extend_harmonic h pre post x hpre hx).1,
   (reject_extend_geometric g pre post x hpre hx).1⟩

/-- hence `ci` on data containing a non-positive value reports the first one -/
theorem reject_ci (crit : Crit W) (conf : Confidence W) (pre post : List F) (x : F)
    (hpre : ∀ y ∈ pre, le y (zero : F) = false) (hx : le x (zero : F) = true) :
    Harmonic.ci crit conf (pre ++ x :: post) = .err (.nonPositiveValue (Widen.up x)) ∧
    Geometric.ci crit conf (pre ++ x :: post) = .err (.nonPositiveValue (Widen.up x)) := by
  constructor
  · unfold Harmonic.ci Harmonic.fromList
    rw [Harmonic.extend_rejected _ pre post x hpre hx]; rfl
  · unfold Geometric.ci Geometric.fromList
    rw [Geometric.extend_rejected _ pre post x hpre hx]; rfl

end reject

/-- at `Rex` the test `x <= 0` is the real comparison (`-0 = 0` is rejected) -/
theorem reject_iff (x : Rex) : le x (zero : Rex) = true ↔ x.val ≤ 0 := by simp

/-! ### non-vacuity -/

example : ∀ x ∈ [(1 : ℝ), 2, 4], 0 < x := by
  intro x hx; simp at hx; rcases hx with rfl | rfl | rfl <;> norm_num

example : [(1 : ℝ), 2, 4] ≠ [] ∧ 2 ≤ [(1 : ℝ), 2, 4].length := by simp

example : le (inj (-1) : Rex) (zero : Rex) = true ∧
    (∀ y ∈ [(inj 1 : Rex), inj 2], le y (zero : Rex) = false) := by
  constructor
  · simp
  · intro y hy
    simp at hy
    rcases hy with rfl | rfl <;>
      (rw [Bool.eq_false_iff, Ne, RR.le_iff]; simp)

/-- positive branch, concrete: data `1, 1/3` (reciprocals `1, 3`: mean 2, `s/√n = 1`), constant
    critical value 1: the reciprocal-space interval is `[1, 3]` with `0 < 1`, so the hypotheses of
    `harmonic_twoSided` hold and the harmonic interval is `[1/3, 1]` -/
example : Harmonic.ci (constCrit 1) (.twoSided (⟨1 / 2⟩ : Rex)) ([(1 : ℝ), 1 / 3].map inj) =
    .ok (.twoSided (⟨1 / (2 + 1)⟩ : Rex) ⟨1 / (2 - 1)⟩) := by
  refine harmonic_twoSided (constCrit 1) ⟨1 / 2⟩ [1, 1 / 3] ?_ ⟨2 - 1⟩ ⟨2 + 1⟩
    (Arith.ci_recip_one_third 1 (by norm_num) ⟨1 / 2⟩ (by show (0 : ℝ) < 1 / 2; norm_num)
      (by show (1 : ℝ) / 2 < 1; norm_num)) (by show (0 : ℝ) < 2 - 1; norm_num)
  intro x hx; simp at hx; rcases hx with rfl | rfl <;> norm_num

/-- the other branch, concrete: same data, constant critical value 3: the reciprocal-space interval
    is `[-1, 5]`, so the hypotheses of the two-sided part of `harmonic_not_pos` (and of
    `harmonic_twoSided_straddle` at `Rex`) hold: the model hands `(1/5, posInf)` to `Interval::new` -/
example : Harmonic.ci (constCrit 3) (.twoSided (⟨1 / 2⟩ : Rex)) ([(1 : ℝ), 1 / 3].map inj) =
    liftI (Interval.new (⟨1 / (⟨2 + 3⟩ : Rex).val⟩ : Rex) posInf) := by
  refine (harmonic_not_pos (constCrit 3) ⟨1 / 2⟩ [1, 1 / 3] ?_).1 ⟨2 - 3⟩ ⟨2 + 3⟩
    (Arith.ci_recip_one_third 3 (by norm_num) ⟨1 / 2⟩ (by show (0 : ℝ) < 1 / 2; norm_num)
      (by show (1 : ℝ) / 2 < 1; norm_num)) (by show (2 : ℝ) - 3 ≤ 0; norm_num)
    (by show (0 : ℝ) < 2 + 3; norm_num)
  intro x hx; simp at hx; rcases hx with rfl | rfl <;> norm_num

/-- the branch is visible at the carrier `XR = ℝ ∪ {NaN, ±∞}`: a negative, zero or NaN
    reciprocal-space bound is read as `+∞`, a positive one as `1/r` -/
example : Harmonic.recipBound (XR.fin (-1)) = XR.pinf ∧ Harmonic.recipBound (XR.fin 0) = XR.pinf ∧
    Harmonic.recipBound XR.nan = XR.pinf ∧ Harmonic.recipBound (XR.fin 4) = XR.fin (1 / 4) := by
  refine ⟨?_, ?_, ?_, ?_⟩ <;> simp [Harmonic.recipBound]

/-- and there `Interval::new(1/b, +∞)` of `harmonic_twoSided_straddle` is accepted: `[1/5, +∞]` -/
example : gt (XR.fin (-1)) (zero : XR) = false ∧ gt (XR.fin 5) (zero : XR) = true ∧
    (liftI (Interval.new (div one (XR.fin 5)) (posInf : XR)) : Outcome (Err XR) (Interval XR)) =
      .ok (.twoSided (XR.fin (1 / 5)) XR.pinf) := by
  refine ⟨?_, ?_, ?_⟩ <;> simp [Interval.new, liftI]

end StatsCI.C05
