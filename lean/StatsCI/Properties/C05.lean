/-
  C05 — Geometric / harmonic CIs are the back-transformed arithmetic CIs.

  Items 1–5 are at exact arithmetic `Rex = RR id` for positive real data `xs`; item 6 holds for
  *every* carrier. Real statistics as in C01 (`smean`, `svar`, `ssd`, `halfWidth`).
-/
import StatsCI.Lemmas.MeanLog
import StatsCI.Lemmas.MeanUnpaired

set_option linter.unusedSectionVars false

namespace StatsCI.C05
open StatsCI StatsCI.MeanLemmas NumOps Scalar

/-! ### 1. geometric -/

/-- `Geometric::ci` is the arithmetic CI of the logarithms mapped through `exp` bound by bound,
    with the same kind (for a two-sided result `exp lo ≤ exp hi` holds, so `Interval::new`
    accepts); errors and panics of the log-space computation pass through unchanged -/
theorem geometric (crit : Crit Rex) (conf : Confidence Rex) (xs : List ℝ)
    (hpos : ∀ x ∈ xs, 0 < x) :
    Geometric.ci crit conf (xs.map inj) =
      (Arith.ci crit conf ((xs.map Real.log).map inj : List Rex)).map
        (Interval.map Scalar.exp) := by
  unfold Geometric.ci
  rw [Geometric.fromList_rex xs hpos, Outcome.bind_ok, Geometric.ciMean_rex]
  rfl

/-- explicit bounds for `n ≥ 2` and a valid level: `exp(ȳ ∓ c·s_y/√n)` with `y = ln x` -/
theorem geometric_bounds (crit : Crit Rex) (conf : Confidence Rex) (xs : List ℝ)
    (hpos : ∀ x ∈ xs, 0 < x) (hn : 2 ≤ xs.length) (h0 : 0 < conf.level.val)
    (h1 : conf.level.val < 1) :
    Geometric.ci crit conf (xs.map inj) =
      match conf with
      | .twoSided _ =>
        if 0 ≤ halfWidth crit conf (xs.map Real.log) then
          .ok (.twoSided
            (⟨Real.exp (smean (xs.map Real.log) - halfWidth crit conf (xs.map Real.log))⟩ : Rex)
            ⟨Real.exp (smean (xs.map Real.log) + halfWidth crit conf (xs.map Real.log))⟩)
        else .err (.interval .invalidBounds)
      | .upper _ =>
        .ok (.upper
          (⟨Real.exp (smean (xs.map Real.log) - halfWidth crit conf (xs.map Real.log))⟩ : Rex))
      | .lower _ =>
        .ok (.lower
          (⟨Real.exp (smean (xs.map Real.log) + halfWidth crit conf (xs.map Real.log))⟩ : Rex)) := by
  rw [geometric crit conf xs hpos,
    Arith.ci_rex crit conf (xs.map Real.log) (by simpa using hn) (probOk_quantile conf h0 h1),
    intervalOfKind_pm]
  cases conf with
  | twoSided l =>
    by_cases h : 0 ≤ halfWidth crit (.twoSided l) (xs.map Real.log)
    · simp only [h, if_true]; rfl
    · simp only [h, if_false]; rfl
  | upper l => rfl
  | lower l => rfl

/-! ### 2. harmonic -/

/-- `Harmonic::ci` runs `ci_mean` on the arithmetic state of the reciprocals -/
theorem harmonic_state (crit : Crit Rex) (conf : Confidence Rex) (xs : List ℝ)
    (hpos : ∀ x ∈ xs, 0 < x) :
    Harmonic.ci crit conf (xs.map inj) =
      Harmonic.ciMean crit
        (⟨Arith.fromList ((xs.map (fun x => 1 / x)).map inj)⟩ : Harmonic Rex) conf := by
  unfold Harmonic.ci
  rw [Harmonic.fromList_rex xs hpos, Outcome.bind_ok]

/-- two-sided: if the arithmetic CI of the reciprocals (flipped confidence = same two-sided
    confidence) is `[a, b]` with `0 < a`, the result is `[1/b, 1/a]` -/
theorem harmonic_twoSided (crit : Crit Rex) (l : Rex) (xs : List ℝ) (hpos : ∀ x ∈ xs, 0 < x)
    (a b : Rex)
    (hJ : Arith.ci crit (Confidence.twoSided l).flipped ((xs.map (fun x => 1 / x)).map inj) =
      .ok (.twoSided a b))
    (ha : 0 < a.val) :
    Harmonic.ci crit (.twoSided l) (xs.map inj) =
      .ok (.twoSided (⟨1 / b.val⟩ : Rex) ⟨1 / a.val⟩) := by
  rw [harmonic_state crit _ xs hpos]
  exact Harmonic.ciMean_twoSided_pos crit _ l a b hJ ha

/-- two-sided without the positivity hypothesis: the model hands `(1/b, 1/a)` to `Interval::new`,
    which rejects when `1/b > 1/a` (reciprocal-space interval straddling 0) -/
theorem harmonic_twoSided_general (crit : Crit Rex) (l : Rex) (xs : List ℝ)
    (hpos : ∀ x ∈ xs, 0 < x) (a b : Rex)
    (hJ : Arith.ci crit (Confidence.twoSided l).flipped ((xs.map (fun x => 1 / x)).map inj) =
      .ok (.twoSided a b)) :
    Harmonic.ci crit (.twoSided l) (xs.map inj) =
      liftI (Interval.new (⟨1 / b.val⟩ : Rex) ⟨1 / a.val⟩) := by
  rw [harmonic_state crit _ xs hpos]
  exact Harmonic.ciMean_twoSided crit _ l a b hJ

/-- upper one-sided confidence: the flipped confidence is lower one-sided, the reciprocal-space
    interval is `(-∞, b]` and the result is `[1/b, +∞)` (meaningful when `b > 0`) -/
theorem harmonic_upper (crit : Crit Rex) (l : Rex) (xs : List ℝ) (hpos : ∀ x ∈ xs, 0 < x)
    (b : Rex)
    (hJ : Arith.ci crit (Confidence.upper l).flipped ((xs.map (fun x => 1 / x)).map inj) =
      .ok (.lower b)) :
    Harmonic.ci crit (.upper l) (xs.map inj) = .ok (.upper (⟨1 / b.val⟩ : Rex)) := by
  rw [harmonic_state crit _ xs hpos]
  exact Harmonic.ciMean_upper crit _ l b hJ

/-- lower one-sided confidence: the flipped confidence is upper one-sided, the reciprocal-space
    interval is `[a, +∞)` and the result is `(-∞, 1/a]` (meaningful when `a > 0`) -/
theorem harmonic_lower (crit : Crit Rex) (l : Rex) (xs : List ℝ) (hpos : ∀ x ∈ xs, 0 < x)
    (a : Rex)
    (hJ : Arith.ci crit (Confidence.lower l).flipped ((xs.map (fun x => 1 / x)).map inj) =
      .ok (.upper a)) :
    Harmonic.ci crit (.lower l) (xs.map inj) = .ok (.lower (⟨1 / a.val⟩ : Rex)) := by
  rw [harmonic_state crit _ xs hpos]
  exact Harmonic.ciMean_lower crit _ l a hJ

/-- the three kinds together -/
theorem harmonic (crit : Crit Rex) (l : Rex) (xs : List ℝ) (hpos : ∀ x ∈ xs, 0 < x) :
    (∀ a b : Rex,
      Arith.ci crit (Confidence.twoSided l).flipped ((xs.map (fun x => 1 / x)).map inj) =
        .ok (.twoSided a b) → 0 < a.val →
      Harmonic.ci crit (.twoSided l) (xs.map inj) =
        .ok (.twoSided (⟨1 / b.val⟩ : Rex) ⟨1 / a.val⟩)) ∧
    (∀ b : Rex,
      Arith.ci crit (Confidence.upper l).flipped ((xs.map (fun x => 1 / x)).map inj) =
        .ok (.lower b) →
      Harmonic.ci crit (.upper l) (xs.map inj) = .ok (.upper (⟨1 / b.val⟩ : Rex))) ∧
    (∀ a : Rex,
      Arith.ci crit (Confidence.lower l).flipped ((xs.map (fun x => 1 / x)).map inj) =
        .ok (.upper a) →
      Harmonic.ci crit (.lower l) (xs.map inj) = .ok (.lower (⟨1 / a.val⟩ : Rex))) :=
  ⟨fun a b hJ ha => harmonic_twoSided crit l xs hpos a b hJ ha,
   fun b hJ => harmonic_upper crit l xs hpos b hJ,
   fun a hJ => harmonic_lower crit l xs hpos a hJ⟩

/-- the three cases above are exhaustive: a successful reciprocal-space interval at the flipped
    confidence has the flipped kind; errors and panics pass through unchanged -/
theorem harmonic_cases (crit : Crit Rex) (conf : Confidence Rex) (xs : List ℝ)
    (hpos : ∀ x ∈ xs, 0 < x) :
    (∀ J, Arith.ci crit conf.flipped ((xs.map (fun x => 1 / x)).map inj : List Rex) = .ok J →
      match conf with
      | .twoSided _ => ∃ a b, J = .twoSided a b ∧ a.val ≤ b.val
      | .upper _ => ∃ b, J = .lower b
      | .lower _ => ∃ a, J = .upper a) ∧
    (∀ e, Arith.ci crit conf.flipped ((xs.map (fun x => 1 / x)).map inj : List Rex) = .err e →
      Harmonic.ci crit conf (xs.map inj : List Rex) = .err e) ∧
    (∀ t, Arith.ci crit conf.flipped ((xs.map (fun x => 1 / x)).map inj : List Rex) = .panic t →
      Harmonic.ci crit conf (xs.map inj : List Rex) = .panic t) := by
  refine ⟨?_, ?_, ?_⟩
  · intro J hJ
    have hk := Arith.ciMean_ok_kind crit _ conf.flipped J hJ
    cases conf with
    | twoSided l =>
      obtain ⟨a, b, rfl, hg⟩ := hk
      refine ⟨a, b, rfl, ?_⟩
      rw [Bool.eq_false_iff, Ne, RR.gt_iff] at hg
      exact not_lt.mp hg
    | upper l => exact hk
    | lower l => exact hk
  · intro e he
    rw [harmonic_state crit _ xs hpos]
    exact (Harmonic.ciMean_not_ok crit _ conf).1 e he
  · intro t ht
    rw [harmonic_state crit _ xs hpos]
    exact (Harmonic.ciMean_not_ok crit _ conf).2 t ht

/-- explicit one-sided bounds for `n ≥ 2` and a valid level, with `r = 1/x`:
    upper confidence gives `[1/(r̄ + c·s_r/√n), +∞)`, lower gives `(-∞, 1/(r̄ - c·s_r/√n)]`,
    the critical value being requested at the flipped confidence (same probability) -/
theorem harmonic_bounds_oneSided (crit : Crit Rex) (l : Rex) (xs : List ℝ)
    (hpos : ∀ x ∈ xs, 0 < x) (hn : 2 ≤ xs.length) (h0 : 0 < l.val) (h1 : l.val < 1) :
    Harmonic.ci crit (.upper l) (xs.map inj) =
      .ok (.upper (⟨1 / (smean (xs.map (fun x => 1 / x)) +
        halfWidth crit (.lower l) (xs.map (fun x => 1 / x)))⟩ : Rex)) ∧
    Harmonic.ci crit (.lower l) (xs.map inj) =
      .ok (.lower (⟨1 / (smean (xs.map (fun x => 1 / x)) -
        halfWidth crit (.upper l) (xs.map (fun x => 1 / x)))⟩ : Rex)) := by
  constructor
  · apply harmonic_upper crit l xs hpos
    rw [show (Confidence.upper l).flipped = .lower l from rfl,
      Arith.ci_rex crit (.lower l) _ (by simpa using hn) (probOk_quantile (.lower l) h0 h1)]
    rfl
  · apply harmonic_lower crit l xs hpos
    rw [show (Confidence.lower l).flipped = .upper l from rfl,
      Arith.ci_rex crit (.upper l) _ (by simpa using hn) (probOk_quantile (.upper l) h0 h1)]
    rfl

/-- explicit two-sided bounds when the half-width is non-negative and the reciprocal-space lower
    bound `r̄ - c·s_r/√n` is positive: `[1/(r̄ + h), 1/(r̄ - h)]` -/
theorem harmonic_bounds_twoSided (crit : Crit Rex) (l : Rex) (xs : List ℝ)
    (hpos : ∀ x ∈ xs, 0 < x) (hn : 2 ≤ xs.length) (h0 : 0 < l.val) (h1 : l.val < 1)
    (hh : 0 ≤ halfWidth crit (.twoSided l) (xs.map (fun x => 1 / x)))
    (hlo : 0 < smean (xs.map (fun x => 1 / x)) -
      halfWidth crit (.twoSided l) (xs.map (fun x => 1 / x))) :
    Harmonic.ci crit (.twoSided l) (xs.map inj) =
      .ok (.twoSided
        (⟨1 / (smean (xs.map (fun x => 1 / x)) +
          halfWidth crit (.twoSided l) (xs.map (fun x => 1 / x)))⟩ : Rex)
        ⟨1 / (smean (xs.map (fun x => 1 / x)) -
          halfWidth crit (.twoSided l) (xs.map (fun x => 1 / x)))⟩) := by
  have hJ : Arith.ci crit (Confidence.twoSided l).flipped
      ((xs.map (fun x => 1 / x)).map inj) =
      .ok (.twoSided
        (⟨smean (xs.map (fun x => 1 / x)) -
          halfWidth crit (.twoSided l) (xs.map (fun x => 1 / x))⟩ : Rex)
        ⟨smean (xs.map (fun x => 1 / x)) +
          halfWidth crit (.twoSided l) (xs.map (fun x => 1 / x))⟩) := by
    rw [show (Confidence.twoSided l).flipped = .twoSided l from rfl,
      Arith.ci_rex crit (.twoSided l) _ (by simpa using hn)
        (probOk_quantile (.twoSided l) h0 h1), intervalOfKind_pm]
    simp only [hh, if_true]
  exact harmonic_twoSided crit l xs hpos _ _ hJ hlo

/-! ### 3. the sample means -/

/-- positive data are accepted; `Geometric::sample_mean()` is `exp(mean ln x)` and
    `Harmonic::sample_mean()` is `1/(mean 1/x)` -/
theorem means (xs : List ℝ) (hpos : ∀ x ∈ xs, 0 < x) :
    (∃ g : Geometric Rex,
      (Geometric.fromList (xs.map inj) : Outcome (Err Rex) (Geometric Rex)) = .ok g ∧
      g.logs = Arith.fromList ((xs.map Real.log).map inj) ∧
      g.mean.val = Real.exp (smean (xs.map Real.log))) ∧
    (∃ h : Harmonic Rex,
      (Harmonic.fromList (xs.map inj) : Outcome (Err Rex) (Harmonic Rex)) = .ok h ∧
      h.recip = Arith.fromList ((xs.map (fun x => 1 / x)).map inj) ∧
      h.mean.val = 1 / smean (xs.map (fun x => 1 / x))) := by
  constructor
  · refine ⟨_, Geometric.fromList_rex xs hpos, rfl, ?_⟩
    simp only [Geometric.mean, RR.exp_val, id_eq, Arith.fromList_mean]
  · refine ⟨_, Harmonic.fromList_rex xs hpos, rfl, ?_⟩
    simp only [Harmonic.mean, RR.div_val, RR.one_val, id_eq, Arith.fromList_mean]

/-! ### 4. harmonic ≤ geometric ≤ arithmetic -/

/-- the sample means of the three model states built from the same non-empty positive data -/
theorem hm_le_gm_le_am (xs : List ℝ) (hne : xs ≠ []) (hpos : ∀ x ∈ xs, 0 < x) :
    ∃ (h : Harmonic Rex) (g : Geometric Rex),
      (Harmonic.fromList (xs.map inj) : Outcome (Err Rex) (Harmonic Rex)) = .ok h ∧
      (Geometric.fromList (xs.map inj) : Outcome (Err Rex) (Geometric Rex)) = .ok g ∧
      h.mean.val ≤ g.mean.val ∧
      g.mean.val ≤ (Arith.fromList (xs.map inj) : Arith Rex).mean.val := by
  refine ⟨_, _, Harmonic.fromList_rex xs hpos, Geometric.fromList_rex xs hpos, ?_, ?_⟩
  · simp only [Harmonic.mean, Geometric.mean, RR.div_val, RR.one_val, RR.exp_val, id_eq,
      Arith.fromList_mean]
    exact hm_le_gm xs hne hpos
  · simp only [Geometric.mean, RR.exp_val, id_eq, Arith.fromList_mean]
    exact gm_le_am xs hne hpos

/-- the real inequality itself -/
theorem hm_le_gm_le_am_real (xs : List ℝ) (hne : xs ≠ []) (hpos : ∀ x ∈ xs, 0 < x) :
    1 / smean (xs.map (fun x => 1 / x)) ≤ Real.exp (smean (xs.map Real.log)) ∧
      Real.exp (smean (xs.map Real.log)) ≤ smean xs :=
  ⟨hm_le_gm xs hne hpos, gm_le_am xs hne hpos⟩

/-! ### 5. standard errors (delta method) -/

/-- `Geometric::sample_sem()` is `G · sd(ln x)/√(n-1)` and `Harmonic::sample_sem()` is
    `H² · sd(1/x)/√(n-1)` (`n ≥ 2`; note the crate's `√(n-1)`) -/
theorem sem (xs : List ℝ) (hn : 2 ≤ xs.length) :
    (⟨Arith.fromList ((xs.map Real.log).map inj)⟩ : Geometric Rex).sem.val =
      Real.exp (smean (xs.map Real.log)) * ssd (xs.map Real.log) /
        Real.sqrt ((xs.length : ℝ) - 1) ∧
    (⟨Arith.fromList ((xs.map (fun x => 1 / x)).map inj)⟩ : Harmonic Rex).sem.val =
      (1 / smean (xs.map (fun x => 1 / x))) * (1 / smean (xs.map (fun x => 1 / x))) *
        ssd (xs.map (fun x => 1 / x)) / Real.sqrt ((xs.length : ℝ) - 1) := by
  constructor
  · simp only [Geometric.sem, Geometric.mean, RR.div_val, RR.mul_val, RR.exp_val, RR.sqrt_val,
      RR.ofNat_val, id_eq, Arith.fromList_mean, Arith.fromList_count, List.length_map,
      Arith.fromList_stdDev _ (show 2 ≤ (xs.map Real.log).length by simpa using hn),
      natCast_pred xs.length (by omega)]
  · simp only [Harmonic.sem, Harmonic.mean, RR.div_val, RR.mul_val, RR.one_val, RR.sqrt_val,
      RR.ofNat_val, id_eq, Arith.fromList_mean, Arith.fromList_count, List.length_map,
      Arith.fromList_stdDev _ (show 2 ≤ (xs.map (fun x => 1 / x)).length by simpa using hn),
      natCast_pred xs.length (by omega)]

/-! ### 6. rejection of non-positive values (every carrier) -/

section reject
variable {F W : Type} [Scalar F] [Scalar W] [Widen F W]

/-- `append` of a value `x <= 0` returns `NonPositiveValue(x)`; nothing else is returned, so the
    caller's state is the one it had (the model's `append` is a pure function of the state) -/
theorem reject_append (h : Harmonic F) (g : Geometric F) (x : F) (hx : le x (zero : F) = true) :
    (Harmonic.append h x : Outcome (Err W) (Harmonic F)) = .err (.nonPositiveValue (Widen.up x)) ∧
    (Geometric.append g x : Outcome (Err W) (Geometric F)) =
      .err (.nonPositiveValue (Widen.up x)) := by
  simp [Harmonic.append, Geometric.append, hx]

/-- `extend` stops at the first rejected value wherever it stands: the error names that value and
    the state left behind is exactly the state after the accepted prefix -/
theorem reject_extend_harmonic (h : Harmonic F) (pre post : List F) (x : F)
    (hpre : ∀ y ∈ pre, le y (zero : F) = false) (hx : le x (zero : F) = true) :
    (Harmonic.extend h (pre ++ x :: post) : Outcome (Err W) (Harmonic F) × Harmonic F) =
      (.err (.nonPositiveValue (Widen.up x)),
        (Harmonic.extend h pre : Outcome (Err W) (Harmonic F) × Harmonic F).2) ∧
    (Harmonic.extend h pre : Outcome (Err W) (Harmonic F) × Harmonic F) =
      (.ok ⟨h.recip.extend (pre.map (fun y => div one y))⟩,
        ⟨h.recip.extend (pre.map (fun y => div one y))⟩) := by
  rw [Harmonic.extend_rejected h pre post x hpre hx, Harmonic.extend_accepted h pre hpre]
  exact ⟨rfl, rfl⟩

theorem reject_extend_geometric (g : Geometric F) (pre post : List F) (x : F)
    (hpre : ∀ y ∈ pre, le y (zero : F) = false) (hx : le x (zero : F) = true) :
    (Geometric.extend g (pre ++ x :: post) : Outcome (Err W) (Geometric F) × Geometric F) =
      (.err (.nonPositiveValue (Widen.up x)),
        (Geometric.extend g pre : Outcome (Err W) (Geometric F) × Geometric F).2) ∧
    (Geometric.extend g pre : Outcome (Err W) (Geometric F) × Geometric F) =
      (.ok ⟨g.logs.extend (pre.map ln)⟩, ⟨g.logs.extend (pre.map ln)⟩) := by
  rw [Geometric.extend_rejected g pre post x hpre hx, Geometric.extend_accepted g pre hpre]
  exact ⟨rfl, rfl⟩

/-- all of item 6 for both means -/
theorem reject (h : Harmonic F) (g : Geometric F) (pre post : List F) (x : F)
    (hpre : ∀ y ∈ pre, le y (zero : F) = false) (hx : le x (zero : F) = true) :
    (Harmonic.append h x : Outcome (Err W) (Harmonic F)) = .err (.nonPositiveValue (Widen.up x)) ∧
    (Geometric.append g x : Outcome (Err W) (Geometric F)) =
      .err (.nonPositiveValue (Widen.up x)) ∧
    (Harmonic.extend h (pre ++ x :: post) : Outcome (Err W) (Harmonic F) × Harmonic F) =
      (.err (.nonPositiveValue (Widen.up x)),
        (Harmonic.extend h pre : Outcome (Err W) (Harmonic F) × Harmonic F).2) ∧
    (Geometric.extend g (pre ++ x :: post) : Outcome (Err W) (Geometric F) × Geometric F) =
      (.err (.nonPositiveValue (Widen.up x)),
        (Geometric.extend g pre : Outcome (Err W) (Geometric F) × Geometric F).2) :=
  ⟨(reject_append h g x hx).1, (reject_append h g x hx).2,
   (reject_extend_harmonic h pre post x hpre hx).1,
   (reject_extend_geometric g pre post x hpre hx).1⟩

/-- hence `ci` on data containing a non-positive value reports the first one -/
theorem reject_ci (crit : Crit W) (conf : Confidence W) (pre post : List F) (x : F)
    (hpre : ∀ y ∈ pre, le y (zero : F) = false) (hx : le x (zero : F) = true) :
    Harmonic.ci crit conf (pre ++ x :: post) = .err (.nonPositiveValue (Widen.up x)) ∧
    Geometric.ci crit conf (pre ++ x :: post) = .err (.nonPositiveValue (Widen.up x)) := by
  constructor
  · unfold Harmonic.ci Harmonic.fromList
    rw [Harmonic.extend_rejected _ pre post x hpre hx]; rfl
  · unfold Geometric.ci Geometric.fromList
    rw [Geometric.extend_rejected _ pre post x hpre hx]; rfl

end reject

/-- at `Rex` the test `x <= 0` is the real comparison (`-0 = 0` is rejected) -/
theorem reject_iff (x : Rex) : le x (zero : Rex) = true ↔ x.val ≤ 0 := by simp

/-! ### non-vacuity -/

example : ∀ x ∈ [(1 : ℝ), 2, 4], 0 < x := by
  intro x hx; simp at hx; rcases hx with rfl | rfl | rfl <;> norm_num

example : [(1 : ℝ), 2, 4] ≠ [] ∧ 2 ≤ [(1 : ℝ), 2, 4].length := by simp

example : le (inj (-1) : Rex) (zero : Rex) = true ∧
    (∀ y ∈ [(inj 1 : Rex), inj 2], le y (zero : Rex) = false) := by
  constructor
  · simp
  · intro y hy
    simp at hy
    rcases hy with rfl | rfl <;>
      (rw [Bool.eq_false_iff, Ne, RR.le_iff]; simp)

end StatsCI.C05
