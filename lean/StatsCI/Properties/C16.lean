/-
  C16 — Equivariance under scaling, negation, shift and reordering.

  Items 1, 2, 5 are over `RR fl` for *every* rounding function `fl` satisfying the stated
  commutation hypothesis (`fl (a·x) = a·fl x`: true in IEEE arithmetic for `a = 2^e` away from
  overflow/underflow; `fl (-x) = -fl x`: true in IEEE round-to-nearest). Items 3, 4 are at exact
  arithmetic `Rex = RR id`.

  Notation (`StatsCI.MeanLemmas`, file `Lemmas/MeanSym.lean`): `smul a x = ⟨a * x.val⟩` is the
  (unrounded) transformation applied to the data and to the bounds; `ksmul a k` multiplies both
  fields of a compensated register by `a`; `asmul a A` is the state with `sum` register
  multiplied by `a`, `sum_sq` register by `a²` and the same count.
-/
import StatsCI.Lemmas.MeanSym
import StatsCI.Lemmas.MeanLogScale

namespace StatsCI.C16
open StatsCI StatsCI.MeanLemmas NumOps Scalar

section scale
variable {fl : ℝ → ℝ} {a : ℝ}

/-! ### 1. scaling by a factor that commutes with rounding -/

/-- registers: `sum`, `compensation` of the sum register are multiplied by `a`, those of the
    sum-of-squares register by `a²`; the count is unchanged. (No sign condition.) -/
theorem scale_registers (hfl : ∀ x, fl (a * x) = a * fl x) (xs : List (RR fl)) :
    (Arith.fromList (xs.map (smul a))).sum = ksmul a (Arith.fromList xs).sum ∧
    (Arith.fromList (xs.map (smul a))).sumSq = ksmul (a * a) (Arith.fromList xs).sumSq ∧
    (Arith.fromList (xs.map (smul a))).count = (Arith.fromList xs).count := by
  rw [Arith.fromList_smul hfl]
  exact ⟨rfl, rfl, rfl⟩

/-- the same for data fed into an arbitrary state -/
theorem scale_extend (hfl : ∀ x, fl (a * x) = a * fl x) (A : Arith (RR fl)) (xs : List (RR fl)) :
    (asmul a A).extend (xs.map (smul a)) = asmul a (A.extend xs) :=
  Arith.extend_smul hfl A xs

/-- `mean` is multiplied by `a`, `variance` by `a²` (`a ≠ 0`), `std_dev` by `a` (`a > 0`) -/
theorem scale_stats (ha : 0 < a) (hfl : ∀ x, fl (a * x) = a * fl x) (xs : List (RR fl)) :
    (Arith.fromList (xs.map (smul a))).mean = smul a (Arith.fromList xs).mean ∧
    (Arith.fromList (xs.map (smul a))).variance = smul (a * a) (Arith.fromList xs).variance ∧
    (Arith.fromList (xs.map (smul a))).stdDev = smul a (Arith.fromList xs).stdDev := by
  have habs : ∀ x, fl (|a| * x) = |a| * fl x := by rw [abs_of_pos ha]; exact hfl
  rw [Arith.fromList_smul hfl]
  refine ⟨Arith.mean_smul hfl _, Arith.variance_smul ha.ne' hfl _, ?_⟩
  have := Arith.stdDev_smul ha.ne' hfl habs (Arith.fromList xs)
  rwa [abs_of_pos ha] at this

/-- every bound of `Arithmetic::ci` is multiplied by exactly `a`; the kind, the errors and the
    panics are unchanged (the critical value request is the same: same `n`, same level) -/
theorem scale_exact (ha : 0 < a) (hfl : ∀ x, fl (a * x) = a * fl x) (crit : Crit (RR fl))
    (conf : Confidence (RR fl)) (xs : List (RR fl)) :
    Arith.ci crit conf (xs.map (smul a)) =
      (Arith.ci crit conf xs).map (Interval.map (smul a)) := by
  have habs : ∀ x, fl (|a| * x) = |a| * fl x := by rw [abs_of_pos ha]; exact hfl
  unfold Arith.ci
  rw [Arith.fromList_smul hfl, Arith.ciMean_eq_finish, Arith.ciMean_eq_finish,
    Arith.ciPrep_smul ha.ne' hfl habs, abs_of_pos ha, finish_scale ha hfl]

/-- the hypothesis on `fl` extends to every power of `a` (so one hypothesis covers `a²`, `a⁴`) -/
theorem scale_hyp_sq (hfl : ∀ x, fl (a * x) = a * fl x) : ∀ x, fl (a * a * x) = a * a * fl x :=
  hfl_sq hfl

/-- non-vacuity: exact arithmetic with `a = 2` -/
example : (0 : ℝ) < 2 ∧ ∀ x : ℝ, (id : ℝ → ℝ) (2 * x) = 2 * id x := ⟨by norm_num, fun _ => rfl⟩

/-! ### 2. negation under odd rounding -/

/-- negating the data negates both fields of the sum register, leaves the sum-of-squares register
    unchanged, negates the mean and keeps the variance -/
theorem negate_stats (hodd : ∀ x, fl (-x) = -fl x) (xs : List (RR fl)) :
    (Arith.fromList (xs.map NumOps.neg)).sum = ksmul (-1) (Arith.fromList xs).sum ∧
    (Arith.fromList (xs.map NumOps.neg)).sumSq = (Arith.fromList xs).sumSq ∧
    (Arith.fromList (xs.map NumOps.neg)).count = (Arith.fromList xs).count ∧
    (Arith.fromList (xs.map NumOps.neg)).mean = NumOps.neg (Arith.fromList xs).mean ∧
    (Arith.fromList (xs.map NumOps.neg)).variance = (Arith.fromList xs).variance ∧
    (Arith.fromList (xs.map NumOps.neg)).stdDev = (Arith.fromList xs).stdDev := by
  have hfl := hfl_neg_one hodd
  have h11 : ((-1 : ℝ) * -1) = 1 := by norm_num
  have hv : (asmul (-1) (Arith.fromList xs)).variance = (Arith.fromList xs).variance := by
    rw [Arith.variance_smul (by norm_num) hfl, h11, smul_one]
  rw [map_neg_eq_smul, Arith.fromList_smul hfl]
  refine ⟨rfl, ?_, rfl, ?_, hv, ?_⟩
  · show ksmul ((-1 : ℝ) * -1) (Arith.fromList xs).sumSq = _
    rw [h11, ksmul_one]
  · rw [Arith.mean_smul hfl, smul_neg_one]
  · unfold Arith.stdDev; rw [hv]

/-- `Arithmetic::ci` of the negated data at the flipped confidence is the mirrored interval:
    bounds negated and exchanged, upper ↔ lower; errors and panics unchanged -/
theorem negate_exact (hodd : ∀ x, fl (-x) = -fl x) (crit : Crit (RR fl))
    (conf : Confidence (RR fl)) (xs : List (RR fl)) :
    Arith.ci crit conf.flipped (xs.map NumOps.neg) = (Arith.ci crit conf xs).map Interval.negI := by
  have hfl := hfl_neg_one hodd
  unfold Arith.ci
  rw [map_neg_eq_smul, Arith.fromList_smul hfl, Arith.ciMean_eq_finish, Arith.ciMean_eq_finish,
    Arith.ciPrep_smul (by norm_num) hfl habs_neg_one]
  have h1 : |(-1 : ℝ)| = 1 := by norm_num
  rw [h1, finish_neg hodd, flipped_flipped]

/-- equivalently: the same confidence on the negated data mirrors the flipped-confidence interval -/
theorem negate_exact' (hodd : ∀ x, fl (-x) = -fl x) (crit : Crit (RR fl))
    (conf : Confidence (RR fl)) (xs : List (RR fl)) :
    Arith.ci crit conf (xs.map NumOps.neg) =
      (Arith.ci crit conf.flipped xs).map Interval.negI := by
  have := negate_exact hodd crit conf.flipped xs
  rwa [flipped_flipped] at this

/-- non-vacuity: exact arithmetic is odd -/
example : ∀ x : ℝ, (id : ℝ → ℝ) (-x) = -(id x) := fun _ => rfl

/-! ### 5. paired and unpaired versions of 1–2 -/

/-- paired, scaling: the differences scale (`fl (a·x - a·y) = a·fl (x - y)`), hence the bounds;
    a length mismatch is reported identically -/
theorem paired_scale (ha : 0 < a) (hfl : ∀ x, fl (a * x) = a * fl x) (crit : Crit (RR fl))
    (conf : Confidence (RR fl)) (as bs : List (RR fl)) :
    Paired.ci crit conf (as.map (smul a)) (bs.map (smul a)) =
      (Paired.ci crit conf as bs).map (Interval.map (smul a)) := by
  by_cases h : as.length = bs.length
  · rw [Paired.ci_of_eq_len crit conf _ _ (by simpa using h), Paired.ci_of_eq_len crit conf _ _ h,
      zipWith_sub_smul hfl, scale_exact ha hfl]
  · rw [Paired.ci_of_ne_len crit conf _ _ (by simpa using h), Paired.ci_of_ne_len crit conf _ _ h]
    simp

/-- paired, negation -/
theorem paired_negate (hodd : ∀ x, fl (-x) = -fl x) (crit : Crit (RR fl))
    (conf : Confidence (RR fl)) (as bs : List (RR fl)) :
    Paired.ci crit conf.flipped (as.map NumOps.neg) (bs.map NumOps.neg) =
      (Paired.ci crit conf as bs).map Interval.negI := by
  by_cases h : as.length = bs.length
  · rw [Paired.ci_of_eq_len crit _ _ _ (by simpa using h), Paired.ci_of_eq_len crit conf _ _ h,
      map_neg_eq_smul, map_neg_eq_smul, zipWith_sub_smul (hfl_neg_one hodd), ← map_neg_eq_smul,
      negate_exact hodd]
  · rw [Paired.ci_of_ne_len crit _ _ _ (by simpa using h), Paired.ci_of_ne_len crit conf _ _ h]
    simp

/-- unpaired, scaling both samples: the mean difference and the standard error scale by `a`, the
    effective degrees of freedom are unchanged (numerator and denominator both carry `a⁴`) -/
theorem unpaired_scale (ha : 0 < a) (hfl : ∀ x, fl (a * x) = a * fl x) (crit : Crit (RR fl))
    (conf : Confidence (RR fl)) (xs ys : List (RR fl)) :
    Unpaired.ci crit conf (xs.map (smul a)) (ys.map (smul a)) =
      (Unpaired.ci crit conf xs ys).map (Interval.map (smul a)) := by
  have habs : ∀ x, fl (|a| * x) = |a| * fl x := by rw [abs_of_pos ha]; exact hfl
  have hu : Unpaired.fromLists (xs.map (smul a)) (ys.map (smul a)) =
      ⟨asmul a (Unpaired.fromLists xs ys).a, asmul a (Unpaired.fromLists xs ys).b⟩ := by
    show (⟨Arith.fromList (xs.map (smul a)), Arith.fromList (ys.map (smul a))⟩ : Unpaired (RR fl)) = _
    rw [Arith.fromList_smul hfl, Arith.fromList_smul hfl]
    rfl
  unfold Unpaired.ci
  rw [hu, Unpaired.ciMean_eq_finish, Unpaired.ciMean_eq_finish,
    Unpaired.ciPrep_smul ha.ne' hfl habs, abs_of_pos ha, finish_scale ha hfl]

/-- unpaired, negating both samples -/
theorem unpaired_negate (hodd : ∀ x, fl (-x) = -fl x) (crit : Crit (RR fl))
    (conf : Confidence (RR fl)) (xs ys : List (RR fl)) :
    Unpaired.ci crit conf.flipped (xs.map NumOps.neg) (ys.map NumOps.neg) =
      (Unpaired.ci crit conf xs ys).map Interval.negI := by
  have hfl := hfl_neg_one hodd
  have hu : Unpaired.fromLists (xs.map NumOps.neg) (ys.map NumOps.neg) =
      ⟨asmul (-1) (Unpaired.fromLists xs ys).a, asmul (-1) (Unpaired.fromLists xs ys).b⟩ := by
    show (⟨Arith.fromList (xs.map NumOps.neg), Arith.fromList (ys.map NumOps.neg)⟩ :
      Unpaired (RR fl)) = _
    rw [map_neg_eq_smul, map_neg_eq_smul, Arith.fromList_smul hfl, Arith.fromList_smul hfl]
    rfl
  have h1 : |(-1 : ℝ)| = 1 := by norm_num
  unfold Unpaired.ci
  rw [hu, Unpaired.ciMean_eq_finish, Unpaired.ciMean_eq_finish,
    Unpaired.ciPrep_smul (by norm_num) hfl habs_neg_one, h1, finish_neg hodd, flipped_flipped]

end scale

/-! ### 3. shift (exact arithmetic) -/

/-- adding a constant shifts the mean (`n ≥ 1`) and keeps the variance (`n ≥ 2`) -/
theorem shift_stats (xs : List ℝ) (k : ℝ) (hn : 2 ≤ xs.length) :
    (Arith.fromList ((xs.map (fun x => x + k)).map inj) : Arith Rex).mean.val =
      (Arith.fromList (xs.map inj) : Arith Rex).mean.val + k ∧
    (Arith.fromList ((xs.map (fun x => x + k)).map inj) : Arith Rex).variance.val =
      (Arith.fromList (xs.map inj) : Arith Rex).variance.val := by
  constructor
  · rw [Arith.fromList_mean, Arith.fromList_mean, smean_shift xs k (by omega)]
  · rw [Arith.fromList_variance _ (by simpa using hn), Arith.fromList_variance _ hn,
      svar_shift xs k (by omega)]

/-- adding a constant to every datum adds it to every bound (`Interval + k`); the kind, the
    errors and the panics are unchanged. No hypothesis on `n` or on the level. -/
theorem shift (crit : Crit Rex) (conf : Confidence Rex) (xs : List ℝ) (k : ℝ) :
    Arith.ci crit conf ((xs.map (fun x => x + k)).map inj) =
      (Arith.ci crit conf (xs.map inj : List Rex)).map (fun I => I.addScalar (inj k)) := by
  unfold Arith.ci
  rw [Arith.ciMean_eq_finish, Arith.ciMean_eq_finish, Arith.ciPrep_shift, finish_shift]

/-! ### 4. reordering (exact arithmetic) -/

/-- a permutation of the data leaves count, mean and variance — hence the interval — unchanged -/
theorem perm (crit : Crit Rex) (conf : Confidence Rex) (xs ys : List ℝ) (h : xs.Perm ys) :
    Arith.ci crit conf (xs.map inj : List Rex) = Arith.ci crit conf (ys.map inj : List Rex) := by
  obtain ⟨h1, h2, h3⟩ := Arith.fromList_perm xs ys h
  unfold Arith.ci
  apply Arith.ciMean_congr crit _ _ conf h1 h2
  unfold Arith.stdDev
  rw [h3]

/-- the statistics themselves -/
theorem perm_stats (xs ys : List ℝ) (h : xs.Perm ys) :
    (Arith.fromList (xs.map inj) : Arith Rex).count = (Arith.fromList (ys.map inj) : Arith Rex).count ∧
    (Arith.fromList (xs.map inj) : Arith Rex).mean = (Arith.fromList (ys.map inj) : Arith Rex).mean ∧
    (Arith.fromList (xs.map inj) : Arith Rex).variance =
      (Arith.fromList (ys.map inj) : Arith Rex).variance :=
  Arith.fromList_perm xs ys h

/-! ### geometric and harmonic means under scaling (exact arithmetic) -/

/-- multiplying positive data by `a > 0` multiplies every bound of the geometric interval by `a`
    (`ln (a·x) = ln x + ln a`: a shift in log space, then `exp`) -/
theorem geometric_scale (crit : Crit Rex) (conf : Confidence Rex) (xs : List ℝ)
    (hpos : ∀ x ∈ xs, 0 < x) (a : ℝ) (ha : 0 < a) :
    Geometric.ci crit conf ((xs.map (fun x => a * x)).map inj) =
      (Geometric.ci crit conf (xs.map inj : List Rex)).map (Interval.map (smul a)) :=
  Geometric.ci_scale_rex crit conf xs hpos a ha

/-- and likewise of the harmonic interval (the reciprocals scale by `a⁻¹`). No hypothesis on the
    sign of the reciprocal-space bounds: scaling by `a⁻¹ > 0` does not change the branch taken by
    `Harmonic.recipBound`, `1/(a⁻¹·r) = a·(1/r)` on the positive branch, and on the other branch
    both sides carry `posInf` (at `Rex` the stand-in `⟨0⟩ = a·⟨0⟩`) -/
theorem harmonic_scale (crit : Crit Rex) (conf : Confidence Rex) (xs : List ℝ)
    (hpos : ∀ x ∈ xs, 0 < x) (a : ℝ) (ha : 0 < a) :
    Harmonic.ci crit conf ((xs.map (fun x => a * x)).map inj) =
      (Harmonic.ci crit conf (xs.map inj : List Rex)).map (Interval.map (smul a)) :=
  Harmonic.ci_scale_rex crit conf xs hpos a ha

/-- non-vacuity: positive data, positive factor -/
example : (∀ x ∈ [(1 : ℝ), 3], 0 < x) ∧ (0 : ℝ) < 2 := by
  refine ⟨?_, by norm_num⟩
  intro x hx; simp at hx; rcases hx with rfl | rfl <;> norm_num

/-- non-vacuity: a non-trivial permutation -/
example : [(1 : ℝ), 2, 3].Perm [3, 1, 2] :=
  List.perm_append_comm (l₁ := [1, 2]) (l₂ := [3])

end StatsCI.C16
