/-
  C11 — Every interval-computing entry point is total: too few observations, non-finite
  observations, non-positive data for geometric/harmonic means, successes exceeding the population,
  too few successes or failures, a quantile outside (0,1) and unequal paired lengths produce the
  documented error variant rather than a panic; no call returns `Ok` with a NaN bound or with its
  lower bound above its upper bound. The only panics are the documented ones: the constructors of
  `Confidence` (C18), `Stats::new` with `successes > population`, interval arithmetic on opposite
  one-sided intervals (C13), the capacity of `ci_max_size`, and the `unwrap` of `partial_cmp` when
  `quantile::ci` sorts incomparable data.

  Two layers.
  (i)  Carrier-independent: for every data type `F` and computation type `W` (IEEE doubles, the
       extended reals `XR`, exact reals, …) and every critical-value oracle `crit`. The only thing
       asked of the confidence is `probOk conf.quantile` (the probability handed to `inverse_cdf` lies
       in `[0,1]`) — which every constructible confidence satisfies (`valid_conf_probOk_*`) — and of
       the carrier that `n − 1 > 0` for `n ≥ 2` (`LawfulCount`, proved for `Rex` and `XR`).
  (ii) On `XR = ℝ ∪ {NaN, −∞, +∞}` with IEEE comparison and propagation: which inputs fall in which
       error class, and that no `Ok` carries a NaN provided the external quantile routine answers
       with finite numbers.

  Modelling remarks (reported, not papered over):
  * `Ok` with `¬ (lo > hi)` is what `Interval::new` guarantees; under IEEE comparison this is weaker
    than `lo ≤ hi` when a bound is NaN. `arith_ok_le` turns it into `lo ≤ hi` for finite bounds, and
    `ok_never_nan` shows on `XR` that the bounds are never NaN when `crit` is finite. If the external
    routine answered NaN the crate would return `Ok([NaN, NaN])`: `nan_crit_gives_ok_nan`.
  * `ci_wilson` clamps its bounds (`(mean − span).max(0.)`, `(mean + span).min(1.)`) before
    `Interval::new`. `wilson_clamped` states the clamped shape on every carrier; on `XR` and on
    rounded reals the clamp makes every `Ok` a finite interval inside `[0, 1]` with `lo ≤ hi`, for
    *any* critical value (`wilson_ok_unit_XR`, `wilson_ok_unit_RR`); a NaN critical value gives
    `Ok([0, 1])` (`wilson_nan_crit_XR`); `InvalidBounds` survives only as a genuine `low > high`
    between non-NaN numbers (`wilson_invalidBounds_XR`), e.g. for a negative critical value.
  * `Unpaired::ci_mean` hands real-valued effective degrees of freedom to `t_value`, which panics on
    `dof ≤ 0`. On `XR` this cannot happen (`unpaired_total_XR`: the value is NaN/+∞ — z branch — or
    positive). Rounding could make it happen (underflow of the fourth powers for spreads around
    1e-81: a genuine defect, repaired by bounding the computed value below by `min(n_a, n_b) − 1`):
    `unpaired_total_any_rounding` proves that with the bound no rounding function whatever can lead
    to the panic; at exact reals no hypothesis on the samples is left (`unpaired_total_Rex'`).
  * `ci_sorted_unchecked` does not check that its slice is sorted — this is what "unchecked"
    documents — but it does check the elements it selects: one that is not comparable with itself
    (a NaN) is answered by `InvalidInputData` and never comes back as a bound
    (`sorted_unchecked_ok_selfCmp`, `sorted_unchecked_ok_never_nan`, `sorted_unchecked_rejects_nan`),
    for any slice, sorted or not. A NaN at a rank that is not selected goes unnoticed. `quantile::ci`
    sorts first and panics on a NaN there (`quantile_ci_panic_iff`, `ok_never_nan`).
-/
import StatsCI.Lemmas.Total

namespace StatsCI.C11
open StatsCI NumOps Scalar

/-! ## the hypotheses are satisfiable -/

/-- every constructible confidence passes `inverse_cdf`'s assertion, at exact reals … -/
theorem valid_conf_probOk_Rex (conf : Confidence Rex) (h : Confidence.validLevel conf.level = true) :
    probOk conf.quantile = true := Confidence.probOk_of_valid_Rex conf h

/-- … and on the extended reals -/
theorem valid_conf_probOk_XR (conf : Confidence XR) (h : Confidence.validLevel conf.level = true) :
    probOk conf.quantile = true := Confidence.probOk_of_valid_XR conf h

example : Confidence.validLevel (Confidence.twoSided (XR.fin 0.95)).level = true ∧
    probOk (Confidence.twoSided (XR.fin 0.95)).quantile = true := by
  have h : Confidence.validLevel (Confidence.twoSided (XR.fin 0.95)).level = true := by
    simp [Confidence.validLevel, Confidence.level]; norm_num
  exact ⟨h, valid_conf_probOk_XR _ h⟩

example : LawfulCount Rex ∧ LawfulCount XR ∧ LawfulCmp Rex ∧ LawfulCmp XR :=
  ⟨inferInstance, inferInstance, inferInstance, inferInstance⟩

/-! ## (i) carrier-independent -/

section generic
variable {F W : Type} [Scalar F] [Scalar W] [Widen F W]

/-! ### a. arithmetic mean -/

/-- `Arithmetic::ci_mean` is total: `TooFewSamples(n)` below two observations, `InvalidInputData`
    when mean or standard deviation is not finite, and never a panic -/
theorem arith_total [LawfulCount W] (crit : Crit W) (conf : Confidence W)
    (hq : probOk conf.quantile = true) (a : Arith F) :
    (a.count < 2 → Arith.ciMean crit a conf = .err (.tooFewSamples a.count)) ∧
    (2 ≤ a.count →
      (isFinite (Widen.up a.mean : W) = false ∨ isFinite (Widen.up a.stdDev : W) = false) →
      Arith.ciMean crit a conf = .err .invalidInputData) ∧
    (Arith.ciMean crit a conf).isPanic = false :=
  ⟨Arith.ciMean_of_lt crit a conf, Arith.ciMean_of_nonfinite crit a conf,
    Arith.ciMean_isPanic crit a conf hq⟩

/-- the same for the one-shot `Arithmetic::ci(confidence, data)` -/
theorem arith_ci_total [LawfulCount W] (crit : Crit W) (conf : Confidence W)
    (hq : probOk conf.quantile = true) (xs : List F) :
    (xs.length < 2 → Arith.ci crit conf xs = .err (.tooFewSamples xs.length)) ∧
    (Arith.ci crit conf xs).isPanic = false := by
  refine ⟨fun h => ?_, Arith.ciMean_isPanic crit _ conf hq⟩
  have := Arith.ciMean_of_lt crit (Arith.fromList xs) conf (by rw [Arith.fromList_count]; exact h)
  rwa [Arith.fromList_count] at this

/-- exactly when `ci_mean` panics, with no assumption at all: the guards pass and either Student-t
    is asked for with `n − 1` not positive, or `inverse_cdf` rejects the probability. With
    `LawfulCount` and a constructible confidence neither can happen (`arith_total`). -/
theorem arith_panic_iff (crit : Crit W) (conf : Confidence W) (a : Arith F) :
    (Arith.ciMean crit a conf).isPanic = true ↔
      2 ≤ a.count ∧ isFinite (Widen.up a.mean : W) = true ∧ isFinite (Widen.up a.stdDev : W) = true ∧
      ((lt (sub (Scalar.ofNat a.count) one : W) (populationLimit : W) = true ∧
          gt (sub (Scalar.ofNat a.count) one : W) (zero : W) = false) ∨
        probOk conf.quantile = false) :=
  Arith.ciMean_isPanic_iff crit a conf

/-- every error of `ci_mean` is one of the documented variants -/
theorem arith_err_classes (crit : Crit W) (conf : Confidence W) (a : Arith F) (e : Err W)
    (h : Arith.ciMean crit a conf = .err e) :
    (a.count < 2 ∧ e = .tooFewSamples a.count) ∨
    (2 ≤ a.count ∧ e = .invalidInputData ∧
      (isFinite (Widen.up a.mean : W) = false ∨ isFinite (Widen.up a.stdDev : W) = false)) ∨
    (2 ≤ a.count ∧ e = .interval .invalidBounds ∧ conf.kind = .twoSided) :=
  Arith.ciMean_eq_err h

/-! ### b. what an `Ok` looks like -/

/-- an `Ok` of `ci_mean` has the kind of the confidence, a two-sided one has `¬ lo > hi`, and the
    statistics that entered were finite (no hypothesis needed) -/
theorem arith_ok_is_sane (crit : Crit W) (conf : Confidence W) (a : Arith F) (i : Interval F)
    (h : Arith.ciMean crit a conf = .ok i) :
    2 ≤ a.count ∧ isFinite (Widen.up a.mean : W) = true ∧ isFinite (Widen.up a.stdDev : W) = true ∧
    ∃ lo hi : F, (conf.kind = .twoSided → i = .twoSided lo hi ∧ gt lo hi = false) ∧
      (conf.kind = .upper → i = .upper lo) ∧ (conf.kind = .lower → i = .lower hi) :=
  Arith.ciMean_eq_ok h

/-- with lawful comparison and finite bounds, `¬ lo > hi` is `lo ≤ hi` -/
theorem arith_ok_le [LawfulCmp F] (crit : Crit W) (l : W) (a : Arith F) (lo hi : F)
    (h : Arith.ciMean crit a (.twoSided l) = .ok (.twoSided lo hi))
    (hlo : isFinite lo = true) (hhi : isFinite hi = true) : le lo hi = true := by
  obtain ⟨_, _, _, lo', hi', h1, _, _⟩ := Arith.ciMean_eq_ok h
  obtain ⟨heq, hg⟩ := h1 rfl
  simp only [Interval.twoSided.injEq] at heq
  obtain ⟨rfl, rfl⟩ := heq
  have := LawfulCmp.lt_eq_not_le hi lo hhi hlo
  unfold gt at hg
  rw [hg] at this
  simpa using this.symm

/-- the hypotheses of `arith_ok_is_sane` / `arith_ok_le` are satisfiable (exact reals, sample `1, 2`) -/
example : ∃ lo hi : Rex,
    Arith.ciMean (constCrit 2 : Crit Rex) Examples.a12 (.twoSided (inj 0.95)) = .ok (.twoSided lo hi) ∧
    isFinite lo = true ∧ isFinite hi = true := by
  obtain ⟨lo, hi, h, _⟩ := Examples.arith_ok
  exact ⟨lo, hi, h, rfl, rfl⟩

/-! ### c. comparisons -/

/-- `Paired::ci`: unequal lengths are `DifferentSampleSizes(len_a, len_b)`; equal lengths are the
    arithmetic interval of the differences; never a panic -/
theorem paired_total [LawfulCount W] (crit : Crit W) (conf : Confidence W)
    (hq : probOk conf.quantile = true) (as bs : List F) :
    (as.length ≠ bs.length →
      Paired.ci crit conf as bs = .err (.differentSampleSizes as.length bs.length)) ∧
    (as.length = bs.length →
      Paired.ci crit conf as bs = Arith.ciMean crit (Arith.fromList (List.zipWith sub as bs)) conf) ∧
    (as.length = bs.length → as.length < 2 →
      Paired.ci crit conf as bs = .err (.tooFewSamples as.length)) ∧
    (Paired.ci crit conf as bs).isPanic = false := by
  refine ⟨Paired.ci_of_length_ne crit conf, Paired.ci_of_length_eq crit conf, fun h h2 => ?_,
    Paired.ci_isPanic crit conf as bs hq⟩
  rw [Paired.ci_of_length_eq crit conf h]
  have hc : (Arith.fromList (List.zipWith sub as bs)).count = as.length := by
    rw [Arith.fromList_count]; simp [h]
  have := Arith.ciMean_of_lt crit (Arith.fromList (List.zipWith sub as bs)) conf (by rw [hc]; exact h2)
  rwa [hc] at this

/-- `Paired::ci_mean` is `Arithmetic::ci_mean` of the accumulated differences, so `arith_total`,
    `arith_ok_is_sane`, `arith_err_classes` apply verbatim -/
theorem paired_ciMean_eq (crit : Crit W) (conf : Confidence W) (p : Paired F) :
    p.ciMean crit conf = p.stats.ciMean crit conf := rfl

/-- `Unpaired::ci_mean`: `TooFewSamples` for either side below two observations (the first sample is
    reported first), `InvalidInputData` for a non-finite mean difference or standard error -/
theorem unpaired_err_classes (crit : Crit W) (conf : Confidence W) (u : Unpaired F) :
    (u.a.count < 2 → Unpaired.ciMean crit u conf = .err (.tooFewSamples u.a.count)) ∧
    (2 ≤ u.a.count → u.b.count < 2 → Unpaired.ciMean crit u conf = .err (.tooFewSamples u.b.count)) ∧
    (2 ≤ u.a.count → 2 ≤ u.b.count →
      (isFinite (Unpaired.meanDiff u) = false ∨ isFinite (Unpaired.semF u) = false) →
      Unpaired.ciMean crit u conf = .err .invalidInputData) := by
  refine ⟨fun h => ?_, fun h1 h2 => ?_, fun h1 h2 h3 => ?_⟩ <;> unfold Unpaired.ciMean <;>
    rcases Unpaired.ciPrep_cases (W := W) u with ⟨k, h'⟩ | ⟨k1, k2, h'⟩ | ⟨k1, k2, k3, h'⟩ |
      ⟨k1, k2, k3, k4, h'⟩ <;> first | omega | (rw [h']; rfl) | skip
  rcases h3 with h3 | h3 <;> simp_all

/-- exactly when `Unpaired::ci_mean` panics (no assumption): the guards pass and either Student-t is
    asked for with effective degrees of freedom that are not positive, or `inverse_cdf` rejects the
    probability -/
theorem unpaired_panic_iff (crit : Crit W) (conf : Confidence W) (u : Unpaired F) :
    (Unpaired.ciMean crit u conf).isPanic = true ↔
      2 ≤ u.a.count ∧ 2 ≤ u.b.count ∧ isFinite (Unpaired.meanDiff u) = true ∧
      isFinite (Unpaired.semF u) = true ∧
      ((lt (Unpaired.dofW u : W) (populationLimit : W) = true ∧
          gt (Unpaired.dofW u : W) (zero : W) = false) ∨
        probOk conf.quantile = false) :=
  Unpaired.ciMean_isPanic_iff crit u conf

/-- hence: never a panic when the effective degrees of freedom are positive or not below the limit -/
theorem unpaired_total (crit : Crit W) (conf : Confidence W) (hq : probOk conf.quantile = true)
    (u : Unpaired F)
    (hd : lt (Unpaired.dofW u : W) (populationLimit : W) = true →
      gt (Unpaired.dofW u : W) (zero : W) = true) :
    (Unpaired.ciMean crit u conf).isPanic = false := by
  rw [Bool.eq_false_iff]
  intro hp
  obtain ⟨_, _, _, _, h | h⟩ := (unpaired_panic_iff crit conf u).mp hp
  · rw [hd h.1] at h; exact absurd h.2 (by simp)
  · rw [hq] at h; cases h

/-- on `XR` the hypothesis on the degrees of freedom always holds -/
theorem unpaired_total_XR (crit : Crit XR) (conf : Confidence XR) (hq : probOk conf.quantile = true)
    (u : Unpaired XR) : (Unpaired.ciMean crit u conf).isPanic = false :=
  XR.unpaired_ciMean_isPanic crit u conf hq

/-- at exact reals it holds unless both samples are constant (where `Rex` evaluates `0/0` to `0`,
    which IEEE arithmetic does not) -/
theorem unpaired_total_Rex (crit : Crit Rex) (conf : Confidence Rex)
    (hq : probOk conf.quantile = true) (u : Unpaired Rex)
    (hpos : (Unpaired.s2n u.a).val ≠ 0 ∨ (Unpaired.s2n u.b).val ≠ 0) :
    (Unpaired.ciMean crit u conf).isPanic = false :=
  Unpaired.ciMean_isPanic_Rex crit u conf hq hpos

/-- **Whatever the rounding — underflow of the fourth powers included — `t_value` is never asked for
    a non-positive number of degrees of freedom.** On the reals with an *arbitrary* function `fl`
    applied after every operation (no accuracy assumption at all: `fl` may send the products in the
    effective-degrees-of-freedom formula to zero, as underflow does), the value handed on is the
    computed one bounded below by `fl (min (fl n_a) (fl n_b) − 1)`; as soon as that bound is positive
    (it is `min(n_a, n_b) − 1 ≥ 1` when `fl` is exact on the two counts and on that difference, as
    IEEE arithmetic is for counts below 2⁵³) `Unpaired::ci_mean` does not panic. Before the repair
    (`fix: the effective degrees of freedom … never fall below min(n_a, n_b) − 1`) the computed value
    could be `0` (`Unpaired::ci(0.95, [0, 3.3e-81], [1, 1, 1])` panicked). -/
theorem unpaired_total_any_rounding {fl : ℝ → ℝ} (crit : Crit (RR fl)) (conf : Confidence (RR fl))
    (hq : probOk conf.quantile = true) (u : Unpaired (RR fl))
    (hpos : 0 < fl (min (fl u.a.count) (fl u.b.count) - 1)) :
    (Unpaired.ciMean crit u conf).isPanic = false := by
  apply unpaired_total crit conf hq u
  intro _
  rw [Unpaired.dofW_eq_dofF_RR, RR.gt_iff]
  have h : (Unpaired.dofF u).val =
      max (Unpaired.effectiveDof (Unpaired.s2n u.a) (Unpaired.s2n u.b)
        (Scalar.ofNat u.a.count) (Scalar.ofNat u.b.count) : RR fl).val
        (fl (min (fl u.a.count) (fl u.b.count) - 1)) := by
    rw [Unpaired.dofF, Unpaired.clampDof_val]
    simp only [RR.ofNat_val]
  rw [h]
  exact lt_of_lt_of_le (by simpa using hpos) (le_max_right _ _)

/-- the hypothesis is satisfiable, and met by every rounding that is exact on small integers:
    exact arithmetic, sizes 2 and 3 -/
example : (0 : ℝ) < id (min (id ((2 : ℕ) : ℝ)) (id ((3 : ℕ) : ℝ)) - 1) := by norm_num

/-- at exact reals no hypothesis on the samples is needed any more: two constant samples (where `Rex`
    evaluates `0/0` to `0`) get `min(n_a, n_b) − 1` degrees of freedom -/
theorem unpaired_total_Rex' (crit : Crit Rex) (conf : Confidence Rex)
    (hq : probOk conf.quantile = true) (u : Unpaired Rex) (ha : 2 ≤ u.a.count) (hb : 2 ≤ u.b.count) :
    (Unpaired.ciMean crit u conf).isPanic = false := by
  apply unpaired_total_any_rounding crit conf hq u
  have h1 : (2 : ℝ) ≤ u.a.count := by exact_mod_cast ha
  have h2 : (2 : ℝ) ≤ u.b.count := by exact_mod_cast hb
  have : (2 : ℝ) ≤ min (u.a.count : ℝ) u.b.count := le_min h1 h2
  simp only [id_eq]
  linarith

/-- an `Ok` of `Unpaired::ci_mean`: kind of the confidence, `¬ lo > hi`, finite statistics -/
theorem unpaired_ok_is_sane (crit : Crit W) (conf : Confidence W) (u : Unpaired F) (i : Interval F)
    (h : Unpaired.ciMean crit u conf = .ok i) :
    2 ≤ u.a.count ∧ 2 ≤ u.b.count ∧ isFinite (Unpaired.meanDiff u) = true ∧
    isFinite (Unpaired.semF u) = true ∧
    ∃ lo hi : F, (conf.kind = .twoSided → i = .twoSided lo hi ∧ gt lo hi = false) ∧
      (conf.kind = .upper → i = .upper lo) ∧ (conf.kind = .lower → i = .lower hi) :=
  Unpaired.ciMean_eq_ok h

/-- the hypotheses of `unpaired_ok_is_sane` and `unpaired_total_Rex` are satisfiable -/
example : (∃ lo hi : Rex,
    Unpaired.ciMean (constCrit 2 : Crit Rex) ⟨Examples.a12, Examples.a12⟩ (.twoSided (inj 0.95)) =
      .ok (.twoSided lo hi)) ∧
    ((Unpaired.s2n Examples.a12).val ≠ 0 ∨ (Unpaired.s2n Examples.a12).val ≠ 0) := by
  obtain ⟨lo, hi, h, _⟩ := Examples.unpaired_ok
  exact ⟨⟨lo, hi, h⟩, Or.inl (by rw [Examples.s2n_a12]; norm_num)⟩

/-! ### c. geometric and harmonic means -/

/-- `Geometric::ci`: the first non-positive element is reported as `NonPositiveValue`; positive data
    are the arithmetic interval of the logarithms, exponentiated; never a panic -/
theorem geometric_total [LawfulCount W] (crit : Crit W) (conf : Confidence W)
    (hq : probOk conf.quantile = true) :
    (∀ (pre : List F) (x : F) (post : List F), (∀ y ∈ pre, le y (zero : F) = false) →
      le x (zero : F) = true →
      Geometric.ci crit conf (pre ++ x :: post) = .err (.nonPositiveValue (Widen.up x))) ∧
    (∀ xs : List F, (∀ x ∈ xs, le x (zero : F) = false) →
      Geometric.ci crit conf xs = Geometric.ciMean crit ⟨Arith.fromList (xs.map ln)⟩ conf) ∧
    (∀ xs : List F, (Geometric.ci crit conf xs).isPanic = false) ∧
    (∀ g : Geometric F, (Geometric.ciMean crit g conf).isPanic = false) :=
  ⟨Geometric.ci_of_nonpos crit conf, Geometric.ci_of_pos crit conf,
    fun xs => Geometric.ci_isPanic crit conf xs hq, fun g => Geometric.ciMean_isPanic crit g conf hq⟩

/-- `Harmonic::ci` likewise, on the reciprocals at the flipped confidence -/
theorem harmonic_total [LawfulCount W] (crit : Crit W) (conf : Confidence W)
    (hq : probOk conf.quantile = true) :
    (∀ (pre : List F) (x : F) (post : List F), (∀ y ∈ pre, le y (zero : F) = false) →
      le x (zero : F) = true →
      Harmonic.ci crit conf (pre ++ x :: post) = .err (.nonPositiveValue (Widen.up x))) ∧
    (∀ xs : List F, (∀ x ∈ xs, le x (zero : F) = false) →
      Harmonic.ci crit conf xs =
        Harmonic.ciMean crit ⟨Arith.fromList (xs.map fun x => div one x)⟩ conf) ∧
    (∀ xs : List F, (Harmonic.ci crit conf xs).isPanic = false) ∧
    (∀ g : Harmonic F, (Harmonic.ciMean crit g conf).isPanic = false) :=
  ⟨Harmonic.ci_of_nonpos crit conf, Harmonic.ci_of_pos crit conf,
    fun xs => Harmonic.ci_isPanic crit conf xs hq, fun g => Harmonic.ciMean_isPanic crit g conf hq⟩

example : ∀ y ∈ ([XR.fin 1, XR.fin 2] : List XR), le y (zero : XR) = false := by
  intro y hy; simp at hy; rcases hy with rfl | rfl <;> simp

/-- an `Ok` of either: kind of the confidence, `¬ lo > hi`, finite statistics of the transformed data -/
theorem geometric_harmonic_ok_is_sane (crit : Crit W) (conf : Confidence W) (i : Interval F) :
    (∀ g : Geometric F, Geometric.ciMean crit g conf = .ok i →
      2 ≤ g.logs.count ∧ isFinite (Widen.up g.logs.mean : W) = true ∧
      isFinite (Widen.up g.logs.stdDev : W) = true ∧
      ∃ lo hi : F, (conf.kind = .twoSided → i = .twoSided lo hi ∧ gt lo hi = false) ∧
        (conf.kind = .upper → i = .upper lo) ∧ (conf.kind = .lower → i = .lower hi)) ∧
    (∀ g : Harmonic F, Harmonic.ciMean crit g conf = .ok i →
      2 ≤ g.recip.count ∧ isFinite (Widen.up g.recip.mean : W) = true ∧
      isFinite (Widen.up g.recip.stdDev : W) = true ∧
      ∃ lo hi : F, (conf.kind = .twoSided → i = .twoSided lo hi ∧ gt lo hi = false) ∧
        (conf.kind = .upper → i = .upper lo) ∧ (conf.kind = .lower → i = .lower hi)) :=
  ⟨fun _ h => Geometric.ciMean_eq_ok h, fun _ h => Harmonic.ciMean_eq_ok h⟩

end generic

/-! ### c. proportions -/

section proportion
variable {W : Type} [Scalar W]

/-- `ci_wilson` (= `proportion::ci`, `Stats::ci`, `ci_true`, `ci_if`): the error classes by the guards,
    in the crate's order; past the guards the `Interval::new` of the Wilson numbers clamped into
    `[0, 1]` (`wilson_clamped`); never a panic -/
theorem wilson_total (crit : Crit W) (conf : Confidence W) (hq : probOk conf.quantile = true)
    (n k : Nat) :
    (n < k → Proportion.ciWilson crit conf n k = .err (.invalidSuccesses k n)) ∧
    (k ≤ n → k < 2 →
      Proportion.ciWilson crit conf n k = .err (.tooFewSuccesses k n (Scalar.ofNat k))) ∧
    (k ≤ n → 2 ≤ k → n - k < 2 → Proportion.ciWilson crit conf n k =
      .err (.tooFewFailures (n - k) n (sub (Scalar.ofNat n) (Scalar.ofNat k)))) ∧
    (Proportion.ciWilson crit conf n k).isPanic = false :=
  ⟨Proportion.ciWilson_of_gt crit conf, Proportion.ciWilson_of_few_successes crit conf,
    Proportion.ciWilson_of_few_failures crit conf, Proportion.ciWilson_isPanic crit conf n k hq⟩

/-- every error of `ci_wilson` is a documented variant; its only panic is `inverse_cdf` on a
    probability outside `[0,1]`; every `Ok` is two-sided with `¬ lo > hi` -/
theorem wilson_outcomes (crit : Crit W) (conf : Confidence W) (n k : Nat) :
    (∀ e, Proportion.ciWilson crit conf n k = .err e →
      (n < k ∧ e = .invalidSuccesses k n) ∨
      (k ≤ n ∧ k < 2 ∧ e = .tooFewSuccesses k n (Scalar.ofNat k)) ∨
      (k ≤ n ∧ 2 ≤ k ∧ n - k < 2 ∧
        e = .tooFewFailures (n - k) n (sub (Scalar.ofNat n) (Scalar.ofNat k))) ∨
      (k ≤ n ∧ 2 ≤ k ∧ 2 ≤ n - k ∧ e = .interval .invalidBounds)) ∧
    ((Proportion.ciWilson crit conf n k).isPanic = true ↔
      k ≤ n ∧ 2 ≤ k ∧ 2 ≤ n - k ∧ probOk conf.quantile = false) ∧
    (∀ i, Proportion.ciWilson crit conf n k = .ok i →
      k ≤ n ∧ 2 ≤ k ∧ 2 ≤ n - k ∧ ∃ lo hi, i = .twoSided lo hi ∧ gt lo hi = false) := by
  refine ⟨fun e h => Proportion.ciWilson_eq_err h, Proportion.ciWilson_isPanic_iff crit conf n k,
    fun i h => ?_⟩
  obtain ⟨h1, h2, h3, _, h4⟩ := Proportion.ciWilson_eq_ok h
  exact ⟨h1, h2, h3, h4⟩

/-- what `ci_wilson` builds past its guards, on every carrier: with `c`, `s` the Wilson centre and
    span at the one critical value the oracle supplies, `low = (c − s).max(0.)` and
    `high = (c + s).min(1.)` (`fmax` / `fmin`: `f64::max` / `f64::min`, a NaN argument gives the other
    one), an `Ok` is `[low, high]`, `[low, 1]` or `[0, high]` by the kind of the confidence, with
    `¬ lo > hi`; and the `InvalidBounds` error means exactly `lo > hi` for that same pair -/
theorem wilson_clamped (crit : Crit W) (conf : Confidence W) (n k : Nat) :
    let c := Proportion.wilsonCentre (Scalar.ofNat n) (Scalar.ofNat k) (crit (.z conf.quantile))
    let s := Proportion.wilsonSpan (Scalar.ofNat n) (Scalar.ofNat k) (crit (.z conf.quantile))
    (∀ i, Proportion.ciWilson crit conf n k = .ok i →
      ∃ lo hi, i = .twoSided lo hi ∧ gt lo hi = false ∧
        (conf.kind = .twoSided → lo = fmax (sub c s) zero ∧ hi = fmin (add c s) one) ∧
        (conf.kind = .upper → lo = fmin (fmax (sub c s) zero) one ∧ hi = one) ∧
        (conf.kind = .lower → lo = zero ∧ hi = fmax (fmin (add c s) one) zero)) ∧
    (Proportion.ciWilson crit conf n k = .err (.interval .invalidBounds) →
      ∃ lo hi : W, gt lo hi = true ∧
        (conf.kind = .twoSided → lo = fmax (sub c s) zero ∧ hi = fmin (add c s) one) ∧
        (conf.kind = .upper → lo = fmin (fmax (sub c s) zero) one ∧ hi = one) ∧
        (conf.kind = .lower → lo = zero ∧ hi = fmax (fmin (add c s) one) zero)) := by
  intro c s
  refine ⟨fun i h => ?_, fun h => ?_⟩
  · exact Proportion.finishWilson_eq_ok (Proportion.ciWilson_eq_ok' h).2.2.2.2
  · exact (Proportion.ciWilson_eq_invalidBounds h).2.2.2.2

/-- the wrappers are `ci_wilson` -/
theorem wilson_wrappers (crit : Crit W) (conf : Confidence W) (n k : Nat) (s : Proportion.Stats)
    (bs : List Bool) :
    Proportion.ci crit conf n k = Proportion.ciWilson crit conf n k ∧
    s.ci crit conf = Proportion.ciWilson crit conf s.population s.successes ∧
    Proportion.ciTrue crit conf bs =
      Proportion.ciWilson crit conf (Proportion.Stats.fromList bs).population
        (Proportion.Stats.fromList bs).successes := ⟨rfl, rfl, rfl⟩

/-- `ci_wilson_ratio`: a non-positive rate is `NonPositiveValue`, otherwise `ci_wilson` of the
    rounded count; never a panic -/
theorem wilsonRatio_total (crit : Crit W) (conf : Confidence W) (hq : probOk conf.quantile = true)
    (n : Nat) (rate : W) :
    (le rate (zero : W) = true →
      Proportion.ciWilsonRatio crit conf n rate = .err (.nonPositiveValue rate)) ∧
    (le rate (zero : W) = false → Proportion.ciWilsonRatio crit conf n rate =
      Proportion.ciWilson crit conf n (roundToNat (mul rate (Scalar.ofNat n)))) ∧
    (Proportion.ciWilsonRatio crit conf n rate).isPanic = false :=
  ⟨Proportion.ciWilsonRatio_of_nonpos crit conf n, Proportion.ciWilsonRatio_of_pos crit conf n,
    Proportion.ciWilsonRatio_isPanic crit conf n rate hq⟩

/-- `ci_z_normal` (Wald): the same classes with threshold ten; never a panic; `Ok` is two-sided
    with `¬ lo > hi` -/
theorem zNormal_total (crit : Crit W) (conf : Confidence W) (hq : probOk conf.quantile = true)
    (n k : Nat) :
    (n < k → Proportion.ciZNormal crit conf n k = .err (.invalidSuccesses k n)) ∧
    (k ≤ n → k < 10 → Proportion.ciZNormal crit conf n k =
      .err (.tooFewSuccesses k n (mul (Scalar.ofNat n) (Proportion.waldP n k)))) ∧
    (k ≤ n → 10 ≤ k → n - k < 10 → Proportion.ciZNormal crit conf n k =
      .err (.tooFewFailures (n - k) n (mul (Scalar.ofNat n) (Proportion.waldQ n k)))) ∧
    (Proportion.ciZNormal crit conf n k).isPanic = false ∧
    (∀ i, Proportion.ciZNormal crit conf n k = .ok i →
      k ≤ n ∧ 10 ≤ k ∧ 10 ≤ n - k ∧ ∃ lo hi, i = .twoSided lo hi ∧ gt lo hi = false) := by
  refine ⟨fun h => ?_, fun h1 h2 => ?_, fun h1 h2 h3 => ?_,
    Proportion.ciZNormal_isPanic crit conf n k hq, fun i h => ?_⟩
  · rcases Proportion.ciZNormal_cases crit conf n k with ⟨_, h'⟩ | ⟨_, _, _⟩ | ⟨_, _, _, _⟩ | ⟨_, _, _, _⟩ <;>
      first | exact h' | omega
  · rcases Proportion.ciZNormal_cases crit conf n k with ⟨_, _⟩ | ⟨_, _, h'⟩ | ⟨_, _, _, _⟩ | ⟨_, _, _, _⟩ <;>
      first | exact h' | omega
  · rcases Proportion.ciZNormal_cases crit conf n k with ⟨_, _⟩ | ⟨_, _, _⟩ | ⟨_, _, _, h'⟩ | ⟨_, _, _, _⟩ <;>
      first | exact h' | omega
  · obtain ⟨h1, h2, h3, _, h4⟩ := Proportion.ciZNormal_eq_ok h
    exact ⟨h1, h2, h3, h4⟩

example : probOk (Confidence.upper (XR.fin 0.9)).quantile = true := by
  refine valid_conf_probOk_XR _ ?_
  simp [Confidence.validLevel, Confidence.level]; norm_num

/-- `is_significant` is a total Boolean function (no `usize` underflow): characterisation … -/
theorem isSignificant_iff (n k : Nat) :
    Proportion.isSignificant n k = true ↔ n > 30 ∧ k > 5 ∧ k ≤ n ∧ n - k > 5 :=
  Proportion.isSignificant_iff n k

/-- … and the regression example: more successes than population is `false`, not a panic -/
theorem isSignificant_31_40 : Proportion.isSignificant 31 40 = false := by decide

/-- `Stats::new` is the one documented panic of the proportion module -/
theorem stats_new_panic_iff (n k : Nat) : Proportion.Stats.new? n k = none ↔ n < k := by
  unfold Proportion.Stats.new?; split <;> simp_all

end proportion

/-! ### c. quantiles -/

section quantile
variable {W : Type} [Scalar W]

/-- `ci_indices` (= `quantile::Stats::ci`): `InvalidQuantile` outside `(0,1)`, `TooFewSamples` below
    four, never a panic; an `Ok` has the kind of the confidence, `lo ≤ hi`, and stays inside
    `0..n−1` -/
theorem ciIndices_total (crit : Crit W) (conf : Confidence W) (hq : probOk conf.quantile = true)
    (n : Nat) (q : W) :
    ((gt q (zero : W) && lt q (one : W)) = false →
      Quantile.ciIndices crit conf n q = .err (.invalidQuantile q)) ∧
    ((gt q (zero : W) && lt q (one : W)) = true → n < 4 →
      Quantile.ciIndices crit conf n q = .err (.tooFewSamples n)) ∧
    (Quantile.ciIndices crit conf n q).isPanic = false ∧
    (∀ idx, Quantile.ciIndices crit conf n q = .ok idx →
      (gt q (zero : W) && lt q (one : W)) = true ∧ 4 ≤ n ∧ Quantile.IdxOk conf idx n) :=
  ⟨Quantile.ciIndices_of_bad_q crit conf n, Quantile.ciIndices_of_few crit conf,
    Quantile.ciIndices_isPanic crit conf n q hq, fun _ h => Quantile.ciIndices_eq_ok h⟩

/-- `ci_sorted_unchecked`: `InvalidQuantile` outside `(0,1)`; element access never leaves the slice
    (the indices come out of `index`, clamped at `n − 1`, and `n ≥ 4`), so never a panic; an `Ok`
    consists of the slice elements at the computed positions, each comparable with itself
    (`Quantile.PickOk`: on floats, not a NaN), with `¬ lo > hi`; an element at a selected rank that is
    not comparable with itself is `InvalidInputData`; and every error is an error of the index
    computation, that `InvalidInputData`, or `InvalidBounds` for a two-sided pick with `lo > hi`
    (possible only on a slice that was not sorted) -/
theorem ciSortedUnchecked_total {T : Type} [Cmp T] (crit : Crit W) (conf : Confidence W)
    (hq : probOk conf.quantile = true) (sorted : List T) (q : W) :
    ((gt q (zero : W) && lt q (one : W)) = false →
      Quantile.ciSortedUnchecked crit conf sorted q = .err (.invalidQuantile q)) ∧
    (Quantile.ciSortedUnchecked crit conf sorted q).isPanic = false ∧
    (∀ i, Quantile.ciSortedUnchecked crit conf sorted q = .ok i →
      ∃ idx, Quantile.ciIndices crit conf sorted.length q = .ok idx ∧ Quantile.PickOk sorted idx i) ∧
    (∀ idx r x, Quantile.ciIndices crit conf sorted.length q = .ok idx → Quantile.Selects idx r →
      sorted[r]? = some x → le x x = false →
      Quantile.ciSortedUnchecked crit conf sorted q = .err .invalidInputData) ∧
    (∀ e, Quantile.ciSortedUnchecked crit conf sorted q = .err e →
      Quantile.ciIndices crit conf sorted.length q = .err e ∨
      ∃ idx, Quantile.ciIndices crit conf sorted.length q = .ok idx ∧
        ((e = .invalidInputData ∧
            ∃ r x, Quantile.Selects idx r ∧ sorted[r]? = some x ∧ le x x = false) ∨
         (e = .interval .invalidBounds ∧ ∃ lo hi a b, idx = .twoSided lo hi ∧
            sorted[lo]? = some a ∧ sorted[hi]? = some b ∧ gt a b = true))) :=
  ⟨Quantile.ciSortedUnchecked_of_bad_q crit conf sorted,
    Quantile.ciSortedUnchecked_isPanic crit conf sorted q hq,
    fun _ h => Quantile.ciSortedUnchecked_eq_ok h,
    fun _ _ _ hidx hr hx hxx => Quantile.ciSortedUnchecked_of_incomparable hidx hr hx hxx,
    fun _ h => Quantile.ciSortedUnchecked_eq_err h⟩

/-- the pre-sorted entry point checks what it selects: on every element type, for every slice
    (sorted or not, with or without incomparable elements), every critical-value oracle, confidence
    and quantile, a bound of an `Ok` of `ci_sorted_unchecked` is comparable with itself. (No
    hypothesis at all: `Quantile.SelfCmp` spelled out in the last three conjuncts.) -/
theorem sorted_unchecked_ok_selfCmp {T : Type} [Cmp T] (crit : Crit W) (conf : Confidence W)
    (xs : List T) (q : W) (iv : Interval T)
    (h : Quantile.ciSortedUnchecked crit conf xs q = .ok iv) :
    Quantile.SelfCmp iv ∧
    (∀ a b, iv = .twoSided a b → le a a = true ∧ le b b = true) ∧
    (∀ a, iv = .upper a → le a a = true) ∧ (∀ b, iv = .lower b → le b b = true) := by
  have hs := Quantile.ciSortedUnchecked_ok_selfCmp h
  refine ⟨hs, ?_, ?_, ?_⟩
  · rintro a b rfl; exact hs
  · rintro a rfl; exact hs
  · rintro b rfl; exact hs

/-- `quantile::ci` panics only through the sort: at least two elements, one of them not comparable
    with itself (`partial_cmp(..).unwrap()` on a NaN) -/
theorem quantile_ci_panic_iff {T : Type} [Cmp T] (crit : Crit W) (conf : Confidence W)
    (hq : probOk conf.quantile = true) (xs : List T) (q : W) :
    (Quantile.ci crit conf xs q).isPanic = true ↔ 2 ≤ xs.length ∧ ∃ x ∈ xs, le x x = false :=
  Quantile.ci_isPanic_iff crit conf xs q hq

/-- `ci_max_size` additionally panics when the data exceed the capacity -/
theorem ciMaxSize_panic_iff {T : Type} [Cmp T] (cap : Nat) (crit : Crit W) (conf : Confidence W)
    (hq : probOk conf.quantile = true) (xs : List T) (q : W) :
    (Quantile.ciMaxSize cap crit conf xs q).isPanic = true ↔
      cap < xs.length ∨ (2 ≤ xs.length ∧ ∃ x ∈ xs, le x x = false) :=
  Quantile.ciMaxSize_isPanic_iff cap crit conf xs q hq

/-- on comparable data both are total, and a quantile outside `(0,1)` is `InvalidQuantile` -/
theorem quantile_ci_total {T : Type} [Cmp T] (crit : Crit W) (conf : Confidence W)
    (hq : probOk conf.quantile = true) (xs : List T) (q : W) (hx : ∀ x ∈ xs, le x x = true) :
    (Quantile.ci crit conf xs q).isPanic = false ∧
    (∀ cap, xs.length ≤ cap → (Quantile.ciMaxSize cap crit conf xs q).isPanic = false) ∧
    ((gt q (zero : W) && lt q (one : W)) = false →
      Quantile.ci crit conf xs q = .err (.invalidQuantile q)) := by
  have hnp : (Quantile.ci crit conf xs q).isPanic = false := by
    rw [Bool.eq_false_iff]
    intro hp
    obtain ⟨_, x, hxm, hxx⟩ := (quantile_ci_panic_iff crit conf hq xs q).mp hp
    rw [hx x hxm] at hxx; cases hxx
  refine ⟨hnp, fun cap hcap => ?_, fun hbad => ?_⟩
  · unfold Quantile.ciMaxSize
    rw [if_neg (by omega)]; exact hnp
  · unfold Quantile.ci
    cases hs : (Quantile.sortData xs : Outcome (Err W) (List T)) with
    | ok ys => exact Quantile.ciSortedUnchecked_of_bad_q crit conf ys hbad
    | err e => exact absurd hs (Quantile.sortData_never_err xs e)
    | panic t =>
      have := (Quantile.sortData_isPanic_iff (W := W) xs).mp (by rw [hs]; rfl)
      obtain ⟨_, x, hxm, hxx⟩ := this
      rw [hx x hxm] at hxx; cases hxx

example : ∀ x ∈ ([XR.fin 1, XR.pinf, XR.ninf] : List XR), le x x = true := by
  intro x hx; simp at hx; rcases hx with rfl | rfl | rfl <;> simp

end quantile

/-! ## (ii) on `XR`: error classes of special inputs -/

/-- a NaN or an infinity anywhere in at least two observations: `InvalidInputData`. (The special
    value reaches the Kahan sum, the sum stays non-finite, so does the mean, and the guard fires.) -/
theorem arith_nonfinite_data (crit : Crit XR) (conf : Confidence XR) (xs : List XR)
    (hn : 2 ≤ xs.length) (h : ∃ x ∈ xs, isFinite x = false) :
    Arith.ci crit conf xs = .err .invalidInputData :=
  XR.arith_ci_nonfinite crit conf xs hn h

example : 2 ≤ ([XR.fin 1, XR.nan, XR.fin 3] : List XR).length ∧
    ∃ x ∈ ([XR.fin 1, XR.nan, XR.fin 3] : List XR), isFinite x = false :=
  ⟨by simp, XR.nan, by simp, rfl⟩

/-- what `x ≤ 0` means on `XR`: `−∞` and the finite non-positive numbers (a NaN is *not* caught by
    this guard — it is caught as `InvalidInputData` by the arithmetic guard on the transformed data) -/
theorem nonpositive_iff (x : XR) :
    le x (zero : XR) = true ↔ x = .ninf ∨ ∃ r : ℝ, x = .fin r ∧ r ≤ 0 := XR.le_zero_iff x

/-- zero, a negative number or `−∞` in otherwise positive data: `NonPositiveValue` of that element,
    for the geometric and the harmonic mean -/
theorem nonpositive_data (crit : Crit XR) (conf : Confidence XR) (pre post : List XR) (x : XR)
    (hpre : ∀ y ∈ pre, le y (zero : XR) = false) (hx : x = .ninf ∨ ∃ r : ℝ, x = .fin r ∧ r ≤ 0) :
    Geometric.ci crit conf (pre ++ x :: post) = .err (.nonPositiveValue x) ∧
    Harmonic.ci crit conf (pre ++ x :: post) = .err (.nonPositiveValue x) :=
  ⟨Geometric.ci_of_nonpos crit conf pre x post hpre ((nonpositive_iff x).mpr hx),
    Harmonic.ci_of_nonpos crit conf pre x post hpre ((nonpositive_iff x).mpr hx)⟩

example : (∀ y ∈ ([XR.fin 2] : List XR), le y (zero : XR) = false) ∧
    ((XR.fin 0 : XR) = .ninf ∨ ∃ r : ℝ, (XR.fin 0 : XR) = .fin r ∧ r ≤ 0) :=
  ⟨by intro y hy; simp at hy; subst hy; simp, Or.inr ⟨0, rfl, le_rfl⟩⟩

/-- a NaN quantile (and `±∞`, and anything outside `(0,1)`) is `InvalidQuantile`, for the index
    computation and for the slice entry point -/
theorem nan_quantile (crit : Crit XR) (conf : Confidence XR) (n : Nat) (sorted : List XR) :
    Quantile.ciIndices crit conf n XR.nan = .err (.invalidQuantile XR.nan) ∧
    Quantile.ciSortedUnchecked crit conf sorted XR.nan = .err (.invalidQuantile XR.nan) ∧
    Quantile.ciIndices crit conf n XR.pinf = .err (.invalidQuantile XR.pinf) ∧
    Quantile.ciIndices crit conf n XR.ninf = .err (.invalidQuantile XR.ninf) ∧
    (∀ r : ℝ, r ≤ 0 ∨ 1 ≤ r →
      Quantile.ciIndices crit conf n (XR.fin r) = .err (.invalidQuantile (XR.fin r))) := by
  refine ⟨Quantile.ciIndices_of_bad_q crit conf n (by simp),
    Quantile.ciSortedUnchecked_of_bad_q crit conf sorted (by simp),
    Quantile.ciIndices_of_bad_q crit conf n (by simp),
    Quantile.ciIndices_of_bad_q crit conf n (by simp), fun r hr => ?_⟩
  refine Quantile.ciIndices_of_bad_q crit conf n ?_
  rw [Bool.eq_false_iff]
  intro h
  simp at h
  rcases hr with hr | hr <;> linarith [h.1, h.2]

/-- more successes than observations: `InvalidSuccesses`, on every carrier and for both methods -/
theorem invalid_successes {W : Type} [Scalar W] (crit : Crit W) (conf : Confidence W) (n k : Nat)
    (h : n < k) :
    Proportion.ciWilson crit conf n k = .err (.invalidSuccesses k n) ∧
    Proportion.ciZNormal crit conf n k = .err (.invalidSuccesses k n) := by
  refine ⟨Proportion.ciWilson_of_gt crit conf h, ?_⟩
  rcases Proportion.ciZNormal_cases crit conf n k with ⟨_, h'⟩ | ⟨_, _, _⟩ | ⟨_, _, _, _⟩ | ⟨_, _, _, _⟩ <;>
    first | exact h' | omega

/-! ## (ii) on `XR`: no `Ok` with a NaN bound -/

/-- With an external quantile routine that answers finite numbers, no entry point returns `Ok` with
    a NaN bound on `XR`. For the arithmetic mean, the comparisons, the geometric mean and the
    proportion intervals all bounds are in fact finite and `lo ≤ hi` (`XR.FinIv`); for the harmonic
    mean a bound can be `+∞` (a reciprocal-space bound that is not strictly positive is read as
    `+∞`) but not NaN — and never zero or negative: `harmonic_bounds_positive_XR`; for `quantile::ci`
    the bounds are data elements and the sort has rejected NaN; for `ci_sorted_unchecked` the bounds
    are slice elements that passed the self-comparison check (`sorted_unchecked_ok_never_nan`; the
    hypothesis on `crit` is not needed there). For `ci_wilson` / `ci_wilson_ratio`
    the hypothesis on `crit` is not even needed, and the bounds lie in `[0, 1]`: `wilson_ok_unit_XR`. -/
theorem ok_never_nan (crit : Crit XR) (conf : Confidence XR)
    (hc : ∀ r, isFinite (crit r) = true) (i : Interval XR) :
    (∀ a : Arith XR, Arith.ciMean crit a conf = .ok i → XR.FinIv i) ∧
    (∀ xs : List XR, Arith.ci crit conf xs = .ok i → XR.FinIv i) ∧
    (∀ as bs : List XR, Paired.ci crit conf as bs = .ok i → XR.FinIv i) ∧
    (∀ u : Unpaired XR, Unpaired.ciMean crit u conf = .ok i → XR.FinIv i) ∧
    (∀ g : Geometric XR, Geometric.ciMean crit g conf = .ok i → XR.FinIv i) ∧
    (∀ xs : List XR, Geometric.ci crit conf xs = .ok i → XR.FinIv i) ∧
    (∀ g : Harmonic XR, Harmonic.ciMean crit g conf = .ok i → XR.NoNaN i) ∧
    (∀ xs : List XR, Harmonic.ci crit conf xs = .ok i → XR.NoNaN i) ∧
    (∀ n k : Nat, Proportion.ciWilson crit conf n k = .ok i → XR.FinIv i) ∧
    (∀ n k : Nat, Proportion.ciZNormal crit conf n k = .ok i → XR.FinIv i) ∧
    (∀ (n : Nat) (rate : XR), Proportion.ciWilsonRatio crit conf n rate = .ok i → XR.FinIv i) ∧
    (∀ (xs : List XR) (q : XR), Quantile.ci crit conf xs q = .ok i → XR.NoNaN i) ∧
    (∀ (cap : Nat) (xs : List XR) (q : XR), Quantile.ciMaxSize cap crit conf xs q = .ok i →
      XR.NoNaN i) ∧
    (∀ (xs : List XR) (q : XR), Quantile.ciSortedUnchecked crit conf xs q = .ok i → XR.NoNaN i) := by
  refine ⟨fun a h => (XR.arith_ciMean_ok_finIv crit a conf hc h).1,
    fun xs h => (XR.arith_ciMean_ok_finIv crit _ conf hc h).1, fun as bs h => ?_,
    fun u h => XR.unpaired_ciMean_ok_finIv crit u conf hc h,
    fun g h => XR.geometric_ciMean_ok_finIv crit g conf hc h, fun xs h => ?_,
    fun g h => XR.harmonic_ciMean_ok_noNaN crit g conf hc h, fun xs h => ?_,
    fun n k h => XR.ciWilson_ok_finIv crit conf n k h,
    fun n k h => XR.ciZNormal_ok_finIv crit conf n k hc h,
    fun n rate h => XR.ciWilsonRatio_ok_finIv crit conf n rate h,
    fun xs q h => XR.quantile_ci_ok_noNaN crit conf xs q h, fun cap xs q h => ?_,
    fun xs q h => XR.ciSortedUnchecked_ok_noNaN crit conf xs q h⟩
  · by_cases hl : as.length = bs.length
    · rw [Paired.ci_of_length_eq crit conf hl] at h
      exact (XR.arith_ciMean_ok_finIv crit _ conf hc h).1
    · rw [Paired.ci_of_length_ne crit conf hl] at h; cases h
  · unfold Geometric.ci at h
    obtain ⟨g, _, h⟩ := Outcome.bind_eq_ok h
    exact XR.geometric_ciMean_ok_finIv crit g conf hc h
  · unfold Harmonic.ci at h
    obtain ⟨g, _, h⟩ := Outcome.bind_eq_ok h
    exact XR.harmonic_ciMean_ok_noNaN crit g conf hc h
  · unfold Quantile.ciMaxSize at h
    split at h
    · cases h
    · exact XR.quantile_ci_ok_noNaN crit conf xs q h

example : ∀ r, isFinite ((fun _ => XR.fin 1.96 : Crit XR) r) = true := fun _ => rfl

/-- Sharper than `ok_never_nan` for the harmonic mean: with finite critical values, every bound of
    every `Ok` of `Harmonic::ci_mean` / `Harmonic::ci` on `XR` is either `+∞` or a strictly positive
    finite number (it is `1/r` for a finite reciprocal-space bound `r > 0`, and `+∞` when `r ≤ 0`);
    in particular it is not NaN, not `−∞`, not zero and not negative — whatever the kind of the
    confidence. The last three conjuncts spell out `XR.PosIv`. -/
theorem harmonic_bounds_positive_XR (crit : Crit XR) (conf : Confidence XR)
    (hc : ∀ r, isFinite (crit r) = true) (i : Interval XR) :
    (∀ g : Harmonic XR, Harmonic.ciMean crit g conf = .ok i → XR.PosIv i ∧ XR.NoNaN i) ∧
    (∀ xs : List XR, Harmonic.ci crit conf xs = .ok i → XR.PosIv i ∧ XR.NoNaN i) ∧
    (∀ lo hi : XR, XR.PosIv (.twoSided lo hi) ↔
      (lo = .pinf ∨ ∃ r : ℝ, lo = .fin r ∧ 0 < r) ∧ (hi = .pinf ∨ ∃ r : ℝ, hi = .fin r ∧ 0 < r)) ∧
    (∀ lo : XR, XR.PosIv (.upper lo) ↔ (lo = .pinf ∨ ∃ r : ℝ, lo = .fin r ∧ 0 < r)) ∧
    (∀ hi : XR, XR.PosIv (.lower hi) ↔ (hi = .pinf ∨ ∃ r : ℝ, hi = .fin r ∧ 0 < r)) := by
  refine ⟨fun g h => ?_, fun xs h => ?_, fun _ _ => Iff.rfl, fun _ => Iff.rfl, fun _ => Iff.rfl⟩
  · have := XR.harmonic_ciMean_ok_posIv crit g conf hc h
    exact ⟨this, this.noNaN⟩
  · unfold Harmonic.ci at h
    obtain ⟨g, _, h⟩ := Outcome.bind_eq_ok h
    have := XR.harmonic_ciMean_ok_posIv crit g conf hc h
    exact ⟨this, this.noNaN⟩

/-- the hypotheses are satisfiable, and `+∞` does occur: reciprocals `1, 2`, critical value `100`;
    the reciprocal-space interval `[-97/2, 103/2]` reaches below zero, the harmonic interval is
    `[2/103, +∞]` -/
example : (∀ r, isFinite ((fun _ => XR.fin 100 : Crit XR) r) = true) ∧ ∃ r : ℝ, 0 < r ∧
    Harmonic.ciMean (fun _ => XR.fin 100 : Crit XR) ⟨Examples.r12⟩ (.twoSided (XR.fin 0.95)) =
      .ok (.twoSided (XR.fin r) XR.pinf) :=
  ⟨fun _ => rfl, Examples.harmonic_ok_pinf⟩

/-- finiteness of the external answer is needed: were `inverse_cdf` to answer NaN, every state that
    passes the guards would come back as `Ok([NaN, NaN])` (IEEE: `NaN > NaN` is false, so
    `Interval::new` accepts) -/
theorem nan_crit_gives_ok_nan (a : Arith XR) (l : XR) (h2 : 2 ≤ a.count)
    (hm : isFinite a.mean = true) (hs : isFinite a.stdDev = true)
    (hq : probOk (Confidence.twoSided l).quantile = true) :
    Arith.ciMean (fun _ => XR.nan) a (.twoSided l) = .ok (.twoSided XR.nan XR.nan) := by
  rw [Arith.ciMean_eq _ a _ h2 hm hs hq]
  simp [Arith.critOf, intervalOfKind, Interval.new, liftI]

example : ∃ a : Arith XR, 2 ≤ a.count ∧ isFinite a.mean = true ∧ isFinite a.stdDev = true := by
  refine ⟨⟨⟨XR.fin 3, XR.fin 0⟩, ⟨XR.fin 5, XR.fin 0⟩, 2⟩, le_rfl, ?_, ?_⟩
  · simp [Arith.mean, Kahan.value]
  · have h3 : ¬ ((5 : ℝ) < 3 / 2 * 3) := by norm_num
    have h4 : (0 : ℝ) ≤ 5 - 3 / 2 * 3 := by norm_num
    simp [Arith.stdDev, Arith.variance, Arith.mean, Kahan.value, h3, XR.sqrt_fin_of_nonneg h4]

/-! ### the clamp of `ci_wilson`: every `Ok` lies inside `[0, 1]` -/

/-- On `XR`, for *every* critical-value oracle — finite, infinite or NaN answers alike — every `Ok`
    of `ci_wilson`, of its wrappers (`proportion::ci`, `Stats::ci`, `ci_true`, `ci_if`) and of
    `ci_wilson_ratio` is a two-sided interval whose bounds are finite numbers (so never NaN) with
    `0 ≤ lo ≤ hi ≤ 1`. (`low = x.max(0.)` is `+∞` or finite `≥ 0` whatever `x` is, `high = y.min(1.)`
    is `−∞` or finite `≤ 1`, and `Interval::new` rejects `low > high`.) -/
theorem wilson_ok_unit_XR (crit : Crit XR) (conf : Confidence XR) (i : Interval XR) :
    (∀ n k : Nat, Proportion.ciWilson crit conf n k = .ok i →
      ∃ a b : ℝ, i = .twoSided (.fin a) (.fin b) ∧ 0 ≤ a ∧ a ≤ b ∧ b ≤ 1) ∧
    (∀ n k : Nat, Proportion.ci crit conf n k = .ok i →
      ∃ a b : ℝ, i = .twoSided (.fin a) (.fin b) ∧ 0 ≤ a ∧ a ≤ b ∧ b ≤ 1) ∧
    (∀ st : Proportion.Stats, st.ci crit conf = .ok i →
      ∃ a b : ℝ, i = .twoSided (.fin a) (.fin b) ∧ 0 ≤ a ∧ a ≤ b ∧ b ≤ 1) ∧
    (∀ bs : List Bool, Proportion.ciTrue crit conf bs = .ok i →
      ∃ a b : ℝ, i = .twoSided (.fin a) (.fin b) ∧ 0 ≤ a ∧ a ≤ b ∧ b ≤ 1) ∧
    (∀ (T : Type) (xs : List T) (p : T → Bool), Proportion.ciIf crit conf xs p = .ok i →
      ∃ a b : ℝ, i = .twoSided (.fin a) (.fin b) ∧ 0 ≤ a ∧ a ≤ b ∧ b ≤ 1) ∧
    (∀ (n : Nat) (rate : XR), Proportion.ciWilsonRatio crit conf n rate = .ok i →
      ∃ a b : ℝ, i = .twoSided (.fin a) (.fin b) ∧ 0 ≤ a ∧ a ≤ b ∧ b ≤ 1) := by
  have key : XR.UnitIv i → ∃ a b : ℝ, i = .twoSided (.fin a) (.fin b) ∧ 0 ≤ a ∧ a ≤ b ∧ b ≤ 1 := by
    intro h
    cases i <;> simp only [XR.UnitIv] at h
    obtain ⟨a, b, rfl, rfl, h⟩ := h
    exact ⟨a, b, rfl, h⟩
  exact ⟨fun n k h => key (XR.ciWilson_ok_unitIv crit conf n k h),
    fun n k h => key (XR.ciWilson_ok_unitIv crit conf n k h),
    fun st h => key (XR.ciWilson_ok_unitIv crit conf _ _ h),
    fun bs h => key (XR.ciWilson_ok_unitIv crit conf _ _ h),
    fun T xs p h => key (XR.ciWilson_ok_unitIv crit conf _ _ h),
    fun n rate h => key (XR.ciWilsonRatio_ok_unitIv crit conf n rate h)⟩

/-- the premise is satisfiable with a finite critical value (five successes in ten, `z = 0`:
    `Ok([1/2, 1/2])`) and with a NaN one (`Ok([0, 1])`) -/
example :
    Proportion.ciWilson (fun _ => XR.fin 0) (.twoSided (XR.fin 0.95)) 10 5 =
      .ok (.twoSided (XR.fin (1/2)) (XR.fin (1/2))) ∧
    Proportion.ciWilson (fun _ => XR.nan) (.twoSided (XR.fin 0.95)) 10 5 =
      .ok (.twoSided (XR.fin 0) (XR.fin 1)) :=
  ⟨Examples.wilson_ok_XR, Examples.wilson_nan_crit_ok⟩

/-- In contrast to `nan_crit_gives_ok_nan`: were `inverse_cdf` to answer NaN, `ci_wilson` past its
    guards returns `Ok([0, 1])` — the trivial but valid proportion interval — for every kind of
    confidence (both Wilson numbers are NaN; `NaN.max(0.) = 0`, `NaN.min(1.) = 1`). -/
theorem wilson_nan_crit_XR (conf : Confidence XR) (n k : Nat) (h1 : k ≤ n) (h2 : 2 ≤ k)
    (h3 : 2 ≤ n - k) (hq : probOk conf.quantile = true) :
    Proportion.ciWilson (fun _ => XR.nan) conf n k = .ok (.twoSided (XR.fin 0) (XR.fin 1)) :=
  XR.ciWilson_nan_crit conf h1 h2 h3 hq

example : (5 : Nat) ≤ 10 ∧ 2 ≤ 5 ∧ 2 ≤ 10 - 5 ∧
    probOk (Confidence.twoSided (XR.fin 0.95)).quantile = true :=
  ⟨by norm_num, by norm_num, by norm_num, Examples.conf95_probOk_XR⟩

/-- On `XR` the `InvalidBounds` error of `ci_wilson` is never an artefact of a NaN: it is a genuine
    `low > high` between two numbers that are not NaN, with `0 ≤ low` and `high ≤ 1` as IEEE
    comparisons (`low` may be `+∞`, `high` may be `−∞`). -/
theorem wilson_invalidBounds_XR (crit : Crit XR) (conf : Confidence XR) (n k : Nat)
    (h : Proportion.ciWilson crit conf n k = .err (.interval .invalidBounds)) :
    ∃ lo hi : XR, lt hi lo = true ∧ lo ≠ .nan ∧ hi ≠ .nan ∧
      le (XR.fin 0) lo = true ∧ le hi (XR.fin 1) = true :=
  XR.ciWilson_invalidBounds_XR crit conf n k h

/-- After the repair of D17 (`low.min(1.)` / `high.max(0.)` in the one-sided arms): a *one-sided*
    `ci_wilson` never answers `InvalidBounds` on `XR` — whatever the counts and whatever the critical
    value (negative, infinite, NaN).  Before the repair `ci(new_upper(1e-300), 2^53, 2^53 − 3)`
    returned that error: the finite bound is the *other* root for a negative critical value and had
    been rounded past 1. -/
theorem wilson_one_sided_never_invalidBounds_XR (crit : Crit XR) (conf : Confidence XR) (n k : Nat)
    (hk : conf.kind ≠ .twoSided) :
    Proportion.ciWilson crit conf n k ≠ .err (.interval .invalidBounds) :=
  XR.ciWilson_one_sided_never_invalidBounds_XR crit conf n k hk

example : (Confidence.upper (XR.fin 0.3)).kind ≠ .twoSided := by simp [Confidence.kind]

/-- the premise is satisfiable: a negative critical value (`z = −1`, five successes in ten) makes the
    span negative, `low = centre + |span| > centre − |span| = high` -/
example : Proportion.ciWilson (fun _ => XR.fin (-1)) (.twoSided (XR.fin 0.95)) 10 5 =
    .err (.interval .invalidBounds) := Examples.wilson_invalidBounds_XR

/-- The same on the reals with an arbitrary rounding function `fl` applied after every arithmetic
    operation (`max`/`min` themselves do not round) and an arbitrary critical-value oracle: every
    `Ok` of `ci_wilson` is two-sided with `0 ≤ lo ≤ hi ≤ 1` — rounding error in the Wilson numbers
    cannot push a bound outside `[0, 1]`. -/
theorem wilson_ok_unit_RR (fl : ℝ → ℝ) (crit : Crit (RR fl)) (conf : Confidence (RR fl)) (n k : Nat)
    (i : Interval (RR fl)) (h : Proportion.ciWilson crit conf n k = .ok i) :
    ∃ lo hi : RR fl, i = .twoSided lo hi ∧ 0 ≤ lo.val ∧ lo.val ≤ hi.val ∧ hi.val ≤ 1 :=
  Proportion.ciWilson_ok_unit_RR crit conf n k h

/-- the premise is satisfiable (exact arithmetic, five successes in ten, `z = 0`) -/
example : ∃ i : Interval Rex,
    Proportion.ciWilson (constCrit 0 : Crit Rex) (.twoSided (inj 0.95)) 10 5 = .ok i :=
  Examples.wilson_ok_Rex

/-! ### the pre-sorted entry point `ci_sorted_unchecked` on `XR` -/

/-- On `XR`, for *any* slice — sorted or not, with or without NaN —, any critical-value oracle, any
    confidence and any quantile: an `Ok` of `ci_sorted_unchecked` never has a NaN bound. (No hypothesis
    on `crit`, on `conf` or on the data; `XR.NoNaN` spelled out in the last three conjuncts.) -/
theorem sorted_unchecked_ok_never_nan (crit : Crit XR) (conf : Confidence XR) (xs : List XR) (q : XR)
    (iv : Interval XR) (h : Quantile.ciSortedUnchecked crit conf xs q = .ok iv) :
    XR.NoNaN iv ∧
    (∀ a b, iv = .twoSided a b → a ≠ .nan ∧ b ≠ .nan) ∧
    (∀ a, iv = .upper a → a ≠ .nan) ∧ (∀ b, iv = .lower b → b ≠ .nan) := by
  have hs := XR.ciSortedUnchecked_ok_noNaN crit conf xs q h
  refine ⟨hs, ?_, ?_, ?_⟩
  · rintro a b rfl; exact hs
  · rintro a rfl; exact hs
  · rintro b rfl; exact hs

/-- the premise is satisfiable, on a slice that is neither sorted nor free of NaN: ten observations
    with a NaN at rank 0, both selected ranks are 5 -/
example : Quantile.ciSortedUnchecked (fun _ => XR.fin 0) (.twoSided (XR.fin 0.95))
    [XR.nan, XR.fin 9, XR.fin 2, XR.fin 3, XR.fin 4, XR.fin 5, XR.fin 6, XR.fin 7, XR.fin 8, XR.fin 1]
    (XR.fin 0.5) = .ok (.twoSided (XR.fin 5) (XR.fin 5)) := Examples.sortedUnchecked_ok_XR

/-- the same instance for the carrier-independent form `sorted_unchecked_ok_selfCmp` -/
example : ∃ iv : Interval XR,
    Quantile.ciSortedUnchecked (fun _ => XR.fin 0) (.twoSided (XR.fin 0.95)) Examples.xsNanOff
      (XR.fin 0.5) = .ok iv := ⟨_, Examples.sortedUnchecked_ok_XR⟩

/-- a NaN at a selected rank is `InvalidInputData` (where the crate used to return `Ok` with a NaN
    bound): whenever the index computation succeeds and the slice holds a NaN at one of the ranks it
    selects -/
theorem sorted_unchecked_rejects_nan (crit : Crit XR) (conf : Confidence XR) (q : XR) (xs : List XR)
    (idx : Interval Nat) (r : Nat)
    (h : Quantile.ciIndices crit conf xs.length q = .ok idx) (hr : Quantile.Selects idx r)
    (hx : xs[r]? = some XR.nan) :
    Quantile.ciSortedUnchecked crit conf xs q = .err .invalidInputData :=
  Quantile.ciSortedUnchecked_of_incomparable h hr hx (by simp)

/-- the premises are satisfiable: ten observations with a NaN at rank 5, the median; the ranks
    selected are 5 and 5 -/
example : Quantile.ciSortedUnchecked (fun _ => XR.fin 0) (.twoSided (XR.fin 0.95))
    [XR.fin 0, XR.fin 1, XR.fin 2, XR.fin 3, XR.fin 4, XR.nan, XR.fin 6, XR.fin 7, XR.fin 8, XR.fin 9]
    (XR.fin 0.5) = .err .invalidInputData := Examples.sortedUnchecked_nan_XR

example : Quantile.ciIndices (fun _ => XR.fin 0) (.twoSided (XR.fin 0.95)) Examples.xsNanAt.length
      (XR.fin 0.5) = .ok (.twoSided 5 5) ∧ Quantile.Selects (.twoSided 5 5) 5 ∧
    Examples.xsNanAt[5]? = some XR.nan := ⟨Examples.ciIndices_ok, Or.inl rfl, rfl⟩

/-- in particular a slice of NaNs — which used to come back as `Ok([NaN, NaN])` — is now
    `InvalidInputData` whenever the index computation succeeds, for every kind of confidence -/
theorem sorted_unchecked_rejects_nan_slice (crit : Crit XR) (conf : Confidence XR) (q : XR) (n : Nat)
    (idx : Interval Nat) (h : Quantile.ciIndices crit conf n q = .ok idx) :
    Quantile.ciSortedUnchecked crit conf (List.replicate n XR.nan) q = .err .invalidInputData := by
  obtain ⟨_, hn, hok⟩ := Quantile.ciIndices_eq_ok h
  have h' : Quantile.ciIndices crit conf (List.replicate n XR.nan).length q = .ok idx := by
    rw [List.length_replicate]; exact h
  cases conf <;> cases idx <;> simp only [Quantile.IdxOk] at hok
  · rename_i l lo hi
    exact sorted_unchecked_rejects_nan crit _ q _ _ lo h' (Or.inl rfl)
      (by rw [List.getElem?_replicate, if_pos (by omega)])
  · rename_i l lo
    exact sorted_unchecked_rejects_nan crit _ q _ _ lo h' rfl
      (by rw [List.getElem?_replicate, if_pos (by omega)])
  · rename_i l hi
    exact sorted_unchecked_rejects_nan crit _ q _ _ hi h' rfl
      (by rw [List.getElem?_replicate, if_pos (by omega)])

/-- the hypothesis is satisfiable: ten observations, the median -/
example : Quantile.ciIndices (fun _ => XR.fin 0) (.twoSided (XR.fin 0.95)) 10 (XR.fin 0.5) =
    .ok (.twoSided 5 5) := Examples.ciIndices_ok

end StatsCI.C11
