/-
  C04 — Paired = mean CI of the differences; unpaired = the documented Welch-type interval.

  Items 1–2 hold for *every* carrier `F`/`W` (no arithmetic laws are used: list induction on the
  model's `extendAux`). Items 3–4 are at exact arithmetic `Rex = RR id`; item 5 for every
  rounding function with `fl (-x) = -fl x`.

  Real statistics (`StatsCI.MeanLemmas`, files `Lemmas/MeanExact.lean`, `Lemmas/MeanUnpaired.lean`):
  `smean`, `svar`; `welchA xs = svar xs / n`;
  `welchDof A B na nb = (A+B)²/(A²/(na+1) + B²/(nb+1)) - 2`;
  `welchNu as bs = welchDof (welchA as) (welchA bs) na nb`;
  `welchHalf crit conf as bs = (crit (critReq conf ⟨welchNu as bs⟩)).val * √(welchA as + welchA bs)`.
-/
import StatsCI.Lemmas.MeanUnpaired
import StatsCI.Lemmas.MeanSym

namespace StatsCI.C04
open StatsCI StatsCI.MeanLemmas NumOps Scalar

/-! ### 1. paired is the mean CI of the differences (every carrier) -/

section paired
variable {F W : Type} [Scalar F] [Scalar W] [Widen F W]

/-- `Paired::ci(conf, as, bs)` is `Arithmetic::ci(conf, as - bs)` for samples of equal length -/
theorem paired_is_mean_of_diffs (crit : Crit W) (conf : Confidence W) (as bs : List F)
    (h : as.length = bs.length) :
    Paired.ci crit conf as bs = Arith.ci crit conf (List.zipWith NumOps.sub as bs) := by
  unfold Paired.ci Paired.extend
  rw [Paired.extendAux_eq_len _ _ _ _ h]
  rfl

/-- `extend(as, bs)` on any state: succeeds, and both the returned and the left-behind state
    are the statistics extended by the differences -/
theorem paired_extend (p : Paired F) (as bs : List F) (h : as.length = bs.length) :
    (Paired.extend p as bs : Outcome (Err W) (Paired F) × Paired F) =
      (.ok ⟨p.stats.extend (List.zipWith NumOps.sub as bs)⟩,
        ⟨p.stats.extend (List.zipWith NumOps.sub as bs)⟩) :=
  Paired.extendAux_eq_len p 0 as bs h

/-- `extend_tuple(zip(as, bs))` reaches the same statistics (no length condition: `zip` and
    `zipWith` both stop at the shorter list) -/
theorem paired_extendTuple (p : Paired F) (as bs : List F) :
    (Paired.extendTuple p (as.zip bs)).stats =
      p.stats.extend (List.zipWith NumOps.sub as bs) :=
  Paired.extendTuple_zip p as bs

/-- `append_pair` one pair at a time is `extend_tuple` (it is its left fold) -/
theorem paired_appendPair (p : Paired F) (ps : List (F × F)) :
    ps.foldl (fun p ab => p.appendPair ab.1 ab.2) p = Paired.extendTuple p ps := rfl

/-- the three feeding styles give the same interval -/
theorem paired_styles (crit : Crit W) (conf : Confidence W) (as bs : List F)
    (h : as.length = bs.length) :
    (((Paired.extend Paired.empty as bs).1 : Outcome (Err W) (Paired F)).bind
        fun p => p.ciMean crit conf) = Arith.ci crit conf (List.zipWith NumOps.sub as bs) ∧
    (Paired.extendTuple Paired.empty (as.zip bs)).ciMean crit conf =
      Arith.ci crit conf (List.zipWith NumOps.sub as bs) ∧
    ((as.zip bs).foldl (fun p ab => p.appendPair ab.1 ab.2) Paired.empty).ciMean crit conf =
      Arith.ci crit conf (List.zipWith NumOps.sub as bs) := by
  have h2 : (Paired.extendTuple Paired.empty (as.zip bs)).ciMean crit conf =
      Arith.ci crit conf (List.zipWith NumOps.sub as bs) := by
    unfold Paired.ciMean
    rw [paired_extendTuple]
    rfl
  exact ⟨paired_is_mean_of_diffs crit conf as bs h, h2, h2⟩

/-! ### 2. unequal lengths -/

/-- unequal lengths: `DifferentSampleSizes(len_a, len_b)`, whichever is longer -/
theorem length_mismatch (p : Paired F) (as bs : List F) (h : as.length ≠ bs.length) :
    ((Paired.extend p as bs : Outcome (Err W) (Paired F) × Paired F)).1 =
      .err (.differentSampleSizes as.length bs.length) := by
  unfold Paired.extend
  rw [Paired.extendAux_ne_len p 0 as bs h]
  simp

/-- the same through `Paired::ci` -/
theorem length_mismatch_ci (crit : Crit W) (conf : Confidence W) (as bs : List F)
    (h : as.length ≠ bs.length) :
    Paired.ci crit conf as bs = .err (.differentSampleSizes as.length bs.length) := by
  unfold Paired.ci
  rw [length_mismatch Paired.empty as bs h]
  rfl

end paired

/-! ### 4. the effective degrees of freedom are at least `min(na, nb) - 1 ≥ 1` -/

/-- for `na, nb ≥ 2` and variance terms `A, B ≥ 0` not both zero -/
theorem dof_pos (A B na nb : ℝ) (hna : 2 ≤ na) (hnb : 2 ≤ nb) (hA : 0 ≤ A) (hB : 0 ≤ B)
    (hAB : ¬ (A = 0 ∧ B = 0)) :
    min na nb - 1 ≤ (A + B) ^ 2 / (A ^ 2 / (na + 1) + B ^ 2 / (nb + 1)) - 2 ∧
      1 ≤ min na nb - 1 := by
  have hpos : 0 < A + B := by
    rcases lt_or_eq_of_le hA with h | h
    · linarith
    · rcases lt_or_eq_of_le hB with h' | h'
      · linarith
      · exact absurd ⟨h.symm, h'.symm⟩ hAB
  refine ⟨welchDof_ge A B na nb hna hnb hA hB hpos, ?_⟩
  have : 2 ≤ min na nb := le_min hna hnb
  linarith

/-- for two real samples of sizes `≥ 2`, not both constant, the requested degrees of freedom
    are `≥ min(na, nb) - 1 ≥ 1`: the t quantile is defined -/
theorem dof_pos_samples (as bs : List ℝ) (hna : 2 ≤ as.length) (hnb : 2 ≤ bs.length)
    (hv : 0 < svar as ∨ 0 < svar bs) :
    min (as.length : ℝ) bs.length - 1 ≤ welchNu as bs ∧ 1 ≤ welchNu as bs := by
  have hA := welchA_nonneg as (by omega)
  have hB := welchA_nonneg bs (by omega)
  have hAB : ¬ (welchA as = 0 ∧ welchA bs = 0) := by
    rintro ⟨h1, h2⟩
    rcases hv with h | h
    · exact absurd h1 (ne_of_gt (welchA_pos as (by omega) h))
    · exact absurd h2 (ne_of_gt (welchA_pos bs (by omega) h))
  have h := dof_pos (welchA as) (welchA bs) as.length bs.length (by exact_mod_cast hna)
    (by exact_mod_cast hnb) hA hB hAB
  exact ⟨h.1, le_trans h.2 h.1⟩

/-! ### 3. the unpaired interval -/

/-- the states `Unpaired::ci` works on are the arithmetic statistics of the two samples -/
theorem unpaired_states {F : Type} [Scalar F] (xs ys : List F) :
    Unpaired.fromLists xs ys = ⟨Arith.fromList xs, Arith.fromList ys⟩ ∧
    (Unpaired.empty.extend xs ys : Unpaired F) = ⟨Arith.fromList xs, Arith.fromList ys⟩ :=
  ⟨rfl, rfl⟩

/-- sizes `≥ 2`, valid level, positive effective degrees of freedom `ν`: the bounds are
    `(x̄a - x̄b) ∓ c·√(sa²/na + sb²/nb)` with `c` the answer to the request at `ν`
    (`t(ν)` below the population limit, `z` from it on), assembled by kind as in C01 -/
theorem unpaired_formula_of_dof_pos (crit : Crit Rex) (conf : Confidence Rex) (as bs : List ℝ)
    (hna : 2 ≤ as.length) (hnb : 2 ≤ bs.length) (h0 : 0 < conf.level.val)
    (h1 : conf.level.val < 1) (hd : 0 < welchNu as bs) :
    Unpaired.ci crit conf (as.map inj) (bs.map inj) =
      match conf with
      | .twoSided _ =>
        if 0 ≤ welchHalf crit conf as bs then
          .ok (.twoSided (⟨(smean as - smean bs) - welchHalf crit conf as bs⟩ : Rex)
            ⟨(smean as - smean bs) + welchHalf crit conf as bs⟩)
        else .err (.interval .invalidBounds)
      | .upper _ => .ok (.upper (⟨(smean as - smean bs) - welchHalf crit conf as bs⟩ : Rex))
      | .lower _ => .ok (.lower (⟨(smean as - smean bs) + welchHalf crit conf as bs⟩ : Rex)) := by
  rw [Unpaired.ci_rex crit conf as bs hna hnb (probOk_quantile conf h0 h1) hd, intervalOfKind_pm]
  cases conf <;> rfl

/-- the same under the natural hypothesis: not both samples constant (then `ν ≥ 1` by item 4) -/
theorem unpaired_formula (crit : Crit Rex) (conf : Confidence Rex) (as bs : List ℝ)
    (hna : 2 ≤ as.length) (hnb : 2 ≤ bs.length) (h0 : 0 < conf.level.val)
    (h1 : conf.level.val < 1) (hv : 0 < svar as ∨ 0 < svar bs) :
    Unpaired.ci crit conf (as.map inj) (bs.map inj) =
      match conf with
      | .twoSided _ =>
        if 0 ≤ welchHalf crit conf as bs then
          .ok (.twoSided (⟨(smean as - smean bs) - welchHalf crit conf as bs⟩ : Rex)
            ⟨(smean as - smean bs) + welchHalf crit conf as bs⟩)
        else .err (.interval .invalidBounds)
      | .upper _ => .ok (.upper (⟨(smean as - smean bs) - welchHalf crit conf as bs⟩ : Rex))
      | .lower _ => .ok (.lower (⟨(smean as - smean bs) + welchHalf crit conf as bs⟩ : Rex)) :=
  unpaired_formula_of_dof_pos crit conf as bs hna hnb h0 h1
    (lt_of_lt_of_le one_pos (dof_pos_samples as bs hna hnb hv).2)

/-- the request made: Student's t with `ν` degrees of freedom below the population limit,
    the normal quantile from it on -/
theorem unpaired_request (conf : Confidence Rex) (as bs : List ℝ) :
    critReq conf (⟨welchNu as bs⟩ : Rex) =
      if welchNu as bs < 100000 then .t ⟨welchNu as bs⟩ conf.quantile else .z conf.quantile := by
  unfold critReq
  by_cases h : welchNu as bs < 100000
  · have : lt (⟨welchNu as bs⟩ : Rex) (populationLimit : Rex) = true := by
      simp [populationLimit, h]
    simp [this, h]
  · have : lt (⟨welchNu as bs⟩ : Rex) (populationLimit : Rex) = false := by
      rw [Bool.eq_false_iff, Ne, RR.lt_iff]; simp [populationLimit, h]
    simp [this, h]

/-- `ν` is the documented expression in the two sample variances and sizes -/
theorem unpaired_dof_formula (as bs : List ℝ) :
    welchNu as bs =
      (svar as / as.length + svar bs / bs.length) ^ 2 /
        ((svar as / as.length) ^ 2 / ((as.length : ℝ) + 1) +
          (svar bs / bs.length) ^ 2 / ((bs.length : ℝ) + 1)) - 2 := rfl

/-- **Two constant samples.** With both variances zero the documented expression is `0/0 - 2`
    (`-2` in Lean's real division, NaN in IEEE arithmetic). The crate bounds the computed value
    below by `min(na, nb) - 1` (`fix: the effective degrees of freedom … never fall below
    min(n_a, n_b) - 1`), so the model at exact arithmetic requests the t quantile at
    `min(na, nb) - 1 ≥ 1` degrees of freedom, the standard error is zero and the interval is the
    degenerate one at the difference of the means: no panic. (In IEEE arithmetic the NaN passes
    through the bound and the `z` branch yields the same degenerate interval: `C11.unpaired_total_XR`.) -/
theorem unpaired_both_constant (crit : Crit Rex) (conf : Confidence Rex) (as bs : List ℝ)
    (hna : 2 ≤ as.length) (hnb : 2 ≤ bs.length) (h0 : 0 < conf.level.val)
    (h1 : conf.level.val < 1) (ha : svar as = 0) (hb : svar bs = 0) :
    welchNu as bs = -2 ∧
      clampedDof (welchA as) (welchA bs) as.length bs.length = min (as.length : ℝ) bs.length - 1 ∧
      Unpaired.ci crit conf (as.map inj : List Rex) (bs.map inj) =
        match conf with
        | .twoSided _ => .ok (.twoSided (⟨smean as - smean bs⟩ : Rex) ⟨smean as - smean bs⟩)
        | .upper _ => .ok (.upper (⟨smean as - smean bs⟩ : Rex))
        | .lower _ => .ok (.lower (⟨smean as - smean bs⟩ : Rex)) := by
  have hnu : welchNu as bs = -2 := by
    simp [welchNu, welchA, ha, hb, welchDof_zero]
  have hA : welchA as = 0 := by simp [welchA, ha]
  have hB : welchA bs = 0 := by simp [welchA, hb]
  refine ⟨hnu, ?_, ?_⟩
  · rw [hA, hB]
    exact clampedDof_zero _ _ (by exact_mod_cast hna) (by exact_mod_cast hnb)
  · rw [Unpaired.ci_rex_const crit conf as bs hna hnb (probOk_quantile conf h0 h1) ha hb]
    have h := intervalOfKind_pm conf (smean as - smean bs) 0
    simp only [sub_zero, add_zero, le_refl, if_true] at h
    rw [h]
    cases conf <;> rfl

/-- **The degrees of freedom handed on are never below `min(na, nb) - 1 ≥ 1`**, whatever the
    two samples of sizes `≥ 2` (constant or not): `t_value` is never asked for a non-positive
    number of degrees of freedom. When not both samples are constant the bound is inactive and
    the value is the documented expression `ν` (`dof_pos_samples`). -/
theorem unpaired_dof_clamped (as bs : List ℝ) (hna : 2 ≤ as.length) (hnb : 2 ≤ bs.length) :
    min (as.length : ℝ) bs.length - 1 ≤ clampedDof (welchA as) (welchA bs) as.length bs.length ∧
    1 ≤ clampedDof (welchA as) (welchA bs) as.length bs.length ∧
    ((0 < svar as ∨ 0 < svar bs) →
      clampedDof (welchA as) (welchA bs) as.length bs.length = welchNu as bs) := by
  have h := clampedDof_ge (welchA as) (welchA bs) as.length bs.length (by exact_mod_cast hna)
    (by exact_mod_cast hnb)
  refine ⟨h.1, h.2, fun hv => ?_⟩
  exact max_eq_left (dof_pos_samples as bs hna hnb hv).1

/-! ### 5. exchanging the samples -/

/-- for every rounding function with `fl (-x) = -fl x` (IEEE round-to-nearest included):
    exchanging the two samples negates and mirrors the interval and exchanges upper and lower
    one-sidedness, `CI_conf(b, a) = -CI_conf.flipped(a, b)`; errors and panics are the same on
    both sides. (`x + y = y + x` under any rounding makes the standard error and the degrees of
    freedom symmetric; both sides request the same critical value.)
    The hypothesis on the counts excludes only the case where both samples are too small with
    different sizes, where the reported `TooFewSamples(n)` names the first sample. -/
theorem swap {fl : ℝ → ℝ} (hodd : ∀ x, fl (-x) = -fl x) (crit : Crit (RR fl))
    (u : Unpaired (RR fl)) (conf : Confidence (RR fl))
    (hcount : u.a.count < 2 → u.b.count < 2 → u.a.count = u.b.count) :
    Unpaired.ciMean crit ⟨u.b, u.a⟩ conf =
      (Unpaired.ciMean crit u conf.flipped).map Interval.negI := by
  by_cases ha : u.a.count < 2
  · by_cases hb : u.b.count < 2
    · simp [Unpaired.ciMean, Unpaired.ciPrep, hb, hcount ha hb]
    · simp [Unpaired.ciMean, Unpaired.ciPrep, ha, hb]
  · by_cases hb : u.b.count < 2
    · simp [Unpaired.ciMean, Unpaired.ciPrep, ha, hb]
    · rw [Unpaired.ciMean_eq_finish, Unpaired.ciMean_eq_finish,
        Unpaired.ciPrep_swap hodd u (by omega) (by omega), finish_neg hodd]

/-- the same through `Unpaired::ci` on two data sets (any sizes, except both too small with
    different sizes) -/
theorem swap_ci {fl : ℝ → ℝ} (hodd : ∀ x, fl (-x) = -fl x) (crit : Crit (RR fl))
    (conf : Confidence (RR fl)) (xs ys : List (RR fl))
    (h : xs.length < 2 → ys.length < 2 → xs.length = ys.length) :
    Unpaired.ci crit conf ys xs = (Unpaired.ci crit conf.flipped xs ys).map Interval.negI :=
  swap hodd crit (Unpaired.fromLists xs ys) conf (by
    simp only [Unpaired.fromLists_a, Unpaired.fromLists_b, Arith.fromList_count]
    exact h)

/-! ### non-vacuity -/

/-- lists of equal / unequal lengths; sizes, variances and a valid level for item 3;
    the exact arithmetic `fl = id` is odd -/
example : [(1 : ℝ), 2].length = [(3 : ℝ), 5].length ∧ [(1 : ℝ)].length ≠ [(3 : ℝ), 5].length := by
  simp

example : 0 < svar [1, 2] ∨ 0 < svar [3, 3] := by
  left
  simp [svar, sdev2, smean]
  norm_num

example : (2 : ℝ) ≤ 2 ∧ (2 : ℝ) ≤ 3 ∧ (0 : ℝ) ≤ 1 ∧ (0 : ℝ) ≤ 0 ∧ ¬ ((1 : ℝ) = 0 ∧ (0 : ℝ) = 0) := by
  refine ⟨le_refl _, by norm_num, by norm_num, le_refl _, ?_⟩
  rintro ⟨h, _⟩; norm_num at h

example : svar [3, 3] = 0 := by
  simp [svar, sdev2, smean]

example : ∀ x : ℝ, (id : ℝ → ℝ) (-x) = -(id x) := fun _ => rfl

/-! ### the documented effective dof is scale-free (the basis of the check's oracle for far-out data, D18) -/

/-- the documented effective degrees of freedom depend on the *ratio* of the two variance terms only:
    a common factor (the unit of measurement squared) cancels -/
theorem welchDof_scale (c A B na nb : ℝ) (hc : c ≠ 0) :
    welchDof (c * A) (c * B) na nb = welchDof A B na nb := by
  unfold welchDof
  have e1 : (c * A + c * B) ^ 2 = c ^ 2 * (A + B) ^ 2 := by ring
  have e2 : (c * A) ^ 2 / (na + 1) + (c * B) ^ 2 / (nb + 1)
      = c ^ 2 * (A ^ 2 / (na + 1) + B ^ 2 / (nb + 1)) := by ring
  rw [e1, e2, mul_div_mul_left _ _ (pow_ne_zero 2 hc)]

/-- the scale-free form the check's oracle evaluates: with `r = B / A` (for `A ≠ 0`) -/
theorem welchDof_ratio (A B na nb : ℝ) (hA : A ≠ 0) :
    welchDof A B na nb = (1 + B / A) ^ 2 / (1 / (na + 1) + (B / A) ^ 2 / (nb + 1)) - 2 := by
  have := welchDof_scale A⁻¹ A B na nb (inv_ne_zero hA)
  rw [← this, inv_mul_cancel₀ hA]
  unfold welchDof
  have : A⁻¹ * B = B / A := by rw [div_eq_inv_mul]
  rw [this]
  norm_num

/-- … and with `r = A / B` for `B ≠ 0` -/
theorem welchDof_ratio' (A B na nb : ℝ) (hB : B ≠ 0) :
    welchDof A B na nb = (A / B + 1) ^ 2 / ((A / B) ^ 2 / (na + 1) + 1 / (nb + 1)) - 2 := by
  have := welchDof_scale B⁻¹ A B na nb (inv_ne_zero hB)
  rw [← this, inv_mul_cancel₀ hB]
  unfold welchDof
  have : B⁻¹ * A = A / B := by rw [div_eq_inv_mul]
  rw [this]
  norm_num

example : welchDof (4 * 3) (4 * 5) 7 9 = welchDof 3 5 7 9 := welchDof_scale 4 3 5 7 9 (by norm_num)


end StatsCI.C04
