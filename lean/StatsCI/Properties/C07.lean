/-
  C07 — Interval predicates are exactly the set relations of the denoted closed sets.

  Stated over the model functions of `StatsCI.Model.Interval` themselves, with the comparison
  operations of an arbitrary linear order.
-/
import StatsCI.Lemmas.Order

namespace StatsCI.C07
open StatsCI Interval Set
variable {α : Type} [LinearOrder α]
attribute [local instance] Cmp.ofLinearOrder

/-- `contains` is membership in the denoted set -/
theorem contains_iff (i : Interval α) (x : α) : i.contains x = true ↔ x ∈ i.den := by
  cases i <;> simp [contains, den]

/-- through `RangeBounds` an interval denotes the same set -/
theorem rangeContains_iff (i : Interval α) (x : α) : i.rangeContains x = true ↔ x ∈ i.den := by
  cases i <;> simp [rangeContains, startBound, endBound, left, right, den]

/-- `RangeBounds::contains` and the inherent `contains` agree on every value -/
theorem rangeContains_eq_contains (i : Interval α) (x : α) : i.rangeContains x = i.contains x := by
  rw [Bool.eq_iff_iff, rangeContains_iff, contains_iff]

/-- `intersects` is non-emptiness of the intersection -/
theorem intersects_iff (a b : Interval α) (ha : a.WF) (hb : b.WF) :
    a.intersects b = true ↔ (a.den ∩ b.den).Nonempty := by
  cases a <;> cases b <;> simp only [intersects, den, WF] at *
  case twoSided.twoSided x y u v =>
    simp only [Bool.and_eq_true, cmp_le_iff]
    constructor
    · rintro ⟨h1, h2⟩
      exact ⟨max x u, ⟨le_max_left _ _, max_le ha h2⟩, ⟨le_max_right _ _, max_le h1 hb⟩⟩
    · rintro ⟨z, ⟨h1, h2⟩, ⟨h3, h4⟩⟩
      exact ⟨h1.trans h4, h3.trans h2⟩
  case twoSided.upper x y z =>
    simp only [cmp_le_iff]
    constructor
    · intro h; exact ⟨y, ⟨ha, le_rfl⟩, h⟩
    · rintro ⟨w, ⟨_, h2⟩, h3⟩; exact le_trans h3 h2
  case twoSided.lower x y z =>
    simp only [cmp_le_iff]
    constructor
    · intro h; exact ⟨x, ⟨le_rfl, ha⟩, h⟩
    · rintro ⟨w, ⟨h1, _⟩, h3⟩; exact le_trans h1 h3
  case upper.twoSided x u v =>
    simp only [cmp_le_iff]
    constructor
    · intro h; exact ⟨v, h, ⟨hb, le_rfl⟩⟩
    · rintro ⟨w, h1, ⟨_, h3⟩⟩; exact le_trans h1 h3
  case upper.upper x y =>
    simp only [true_iff]
    exact ⟨max x y, le_max_left _ _, le_max_right _ _⟩
  case upper.lower x y =>
    simp only [cmp_le_iff]
    constructor
    · intro h; exact ⟨x, le_rfl, h⟩
    · rintro ⟨w, h1, h2⟩; exact le_trans h1 h2
  case lower.twoSided x u v =>
    simp only [cmp_le_iff]
    constructor
    · intro h; exact ⟨u, h, ⟨le_rfl, hb⟩⟩
    · rintro ⟨w, h1, ⟨h2, _⟩⟩; exact le_trans h2 h1
  case lower.upper x y =>
    simp only [cmp_le_iff]
    constructor
    · intro h; exact ⟨y, h, le_rfl⟩
    · rintro ⟨w, h1, h2⟩; exact le_trans h2 h1
  case lower.lower x y =>
    simp only [true_iff]
    exact ⟨min x y, min_le_left _ _, min_le_right _ _⟩

/-- `intersects` is a symmetric relation (no well-formedness needed) -/
theorem intersects_symm (a b : Interval α) : a.intersects b = b.intersects a := by
  cases a <;> cases b <;> simp [intersects, Bool.and_comm]

/-- `includes` is the superset relation. The four arms that answer `false` outright (a one-sided
    interval inside a two-sided one, or inside one of the opposite direction) are right because the
    order is unbounded on the relevant side. -/
theorem includes_iff [NoMaxOrder α] [NoMinOrder α] (a b : Interval α) (ha : a.WF) (hb : b.WF) :
    a.includes b = true ↔ b.den ⊆ a.den := by
  cases a <;> cases b <;> simp only [includes, den, WF] at *
  case twoSided.twoSided x y u v =>
    simp only [Bool.and_eq_true, cmp_le_iff]
    constructor
    · rintro ⟨h1, h2⟩ z ⟨h3, h4⟩; exact ⟨h1.trans h3, h4.trans h2⟩
    · intro h
      exact ⟨(h ⟨le_rfl, hb⟩).1, (h ⟨hb, le_rfl⟩).2⟩
  case twoSided.upper x y z =>
    simp only [Bool.false_eq_true, false_iff]
    intro h
    obtain ⟨w, hw⟩ := exists_gt (max y z)
    have := (h (show w ∈ Ici z from le_of_lt (lt_of_le_of_lt (le_max_right _ _) hw))).2
    exact absurd (lt_of_le_of_lt (le_max_left _ _) hw) (not_lt.mpr this)
  case twoSided.lower x y z =>
    simp only [Bool.false_eq_true, false_iff]
    intro h
    obtain ⟨w, hw⟩ := exists_lt (min x z)
    have := (h (show w ∈ Iic z from le_of_lt (lt_of_lt_of_le hw (min_le_right _ _)))).1
    exact absurd (lt_of_lt_of_le hw (min_le_left _ _)) (not_lt.mpr this)
  case upper.twoSided x u v =>
    simp only [cmp_le_iff]
    constructor
    · intro h z ⟨h1, _⟩; exact le_trans h h1
    · intro h; exact h ⟨le_rfl, hb⟩
  case upper.upper x y =>
    simp only [cmp_le_iff]
    constructor
    · intro h z h1; exact le_trans h h1
    · intro h; exact h (show y ∈ Ici y from le_rfl)
  case upper.lower x y =>
    simp only [Bool.false_eq_true, false_iff]
    intro h
    obtain ⟨w, hw⟩ := exists_lt (min x y)
    have : x ≤ w := h (show w ∈ Iic y from le_of_lt (lt_of_lt_of_le hw (min_le_right _ _)))
    exact absurd (lt_of_lt_of_le hw (min_le_left _ _)) (not_lt.mpr this)
  case lower.twoSided x u v =>
    simp only [ge_iff']
    constructor
    · intro h z ⟨_, h2⟩; exact le_trans h2 h
    · intro h; exact h ⟨hb, le_rfl⟩
  case lower.upper x y =>
    simp only [Bool.false_eq_true, false_iff]
    intro h
    obtain ⟨w, hw⟩ := exists_gt (max x y)
    have : w ≤ x := h (show w ∈ Ici y from le_of_lt (lt_of_le_of_lt (le_max_right _ _) hw))
    exact absurd (lt_of_le_of_lt (le_max_left _ _) hw) (not_lt.mpr this)
  case lower.lower x y =>
    simp only [ge_iff']
    constructor
    · intro h z h1; exact le_trans h1 h
    · intro h; exact h (show y ∈ Iic y from le_rfl)

/-- the arms of `includes` that compare bounds are the superset relation in *every* linear order,
    bounded or not (machine integers included) -/
theorem includes_iff_same_shape (a b : Interval α) (hb : b.WF)
    (hshape : (a.isTwoSided = true → b.isTwoSided = true) ∧ (a.isUpper = true → b.isLower = false) ∧
      (a.isLower = true → b.isUpper = false)) :
    a.includes b = true ↔ b.den ⊆ a.den := by
  obtain ⟨h2, hu, hl⟩ := hshape
  cases a <;> cases b <;> simp only [includes, den, WF, isTwoSided, isUpper, isLower] at * <;>
    first
    | (exfalso; simp at h2; done)
    | (exfalso; simp at hu; done)
    | (exfalso; simp at hl; done)
    | skip
  case twoSided.twoSided x y u v =>
    simp only [Bool.and_eq_true, cmp_le_iff]
    constructor
    · rintro ⟨h1, h2⟩ z ⟨h3, h4⟩; exact ⟨h1.trans h3, h4.trans h2⟩
    · intro h
      exact ⟨(h ⟨le_rfl, hb⟩).1, (h ⟨hb, le_rfl⟩).2⟩
  case upper.twoSided x u v =>
    simp only [cmp_le_iff]
    constructor
    · intro h z ⟨h1, _⟩; exact le_trans h h1
    · intro h; exact h ⟨le_rfl, hb⟩
  case upper.upper x y =>
    simp only [cmp_le_iff]
    constructor
    · intro h z h1; exact le_trans h h1
    · intro h; exact h (show y ∈ Ici y from le_rfl)
  case lower.twoSided x u v =>
    simp only [ge_iff']
    constructor
    · intro h z ⟨_, h2⟩; exact le_trans h2 h
    · intro h; exact h ⟨hb, le_rfl⟩
  case lower.lower x y =>
    simp only [ge_iff']
    constructor
    · intro h z h1; exact le_trans h1 h
    · intro h; exact h (show y ∈ Iic y from le_rfl)

/-- `is_included_in` is the subset relation -/
theorem isIncludedIn_iff [NoMaxOrder α] [NoMinOrder α] (a b : Interval α) (ha : a.WF) (hb : b.WF) :
    a.isIncludedIn b = true ↔ a.den ⊆ b.den := by
  unfold isIncludedIn; exact includes_iff b a hb ha

/-- degenerate intervals and shared endpoints: a single common point is enough to intersect -/
theorem intersects_of_shared_endpoint (x y z : α) (h1 : x ≤ y) (h2 : y ≤ z) :
    (Interval.twoSided x y).intersects (.twoSided y z) = true := by
  simp [intersects, h1.trans h2]

/-! non-vacuity: concrete well-formed intervals over ℤ meet the hypotheses, on both sides of each `iff` -/
example : (Interval.twoSided (1 : ℤ) 3).WF ∧ (Interval.lower (2 : ℤ)).WF ∧
    (Interval.twoSided (1 : ℤ) 3).intersects (.lower 2) = true ∧
    (Interval.twoSided (5 : ℤ) 6).intersects (.lower 4) = false ∧
    (Interval.upper (0 : ℤ)).includes (.twoSided 5 6) = true := by
  refine ⟨by simp [WF], by simp [WF], by decide, by decide, by decide⟩

end StatsCI.C07
