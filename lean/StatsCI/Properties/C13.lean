/-
  C13 — For every member x of interval A (and y of B) and every scalar k, the values x+k, x-k, x*k,
  x/k, -x, x+y and x-y are members of A+k, A-k, A*k, A/k, -A, A+B and A-B respectively; every
  finite bound of a result is attained by some members; and the result is well-formed (lower bound
  <= upper bound, unbounded on exactly the side the true image is unbounded). relative_to of a
  non-negative interval against a strictly positive reference encloses (x-r)/r for all members x
  and r and attains its bounds.

  Stated over the model functions of `StatsCI.Model.Interval` themselves. Everything that does not
  divide is proved over an arbitrary ordered commutative ring (`NumOps.ofRing`: ℤ, ℚ, ℝ, …);
  `A / k`, the exact image of `A * k` and `relative_to` over an arbitrary ordered field
  (`NumOps.ofField`). Over a field the functions that do not divide are definitionally the same
  under both instances (`Interval.addScalar_ofField` … `Interval.subI_ofField`), so the ring
  theorems apply verbatim (see `ring_theorems_over_field`).

  "Tightness" and "unbounded on exactly the side the true image is unbounded" are given in the
  strongest form: the set denoted by the result IS the image (`exact_image_*`).
  The documented panics of `A + B`, `A - B`, `relative_to` are the `none`s of the model; they are
  characterised exactly (`addI_panics`, `subI_panics`, `relativeTo_panics`).
-/
import StatsCI.Lemmas.IntervalAlg

namespace StatsCI.C13
open StatsCI StatsCI.Interval Set

/-! ## ordered commutative ring: `A + k`, `A - k`, `A * k`, `-A`, `A + B`, `A - B` -/
section ring
variable {α : Type} [CommRing α] [LinearOrder α] [IsStrictOrderedRing α]
attribute [local instance] NumOps.ofRing

/-! ### 1. soundness (enclosure) -/

theorem sound_addScalar (A : Interval α) (k x : α) (hx : x ∈ A.den) :
    x + k ∈ (A.addScalar k).den :=
  mem_appliedBoth_of_mono A _ (mono_add_const k) hx

theorem sound_subScalar (A : Interval α) (k x : α) (hx : x ∈ A.den) :
    x - k ∈ (A.subScalar k).den :=
  mem_appliedBoth_of_mono A _ (mono_sub_const k) hx

/-- every `k`: positive, negative (the interval is mirrored) and zero (it collapses to `[0, 0]`) -/
theorem sound_mulScalar (A : Interval α) (k x : α) (hx : x ∈ A.den) :
    x * k ∈ (A.mulScalar k).den :=
  mem_mulScalar A k hx

theorem sound_negI (A : Interval α) (x : α) (hx : x ∈ A.den) : -x ∈ A.negI.den :=
  mem_appliedFlipped_of_anti A _ anti_neg hx

theorem sound_addI (A B C : Interval α) (x y : α) (hx : x ∈ A.den) (hy : y ∈ B.den)
    (h : A.addI B = some C) : x + y ∈ C.den :=
  mem_addI h hx hy

theorem sound_subI (A B C : Interval α) (x y : α) (hx : x ∈ A.den) (hy : y ∈ B.den)
    (h : A.subI B = some C) : x - y ∈ C.den :=
  mem_subI h hx hy

/-! ### 2. exactness: the result denotes exactly the image -/

theorem exact_image_addScalar (A : Interval α) (k : α) :
    (A.addScalar k).den = (· + k) '' A.den :=
  den_appliedBoth_of_mono A _ (· - k) (mono_add_const k) (mono_sub_const k)
    (fun x => sub_add_cancel x k) (fun x => add_sub_cancel_right x k)

theorem exact_image_subScalar (A : Interval α) (k : α) :
    (A.subScalar k).den = (· - k) '' A.den :=
  den_appliedBoth_of_mono A _ (· + k) (mono_sub_const k) (mono_add_const k)
    (fun x => add_sub_cancel_right x k) (fun x => sub_add_cancel x k)

theorem exact_image_negI (A : Interval α) : A.negI.den = (fun x => -x) '' A.den :=
  den_appliedFlipped_of_anti A _ (fun x => -x) anti_neg anti_neg neg_neg neg_neg

/-- `A * 0` is `[0, 0]` whatever the kind of `A`; that is the image of every non-empty `A` -/
theorem exact_image_mulScalar_zero (A : Interval α) (hA : A.WF) :
    (A.mulScalar 0).den = {0} ∧ (· * (0 : α)) '' A.den = {0} := by
  refine ⟨den_mulScalar_zero A, ?_⟩
  ext z
  simp only [mem_image, mul_zero, mem_singleton_iff]
  constructor
  · rintro ⟨_, _, rfl⟩; rfl
  · rintro rfl; obtain ⟨x, hx⟩ := den_nonempty hA; exact ⟨x, hx, rfl⟩

/-- `A + B`, where it does not panic, denotes exactly the set of the sums of members -/
theorem exact_image_addI (A B C : Interval α) (hA : A.WF) (hB : B.WF) (h : A.addI B = some C) :
    C.den = image2 (· + ·) A.den B.den :=
  den_addI hA hB h

/-- `A - B`, where it does not panic, denotes exactly the set of the differences of members -/
theorem exact_image_subI (A B C : Interval α) (hA : A.WF) (hB : B.WF) (h : A.subI B = some C) :
    C.den = image2 (· - ·) A.den B.den :=
  den_subI hA hB h

/-- every finite bound of a result is attained by a member (scalar operations).
    For `A * k` this holds in every ordered ring, although over ℤ the image of `A * k` is not an
    interval (`[0, 1] * 2 = {0, 2}`): see `exact_image_mulScalar` for fields. -/
theorem attained_scalar (A : Interval α) (hA : A.WF) (k b : α) :
    ((A.addScalar k).left = some b ∨ (A.addScalar k).right = some b → ∃ x ∈ A.den, x + k = b) ∧
    ((A.subScalar k).left = some b ∨ (A.subScalar k).right = some b → ∃ x ∈ A.den, x - k = b) ∧
    ((A.mulScalar k).left = some b ∨ (A.mulScalar k).right = some b → ∃ x ∈ A.den, x * k = b) ∧
    (A.negI.left = some b ∨ A.negI.right = some b → ∃ x ∈ A.den, -x = b) :=
  ⟨bound_appliedBoth_attained hA _, bound_appliedBoth_attained hA _,
    bound_mulScalar_attained hA k, bound_appliedFlipped_attained hA _⟩

/-- every finite bound of `A + B` / `A - B` is attained by a pair of members -/
theorem attained_addI_subI (A B C : Interval α) (hA : A.WF) (hB : B.WF) (b : α)
    (hb : C.left = some b ∨ C.right = some b) :
    (A.addI B = some C → ∃ x ∈ A.den, ∃ y ∈ B.den, x + y = b) ∧
    (A.subI B = some C → ∃ x ∈ A.den, ∃ y ∈ B.den, x - y = b) := by
  constructor <;> intro h
  · have hC := WF_addI hA hB h
    have hb' : b ∈ C.den := hb.elim (left_mem_den hC) (right_mem_den hC)
    rw [den_addI hA hB h] at hb'
    exact mem_image2.mp hb'
  · have hC := WF_subI hA hB h
    have hb' : b ∈ C.den := hb.elim (left_mem_den hC) (right_mem_den hC)
    rw [den_subI hA hB h] at hb'
    exact mem_image2.mp hb'

/-! ### 3. well-formedness of the results -/

theorem wf_addScalar (A : Interval α) (hA : A.WF) (k : α) : (A.addScalar k).WF :=
  WF_appliedBoth_of_mono _ (mono_add_const k) hA

theorem wf_subScalar (A : Interval α) (hA : A.WF) (k : α) : (A.subScalar k).WF :=
  WF_appliedBoth_of_mono _ (mono_sub_const k) hA

theorem wf_mulScalar (A : Interval α) (hA : A.WF) (k : α) : (A.mulScalar k).WF :=
  WF_mulScalar hA k

theorem wf_negI (A : Interval α) (hA : A.WF) : A.negI.WF :=
  WF_appliedFlipped_of_anti _ anti_neg hA

theorem wf_addI (A B C : Interval α) (hA : A.WF) (hB : B.WF) (h : A.addI B = some C) : C.WF :=
  WF_addI hA hB h

theorem wf_subI (A B C : Interval α) (hA : A.WF) (hB : B.WF) (h : A.subI B = some C) : C.WF :=
  WF_subI hA hB h

/-- the kind of the result: `A ± k` keeps the kind of `A`, `-A` mirrors it, `A * k` keeps it for
    `k > 0`, mirrors it for `k < 0` and is two-sided for `k = 0` -/
theorem kind_scalar (A : Interval α) (k : α) :
    ((A.addScalar k).isTwoSided = A.isTwoSided ∧ (A.addScalar k).isUpper = A.isUpper ∧
      (A.addScalar k).isLower = A.isLower) ∧
    ((A.subScalar k).isTwoSided = A.isTwoSided ∧ (A.subScalar k).isUpper = A.isUpper ∧
      (A.subScalar k).isLower = A.isLower) ∧
    (A.negI.isTwoSided = A.isTwoSided ∧ A.negI.isUpper = A.isLower ∧
      A.negI.isLower = A.isUpper) ∧
    (0 < k → (A.mulScalar k).isTwoSided = A.isTwoSided ∧ (A.mulScalar k).isUpper = A.isUpper ∧
      (A.mulScalar k).isLower = A.isLower) ∧
    (k < 0 → (A.mulScalar k).isTwoSided = A.isTwoSided ∧ (A.mulScalar k).isUpper = A.isLower ∧
      (A.mulScalar k).isLower = A.isUpper) ∧
    (k = 0 → (A.mulScalar k).isTwoSided = true) := by
  refine ⟨?_, ?_, ?_, ?_, ?_, ?_⟩
  · cases A <;> exact ⟨rfl, rfl, rfl⟩
  · cases A <;> exact ⟨rfl, rfl, rfl⟩
  · cases A <;> exact ⟨rfl, rfl, rfl⟩
  · intro hk; rw [mulScalar_of_pos A hk]; cases A <;> exact ⟨rfl, rfl, rfl⟩
  · intro hk; rw [mulScalar_of_neg A hk]; cases A <;> exact ⟨rfl, rfl, rfl⟩
  · rintro rfl; rw [mulScalar_zero]; cases A <;> rfl

/-! ### 4. the documented panics of `A + B` and `A - B` -/

/-- `A + B` panics exactly for one-sided intervals of opposite directions … -/
theorem addI_panics (A B : Interval α) :
    A.addI B = none ↔
      (A.isUpper = true ∧ B.isLower = true) ∨ (A.isLower = true ∧ B.isUpper = true) := by
  cases A <;> cases B <;> simp [addI, isUpper, isLower]

/-- … which is where the set of sums is the whole line (no interval denotes it) -/
theorem addI_panics_image (A B : Interval α) (h : A.addI B = none) :
    image2 (· + ·) A.den B.den = univ := by
  cases A <;> cases B <;> simp only [addI, reduceCtorEq] at h
  · exact image2_add_upper_lower _ _
  · exact (image2_comm fun p q => add_comm p q).trans (image2_add_upper_lower _ _)

/-- `A - B` panics exactly for one-sided intervals of the same direction … -/
theorem subI_panics (A B : Interval α) :
    A.subI B = none ↔
      (A.isUpper = true ∧ B.isUpper = true) ∨ (A.isLower = true ∧ B.isLower = true) := by
  cases A <;> cases B <;> simp [subI, isUpper, isLower]

/-- … which is where the set of differences is the whole line -/
theorem subI_panics_image (A B : Interval α) (h : A.subI B = none) :
    image2 (· - ·) A.den B.den = univ := by
  cases A <;> cases B <;> simp only [subI, reduceCtorEq] at h
  · exact image2_sub_upper_upper _ _
  · exact image2_sub_lower_lower _ _

/-- conversely a result that is returned never denotes the whole line -/
theorem addI_subI_some_ne_univ (A B C : Interval α) (h : A.addI B = some C ∨ A.subI B = some C) :
    C.den ≠ univ := by
  intro hu
  cases C with
  | twoSided lo hi =>
    have : lo - 1 ∈ (Interval.twoSided lo hi).den := hu ▸ mem_univ _
    have := this.1; linarith
  | upper lo =>
    have : lo - 1 ∈ (Interval.upper lo).den := hu ▸ mem_univ _
    have : lo ≤ lo - 1 := this
    linarith
  | lower hi =>
    have : hi + 1 ∈ (Interval.lower hi).den := hu ▸ mem_univ _
    have : hi + 1 ≤ hi := this
    linarith

end ring

/-! ## ordered field: `A / k`, exact image of `A * k`, `relative_to` -/
section field
variable {α : Type} [Field α] [LinearOrder α] [IsStrictOrderedRing α]
attribute [local instance] NumOps.ofField

/-- the theorems of the ring section hold verbatim for the field instance, e.g. -/
theorem ring_theorems_over_field (A B C : Interval α) (k x y : α) (hx : x ∈ A.den)
    (hy : y ∈ B.den) :
    x + k ∈ (A.addScalar k).den ∧ x - k ∈ (A.subScalar k).den ∧ x * k ∈ (A.mulScalar k).den ∧
    -x ∈ A.negI.den ∧ (A.addI B = some C → x + y ∈ C.den) ∧ (A.subI B = some C → x - y ∈ C.den) :=
  ⟨sound_addScalar A k x hx, sound_subScalar A k x hx, sound_mulScalar A k x hx, sound_negI A x hx,
    sound_addI A B C x y hx hy, sound_subI A B C x y hx hy⟩

theorem sound_divScalar (A : Interval α) (k x : α) (hk : k ≠ 0) (hx : x ∈ A.den) :
    x / k ∈ (A.divScalar k).den :=
  mem_divScalar A hk hx

theorem exact_image_divScalar (A : Interval α) (k : α) (hk : k ≠ 0) :
    (A.divScalar k).den = (· / k) '' A.den :=
  den_divScalar A hk

/-- over a field `A * k` (`k ≠ 0`) denotes exactly the image -/
theorem exact_image_mulScalar (A : Interval α) (k : α) (hk : k ≠ 0) :
    (A.mulScalar k).den = (· * k) '' A.den :=
  den_mulScalar A hk

theorem attained_divScalar (A : Interval α) (hA : A.WF) (k b : α) (hk : k ≠ 0)
    (hb : (A.divScalar k).left = some b ∨ (A.divScalar k).right = some b) :
    ∃ x ∈ A.den, x / k = b :=
  bound_divScalar_attained hA hk hb

theorem wf_divScalar (A : Interval α) (hA : A.WF) (k : α) (hk : k ≠ 0) : (A.divScalar k).WF :=
  WF_divScalar hA hk

/-- `A / k` keeps the kind for `k > 0` and mirrors it for `k < 0` -/
theorem kind_divScalar (A : Interval α) (k : α) :
    (0 < k → (A.divScalar k).isTwoSided = A.isTwoSided ∧ (A.divScalar k).isUpper = A.isUpper ∧
      (A.divScalar k).isLower = A.isLower) ∧
    (k < 0 → (A.divScalar k).isTwoSided = A.isTwoSided ∧ (A.divScalar k).isUpper = A.isLower ∧
      (A.divScalar k).isLower = A.isUpper) := by
  refine ⟨?_, ?_⟩
  · intro hk; rw [divScalar_of_pos A hk]; cases A <;> exact ⟨rfl, rfl, rfl⟩
  · intro hk; rw [divScalar_of_neg A hk]; cases A <;> exact ⟨rfl, rfl, rfl⟩

/-! ### 5. `relative_to` -/

/-- the value table of `relative_to` on non-negative intervals against positive references -/
theorem relativeTo_table (x y a b : α) (ha : a ≠ 0) (hb : b ≠ 0) :
    (Interval.twoSided x y).relativeTo (.twoSided a b) =
      some (.twoSided ((x - b) / b) ((y - a) / a)) ∧
    (Interval.twoSided x y).relativeTo (.upper a) = some (.lower ((y - a) / a)) ∧
    (Interval.upper x).relativeTo (.twoSided a b) = some (.upper ((x - b) / b)) ∧
    (Interval.upper x).relativeTo (.upper a) = none := by
  simp [relativeTo, ha, hb]

/-- `relative_to` of a non-negative interval against a strictly positive reference encloses
    `(X - r)/r` for all members `X` and `r` -/
theorem relativeTo_sound (A R C : Interval α) (hA0 : ∀ x ∈ A.den, 0 ≤ x)
    (hR0 : ∀ r ∈ R.den, 0 < r) (h : A.relativeTo R = some C) (X r : α) (hX : X ∈ A.den)
    (hr : r ∈ R.den) : (X - r) / r ∈ C.den :=
  mem_relativeTo hA0 hR0 h hX hr

/-- … and every finite bound of the result is attained by members -/
theorem relativeTo_attained (A R C : Interval α) (hA : A.WF) (hR : R.WF)
    (h : A.relativeTo R = some C) (β : α) (hβ : C.left = some β ∨ C.right = some β) :
    ∃ X ∈ A.den, ∃ r ∈ R.den, (X - r) / r = β :=
  bound_relativeTo_attained hA hR h hβ

/-- … so that the result is well-formed -/
theorem relativeTo_wf (A R C : Interval α) (hA : A.WF) (hR : R.WF) (hA0 : ∀ x ∈ A.den, 0 ≤ x)
    (hR0 : ∀ r ∈ R.den, 0 < r) (h : A.relativeTo R = some C) : C.WF := by
  obtain ⟨X, hX⟩ := den_nonempty hA
  obtain ⟨r, hr⟩ := den_nonempty hR
  exact (WF_iff_nonempty C).mpr ⟨_, mem_relativeTo hA0 hR0 h hX hr⟩

/-- the kind of the result, and the only panic on this domain: a well-formed non-negative `A`
    against a well-formed strictly positive `R` gives a result unless both are unbounded above;
    the result is unbounded above exactly when `A` is, unbounded below exactly when `R` is
    unbounded above -/
theorem relativeTo_kind (A R : Interval α) (hR : R.WF) (hA0 : ∀ x ∈ A.den, 0 ≤ x)
    (hR0 : ∀ r ∈ R.den, 0 < r) :
    (A.isUpper = true ∧ R.isUpper = true → A.relativeTo R = none) ∧
    (¬(A.isUpper = true ∧ R.isUpper = true) → ∃ C, A.relativeTo R = some C ∧
      C.isUpper = A.isUpper ∧ C.isLower = R.isUpper ∧
      C.isTwoSided = (A.isTwoSided && R.isTwoSided)) := by
  have hAl := isLower_eq_false_of_nonneg hA0
  have hRl : R.isLower = false :=
    isLower_eq_false_of_nonneg (fun r hr => (hR0 r hr).le)
  cases R with
  | twoSided a b =>
    have ha : a ≠ 0 := (hR0 a ⟨le_rfl, hR⟩).ne'
    have hb : b ≠ 0 := (hR0 b ⟨hR, le_rfl⟩).ne'
    cases A <;> simp_all [relativeTo, isUpper, isLower, isTwoSided]
  | upper a =>
    have ha : a ≠ 0 := (hR0 a (le_refl a)).ne'
    cases A <;> simp_all [relativeTo, isUpper, isLower, isTwoSided]
  | lower b => simp [isLower] at hRl

/-- all the panics of `relative_to`, on every input: a zero bound of the reference, or both
    intervals unbounded on the same side -/
theorem relativeTo_panics (A R : Interval α) :
    A.relativeTo R = none ↔ R.left = some 0 ∨ R.right = some 0 ∨
      (A.isUpper = true ∧ R.isUpper = true) ∨ (A.isLower = true ∧ R.isLower = true) :=
  relativeTo_eq_none_iff A R

/-- a zero bound of the reference is a panic, whatever the interval -/
theorem relativeTo_zero_ref (A R : Interval α) (h : R.left = some 0 ∨ R.right = some 0) :
    A.relativeTo R = none :=
  (relativeTo_eq_none_iff A R).mpr (h.elim Or.inl (fun h => Or.inr (Or.inl h)))

/-- two-sided against two-sided (`0 ≤ x ≤ y`, `0 < a ≤ b`): the result denotes EXACTLY the set of
    the values `(X - r)/r` -/
theorem relativeTo_exact_image_twoSided (x y a b : α) (hx : 0 ≤ x) (hxy : x ≤ y) (ha : 0 < a)
    (hab : a ≤ b) :
    ∃ C, (Interval.twoSided x y).relativeTo (.twoSided a b) = some C ∧
      C.den = image2 (fun X r => (X - r) / r) (Interval.twoSided x y).den
        (Interval.twoSided a b).den := by
  refine ⟨_, (relativeTo_table x y a b ha.ne' (lt_of_lt_of_le ha hab).ne').1, ?_⟩
  exact image2_rel_Icc hx hxy ha hab

/-- against a reference that is unbounded above, the result `(-∞, (y - a)/a]` encloses and attains
    its finite bound, but is NOT tight on its unbounded side: every value `(X - r)/r` is at least
    `-1` (recorded; the property does not claim tightness there) -/
theorem relativeTo_upper_ref_slack (x y a : α) (hx : 0 ≤ x) (ha : 0 < a) :
    (Interval.twoSided x y).relativeTo (.upper a) = some (.lower ((y - a) / a)) ∧
    (∀ X ∈ (Interval.twoSided x y).den, ∀ r ∈ (Interval.upper a).den, -1 ≤ (X - r) / r) := by
  refine ⟨(relativeTo_table x y a a ha.ne' ha.ne').2.1, ?_⟩
  intro X hX r hr
  exact rel_ge_neg_one (hx.trans hX.1) (lt_of_lt_of_le ha hr)

end field

/-! ## non-vacuity -/
section examples

attribute [local instance] NumOps.ofRing in
example : (Interval.twoSided (1 : ℤ) 3).WF ∧ (2 : ℤ) ∈ (Interval.twoSided (1 : ℤ) 3).den ∧
    (Interval.twoSided (1 : ℤ) 3).mulScalar (-2) = .twoSided (-6) (-2) ∧
    (Interval.upper (1 : ℤ)).mulScalar (-2) = .lower (-2) ∧
    (Interval.upper (1 : ℤ)).mulScalar 0 = .twoSided 0 0 ∧
    (Interval.twoSided (1 : ℤ) 3).addI (.upper 5) = some (.upper 6) ∧
    (Interval.twoSided (1 : ℤ) 3).subI (.upper 5) = some (.lower (-2)) ∧
    (Interval.upper (1 : ℤ)).addI (.lower 5) = none ∧
    (Interval.upper (1 : ℤ)).subI (.upper 5) = none := by
  refine ⟨by simp, by simp, by decide, by decide, by decide, by decide, by decide, by decide,
    by decide⟩

attribute [local instance] NumOps.ofField in
example : (Interval.twoSided (1 : ℚ) 3).WF ∧ (Interval.twoSided (2 : ℚ) 4).WF ∧
    (∀ x ∈ (Interval.twoSided (1 : ℚ) 3).den, 0 ≤ x) ∧
    (∀ r ∈ (Interval.twoSided (2 : ℚ) 4).den, 0 < r) ∧
    (Interval.twoSided (1 : ℚ) 3).relativeTo (.twoSided 2 4) =
      some (.twoSided ((1 - 4) / 4) ((3 - 2) / 2)) ∧
    (Interval.twoSided (1 : ℚ) 3).relativeTo (.twoSided 0 4) = none ∧
    (Interval.twoSided (1 : ℚ) 3).divScalar (-2) = .twoSided (3 / (-2)) (1 / (-2)) := by
  refine ⟨by norm_num, by norm_num, ?_, ?_, ?_, ?_, ?_⟩
  · intro x hx; exact le_trans (by norm_num) hx.1
  · intro r hr; exact lt_of_lt_of_le (by norm_num) hr.1
  · exact (relativeTo_table 1 3 2 4 (by norm_num) (by norm_num)).1
  · simp [relativeTo]
  · simp [divScalar, appliedFlipped]

end examples
end StatsCI.C13
