/-
  StatsCI.Driver.IntervalOps — evaluates the interval / confidence model for one request line.
-/
import StatsCI.Driver.Codec

namespace StatsCI.Driver
open StatsCI

def encOrd : Option Ordering → String
  | some .lt => "lt"
  | some .eq => "eq"
  | some .gt => "gt"
  | none => "none"

def hexOfString (s : String) : String :=
  "h:" ++ String.join (s.toUTF8.toList.map (fun b => hexOf b.toNat 2))

/-- the element formatting is supplied by the harness (the element type's own `Display`) -/
def unhex? (s : String) : Option String :=
  if !s.startsWith "h:" then none else
  let cs := (s.drop 2).toString.toList
  let rec go : List Char → List UInt8 → Option (List UInt8)
    | [], acc => some acc.reverse
    | [_], _ => none
    | a :: b :: rest, acc =>
      match hexDigit? a, hexDigit? b with
      | some x, some y => go rest ((x * 16 + y).toUInt8 :: acc)
      | _, _ => none
  (go cs []).bind fun bytes => String.fromUTF8? (ByteArray.mk bytes.toArray)

/-- operations that need comparison only -/
def cmpOp {α : Type} [Cmp α] [Codec α] (op : String) (args : List String) : Option (List String) :=
  match op with
  | "contains" => do
      let (i, r) ← pInterval (α := α) args; let (x, _) ← pElem (α := α) r
      pure [encBool (i.contains x)]
  | "rcontains" => do
      let (i, r) ← pInterval (α := α) args; let (x, _) ← pElem (α := α) r
      pure [encBool (i.rangeContains x), encBool (i.rangeContains x)]
  | "rbounds" => do
      let (i, _) ← pInterval (α := α) args
      let eb : Bound α → List String := fun
        | .included a => ["In", Codec.enc a]
        | .excluded a => ["Ex", Codec.enc a]
        | .unbounded => ["Un"]
      pure (eb i.startBound ++ eb i.endBound)
  | "intersects" => do
      let (i, r) ← pInterval (α := α) args; let (j, _) ← pInterval (α := α) r
      pure [encBool (i.intersects j)]
  | "includes" => do
      let (i, r) ← pInterval (α := α) args; let (j, _) ← pInterval (α := α) r
      pure [encBool (i.includes j)]
  | "is_included_in" => do
      let (i, r) ← pInterval (α := α) args; let (j, _) ← pInterval (α := α) r
      pure [encBool (i.isIncludedIn j)]
  | "pcmp" => do
      let (i, r) ← pInterval (α := α) args; let (j, _) ← pInterval (α := α) r
      pure [encOrd (i.partialCmp j), encBool (i.ltI j), encBool (i.leI j), encBool (i.gtI j),
            encBool (i.geI j), encBool (i.beq j)]
  | "copy" => do
      let (i, _) ← pInterval (α := α) args
      let c := i.clone
      pure [encBool (i.beq c), encOrd (i.partialCmp c), encBool (i.leI c), encBool (i.geI c),
            encBool (i.ltI c), encBool (i.gtI c)]
  | "eq" => do
      let (i, r) ← pInterval (α := α) args; let (j, _) ← pInterval (α := α) r
      pure [encBool (i.beq j)]
  | "new" => do
      let (a, r) ← pElem (α := α) args; let (b, _) ← pElem (α := α) r
      pure (encIRes (Interval.new a b))
  | "from_pair" => do
      let (a, r) ← pElem (α := α) args; let (b, _) ← pElem (α := α) r
      pure (encIRes (Interval.tryFromPair (a, b)))
  | "from_range_incl" => do
      let (a, r) ← pElem (α := α) args; let (b, _) ← pElem (α := α) r
      pure (encIRes (Interval.tryFromRangeInclusive a b))
  | "from_range_used" => do
      -- a range that was iterated before the conversion: only the bounds it holds now matter
      let (_, r) ← pTok args
      let (a, r) ← pElem (α := α) r; let (b, _) ← pElem (α := α) r
      pure (encIRes (Interval.tryFromRangeInclusive a b))
  | "from_optpair" => do
      let (a, r) ← pOpt (α := α) args; let (b, _) ← pOpt (α := α) r
      pure (encIRes (Interval.tryFromOptPair (a, b)))
  | "from_range_from" => do
      let (a, _) ← pElem (α := α) args; pure (encInterval (Interval.fromRangeFrom a))
  | "from_range_to" => do
      let (a, _) ← pElem (α := α) args; pure (encInterval (Interval.fromRangeToInclusive a))
  | "new_upper" => do
      let (a, _) ← pElem (α := α) args; pure (encInterval (Interval.newUpper a))
  | "new_lower" => do
      let (a, _) ← pElem (α := α) args; pure (encInterval (Interval.newLower a))
  | "acc" => do
      let (i, _) ← pInterval (α := α) args
      let op := i.toOptPair
      pure (encOpt i.left ++ encOpt i.right ++ encOpt i.low ++ encOpt i.high ++ encOpt i.left ++
        encOpt i.right ++ encOpt op.1 ++ encOpt op.2 ++
        [encBool i.isTwoSided, encBool i.isOneSided, encBool i.isUpper, encBool i.isLower,
         encBool i.isDegenerate])
  | "roundtrip" => do
      let (i, _) ← pInterval (α := α) args
      pure (encIRes (Interval.tryFromOptPair i.toOptPair) ++ encInterval i.clone)
  | "display" => do
      let (i, r) ← pInterval (α := α) args
      let (lo, r) ← pTok r; let (hi, _) ← pTok r
      let lo ← unhex? lo; let hi ← unhex? hi
      let shown : Interval String :=
        match i with
        | .twoSided _ _ => .twoSided lo hi
        | .upper _ => .upper lo
        | .lower _ => .lower hi
      -- format flags given for the interval itself do not reach the bounds: the rendering is the plain one
      pure [hexOfString (shown.display id), encBool true]
  | _ => none

def extOp {α : Type} [NumOps α] [Extremes α] [Codec α] (op : String) (args : List String) :
    Option (List String) :=
  match op with
  | "ext" => do
      let (i, _) ← pInterval (α := α) args
      let p := i.toPair
      pure ([Codec.enc i.lowX, Codec.enc i.highX, Codec.enc p.1, Codec.enc p.2] ++ encOpt i.width)
  | _ => none

def hashOp {α : Type} [Codec α] (elem : α → List String) (op : String) (args : List String) :
    Option (List String) :=
  match op with
  | "hash" => do
      let (i, _) ← pInterval (α := α) args
      pure (i.hashSeq.flatMap fun
        | .tag n => ["i32:" ++ toString n]
        | .elem x => elem x)
  | _ => none

def numOp {α : Type} [NumOps α] [Codec α] (op : String) (args : List String) : Option (List String) :=
  let scalar (f : Interval α → α → Interval α) : Option (List String) := do
    let (i, r) ← pInterval (α := α) args; let (k, _) ← pElem (α := α) r
    pure (encInterval (f i k))
  let binary (f : Interval α → Interval α → Option (Interval α)) (tag : String) : Option (List String) := do
    let (i, r) ← pInterval (α := α) args; let (j, _) ← pInterval (α := α) r
    pure (match f i j with
      | some k => "ok" :: encInterval k
      | none => ["panic", tag])
  match op with
  | "mul" => scalar Interval.mulScalar
  | "div" => scalar Interval.divScalar
  | "add" => scalar Interval.addScalar
  | "sub" => scalar Interval.subScalar
  | "neg" => do let (i, _) ← pInterval (α := α) args; pure (encInterval i.negI)
  | "addi" => binary Interval.addI "interval_op"
  | "subi" => binary Interval.subI "interval_op"
  | "relto" => binary Interval.relativeTo "relative_to"
  | _ => none

/-! ### approx's element algorithms for f64 (transcribed from approx 0.5.1) -/

def absDiffEq (a b eps : Float) : Bool := decide ((a - b).abs ≤ eps)

def relativeEq (a b eps maxRel : Float) : Bool :=
  if a == b then true
  else if a.isInf || b.isInf then false
  else
    let d := (a - b).abs
    if d ≤ eps then true
    else
      let aa := a.abs; let ab := b.abs
      let largest := if ab > aa then ab else aa
      decide (d ≤ largest * maxRel)

def signum (x : Float) : Float :=
  if x.isNaN then x else if x.toBits >>> 63 == 1 then -1.0 else 1.0

def ulpsEq (a b eps : Float) (maxUlps : Nat) : Bool :=
  if absDiffEq a b eps then true
  else if !(signum a == signum b) then false
  else
    let ia := a.toBits.toNat; let ib := b.toBits.toNat
    if ia ≤ ib then ib - ia ≤ maxUlps else ia - ib ≤ maxUlps

def approxOp (op : String) (args : List String) : Option (List String) :=
  match op with
  | "absdiff" => do
      let (i, r) ← pInterval (α := Float) args; let (j, r) ← pInterval (α := Float) r
      let (eps, _) ← pF64 r
      let e := Interval.approxEq (fun a b => absDiffEq a b eps) i j
      pure [encBool e, encBool (!e)]
  | "releq" => do
      let (i, r) ← pInterval (α := Float) args; let (j, r) ← pInterval (α := Float) r
      let (eps, r) ← pF64 r; let (mr, _) ← pF64 r
      let e := Interval.approxEq (fun a b => relativeEq a b eps mr) i j
      pure [encBool e, encBool (!e)]
  | "ulps" => do
      let (i, r) ← pInterval (α := Float) args; let (j, r) ← pInterval (α := Float) r
      let (eps, r) ← pF64 r; let (mu, _) ← pNat r
      let e := Interval.approxEq (fun a b => ulpsEq a b eps mu) i j
      pure [encBool e, encBool (!e)]
  | _ => none

/-- `u8` for the unsigned accessors: `MIN = 0`, `MAX = 255`, subtraction never underflows on WF input -/
def natNumOps : NumOps Nat where
  le a b := decide (a ≤ b)
  lt a b := decide (a < b)
  eq a b := decide (a = b)
  add := Nat.add
  sub := Nat.sub
  mul := Nat.mul
  div := Nat.div
  neg := id
  zero := 0
  one := 1
def u8Extremes : Extremes Nat := ⟨0, 255⟩

/-- `MIN`/`MAX` of each primitive integer type (`isize`/`usize` are 64-bit on the test platform) -/
def intExtremes? (ty : String) : Option (Extremes Int) :=
  let s (bits : Nat) : Extremes Int := ⟨-(2 ^ (bits - 1) : Int), (2 ^ (bits - 1) : Int) - 1⟩
  let u (bits : Nat) : Extremes Int := ⟨0, (2 ^ bits : Int) - 1⟩
  match ty with
  | "i8" => some (s 8) | "i16" => some (s 16) | "i32" => some (s 32) | "i64" => some (s 64)
  | "i128" => some (s 128) | "isize" => some (s 64)
  | "u8" => some (u 8) | "u16" => some (u 16) | "u32" => some (u 32) | "u64" => some (u 64)
  | "u128" => some (u 128) | "usize" => some (u 64)
  | _ => none

/-- `pairs n <type> <kind> a b => lo hi`: `(T, T)::from(Interval<T>)` for every integer instantiation -/
def pairsOp (args : List String) : Option (List String) :=
  match args with
  | [ty, kind, a, b] => do
      let ex ← intExtremes? ty
      let a ← parseInt? a
      let b ← parseInt? b
      let iv : Interval Int ← match kind with
        | "0" => some (.twoSided a b)
        | "1" => some (.upper a)
        | "2" => some (.lower b)
        | _ => none
      let p := @Interval.toPair Int ex iv
      pure [toString p.1, toString p.2]
  | _ => none

/-- interval arithmetic over `u8` (overflow checks on): the exact image over the integers when every bound of it
    is representable, the overflow panic otherwise -/
def uArith (op : String) (args : List String) : Option (List String) :=
  if !(["add", "sub", "addi", "subi"].contains op) then none else do
  let r ← numOp (α := Int) op args
  if r.head? == some "panic" then pure r else
  let bad := r.any fun t => match parseInt? t with
    | some v => v < 0 || v > 255
    | none => false
  pure (if bad then ["panic", "overflow"] else r)

/-- interval arithmetic over `i8` (overflow checks on): the exact image over the integers when every bound of it
    is representable (however wide the result), the overflow panic otherwise -/
def sArith (op : String) (args : List String) : Option (List String) :=
  if !(["add", "sub", "mul", "neg", "addi", "subi"].contains op) then none else do
  let r ← numOp (α := Int) op args
  if r.head? == some "panic" then pure r else
  let bad := r.any fun t => match parseInt? t with
    | some v => v < -128 || v > 127
    | none => false
  pure (if bad then ["panic", "overflow"] else r)

def first (xs : List (Option (List String))) : Option (List String) :=
  xs.foldl (fun acc x => match acc with | some a => some a | none => x) none

/-- dispatch on the element-type tag -/
def intervalOp (op ty : String) (args : List String) : Option (List String) :=
  match ty with
  | "i" => first [cmpOp (α := Int) op args, extOp (α := Int) op args, numOp (α := Int) op args,
                  hashOp (α := Int) (fun x => ["i64:" ++ toString x]) op args]
  | "f" => first [cmpOp (α := Float) op args, extOp (α := Float) op args, numOp (α := Float) op args,
                  approxOp op args]
  | "s" => first [cmpOp (α := String) op args,
                  hashOp (α := String) (fun s =>
                    ["bytes:" ++ String.join (s.toUTF8.toList.map (fun b => hexOf b.toNat 2)), "u8:255"]) op args]
  | "u" => first [uArith op args, cmpOp (α := Nat) op args,
                  @extOp Nat natNumOps u8Extremes _ op args,
                  hashOp (α := Nat) (fun x => ["u8:" ++ toString x]) op args]
  | "b" => first [sArith op args, cmpOp (α := Int) op args]
  | "n" => if op == "pairs" then pairsOp args else cmpOp (α := Nat) op args
  | _ => none

end StatsCI.Driver
