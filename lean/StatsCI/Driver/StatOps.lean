/-
  StatsCI.Driver.StatOps — evaluates the statistics model (means, comparisons, proportions,
  quantiles) for one request line, and the property oracles on the implementation's output.
-/
import StatsCI.Driver.Tok

namespace StatsCI.Driver
open StatsCI

structure Verdict where
  /-- model output -/
  model : List Tok
  /-- property-oracle complaints about the implementation's own output -/
  prop : List String := []
  /-- oracle evaluations skipped because the input is outside the property's domain -/
  skipped : Nat := 0
  /-- measurements reported for the evidence (not verdicts) -/
  info : List String := []

/-- an evaluation that may first need critical values from the external quantile routine -/
structure OpEval where
  needs : List (CritReq Float) := []
  run : Crit Float → List (List String) → Verdict

def kindOfConf {W : Type} : Confidence W → String
  | .twoSided _ => "I2"
  | .upper _ => "IU"
  | .lower _ => "IL"

def absF (x : Float) : Float := x.abs
def fmax (a b : Float) : Float := if a < b then b else a

/-- tolerance for the bounds of a mean-type interval computed from `mean`, `c`, `sem` in type `F` -/
def boundTol {F : Type} [FloatLike F] (mean c sem : Float) : Float :=
  8.0 * FloatLike.u F * (absF mean + absF (c * sem)) + Float.scaleB 1.0 (-1060)

def relTok {F : Type} [FloatLike F] (x : F) : Tok :=
  FloatLike.tok x (8.0 * FloatLike.u F * absF (FloatLike.toF64 x))

/-- statistics tokens `count mean var sd sem` (on the empty state `count - 1` underflows) -/
def statsToks {F : Type} [FloatLike F] (a : Arith F) : List Tok :=
  if a.count = 0 then
    [.s "0", relTok a.mean, .s "panic", .s "overflow", .s "panic", .s "overflow", .s "panic", .s "overflow"]
  else
    [.s (toString a.count), relTok a.mean, relTok a.variance, relTok a.stdDev, relTok a.sem]

/-- C01 oracle: the interval is x̄ ∓ c·s/√n of the exact statistics, within rounding error
    commensurate with the float type and the conditioning of the data -/
def oracleMeanCI {F : Type} [FloatLike F] (conf : Confidence Float) (xs : List Float) (c : Float)
    (impl : List (List String)) : List String × Nat :=
  match exactStats xs with
  | none => ([], 1)
  | some e =>
    if e.n < 2 || c.isNaN then ([], 1) else
    let mean := e.mean
    let sd := e.variance.sqrt
    let nn := Float.ofNat e.n
    let hw := c * sd / nn.sqrt
    let lo := mean - hw
    let hi := mean + hw
    -- the one-pass variance (Σx² − x̄Σx)/(n−1) carries an absolute error of a few u·Σx²/(n−1)
    -- (its conditioning); the standard deviation inherits min(ε/s, √ε)
    -- constants from the theorems C01R.stdDev_error / interval_error (49 u Y for the deviation,
    -- 15 u mean|x| + 7 u halfwidth for the rest), rounded up
    let epsV := 50.0 * FloatLike.u F * e.sumSqF / (nn - 1.0)
    let sdTol := if sd > 0.0 && epsV / sd < epsV.sqrt then epsV / sd else epsV.sqrt
    let tol := 16.0 * FloatLike.u F * (e.meanAbs + absF hw) + absF c * sdTol / nn.sqrt + Float.scaleB 1.0 (-1060)
    let complaints := impl.foldl (fun (acc : List String × Nat) (g : List String) =>
      let (cs, idx) := acc
      let bad (msg : String) := (cs ++ [s!"style{idx}:{msg}"], idx + 1)
      match pImplInterval (F := F) g with
      | none => bad s!"not-ok({" ".intercalate (g.take 2)})"
      | some i =>
        match conf, i with
        | .twoSided _, .twoSided a b =>
            if absF (FloatLike.toF64 a - lo) ≤ tol && absF (FloatLike.toF64 b - hi) ≤ tol then (cs, idx + 1)
            else bad s!"bounds-off(expected {encF64 lo} {encF64 hi} tol {tol})"
        | .upper _, .upper a =>
            if absF (FloatLike.toF64 a - lo) ≤ tol then (cs, idx + 1)
            else bad s!"bound-off(expected {encF64 lo} tol {tol})"
        | .lower _, .lower b =>
            if absF (FloatLike.toF64 b - hi) ≤ tol then (cs, idx + 1)
            else bad s!"bound-off(expected {encF64 hi} tol {tol})"
        | _, _ => bad "wrong-kind") ([], 1)
    (complaints.1, 0)

/-- `arith F conf n xs… => ci ×5 | stats` -/
def arithOp {F : Type} [FloatLike F] [Widen F Float] (args : List String) : Option OpEval := do
  let (conf, r) ← pConf args
  let (xs, _) ← pList (α := F) r
  let a := Arith.fromList xs
  let prep : Outcome (Err Float) (Arith.Prep Float) := a.ciPrep
  let needs := match prep with
    | .ok p => [critReq conf p.dof]
    | _ => []
  pure {
    needs := needs
    run := fun crit impl =>
      let out : Outcome (Err Float) (Interval F) := Arith.ci crit conf xs
      let tol := match prep with
        | .ok p => boundTol (F := F) p.mean (crit (critReq conf p.dof)) p.sem
        | _ => 0.0
      let o := tokOutcome (tokInterval tol) out
      -- two partial states (the first third and the rest) merged with `+`
      let merged : Arith F := (Arith.fromList (xs.take (xs.length / 3))).merge (Arith.fromList (xs.drop (xs.length / 3)))
      let oMerged := tokOutcome (tokInterval tol) (merged.ciMean (W := Float) crit conf)
      let model := joinBar [o, o, o, o, o, o, oMerged, o, oMerged, statsToks a]
      let c := match needs with
        | r :: _ => crit r
        | [] => 0.0 / 0.0
      let (cs, sk) := oracleMeanCI (F := F) conf (xs.map FloatLike.toF64) c (impl.take 9)
      { model := model, prop := cs, skipped := sk } }

/-! ### geometric / harmonic -/

def u64 : Float := Float.scaleB 1.0 (-53)

/-- `count mean sem` of a wrapper state (`sem` underflows `count - 1` on the empty state) -/
def wstats {F : Type} [FloatLike F] (count : Nat) (mean sem : F) : List Tok :=
  [.s (toString count), relTok mean] ++ (if count = 0 then [.s "panic", .s "overflow"] else [relTok sem])

def approxRel (a b rel : Float) : Bool :=
  if a.isNaN || b.isNaN then a.isNaN && b.isNaN
  else if a == b then true
  else if !a.isFinite || !b.isFinite then false
  else decide (absF (a - b) ≤ rel * fmax (absF a) (absF b))

/-- a NaN among the float tokens of an output group -/
def groupHasNaN (g : List String) : Bool :=
  g.any fun t => match parseF64? t with
    | some x => x.isNaN
    | none => match parseF32? t with
      | some x => x.toFloat.isNaN
      | none => false

/-- valid (finite, positive) data: the reported count / mean / standard error are numbers -/
def statsAreNumbers (valid : Bool) (impl : List (List String)) : List String :=
  if !valid then [] else
  match impl with
  | _ :: _ :: _ :: st :: _ =>
    (if st.head? == some "ok" && groupHasNaN st then ["reported-statistics-contain-NaN"] else []) ++
    -- strictly positive data (subnormals included) are never rejected as non-positive, by any call style
    (if impl.any (fun g => g.take 2 == ["err", "NonPositiveValue"]) then ["positive-data-rejected-as-NonPositiveValue"] else [])
  | _ => []

/-- compare two intervals of the implementation bound-wise through `f` with a relative tolerance -/
def relateIntervals {F : Type} [FloatLike F] (what : String) (rel : Float)
    (expect : Interval F → Option (Interval Float)) (src dst : List String) : List String :=
  match pImplInterval (F := F) src, pImplInterval (F := F) dst with
  | some a, some d =>
    match expect a with
    | none => []
    | some e =>
      let d' := d.map FloatLike.toF64
      let ok := match e, d' with
        | .twoSided x y, .twoSided u v => approxRel x u rel && approxRel y v rel
        | .upper x, .upper u => approxRel x u rel
        | .lower y, .lower v => approxRel y v rel
        | _, _ => false
      if ok then [] else [s!"{what}:mismatch(expected {" ".intercalate (encInterval e)})"]
  | _, _ => []

/-- `geo F conf xs => ci | from_iter+ci_mean | incremental | ok count mean sem | Arithmetic::ci(conf, ln xs) | arith mean` -/
def geoOp {F : Type} [FloatLike F] [Widen F Float] (args : List String) : Option OpEval := do
  let (conf, r) ← pConf args
  let (xs, _) ← pList (α := F) r
  let st : Outcome (Err Float) (Geometric F) := Geometric.fromList xs
  let logs := xs.map Scalar.ln
  let prep : Outcome (Err Float) (Arith.Prep Float) := match st with
    | .ok g => g.logs.ciPrep
    | .err e => .err e
    | .panic t => .panic t
  let auxPrep : Outcome (Err Float) (Arith.Prep Float) := (Arith.fromList logs).ciPrep
  let needs := (match prep with
    | .ok p => [critReq conf p.dof]
    | _ => []) ++ (match auxPrep with
    | .ok p => [critReq conf p.dof]
    | _ => [])
  pure {
    needs := needs
    run := fun crit impl =>
      let out : Outcome (Err Float) (Interval F) := Geometric.ci crit conf xs
      let (tolA, expScale) := match prep with
        | .ok p =>
          let c := crit (critReq conf p.dof)
          (boundTol (F := F) p.mean c p.sem, (absF p.mean + absF (c * p.sem)))
        | _ => (0.0, 0.0)
      -- d exp(b) = exp(b)·db : relative tolerance on the back-transformed bounds
      let relG := tolA + 16.0 * FloatLike.u F
      let tokG (i : Interval F) : List Tok :=
        let t (x : F) := FloatLike.tok x (relG * absF (FloatLike.toF64 x) + Float.scaleB 1.0 (-1060))
        match i with
        | .twoSided a b => [.s "I2", t a, t b]
        | .upper a => [.s "IU", t a]
        | .lower b => [.s "IL", t b]
      let _ := expScale
      let o := tokOutcome tokG out
      let stT : List Tok := match st with
        | .ok g => .s "ok" :: wstats g.sampleCount g.mean g.sem
        | .err e => tokErr e
        | .panic t => [.s "panic", .s t]
      let a : Outcome (Err Float) (Interval F) := Arith.ci crit conf logs
      let tolAux := match auxPrep with
        | .ok p => boundTol (F := F) p.mean (crit (critReq conf p.dof)) p.sem
        | _ => 0.0
      let aT := tokOutcome (tokInterval (fmax tolA tolAux)) a
      let am := relTok (Arith.fromList xs).mean
      -- oracle (on the implementation's own outputs): geometric CI = exp(arithmetic CI of the logs)
      let cs := match impl with
        | g1 :: _ :: _ :: _ :: ar :: _ =>
          relateIntervals (F := F) "geo=exp(arith(ln))" (32.0 * FloatLike.u F)
            (fun i => some ((i.map FloatLike.toF64).map (fun b => FloatLike.toF64 (Scalar.exp (Widen.down b : F))))) ar g1
        | _ => []
      let validData := xs.all fun x => let xv := FloatLike.toF64 x; xv.isFinite && xv > 0.0
      { model := joinBar [o, o, o, stT, aT, [am]], prop := cs ++ statsAreNumbers validData impl } }

/-- `harm F conf xs => ci | from_iter+ci_mean | incremental | ok count mean sem | Arithmetic::ci(conf.flipped, 1/xs) | arith mean` -/
def harmOp {F : Type} [FloatLike F] [Widen F Float] (args : List String) : Option OpEval := do
  let (conf, r) ← pConf args
  let (xs, _) ← pList (α := F) r
  let st : Outcome (Err Float) (Harmonic F) := Harmonic.fromList xs
  let recips := xs.map (fun x => NumOps.div (NumOps.one : F) x)
  let prep : Outcome (Err Float) (Arith.Prep Float) := match st with
    | .ok h => h.recip.ciPrep
    | .err e => .err e
    | .panic t => .panic t
  let auxPrep : Outcome (Err Float) (Arith.Prep Float) := (Arith.fromList recips).ciPrep
  let needs := (match prep with
    | .ok p => [critReq conf.flipped p.dof]
    | _ => []) ++ (match auxPrep with
    | .ok p => [critReq conf.flipped p.dof]
    | _ => [])
  pure {
    needs := needs
    run := fun crit impl =>
      let out : Outcome (Err Float) (Interval F) := Harmonic.ci crit conf xs
      let (tolA, lowMag) := match prep with
        | .ok p =>
          let c := crit (critReq conf.flipped p.dof)
          (boundTol (F := F) p.mean c p.sem, absF p.mean)
        | _ => (0.0, 1.0)
      let _ := lowMag
      -- d(1/b) = db / b² : relative tolerance tolA / |b| on 1/b
      let tokH (i : Interval F) : List Tok :=
        let t (x : F) :=
          let xv := absF (FloatLike.toF64 x)
          FloatLike.tok x (tolA * xv * xv + 16.0 * FloatLike.u F * xv + Float.scaleB 1.0 (-1060))
        match i with
        | .twoSided a b => [.s "I2", t a, t b]
        | .upper a => [.s "IU", t a]
        | .lower b => [.s "IL", t b]
      let o := tokOutcome tokH out
      let stT : List Tok := match st with
        | .ok h => .s "ok" :: wstats h.sampleCount h.mean h.sem
        | .err e => tokErr e
        | .panic t => [.s "panic", .s t]
      let a : Outcome (Err Float) (Interval F) := Arith.ci crit conf.flipped recips
      let tolAux := match auxPrep with
        | .ok p => boundTol (F := F) p.mean (crit (critReq conf.flipped p.dof)) p.sem
        | _ => 0.0
      let aT := tokOutcome (tokInterval (fmax tolA tolAux)) a
      let am := relTok (Arith.fromList xs).mean
      -- oracle: harmonic CI = reciprocal of the arithmetic CI of the reciprocals, ends exchanged
      let inv (b : Float) : Float := FloatLike.toF64 (NumOps.div (NumOps.one : F) (Widen.down b : F))
      let cs := match impl with
        | h1 :: _ :: _ :: _ :: ar :: _ =>
          relateIntervals (F := F) "harm=1/arith(1/x)" (32.0 * FloatLike.u F)
            (fun i =>
              -- bound by bound: a strictly positive reciprocal-space bound is inverted, any other gives +inf
              let rb (r : Float) : Float := if r > 0.0 then inv r else if r.isNaN then r else 1.0 / 0.0
              match i.map FloatLike.toF64 with
              | .twoSided lo hi => some (.twoSided (rb hi) (rb lo))
              | .lower hi => some (.upper (rb hi))
              | .upper lo => some (.lower (rb lo))) ar h1
        | _ => []
      let validData := xs.all fun x => let xv := FloatLike.toF64 x; xv.isFinite && xv > 0.0
      { model := joinBar [o, o, o, stT, aT, [am]], prop := cs ++ statsAreNumbers validData impl } }

/-- `means F xs => arithmetic geometric harmonic` with the oracle `H ≤ G ≤ A` -/
def meansOp {F : Type} [FloatLike F] [Widen F Float] (args : List String) : Option OpEval := do
  let (xs, _) ← pList (α := F) args
  pure {
    run := fun _ impl =>
      let am := (Arith.fromList xs).mean
      let g : Outcome (Err Float) (Geometric F) := Geometric.fromList xs
      let h : Outcome (Err Float) (Harmonic F) := Harmonic.fromList xs
      let gT := match g with
        | .ok g => [relTok g.mean]
        | _ => [.s "err"]
      let hT := match h with
        | .ok h => [relTok h.mean]
        | _ => [.s "err"]
      let cs := match impl with
        | [a, gm, hm] :: _ =>
          match parseFAny a, parseFAny gm, parseFAny hm with
          | some a, some gm, some hm =>
            let slack := 64.0 * FloatLike.u F * (1.0 + (Float.ofNat xs.length).log)
            (if hm ≤ gm * (1.0 + slack) then [] else ["H>G"]) ++
            (if gm ≤ a * (1.0 + slack) then [] else ["G>A"])
          | _, _, _ => []
        | _ => []
      { model := [relTok am] ++ gT ++ hT, prop := cs } }
where
  parseFAny (t : String) : Option Float :=
    match parseF64? t with
    | some x => some x
    | none => (parseF32? t).map Float32.toFloat

/-- `reject F which conf pos xs => first_err | before | after | ci_mean(state) | one-shot ci` -/
def rejectOp {F : Type} [FloatLike F] [Widen F Float] (args : List String) : Option OpEval := do
  let (which, r) ← pTok args
  let (conf, r) ← pConf r
  let (pos, r) ← pNat r
  let (xs, _) ← pList (α := F) r
  let geo := which == "geo"
  -- state left behind and first error
  let (errT, count, mean, sem, prep) :=
    if geo then
      let (o, g) := Geometric.extend (W := Float) (Geometric.empty : Geometric F) xs
      let e : List Tok := match o with
        | .err e => tokErr e
        | _ => [.s "none"]
      (e, g.sampleCount, g.mean, g.sem, (g.logs.ciPrep : Outcome (Err Float) (Arith.Prep Float)))
    else
      let (o, h) := Harmonic.extend (W := Float) (Harmonic.empty : Harmonic F) xs
      let e : List Tok := match o with
        | .err e => tokErr e
        | _ => [.s "none"]
      (e, h.sampleCount, h.mean, h.sem, (h.recip.ciPrep : Outcome (Err Float) (Arith.Prep Float)))
  let conf' := if geo then conf else conf.flipped
  let needs := match prep with
    | .ok p => [critReq conf' p.dof]
    | _ => []
  pure {
    needs := needs
    run := fun crit impl =>
      let stT := wstats count mean sem
      let ciState : Outcome (Err Float) (Interval F) :=
        if geo then
          (Geometric.extend (W := Float) (Geometric.empty : Geometric F) xs).2.ciMean crit conf
        else
          (Harmonic.extend (W := Float) (Harmonic.empty : Harmonic F) xs).2.ciMean crit conf
      let one : Outcome (Err Float) (Interval F) :=
        if geo then Geometric.ci crit conf xs else Harmonic.ci crit conf xs
      let big : Float := 1.0 / 0.0
      let loose (i : Interval F) : List Tok := tokInterval (F := F) big i
      let ciT := tokOutcome (match prep with
        | .ok p => fun i =>
            let _ := p
            -- the accuracy of these bounds is C05's business on the accepted prefix; here the
            -- outcome class and kind are what matters
            loose i
        | _ => loose) ciState
      -- oracle: the error carries the rejected value, the state is untouched, the one-shot agrees
      let bad := xs[pos]?
      let cs := match impl, bad with
        | [e, before, after, _, oneI, extE, extAfter], some b =>
          let want := ["err", "NonPositiveValue", encF64 (FloatLike.toF64 b)]
          (if (toksEq 0 want e).1 then [] else [s!"error-does-not-carry-value({" ".intercalate e})"]) ++
          (if before == after then [] else ["state-changed-by-rejected-append"]) ++
          (if (toksEq 0 want oneI).1 then [] else ["one-shot-disagrees"]) ++
          (if (toksEq 0 want extE).1 then [] else ["extend-error-does-not-carry-value"]) ++
          (if extAfter == before then [] else ["extend-went-on-after-the-rejected-value"])
        | _, _ => ["malformed-reject-output"]
      { model := joinBar [errT, stT, stT, ciT, tokOutcome loose one, errT, stT], prop := cs } }

/-! ### paired / unpaired -/

def skipT : List Tok := [.s "skip"]

/-- `paired F conf xs ys => ci | extend+ci_mean | extend_tuple | append_pair | count mean sem | Arithmetic::ci(conf, diffs)` -/
def pairedOp {F : Type} [FloatLike F] [Widen F Float] (args : List String) : Option OpEval := do
  let (conf, r) ← pConf args
  let (xs, r) ← pList (α := F) r
  let (ys, _) ← pList (α := F) r
  let same := xs.length == ys.length
  let (st, _) := Paired.extend (W := Float) (Paired.empty : Paired F) xs ys
  let prep : Outcome (Err Float) (Arith.Prep Float) := match st with
    | .ok p => p.stats.ciPrep
    | .err e => .err e
    | .panic t => .panic t
  let needs := match prep with
    | .ok p => [critReq conf p.dof]
    | _ => []
  pure {
    needs := needs
    run := fun crit impl =>
      let out : Outcome (Err Float) (Interval F) := Paired.ci crit conf xs ys
      let tol := match prep with
        | .ok p => boundTol (F := F) p.mean (crit (critReq conf p.dof)) p.sem
        | _ => 0.0
      let o := tokOutcome (tokInterval tol) out
      let diffs := List.zipWith NumOps.sub xs ys
      let model :=
        if same then
          let o3 : Outcome (Err Float) (Interval F) :=
            ((Paired.empty : Paired F).extendTuple (xs.zip ys)).ciMean crit conf
          let o4 : Outcome (Err Float) (Interval F) :=
            ((xs.zip ys).foldl (fun p ab => p.appendPair ab.1 ab.2) (Paired.empty : Paired F)).ciMean crit conf
          let stT := match st with
            | .ok p => wstats p.sampleCount p.mean p.sem
            | _ => [.s "?"]
          let ar : Outcome (Err Float) (Interval F) := Arith.ci crit conf diffs
          joinBar [o, o, tokOutcome (tokInterval tol) o3, tokOutcome (tokInterval tol) o4, stT,
                   tokOutcome (tokInterval tol) ar, o]
        else joinBar [o, o, skipT, skipT, skipT, skipT, o]
      -- oracle: paired = arithmetic-mean interval of the differences, exactly, in every feeding
      -- style; unequal lengths are rejected with both lengths
      let cs :=
        if same then
          match impl with
          | [a, b, c, d, _, ar, sp] =>
            (if a == ar && b == ar && c == ar && d == ar then [] else ["paired≠arith(differences)"]) ++
            (if sp == a then [] else ["series-with-gaps-differ"])
          | _ => ["malformed"]
        else
          let want := ["err", "DifferentSampleSizes", toString xs.length, toString ys.length]
          match impl with
          | [a, b, _, _, _, _, sp] => if a == want && b == want && sp == want then [] else ["length-mismatch-not-reported"]
          | _ => ["malformed"]
      { model := model, prop := cs } }

def negTok (t : String) : String :=
  match parseF64? t with
  | some x => encF64 (-x)
  | none =>
    match parseF32? t with
    | some x => encF32 (-x)
    | none => t

/-- the mirror image of an interval outcome, as tokens -/
def mirrorToks : List String → List String
  | ["ok", "I2", a, b] => ["ok", "I2", negTok b, negTok a]
  | ["ok", "IU", a] => ["ok", "IL", negTok a]
  | ["ok", "IL", b] => ["ok", "IU", negTok b]
  | ts => ts

/-- exact-arithmetic oracle for the unpaired interval -/
def oracleUnpaired {F : Type} [FloatLike F] (conf : Confidence Float) (xs ys : List Float) (c dofModel : Float)
    (impl : List (List String)) : List String × Nat :=
  match exactStats xs, exactStats ys with
  | some ea, some eb =>
    if ea.n < 2 || eb.n < 2 then ([], 1) else
    let va := ea.variance; let vb := eb.variance
    -- finite data whose squares leave the range of the data type: the sums overflow, the documented outcome is
    -- InvalidInputData (never an interval)
    let maxF : Float := if FloatLike.u F > 1e-10 then 3.4028234663852886e38 else 1.7976931348623157e308
    if ea.sumSqF > maxF || eb.sumSqF > maxF then
      (if (impl.take 7).all (fun g => g.take 2 == ["err", "InvalidInputData"]) then ([], 0)
       else (["squares-overflow-but-not-InvalidInputData"], 0)) else
    -- two constant samples: zero standard error, the interval is the point [d, d] whatever the quantile
    if va == 0.0 && vb == 0.0 then
      let d := ea.mean - eb.mean
      let tol := 32.0 * FloatLike.u F * (ea.meanAbs + eb.meanAbs) + Float.scaleB 1.0 (-1060)
      let bad := (impl.take 7).any fun g =>
        match pImplInterval (F := F) g with
        | some (.twoSided a b) => !(absF (FloatLike.toF64 a - d) ≤ tol && absF (FloatLike.toF64 b - d) ≤ tol)
        | some (.upper a) => !(absF (FloatLike.toF64 a - d) ≤ tol)
        | some (.lower b) => !(absF (FloatLike.toF64 b - d) ≤ tol)
        | none => true
      (if bad then ["constant-samples:expected-the-point-interval-at-the-difference"] else [], 0) else
    if c.isNaN then ([], 1) else
    let u := FloatLike.u F
    let na := Float.ofNat ea.n; let nb := Float.ofNat eb.n
    -- the one-pass variances carry absolute errors of a few u·Σx²/(n−1) (their conditioning)
    let ea' := 16.0 * u * ea.sumSqF / (na - 1.0)
    let eb' := 16.0 * u * eb.sumSqF / (nb - 1.0)
    let A := va / na; let B := vb / nb
    let dA := ea' / na; let dB := eb' / nb
    let d := ea.mean - eb.mean
    let se := (A + B).sqrt
    let seTol := if se > 0.0 && (dA + dB) / se < (dA + dB).sqrt then (dA + dB) / se else (dA + dB).sqrt
    let hw := c * se
    -- the documented effective dof depends on the ratio of the two variance terms only: evaluated in that
    -- (scale-free) form it cannot leave the range of the floats, whatever the unit of the data
    let nu : Float :=
      if A ≥ B then (let r := B / A; (1.0 + r) * (1.0 + r) / (1.0 / (na + 1.0) + r * r / (nb + 1.0)) - 2.0)
      else (let r := A / B; (r + 1.0) * (r + 1.0) / (r * r / (na + 1.0) + 1.0 / (nb + 1.0)) - 2.0)
    -- the effective dof over the box of admissible variances: as a function of r = B/A it is
    -- g(r) = (1+r)²/(1/(na+1) + r²/(nb+1)) − 2, increasing up to r* = (nb+1)/(na+1), decreasing after
    let lo0 (x dx : Float) := if x - dx > 0.0 then x - dx else 0.0
    let g (r : Float) : Float := (1.0 + r) * (1.0 + r) / (1.0 / (na + 1.0) + r * r / (nb + 1.0)) - 2.0
    let rMin := lo0 B dB / (A + dA)
    let aLow := lo0 A dA
    let gMax := if aLow > 0.0 then g ((B + dB) / aLow) else nb - 1.0     -- r → ∞ : nb + 1 − 2
    let rStar := (nb + 1.0) / (na + 1.0)
    let inside := rMin ≤ rStar && (aLow == 0.0 || rStar ≤ (B + dB) / aLow)
    let e1 := g rMin
    let nuMin := if e1 < gMax then e1 else gMax
    let nuMax := if inside then na + nb else (if e1 > gMax then e1 else gMax)
    let tol := 32.0 * u * (ea.meanAbs + eb.meanAbs + absF hw) + absF c * seTol + Float.scaleB 1.0 (-1060)
    let lo := d - hw; let hi := d + hw
    let dofBad :=
      -- not both samples are constant here, so the documented dof is a number ≥ min(na, nb) − 1: a NaN
      -- (the fourth powers of huge or tiny spreads leaving the range) silently selects the normal quantile
      if dofModel.isNaN then
        (if nu.isNaN then [] else [s!"dof-nan(documented {nu}):magnitude-{if A + B > 1.0 then "huge" else "tiny"}"]) else
      let slack := 64.0 * u * (absF nu + 2.0) + 1e-9
      if nuMin - slack ≤ dofModel && dofModel ≤ nuMax + slack then []
      else [s!"dof-off(model {dofModel} exact {nu} admissible [{nuMin}, {nuMax}])"]
    let cs := (impl.take 7).foldl (fun (acc : List String × Nat) g =>
      let (cs, idx) := acc
      let bad (m : String) := (cs ++ [s!"style{idx}:{m}"], idx + 1)
      match pImplInterval (F := F) g with
      | none => bad s!"not-ok({" ".intercalate (g.take 2)})"
      | some i =>
        match conf, i with
        | .twoSided _, .twoSided a b =>
          if absF (FloatLike.toF64 a - lo) ≤ tol && absF (FloatLike.toF64 b - hi) ≤ tol then (cs, idx + 1)
          else bad s!"bounds-off(expected {encF64 lo} {encF64 hi} tol {tol})"
        | .upper _, .upper a =>
          if absF (FloatLike.toF64 a - lo) ≤ tol then (cs, idx + 1) else bad s!"bound-off(expected {encF64 lo})"
        | .lower _, .lower b =>
          if absF (FloatLike.toF64 b - hi) ≤ tol then (cs, idx + 1) else bad s!"bound-off(expected {encF64 hi})"
        | _, _ => bad "wrong-kind") ([], 1)
    (dofBad ++ cs.1, 0)
  | _, _ => ([], 1)

/-- `unpaired F conf xs ys => ci | from_iter | extend_b,extend_a | append_pair… | new | extend | ci(conf.flipped, ys, xs)` -/
def unpairedOp {F : Type} [FloatLike F] [Widen F Float] (args : List String) : Option OpEval := do
  let (conf, r) ← pConf args
  let (xs, r) ← pList (α := F) r
  let (ys, _) ← pList (α := F) r
  let u := Unpaired.fromLists xs ys
  let us := Unpaired.fromLists ys xs
  let prep : Outcome (Err Float) (Arith.Prep Float) := u.ciPrep
  let preps : Outcome (Err Float) (Arith.Prep Float) := us.ciPrep
  let needs := (match prep with
    | .ok p => [critReq conf p.dof]
    | _ => []) ++ (match preps with
    | .ok p => [critReq conf.flipped p.dof]
    | _ => [])
  pure {
    needs := needs
    run := fun crit impl =>
      let out : Outcome (Err Float) (Interval F) := Unpaired.ci crit conf xs ys
      let sw : Outcome (Err Float) (Interval F) := Unpaired.ci crit conf.flipped ys xs
      let tol := match prep with
        | .ok p => boundTol (F := F) p.mean (crit (critReq conf p.dof)) p.sem
        | _ => 0.0
      let o := tokOutcome (tokInterval tol) out
      let (c, dof) := match prep with
        | .ok p => (crit (critReq conf p.dof), p.dof)
        | _ => (0.0 / 0.0, 0.0 / 0.0)
      let (cs, sk) := oracleUnpaired (F := F) conf (xs.map FloatLike.toF64) (ys.map FloatLike.toF64) c dof impl
      -- exchanging the samples negates and mirrors the interval, exactly
      let csw := match impl with
        | a :: _ :: _ :: _ :: _ :: _ :: _ :: s :: [acc] =>
          (if (toksEq 0 (mirrorToks a) s).1 then [] else ["swap-does-not-mirror"]) ++
          -- fed half through the wrappers and half through the mutable accessors: the same counts and interval
          (if acc == [toString xs.length, toString ys.length] ++ a then [] else ["mutable-accessors-feed-a-different-state"])
        | _ => ["malformed"]
      let accT : List Tok := [.s (toString xs.length), .s (toString ys.length)] ++ o
      { model := joinBar [o, o, o, o, o, o, o, tokOutcome (tokInterval tol) sw, accT], prop := cs ++ csw, skipped := sk } }

/-- `paired_seq F preA preB xs ys => extend outcome | count` on a state that already holds pairs -/
def pairedSeqOp {F : Type} [FloatLike F] [Widen F Float] (args : List String) : Option OpEval := do
  let (pa, r) ← pList (α := F) args
  let (pb, r) ← pList (α := F) r
  let (xs, r) ← pList (α := F) r
  let (ys, _) ← pList (α := F) r
  let p0 := (Paired.empty : Paired F).extendTuple (pa.zip pb)
  let (o, left) := Paired.extend (W := Float) p0 xs ys
  pure {
    run := fun _ impl =>
      let oT : List Tok := match o with
        | .ok _ => [.s "ok"]
        | .err e => tokErr e
        | .panic t => [.s "panic", .s t]
      -- oracle: the error carries the lengths of the two sequences of this call
      let cs :=
        if xs.length == ys.length then [] else
        match impl with
        | e :: _ =>
          if e == ["err", "DifferentSampleSizes", toString xs.length, toString ys.length] then []
          else [s!"lengths-of-the-call-not-reported({" ".intercalate e})"]
        | _ => ["malformed"]
      { model := joinBar [oT, [.s (toString left.sampleCount)]], prop := cs } }

def statOpF {F : Type} [FloatLike F] [Widen F Float] (op : String) (args : List String) : Option OpEval :=
  match op with
  | "paired_seq" => pairedSeqOp (F := F) args
  | "arith" => arithOp (F := F) args
  | "geo" => geoOp (F := F) args
  | "harm" => harmOp (F := F) args
  | "means" => meansOp (F := F) args
  | "reject" => rejectOp (F := F) args
  | "paired" => pairedOp (F := F) args
  | "unpaired" => unpairedOp (F := F) args
  | _ => none

def statOp (op ty : String) (args : List String) : Option OpEval :=
  match ty with
  | "f" => statOpF (F := Float) op args
  | "g" => statOpF (F := Float32) op args
  | _ => none

end StatsCI.Driver
