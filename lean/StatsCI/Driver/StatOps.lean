/-
  StatsCI.Driver.StatOps — evaluates the statistics model (means, comparisons, proportions,
  quantiles) for one request line, and the property oracles on the implementation's output.
-/
import StatsCI.Driver.Tok

namespace StatsCI.Driver
open StatsCI

structure Verdict where
  /-- model output -/
  model : List Tok
  /-- property-oracle complaints about the implementation's own output -/
  prop : List String := []
  /-- oracle evaluations skipped because the input is outside the property's domain -/
  skipped : Nat := 0

/-- an evaluation that may first need critical values from the external quantile routine -/
structure OpEval where
  needs : List (CritReq Float) := []
  run : Crit Float → List (List String) → Verdict

def kindOfConf {W : Type} : Confidence W → String
  | .twoSided _ => "I2"
  | .upper _ => "IU"
  | .lower _ => "IL"

def absF (x : Float) : Float := x.abs

/-- tolerance for the bounds of a mean-type interval computed from `mean`, `c`, `sem` in type `F` -/
def boundTol {F : Type} [FloatLike F] (mean c sem : Float) : Float :=
  8.0 * FloatLike.u F * (absF mean + absF (c * sem)) + Float.scaleB 1.0 (-1060)

def relTok {F : Type} [FloatLike F] (x : F) : Tok :=
  FloatLike.tok x (8.0 * FloatLike.u F * absF (FloatLike.toF64 x))

/-- statistics tokens `count mean var sd sem` (on the empty state `count - 1` underflows) -/
def statsToks {F : Type} [FloatLike F] (a : Arith F) : List Tok :=
  if a.count = 0 then
    [.s "0", relTok a.mean, .s "panic", .s "overflow", .s "panic", .s "overflow", .s "panic", .s "overflow"]
  else
    [.s (toString a.count), relTok a.mean, relTok a.variance, relTok a.stdDev, relTok a.sem]

/-- C01 oracle: the interval is x̄ ∓ c·s/√n of the exact statistics, within rounding error
    commensurate with the float type and the conditioning of the data -/
def oracleMeanCI {F : Type} [FloatLike F] (conf : Confidence Float) (xs : List Float) (c : Float)
    (impl : List (List String)) : List String × Nat :=
  match exactStats xs with
  | none => ([], 1)
  | some e =>
    if e.n < 2 || c.isNaN then ([], 1) else
    let kappa := e.kappa
    -- the property's conditioning domain
    if !(kappa * FloatLike.u F ≤ Float.scaleB 1.0 (-10)) then ([], 1) else
    let mean := e.mean
    let sd := e.variance.sqrt
    let hw := c * sd / (Float.ofNat e.n).sqrt
    let lo := mean - hw
    let hi := mean + hw
    let tol := 16.0 * FloatLike.u F * (e.meanAbs + absF hw * (1.0 + kappa)) + Float.scaleB 1.0 (-1060)
    let complaints := impl.foldl (fun (acc : List String × Nat) (g : List String) =>
      let (cs, idx) := acc
      let bad (msg : String) := (cs ++ [s!"style{idx}:{msg}"], idx + 1)
      match pImplInterval (F := F) g with
      | none => bad s!"not-ok({" ".intercalate (g.take 2)})"
      | some i =>
        match conf, i with
        | .twoSided _, .twoSided a b =>
            if absF (FloatLike.toF64 a - lo) ≤ tol && absF (FloatLike.toF64 b - hi) ≤ tol then (cs, idx + 1)
            else bad s!"bounds-off(expected {encF64 lo} {encF64 hi} tol {tol})"
        | .upper _, .upper a =>
            if absF (FloatLike.toF64 a - lo) ≤ tol then (cs, idx + 1)
            else bad s!"bound-off(expected {encF64 lo} tol {tol})"
        | .lower _, .lower b =>
            if absF (FloatLike.toF64 b - hi) ≤ tol then (cs, idx + 1)
            else bad s!"bound-off(expected {encF64 hi} tol {tol})"
        | _, _ => bad "wrong-kind") ([], 1)
    (complaints.1, 0)

/-- `arith F conf n xs… => ci ×5 | stats` -/
def arithOp {F : Type} [FloatLike F] [Widen F Float] (args : List String) : Option OpEval := do
  let (conf, r) ← pConf args
  let (xs, _) ← pList (α := F) r
  let a := Arith.fromList xs
  let prep : Outcome (Err Float) (Arith.Prep Float) := a.ciPrep
  let needs := match prep with
    | .ok p => [critReq conf p.dof]
    | _ => []
  pure {
    needs := needs
    run := fun crit impl =>
      let out : Outcome (Err Float) (Interval F) := Arith.ci crit conf xs
      let tol := match prep with
        | .ok p => boundTol (F := F) p.mean (crit (critReq conf p.dof)) p.sem
        | _ => 0.0
      let o := tokOutcome (tokInterval tol) out
      let model := joinBar [o, o, o, o, o, statsToks a]
      let c := match needs with
        | r :: _ => crit r
        | [] => 0.0 / 0.0
      let (cs, sk) := oracleMeanCI (F := F) conf (xs.map FloatLike.toF64) c (impl.take 5)
      { model := model, prop := cs, skipped := sk } }

def statOp (op ty : String) (args : List String) : Option OpEval :=
  match op, ty with
  | "arith", "f" => arithOp (F := Float) args
  | "arith", "g" => arithOp (F := Float32) args
  | _, _ => none

end StatsCI.Driver
