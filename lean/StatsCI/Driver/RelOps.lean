/-
  StatsCI.Driver.RelOps — metamorphic relations (C16 equivariance, C10 coherence): both intervals
  are evaluated on the model (correspondence) and the relation is checked on the implementation's
  own outputs (oracle).
-/
import StatsCI.Driver.ProgOps

namespace StatsCI.Driver
open StatsCI

/-- one producer applied to one data set -/
structure ProdEval where
  needs : List (CritReq Float)
  /-- outcome tokens (with correspondence tolerances) -/
  eval : Crit Float → List Tok
  /-- inner observation lists as f64 (for conditioning-aware tolerances) -/
  inner : List (List Float)
  /-- half-width of the model's interval in the space the statistics live in -/
  halfWidth : Crit Float → Float
  /-- the point estimate of the model -/
  est : List Tok
  /-- the critical value the model uses (NaN if none) -/
  critVal : Crit Float → Float := fun _ => 0.0 / 0.0

def meanProd {F : Type} [FloatLike F] [Widen F Float] (prep : Outcome (Err Float) (Arith.Prep Float))
    (reqConf : Confidence Float) (inner : List (List Float)) (est : List Tok)
    (run : Crit Float → Outcome (Err Float) (Interval F)) (tokI : Float → Interval F → List Tok) : ProdEval :=
  let needs := match prep with
    | .ok p => [critReq reqConf p.dof]
    | _ => []
  { needs := needs
    eval := fun crit =>
      let tol := match prep with
        | .ok p => boundTol (F := F) p.mean (crit (critReq reqConf p.dof)) p.sem
        | _ => 0.0
      tokOutcome (tokI tol) (run crit)
    inner := inner
    halfWidth := fun crit => match prep with
      | .ok p => (crit (critReq reqConf p.dof) * p.sem).abs
      | _ => 0.0
    est := est
    critVal := fun crit => match prep with
      | .ok p => crit (critReq reqConf p.dof)
      | _ => 0.0 / 0.0 }

def parseProd {F : Type} [FloatLike F] [Widen F Float] (prod : String) (conf : Confidence Float)
    (toks : List String) : Option (ProdEval × List String) :=
  let v (x : F) : Float := FloatLike.toF64 x
  match prod with
  | "arith" => do
      let (xs, r) ← pList (α := F) toks
      let a := Arith.fromList xs
      pure (meanProd (F := F) a.ciPrep conf [xs.map v] [relTok a.mean]
        (fun crit => Arith.ci crit conf xs) (fun tol => tokInterval tol), r)
  | "geo" => do
      let (xs, r) ← pList (α := F) toks
      let st : Outcome (Err Float) (Geometric F) := Geometric.fromList xs
      let prep : Outcome (Err Float) (Arith.Prep Float) := match st with
        | .ok g => g.logs.ciPrep
        | .err e => .err e
        | .panic t => .panic t
      let est : List Tok := match st with
        | .ok g => [relTok g.mean]
        | _ => [.s "err"]
      pure (meanProd (F := F) prep conf [xs.map fun x => v (Scalar.ln x)] est
        (fun crit => Geometric.ci crit conf xs)
        (fun tol i => looseInterval (F := F) (tol + 32.0 * FloatLike.u F) i), r)
  | "harm" => do
      let (xs, r) ← pList (α := F) toks
      let st : Outcome (Err Float) (Harmonic F) := Harmonic.fromList xs
      let prep : Outcome (Err Float) (Arith.Prep Float) := match st with
        | .ok h => h.recip.ciPrep
        | .err e => .err e
        | .panic t => .panic t
      let est : List Tok := match st with
        | .ok h => [relTok h.mean]
        | _ => [.s "err"]
      pure (meanProd (F := F) prep conf.flipped [xs.map fun x => v (NumOps.div (NumOps.one : F) x)] est
        (fun crit => Harmonic.ci crit conf xs)
        (fun tol i =>
          let t (x : F) := let xv := (v x).abs; FloatLike.tok x (tol * xv * xv + 32.0 * FloatLike.u F * xv + Float.scaleB 1.0 (-1060))
          match i with
          | .twoSided a b => [.s "I2", t a, t b]
          | .upper a => [.s "IU", t a]
          | .lower b => [.s "IL", t b]), r)
  | "paired" => do
      let (xs, r) ← pList (α := F) toks
      let (ys, r) ← pList (α := F) r
      let (st, _) := Paired.extend (W := Float) (Paired.empty : Paired F) xs ys
      let prep : Outcome (Err Float) (Arith.Prep Float) := match st with
        | .ok p => p.stats.ciPrep
        | .err e => .err e
        | .panic t => .panic t
      let est : List Tok := match st with
        | .ok p => [relTok p.mean]
        | _ => [.s "err"]
      pure (meanProd (F := F) prep conf [(List.zipWith NumOps.sub xs ys).map v] est
        (fun crit => Paired.ci crit conf xs ys) (fun tol => tokInterval tol), r)
  | "unpaired" => do
      let (xs, r) ← pList (α := F) toks
      let (ys, r) ← pList (α := F) r
      let u := Unpaired.fromLists xs ys
      pure (meanProd (F := F) u.ciPrep conf [xs.map v, ys.map v] [relTok (NumOps.sub u.a.mean u.b.mean)]
        (fun crit => Unpaired.ci crit conf xs ys) (fun tol => tokInterval tol), r)
  | "wilson" | "wald" => do
      let (n, r) ← pNat toks
      let (k, r) ← pNat r
      pure ({ needs := zNeed conf
              eval := fun crit => tokOutcome tokUnitInterval
                (if prod == "wilson" then Proportion.ci crit conf n k else Proportion.ciZNormal crit conf n k)
              inner := []
              halfWidth := fun _ => 1.0
              est := [.f (Float.ofNat k / Float.ofNat n) 0.0] }, r)
  | "qci" => do
      let (xs, r) ← pList (α := F) toks
      pure ({ needs := zNeed conf
              eval := fun crit => tokOutcome (tokInterval 0.0) (Quantile.ci crit conf xs 0.5)
              inner := []
              halfWidth := fun _ => 1.0
              est := [.s (toString (0.5 * Float.ofNat xs.length).round.toUSize.toNat)] }, r)
  | "qidx" => do
      let (n, r) ← pNat toks
      let (q, r) ← pF64 r
      pure ({ needs := zNeed conf
              eval := fun crit => tokOutcome tokNatInterval (Quantile.ciIndices crit conf n q)
              inner := []
              halfWidth := fun _ => 1.0
              est := [.s (toString (q * Float.ofNat n).round.toUSize.toNat)] }, r)
  | _ => none

/-- a numeric view of an implementation outcome: kind and finite bounds as f64 -/
def numInterval (g : List String) : Option (String × Option Float × Option Float) :=
  let val (t : String) : Option Float :=
    match parseF64? t with
    | some x => some x
    | none => match parseF32? t with
      | some x => some x.toFloat
      | none => (parseNat? t).map Float.ofNat
  match g with
  | ["ok", "I2", a, b] => do let a ← val a; let b ← val b; pure ("I2", some a, some b)
  | ["ok", "IU", a] => do let a ← val a; pure ("IU", some a, none)
  | ["ok", "IL", b] => do let b ← val b; pure ("IL", none, some b)
  | _ => none

def condOf {F : Type} [FloatLike F] (inner : List (List Float)) : Float × Float :=
  -- (Σ over samples of mean|x|, max κ); a constant sample contributes κ = 0
  inner.foldl (fun (acc : Float × Float) ys =>
    match exactStats ys with
    | some e => (acc.1 + e.meanAbs, fmax acc.2 (if e.n < 2 || e.varNum == 0 then 0.0 else e.kappa))
    | none => (1.0 / 0.0, acc.2)) (0.0, 0.0)

/-- rounding allowance for the standard-deviation part of a half-width: the one-pass variance has an
    absolute error of a few u·Σy²/(n−1), the standard deviation inherits min(ε/s, √ε); summed over
    the samples as Σ sdTol_i/√n_i -/
def sdAllow {F : Type} [FloatLike F] (inner : List (List Float)) : Float :=
  inner.foldl (fun acc ys =>
    match exactStats ys with
    | some e =>
      if e.n < 2 then acc else
      let nn := Float.ofNat e.n
      let epsV := 16.0 * FloatLike.u F * e.sumSqF / (nn - 1.0)
      let sd := e.variance.sqrt
      let t := if sd > 0.0 && epsV / sd < epsV.sqrt then epsV / sd else epsV.sqrt
      acc + t / nn.sqrt
    | none => 1.0 / 0.0) 0.0

/-- multiply an encoded float by 2^e in its own type -/
def scaleTok (e : Int) (t : String) : String :=
  match parseF64? t with
  | some x => encF64 (Float.scaleB x e)
  | none => match parseF32? t with
    | some x => encF32 (x * (Float.scaleB 1.0 e).toFloat32)
    | none => t

def mapBounds (f : String → String) : List String → List String
  | ["ok", "I2", a, b] => ["ok", "I2", f a, f b]
  | ["ok", "IU", a] => ["ok", "IU", f a]
  | ["ok", "IL", b] => ["ok", "IL", f b]
  | ts => ts

def boundsClose (tol : Float) (shift : Float) (a b : List String) : Bool :=
  match numInterval a, numInterval b with
  | some (k1, l1, h1), some (k2, l2, h2) =>
    k1 == k2 &&
    (match l1, l2 with
     | some x, some y => (y - (x + shift)).abs ≤ tol
     | none, none => true
     | _, _ => false) &&
    (match h1, h2 with
     | some x, some y => (y - (x + shift)).abs ≤ tol
     | none, none => true
     | _, _ => false)
  | none, none => a.take 2 == b.take 2
  | _, _ => false

/-- `xf F prod xform param conf1 data1 conf2 data2 => ci1 | ci2` -/
def xfOp {F : Type} [FloatLike F] [Widen F Float] (args : List String) : Option OpEval := do
  let (prod, r) ← pTok args
  let (xform, r) ← pTok r
  let (param, r) ← pTok r
  let (c1, r) ← pConf r
  let (p1, r) ← parseProd (F := F) prod c1 r
  let (c2, r) ← pConf r
  let (p2, _) ← parseProd (F := F) prod c2 r
  pure {
    needs := p1.needs ++ p2.needs
    run := fun crit impl =>
      let model := joinBar [p1.eval crit, p2.eval crit]
      let u := FloatLike.u F
      -- the relations are claimed away from overflow and underflow only
      let tiny : Float := if FloatLike.tag F == "g" then Float.scaleB 1.0 (-118) else Float.scaleB 1.0 (-1000)
      let outOfRange (g : List String) : Bool :=
        match numInterval g with
        | some (_, lo, hi) =>
          [lo, hi].any fun
            | some x => !x.isFinite || (x != 0.0 && x.abs < tiny)
            | none => false
        | none => false
      let cs := match impl with
        | [a, b] =>
          if outOfRange a || outOfRange b then [] else
          match xform with
          | "scale" =>
            (match param.toInt? with
             | some e =>
               if prod == "geo" then
                 -- scaled up to rounding: compare in relative terms
                 let (m1, k1) := condOf (F := F) p1.inner
                 let (m2, k2) := condOf (F := F) p2.inner
                 let rel := 64.0 * u * (1.0 + m1 + m2 + (p1.halfWidth crit + p2.halfWidth crit) * (1.0 + k1 + k2))
                 let sc := Float.scaleB 1.0 e
                 (match numInterval a, numInterval b with
                  | some (ka, la, ha), some (kb, lb, hb) =>
                    let ok1 := match la, lb with
                      | some x, some y => (y - x * sc).abs ≤ rel * y.abs
                      | none, none => true
                      | _, _ => false
                    let ok2 := match ha, hb with
                      | some x, some y => (y - x * sc).abs ≤ rel * y.abs
                      | none, none => true
                      | _, _ => false
                    if ka == kb && ok1 && ok2 then [] else ["geometric-interval-not-scaled"]
                  | none, none => []
                  | _, _ => ["one-side-not-ok"])
               else
                 if (toksEq 0 (mapBounds (scaleTok e) a) b).1 then [] else ["bounds-not-scaled-exactly-by-2^e"]
             | none => ["bad-exponent"])
          | "neg" => if (toksEq 0 (mirrorToks a) b).1 then [] else ["negated-data-does-not-mirror-exactly"]
          | "shift" =>
            (match (Codec.dec param : Option F) with
             | some d =>
               let (m1, _) := condOf (F := F) p1.inner
               let (m2, _) := condOf (F := F) p2.inner
               let hw := fmax (p1.halfWidth crit) (p2.halfWidth crit)
               let c1 := p1.critVal crit
               let cAbs := if c1.isNaN then 0.0 else c1.abs
               let tol := 32.0 * u * (m1 + m2 + hw) + cAbs * (sdAllow (F := F) p1.inner + sdAllow (F := F) p2.inner) +
                 Float.scaleB 1.0 (-1060)
               if boundsClose tol (FloatLike.toF64 d) a b then [] else [s!"shifted-bounds-off(tol {tol})"]
             | none => ["bad-shift"])
          | "perm" =>
            let (m1, _) := condOf (F := F) p1.inner
            let hw := fmax (p1.halfWidth crit) (p2.halfWidth crit)
            -- the external quantile is only as smooth as its own accuracy: a dof that moved by a
            -- rounding error may move the critical value by more than a rounding error
            let c1 := p1.critVal crit; let c2 := p2.critVal crit
            let jitter := if c1.isNaN || c2.isNaN || c1 == 0.0 then 0.0 else (c1 - c2).abs / c1.abs * hw
            let cAbs := if c1.isNaN then 0.0 else c1.abs
            let tol := 32.0 * u * (m1 + hw) + 2.0 * cAbs * sdAllow (F := F) p1.inner + 2.0 * jitter + Float.scaleB 1.0 (-1060)
            if boundsClose tol 0.0 a b then [] else [s!"reordered-bounds-off(tol {tol})"]
          | _ => []
        | _ => ["malformed"]
      { model := model, prop := cs } }

def levelOf (c : Confidence Float) : Float := c.level

/-- `ci2 F prod confA confB data => ciA | ciB | estimate` -/
def ci2Op {F : Type} [FloatLike F] [Widen F Float] (args : List String) : Option OpEval := do
  let (prod, r) ← pTok args
  let (ca, r) ← pConf r
  let (cb, r) ← pConf r
  let (pa, _) ← parseProd (F := F) prod ca r
  let (pb, _) ← parseProd (F := F) prod cb r
  pure {
    needs := pa.needs ++ pb.needs
    run := fun crit impl =>
      let model := joinBar [pa.eval crit, pb.eval crit, pa.est]
      let u := FloatLike.u F
      let isProp := prod == "wilson" || prod == "wald"
      let isRank := prod == "qidx" || prod == "qci"
      let cs := match impl with
        | [a, b, e] =>
          let estV : Option Float := match e with
            | [t] => (numInterval ["ok", "IU", t]).bind (·.2.1)
            | _ => none
          match numInterval a, numInterval b with
          | some (ka, la, ha), some (kb, lb, hb) =>
            -- rounding allowance in the space the statistics live in (logs for geometric,
            -- reciprocals for harmonic), carried to a bound b by the derivative of the back-transform
            let (m1, _) := condOf (F := F) pa.inner
            let hwI := fmax (pa.halfWidth crit) (pb.halfWidth crit)
            let mags := [la, ha, lb, hb, estV].filterMap id |>.map Float.abs
            let scale := mags.foldl fmax 0.0
            let inner := if pa.inner.isEmpty then scale else m1 + hwI
            let amp (b : Float) : Float :=
              if prod == "geo" then b.abs else if prod == "harm" then b * b else 1.0
            let slackAt (b : Float) : Float :=
              if isRank then 0.0 else amp b * (64.0 * u * inner) + 16.0 * u * b.abs + Float.scaleB 1.0 (-1060)
            let slack := slackAt scale
            -- kind of the result matches the kind of the confidence
            let kindOk (c : Confidence Float) (k : String) (lo hi : Option Float) : List String :=
              if isProp then
                (match c, k, lo, hi with
                 | .twoSided _, "I2", _, _ => []
                 | .upper _, "I2", _, some h => if h == 1.0 then [] else ["upper-far-end≠1"]
                 | .lower _, "I2", some l, _ => if l == 0.0 then [] else ["lower-far-end≠0"]
                 | _, _, _, _ => ["wrong-kind"])
              else if k == kindOfConf c then [] else ["wrong-kind"]
            -- the relevant finite bounds of a proportion interval
            let fin (c : Confidence Float) (lo hi : Option Float) : Option Float × Option Float :=
              if isProp then (match c with
                | .twoSided _ => (lo, hi)
                | .upper _ => (lo, none)
                | .lower _ => (none, hi))
              else (lo, hi)
            let (fla, fha) := fin ca la ha
            let (flb, fhb) := fin cb lb hb
            let rel :=
              match ca, cb with
              | .upper l1, .twoSided l2 | .lower l1, .twoSided l2 =>
                -- one-sided at L vs two-sided at 2L-1: the finite bound coincides
                if (l2 - (2.0 * l1 - 1.0)).abs ≤ 4.0 * eps53 && l1 > 0.5 then
                  let tolQ (b : Float) : Float := if isRank then 1.0 else slackAt b * 64.0 + amp b * hwI * 1e-9 + b.abs * 1e-12
                  -- the two requests differ by one rounding of 1-(1-(2L-1))/2, so the quantiles differ
                  -- by the conditioning of the inverse CDF; rank bounds may differ by one position
                  (match fla, flb, fha, fhb with
                   | some x, some y, _, _ => if x == y || (x - y).abs ≤ tolQ (fmax x.abs y.abs) then [] else ["one-sided-bound≠two-sided-bound-at-2L-1"]
                   | _, _, some x, some y => if x == y || (x - y).abs ≤ tolQ (fmax x.abs y.abs) then [] else ["one-sided-bound≠two-sided-bound-at-2L-1"]
                   | _, _, _, _ => ["kind-mismatch"])
                else []
              | _, _ =>
                if kindOfConf ca == kindOfConf cb && levelOf ca ≤ levelOf cb then
                  -- raising the level never shrinks the interval
                  (match fla, flb with
                   | some x, some y => if y ≤ x || y ≤ x + slackAt (fmax x.abs y.abs) then [] else ["higher-level-shrinks-lower-bound"]
                   | _, _ => []) ++
                  (match fha, fhb with
                   | some x, some y => if x ≤ y || x ≤ y + slackAt (fmax x.abs y.abs) then [] else ["higher-level-shrinks-upper-bound"]
                   | _, _ => [])
                else []
            -- contains the point estimate (two-sided, or one-sided at level ≥ 1/2)
            let contains (c : Confidence Float) (lo hi : Option Float) : List String :=
              match estV with
              | none => []
              | some m =>
                let applies := match c with
                  | .twoSided _ => true
                  | .upper l | .lower l => l ≥ 0.5
                if !applies then [] else
                -- a proportion interval at a zero critical value collapses onto k/n and must contain it exactly
                let zeroCrit := prod == "wilson" && crit (.z c.quantile) == 0.0
                let pos := if isRank then 1.0 else if zeroCrit then 0.0 else slack
                (match lo with
                 | some x => if x ≤ m + pos then [] else ["estimate-below-interval"]
                 | none => []) ++
                (match hi with
                 | some y => if m ≤ y + pos then [] else ["estimate-above-interval"]
                 | none => [])
            kindOk ca ka la ha ++ kindOk cb kb lb hb ++ rel ++ contains ca fla fha ++ contains cb flb fhb
          | _, _ => []
        | _ => ["malformed"]
      { model := model, prop := cs } }

def relOpF {F : Type} [FloatLike F] [Widen F Float] (op : String) (args : List String) : Option OpEval :=
  match op with
  | "xf" => xfOp (F := F) args
  | "ci2" => ci2Op (F := F) args
  | _ => none

def relOps (op ty : String) (args : List String) : Option OpEval :=
  match ty with
  | "f" => relOpF (F := Float) op args
  | "g" => relOpF (F := Float32) op args
  | _ => none

end StatsCI.Driver
