/-
  StatsCI.Driver.PropOps — proportion and quantile entry points (C02, C17, C03, C12):
  model evaluation and property oracles.
-/
import StatsCI.Driver.StatOps

namespace StatsCI.Driver
open StatsCI

def zNeed (conf : Confidence Float) : List (CritReq Float) := [.z conf.quantile]

def eps53 : Float := Float.scaleB 1.0 (-53)

/-- bounds of a proportion interval live in [0,1]: absolute tolerance -/
def tokUnitInterval (i : Interval Float) : List Tok := tokInterval (F := Float) (16.0 * eps53) i

/-- exact residual of the score equation `(p − k/n)² − z² p(1−p)/n`, times n², at float `p`, `z` -/
def scoreResidual (n k : Nat) (p z : Float) : Option Float := do
  let p ← Dy.ofFloat? p
  let z ← Dy.ofFloat? z
  let p := p.norm; let z := z.norm
  let nn := Dy.ofInt n; let kk := Dy.ofInt k
  let a := (nn.mul p).sub kk                       -- n p − k
  let lhs := a.mul a                                -- n² (p − k/n)²
  let one := Dy.ofInt 1
  let rhs := ((z.mul z).mul nn).mul (p.mul (one.sub p))   -- n² · z² p(1−p)/n
  pure ((lhs.sub rhs).toFloat / (Float.ofNat n * Float.ofNat n))

def parseOkUnit (g : List String) : Option (Float × Float) :=
  match g with
  | ["ok", "I2", a, b] => do let a ← parseF64? a; let b ← parseF64? b; pure (a, b)
  | _ => none

/-- the documented domain of `ci_wilson`, on the integer counts -/
def wilsonDomain (n k : Nat) : String :=
  if k > n then "InvalidSuccesses" else if k < 2 then "TooFewSuccesses"
  else if n - k < 2 then "TooFewFailures" else "ok"

def waldDomain (n k : Nat) : String :=
  if k > n then "InvalidSuccesses" else if k < 10 then "TooFewSuccesses"
  else if n - k < 10 then "TooFewFailures" else "ok"

def outcomeClass (g : List String) : String :=
  match g with
  | "ok" :: _ => "ok"
  | "err" :: "Interval" :: v :: _ => v
  | "err" :: v :: _ => v
  | "panic" :: c :: _ => "panic-" ++ c
  | _ => "?"

/-- C02 oracle on one Wilson outcome of the implementation -/
def oracleWilson (conf : Confidence Float) (n k : Nat) (z : Float) (g : List String) : List String :=
  let dom := wilsonDomain n k
  let cls := outcomeClass g
  if dom != "ok" then (if cls == dom then [] else [s!"domain:{cls}≠{dom}"])
  else if z.isNaN then []
  else if cls == "InvalidBounds" then
    -- only a two-sided request with a negative quantile inverts the bounds
    (match conf with
     | .twoSided _ => if z < 0.0 then [] else ["unexpected-InvalidBounds"]
     | _ => ["unexpected-InvalidBounds"])
  else match parseOkUnit g with
  | none => [s!"not-ok:{cls}"]
  | some (lo, hi) =>
    -- an infinite critical value (a level within an ulp of 1): the roots of the score equation tend to 0 and 1
    if !z.isFinite then (if lo == 0.0 && hi == 1.0 then [] else ["infinite-critical-value:expected-[0,1]"]) else
    let tol := 64.0 * eps53 * fmax 1.0 (z * z)
    let res (p : Float) : List String :=
      match scoreResidual n k p z with
      | some r => if absF r ≤ tol then [] else [s!"score-residual({r})"]
      | none => ["non-finite-bound"]
    let unit := if 0.0 ≤ lo && lo ≤ hi && hi ≤ 1.0 then [] else ["outside-[0,1]"]
    unit ++ (match conf with
      | .twoSided _ => res lo ++ res hi
      | .upper _ => res lo ++ (if hi == 1.0 then [] else ["upper-far-end≠1"])
      | .lower _ => res hi ++ (if lo == 0.0 then [] else ["lower-far-end≠0"]))

/-- C02 oracle on the Wald outcome -/
def oracleWald (conf : Confidence Float) (n k : Nat) (z : Float) (g : List String) : List String :=
  let dom := waldDomain n k
  let cls := outcomeClass g
  if dom != "ok" then (if cls == dom then [] else [s!"wald-domain:{cls}≠{dom}"])
  else if z.isNaN then []
  else
    let nn := Float.ofNat n
    let p := Float.ofNat k / nn
    let sd := (p * (1.0 - p) / nn).sqrt
    let lo := p - z * sd; let hi := p + z * sd
    let (elo, ehi) := match conf with
      | .twoSided _ => (lo, hi)
      | .upper _ => (lo, 1.0)
      | .lower _ => (0.0, hi)
    let tol := 16.0 * eps53 * (1.0 + absF z)
    if elo > ehi + tol then (if cls == "InvalidBounds" then [] else ["wald-should-reject"])
    else match parseOkUnit g with
    | none => if elo > ehi - tol then [] else [s!"wald-not-ok:{cls}"]
    | some (a, b) =>
      if (a == elo || absF (a - elo) ≤ tol) && (b == ehi || absF (b - ehi) ≤ tol) then []
      else [s!"wald-bounds-off(expected {encF64 elo} {encF64 ehi})"]

/-- `wilson p conf n k => ci_wilson | ci | Stats::new(n,k).ci | ci_z_normal | is_significant` -/
def wilsonOp (args : List String) : Option OpEval := do
  let (conf, r) ← pConf args
  let (n, r) ← pNat r
  let (k, _) ← pNat r
  pure {
    needs := zNeed conf
    run := fun crit impl =>
      let w := tokOutcome tokUnitInterval (Proportion.ciWilson crit conf n k)
      let s : List Tok := match Proportion.Stats.new? n k with
        | some st => tokOutcome tokUnitInterval (st.ci crit conf)
        | none => [.s "panic", .s "stats_new"]
      let wald := tokOutcome tokUnitInterval (Proportion.ciZNormal crit conf n k)
      let sig : List Tok := [.s (encBool (Proportion.isSignificant n k))]
      let z := crit (.z conf.quantile)
      let cs := match impl with
        | [a, b, c, d, _] =>
          oracleWilson conf n k z a ++
          (if a == b then [] else ["ci≠ci_wilson"]) ++
          (if k ≤ n then (if a == c then [] else ["Stats::ci≠ci_wilson"]) else []) ++
          oracleWald conf n k z d
        | _ => ["malformed"]
      { model := joinBar [w, w, s, wald, sig], prop := cs } }

/-- `frontends p conf t n xs… => ci_true | ci_if | from_iter.ci | pop succ merged.ci | … | pop succ ci_if (quota predicate)` -/
def frontendsOp (args : List String) : Option OpEval := do
  let (conf, r) ← pConf args
  let (t, r) ← pElem (α := Int) r
  let (xs, _) ← pList (α := Int) r
  let p := fun (x : Int) => decide (x ≤ t)
  let bs := xs.map p
  pure {
    needs := zNeed conf
    run := fun crit impl =>
      let o1 := tokOutcome tokUnitInterval (Proportion.ciTrue crit conf bs)
      let o2 := tokOutcome tokUnitInterval (Proportion.ciIf crit conf xs p)
      let o3 := tokOutcome tokUnitInterval ((Proportion.Stats.fromList bs).ci crit conf)
      let h := xs.length / 2
      let s1 := Proportion.Stats.empty.extend (bs.take h)
      let s2 := Proportion.Stats.empty.extendIf (xs.drop h) p
      let s := s1.merge s2
      let o4 := [Tok.s (toString s.population), .s (toString s.successes)] ++
        tokOutcome tokUnitInterval (s.ci crit conf)
      -- oracle: every front-end returns exactly the interval of the counts it implies
      let n := xs.length; let k := bs.count true
      let z := crit (.z conf.quantile)
      let nk : List Tok := [.s (toString n), .s (toString k)]
      let o7 := nk ++ nk ++ nk ++ nk ++ o1
      -- a predicate with memory (the first q calls succeed): n elements, min q n successes
      let q := (t + 1).toNat
      let k8 := min q n
      let bs8 := List.replicate k8 true ++ List.replicate (n - k8) false
      let o8 := [Tok.s (toString n), .s (toString k8)] ++ tokOutcome tokUnitInterval (Proportion.ciTrue crit conf bs8)
      let cs := match impl with
        | [a, b, c, d, e, f, g, h] =>
          (if h.take 2 == [toString n, toString k8] then oracleWilson conf n k8 z (h.drop 2)
           else ["predicate-with-memory:-elements-not-counted-once-each"]) ++
          oracleWilson conf n k z a ++
          (if a == b && a == c && d == [toString n, toString k] ++ a then [] else ["front-ends-disagree"]) ++
          (if e == a && f == a then [] else ["container-with-gaps-differs"]) ++
          (if g == [toString n, toString k, toString n, toString k, toString n, toString k, toString n, toString k] ++ a then []
           else ["counts-from-an-iterator-with-an-inexact-size-hint-differ"])
        | _ => ["malformed"]
      { model := joinBar [o1, o2, o3, o4, o1, o2, o7, o8], prop := cs } }

/-- bits of a `0`/`1` string (`-` is the empty sequence) -/
def parseBits? (t : String) : Option (List Bool) :=
  if t == "-" then some [] else
  t.toList.foldr (fun c acc => match acc, c with
    | some l, '1' => some (true :: l)
    | some l, '0' => some (false :: l)
    | _, _ => none) (some [])

/-- interpret the step tokens of `pseq` on the model's `Stats` -/
def pseqSteps : List String → Proportion.Stats → Option Proportion.Stats
  | [], s => some s
  | "N" :: n :: k :: r, _ => do
      let n ← parseNat? n; let k ← parseNat? k
      pseqSteps r (← Proportion.Stats.new? n k)
  | "X" :: bs :: r, s => do pseqSteps r (s.extend (← parseBits? bs))
  | "I" :: bs :: r, s => do
      let b ← parseBits? bs
      pseqSteps r (s.extendIf (b.map fun x => if x then (1 : Int) else 0) (fun x => x == 1))
  | "S" :: r, s => pseqSteps r s.addSuccess
  | "F" :: r, s => pseqSteps r s.addFailure
  | "P" :: n :: k :: r, s => do
      let n ← parseNat? n; let k ← parseNat? k
      pseqSteps r (s.merge (← Proportion.Stats.new? n k))
  | "Q" :: n :: k :: r, s => do
      let n ← parseNat? n; let k ← parseNat? k
      pseqSteps r (s.merge (← Proportion.Stats.new? n k))
  | "R" :: bs :: r, _ => do pseqSteps r (Proportion.Stats.fromList (← parseBits? bs))
  | _, _ => none

/-- `pseq p conf steps… => population successes | ci` : a running `Stats` driven by a history -/
def pseqOp (args : List String) : Option OpEval := do
  let (conf, r) ← pConf args
  let s ← pseqSteps r Proportion.Stats.empty
  pure {
    needs := zNeed conf
    run := fun crit impl =>
      let o := tokOutcome tokUnitInterval (s.ci crit conf)
      let z := crit (.z conf.quantile)
      -- oracle: the interval of the counts the history implies
      let cs := match impl with
        | [c, a] =>
          (if c == [toString s.population, toString s.successes] then [] else
            [s!"counts({" ".intercalate c})-differ-from-history({s.population} {s.successes})"]) ++
          oracleWilson conf s.population s.successes z a
        | _ => ["malformed"]
      { model := joinBar [[Tok.s (toString s.population), .s (toString s.successes)], o], prop := cs } }

/-- `ratio p conf n rate k|- => ci_wilson_ratio` -/
def ratioOp (args : List String) : Option OpEval := do
  let (conf, r) ← pConf args
  let (n, r) ← pNat r
  let (rate, r) ← pF64 r
  let (kTok, _) ← pTok r
  pure {
    needs := zNeed conf
    run := fun crit impl =>
      let o := tokOutcome tokUnitInterval (Proportion.ciWilsonRatio crit conf n rate)
      let z := crit (.z conf.quantile)
      -- oracle: the ratio k/n must give the interval of the counts (n, k)
      let cs := match parseNat? kTok, impl with
        | some k, [a] =>
          if k == 0 && rate ≤ 0.0 then (if outcomeClass a == "NonPositiveValue" then [] else ["zero-rate-accepted"])
          else oracleWilson conf n k z a
        | none, [a] =>
          if rate ≤ 0.0 then (if outcomeClass a == "NonPositiveValue" then [] else ["non-positive-rate-accepted"])
          else
            -- the count the rate implies: round(rate·n) as a saturating conversion (NaN ↦ 0)
            let x := rate * Float.ofNat n
            let k : Nat := if x.isNaN then 0 else if x ≥ 1.8446744073709552e19 then 18446744073709551615
                           else x.round.toUInt64.toNat
            let dom := wilsonDomain n k
            if dom != "ok" then (if outcomeClass a == dom then [] else [s!"ratio-domain:{outcomeClass a}≠{dom}(implied count {k})"])
            else []
        | _, _ => ["malformed"]
      { model := o, prop := cs } }

/-- C17: relations between two Wilson intervals of the implementation -/
def relOracle (rel : String) (ca : Confidence Float) (na ka : Nat) (a b : List String) : List String :=
  -- a one-sided request below level 1/2 has a negative quantile; the finite bound is then the
  -- *other* root; reported under its own class (`shrink-z<0`)
  let rel := if rel == "shrink" && (match ca with | .twoSided _ => false | _ => ca.level ≤ 0.5) then "shrink-z<0" else rel
  match parseOkUnit a, parseOkUnit b with
  | some (la, ha), some (lb, hb) =>
    let slack := 8.0 * eps53
    let unit := if 0.0 ≤ la && la ≤ ha && ha ≤ 1.0 && 0.0 ≤ lb && lb ≤ hb && hb ≤ 1.0 then [] else ["outside-[0,1]"]
    let mid :=
      match ca with
      | .twoSided _ =>
        let p := Float.ofNat ka / Float.ofNat na
        let m := (la + ha) / 2.0
        let lo := (if p < 0.5 then p else 0.5) - slack
        let hi := (if p < 0.5 then 0.5 else p) + slack
        if lo ≤ m && m ≤ hi then [] else ["midpoint-not-between-k/n-and-1/2"]
      | _ => []
    let r :=
      match rel with
      | "mono" => if la ≤ lb + slack && ha ≤ hb + slack then [] else ["not-monotone-in-k"]
      | "mirror" =>
          if absF (lb - (1.0 - ha)) ≤ slack && absF (hb - (1.0 - la)) ≤ slack then [] else ["not-mirror-symmetric"]
      | "shrink" =>
          (match ca with
           | .twoSided _ => if hb - lb < ha - la then [] else ["not-narrower-on-larger-population"]
           | .upper _ => if lb > la then [] else ["not-narrower-on-larger-population"]
           | .lower _ => if hb < ha then [] else ["not-narrower-on-larger-population"])
      | "shrink-z<0" =>
          (match ca with
           | .upper _ => if lb > la then [] else ["not-narrower-on-larger-population(one-sided-level<1/2)"]
           | .lower _ => if hb < ha then [] else ["not-narrower-on-larger-population(one-sided-level<1/2)"]
           | _ => [])
      | "wider" => if lb ≤ la + slack && ha ≤ hb + slack then [] else ["higher-level-not-wider"]
      | _ => []
    unit ++ mid ++ r
  | _, _ => ["not-ok"]

/-- `rel p <rel> confA nA kA confB nB kB => ciA | ciB` -/
def relOp (args : List String) : Option OpEval := do
  let (rel, r) ← pTok args
  let (ca, r) ← pConf r
  let (na, r) ← pNat r
  let (ka, r) ← pNat r
  let (cb, r) ← pConf r
  let (nb, r) ← pNat r
  let (kb, _) ← pNat r
  pure {
    needs := zNeed ca ++ zNeed cb
    run := fun crit impl =>
      let a := tokOutcome tokUnitInterval (Proportion.ci crit ca na ka)
      let b := tokOutcome tokUnitInterval (Proportion.ci crit cb nb kb)
      let cs := match impl with
        | [x, y] => relOracle rel ca na ka x y
        | _ => ["malformed"]
      { model := joinBar [a, b], prop := cs } }

/-! ### quantiles -/

def tokNatInterval : Interval Nat → List Tok
  | .twoSided a b => [.s "I2", .s (toString a), .s (toString b)]
  | .upper a => [.s "IU", .s (toString a)]
  | .lower b => [.s "IL", .s (toString b)]

def quantileDomain (n : Nat) (q : Float) : String :=
  if !(q > 0.0 && q < 1.0) then "InvalidQuantile"
  else if n < 4 then "TooFewSamples"
  else
    let k := (q * Float.ofNat n).round.toUSize.toNat
    if k < 2 then "TooFewSuccesses" else if n - k < 2 then "TooFewFailures" else "ok"

/-- C03 oracle on the ranks returned by the implementation -/
def oracleRanks (conf : Confidence Float) (n : Nat) (q : Float) (g : List String) : List String :=
  let dom := quantileDomain n q
  let cls := outcomeClass g
  if dom != "ok" then (if cls == dom then [] else [s!"domain:{cls}≠{dom}"])
  else
    let k := (q * Float.ofNat n).round.toUSize.toNat
    let lvl := conf.level
    match g with
    | ["ok", "I2", a, b] =>
      match parseNat? a, parseNat? b, conf with
      | some lo, some hi, .twoSided _ =>
        (if lo ≤ hi && hi ≤ n - 1 then [] else ["ranks-out-of-range-or-unordered"]) ++
        (if lo ≤ k && k ≤ hi + 1 then [] else [s!"ranks-do-not-bracket-rank({k})"])
      | _, _, _ => ["wrong-kind"]
    | ["ok", "IU", a] =>
      match parseNat? a, conf with
      | some lo, .upper _ =>
        (if lo ≤ n - 1 then [] else ["rank-out-of-range"]) ++
        (if lvl ≥ 0.5 then (if lo ≤ k then [] else [s!"rank-above-sample-quantile({k})"]) else [])
      | _, _ => ["wrong-kind"]
    | ["ok", "IL", b] =>
      match parseNat? b, conf with
      | some hi, .lower _ =>
        (if hi ≤ n - 1 then [] else ["rank-out-of-range"]) ++
        (if lvl ≥ 0.5 then (if k ≤ hi + 1 then [] else [s!"rank-below-sample-quantile({k})"]) else [])
      | _, _ => ["wrong-kind"]
    | _ => [s!"not-ok:{cls}"]

/-- `qidx n conf n q => ci_indices | Stats::new(n).ci` -/
def qidxOp (args : List String) : Option OpEval := do
  let (conf, r) ← pConf args
  let (n, r) ← pNat r
  let (q, _) ← pF64 r
  pure {
    needs := zNeed conf
    run := fun crit impl =>
      let o := tokOutcome tokNatInterval (Quantile.ciIndices crit conf n q)
      let cs := match impl with
        | [a, b] => oracleRanks conf n q a ++ (if a == b then [] else ["Stats::ci≠ci_indices"])
        | _ => ["malformed"]
      { model := joinBar [o, o], prop := cs } }

def tokElemInterval {T : Type} [Codec T] (i : Interval T) : List Tok := (encInterval i).map Tok.s

/-- `qci T conf q n data… => ci | ci_sorted_unchecked | ci_max_size<16> | ci_max_size<1024> | ci_indices | ci(perm)…` -/
def qciOp {T : Type} [Cmp T] [Codec T] (args : List String) : Option OpEval := do
  let (conf, r) ← pConf args
  let (q, r) ← pF64 r
  let (xs, _) ← pList (α := T) r
  pure {
    needs := zNeed conf
    run := fun crit impl =>
      let ci := tokOutcome tokElemInterval (Quantile.ci crit conf xs q)
      let srt : List Tok := match (Quantile.sortData xs : Outcome (Err Float) (List T)) with
        | .ok s => tokOutcome tokElemInterval (Quantile.ciSortedUnchecked crit conf s q)
        | .err e => tokErr e
        | .panic t => [.s "panic", .s (canonPanic t)]
      let m16 := tokOutcome tokElemInterval (Quantile.ciMaxSize 16 crit conf xs q)
      let m1024 := tokOutcome tokElemInterval (Quantile.ciMaxSize 1024 crit conf xs q)
      let idx := tokOutcome tokNatInterval (Quantile.ciIndices crit conf xs.length q)
      -- the pre-sorted entry point on the data as given
      let raw := tokOutcome tokElemInterval (Quantile.ciSortedUnchecked crit conf xs q)
      let nperm := impl.length - 7
      -- oracle: the bounds are the order statistics at the ranks the implementation itself reports,
      -- whatever the order in which the data are supplied; entry points agree
      let cs := match impl with
        | a :: b :: c :: d :: ix :: rw :: sp :: perms =>
          let sorted := xs.mergeSort (fun x y => Cmp.le x y)
          let same (u v : List String) : Bool := (toksEq 0 u v).1
          let elems : List String :=
            if outcomeClass a == "panic-sort" || outcomeClass a == "panic-capacity" then [] else
            match ix with
            | ["ok", "I2", lo, hi] =>
              (match parseNat? lo, parseNat? hi with
               | some lo, some hi =>
                 (match sorted[lo]?, sorted[hi]? with
                  | some x, some y => if same a ["ok", "I2", Codec.enc x, Codec.enc y] then [] else ["bounds-are-not-the-order-statistics"]
                  | _, _ => ["rank-out-of-range"])
               | _, _ => [])
            | ["ok", "IU", lo] =>
              (match parseNat? lo with
               | some lo => (match sorted[lo]? with
                  | some x => if same a ["ok", "IU", Codec.enc x] then [] else ["bound-is-not-the-order-statistic"]
                  | none => ["rank-out-of-range"])
               | none => [])
            | ["ok", "IL", hi] =>
              (match parseNat? hi with
               | some hi => (match sorted[hi]? with
                  | some y => if same a ["ok", "IL", Codec.enc y] then [] else ["bound-is-not-the-order-statistic"]
                  | none => ["rank-out-of-range"])
               | none => [])
            | _ => if outcomeClass a == "panic-sort" || outcomeClass a == outcomeClass ix then [] else ["error-differs-from-ci_indices"]
          let isPanic := outcomeClass a == "panic-sort"
          elems ++
          (if perms.all (same a) then [] else ["depends-on-data-order"]) ++
          (if same b a then [] else ["pre-sorted-entry-point-differs"]) ++
          (if xs.length ≤ 16 then (if same c a then [] else ["fixed-capacity-differs"])
           else (if outcomeClass c == "panic-capacity" then [] else ["capacity-overflow-not-a-panic"])) ++
          (if xs.length ≤ 1024 then (if same d a then [] else ["fixed-capacity-differs"])
           else (if outcomeClass d == "panic-capacity" then [] else ["capacity-overflow-not-a-panic"])) ++
          (if isPanic then [] else []) ++
          -- a container with gaps gives what the dense data give
          (if same sp a then [] else ["sparse-container-differs"]) ++
          -- the pre-sorted entry point on unsorted data: never an Ok with its bounds inverted
          (match rw, pList (α := T) (toString xs.length :: xs.map Codec.enc) with
           | ["ok", "I2", lo, hi], _ =>
             (match (Codec.dec lo : Option T), (Codec.dec hi : Option T) with
              | some x, some y => if Cmp.lt y x then ["ok-with-inverted-bounds"] else []
              | _, _ => [])
           | _, _ => [])
        | _ => ["malformed"]
      { model := joinBar ([ci, srt, m16, m1024, idx, raw, ci] ++ List.replicate nperm ci), prop := cs } }

/-- `index n n p => Stats::new(n).index(p)` -/
def indexOp (args : List String) : Option OpEval := do
  let (n, r) ← pNat args
  let (p, _) ← pF64 r
  pure {
    run := fun _ impl =>
      let o : Outcome (Err Float) Nat := Quantile.index n p
      let cs := match impl with
        | [["ok", i]] =>
          (match parseNat? i with
           | some i => if i < n then [] else ["rank-out-of-range"]
           | none => ["malformed"])
        | _ => []
      { model := tokOutcome (fun i => [Tok.s (toString i)]) o, prop := cs } }

def propOp (op ty : String) (args : List String) : Option OpEval :=
  match op, ty with
  | "index", "n" => indexOp args
  | "wilson", "p" => wilsonOp args
  | "frontends", "p" => frontendsOp args
  | "ratio", "p" => ratioOp args
  | "pseq", "p" => pseqOp args
  | "rel", "p" => relOp args
  | "qidx", "n" => qidxOp args
  | "qci", "i" => qciOp (T := Int) args
  | "qci", "f" => qciOp (T := Float) args
  | "qci", "s" => qciOp (T := String) args
  | _, _ => none

end StatsCI.Driver
