/-
  StatsCI.Driver.ConfOps — the `Confidence` model for one request line (C18).
-/
import StatsCI.Driver.IntervalOps

namespace StatsCI.Driver
open StatsCI

def optConf : Option (Confidence Float) → List String
  | some c => "ok" :: encConf c
  | none => ["panic", "confidence"]

def confOp (op : String) (args : List String) : Option (List String) :=
  match op with
  | "new" => do
      let (k, r) ← pTok args; let (l, _) ← pF64 r
      match k with
      | "N" | "2" => pure (optConf (Confidence.newTwoSided? l))
      | "U" => pure (optConf (Confidence.newUpper? l))
      | "L" => pure (optConf (Confidence.newLower? l))
      | _ => none
  | "try" => do
      let (l, _) ← pF64 args
      pure (encOutcome encConf (Confidence.tryFrom l))
  | "try32" => do
      let (l, _) ← pElem (α := Float32) args
      pure (encOutcome encConf (Confidence.tryFrom (Widen.up l : Float)))
  | "literal" =>
      -- no constructor function or conversion of the model produces a level outside (0,1)
      pure ["unconstructible"]
  | "default" => pure (match Confidence.newTwoSided? (0.95 : Float) with
      | some c => encConf c
      | none => ["panic", "confidence"])
  | "acc" => do
      let (c, _) ← pConf args
      pure ([encF64 c.level, encF64 c.percent, hexOfString c.kindStr, encBool c.isTwoSided, encBool c.isOneSided,
             encBool c.isUpper, encBool c.isLower, "|"] ++ encConf c.flipped ++ ["|"] ++ encConf c.flipped.flipped ++
            ["|", encF64 c.quantile])
  | "cmp" => do
      let (a, r) ← pConf args; let (b, _) ← pConf r
      let o := a.partialCmp b
      let lt := o == some .lt
      let gt := o == some .gt
      let eq := o == some .eq
      pure [encOrd o, encBool lt, encBool (lt || eq), encBool gt, encBool (gt || eq), encBool (a.beq b)]
  | _ => none

end StatsCI.Driver
