/-
  StatsCI.Driver.CritOps — C06: the critical value implied by an interval is pushed through an
  independent reference CDF and must hit the target probability.
-/
import StatsCI.Driver.CoverOps
import StatsCI.Driver.RefDist

namespace StatsCI.Driver
open StatsCI

/-- the documented tolerance (spec/slack.json): `1e-12 + 2.5e-10·ν` for t, `1e-14` for z -/
def tolT (nu : Float) : Float := 1e-12 + 2.5e-10 * nu
def tolZ : Float := 1e-14

/-- target probability of a confidence: (1+L)/2 two-sided, L one-sided -/
def target (conf : Confidence Float) : Float :=
  match conf with
  | .twoSided l => (1.0 + l) / 2.0
  | .upper l => l
  | .lower l => l

/-- reference CDF the critical value must invert: t below the population limit, normal from it on -/
def refCdf (dof c : Float) : Float × Float :=
  if dof < 100000.0 then (RefDist.tCdf dof c, tolT dof) else (RefDist.normCdf c, tolZ + 1e-15)

def checkCrit (what : String) (conf : Confidence Float) (dof c : Float) : List String :=
  if c.isNaN || dof.isNaN then [s!"{what}:no-critical-value"] else
  let (f, tol) := refCdf dof c
  let p := target conf
  if (f - p).abs ≤ tol then [] else [s!"{what}:CDF({c};dof={dof})={f}≠target({p})±{tol}"]

def probeData (n : Nat) : List Float :=
  (List.range n).map fun i => if n % 2 == 1 && i == n - 1 then 0.0 else if i % 2 == 0 then 1.0 else -1.0

/-- implied critical value from an interval around `mean` with standard error `sem` -/
def impliedC (g : List String) (mean sem : Float) : Option Float :=
  match numInterval g with
  | some ("I2", some lo, some hi) => some ((hi - lo) / 2.0 / sem)
  | some ("IU", some lo, _) => some ((mean - lo) / sem)
  | some ("IL", _, some hi) => some ((hi - mean) / sem)
  | _ => none

/-- `tcrit f conf n => ci | sd` on the symmetric probe of size n -/
def tcritOp (args : List String) : Option OpEval := do
  let (conf, r) ← pConf args
  let (n, _) ← pNat r
  let xs := probeData n
  let a := Arith.fromList xs
  let prep : Outcome (Err Float) (Arith.Prep Float) := a.ciPrep
  let needs := match prep with
    | .ok p => [critReq conf p.dof]
    | _ => []
  pure {
    needs := needs
    run := fun crit impl =>
      let out : Outcome (Err Float) (Interval Float) := Arith.ci crit conf xs
      let tol := match prep with
        | .ok p => boundTol (F := Float) p.mean (crit (critReq conf p.dof)) p.sem
        | _ => 0.0
      let model := joinBar [tokOutcome (tokInterval tol) out, [relTok a.stdDev]]
      let cs := match impl with
        | [ci, [sd]] =>
          match parseF64? sd with
          | some sd =>
            let sem := sd / (Float.ofNat n).sqrt
            (match impliedC ci 0.0 sem with
             | some c => checkCrit "mean" conf (Float.ofNat n - 1.0) c
             | none => ["interval-not-ok"])
          | none => ["malformed"]
        | _ => ["malformed"]
      { model := model, prop := cs } }

/-- `hook f conf dof => t_value | z_value | lo hi` (interval_bounds(conf, 0, 1, dof)) -/
def hookOp (args : List String) : Option OpEval := do
  let (conf, r) ← pConf args
  let (dof, _) ← pF64 r
  let p := conf.quantile
  pure {
    needs := [.t dof p, .z p]
    run := fun crit impl =>
      let f (o : Outcome (Err Float) Float) : List Tok := match o with
        | .ok x => [.f x 0.0]
        | .err _ => [.s "err"]
        | .panic t => [.s "panic", .s t]
      let b : List Tok := match intervalBounds crit conf (0.0 : Float) 1.0 dof with
        | .ok (lo, hi) => [.f lo 0.0, .f hi 0.0]
        | .err _ => [.s "err"]
        | .panic t => [.s "panic", .s t]
      let model := joinBar [f (tValue crit conf dof), f (zValue crit conf), b]
      let cs := match impl with
        | [[t], [z], [lo, hi]] =>
          (match parseF64? t, parseF64? z, parseF64? lo, parseF64? hi with
           | some t, some z, some lo, some hi =>
             let (ft, _) := (RefDist.tCdf dof t, 0.0)
             let pt := target conf
             -- the crate consults the t law only below the population limit
             (if dof ≥ 100000.0 || (ft - pt).abs ≤ tolT dof then [] else [s!"t_value:CDF_t({t};{dof})={ft}≠{pt}±{tolT dof}"]) ++
             (if (RefDist.normCdf z - pt).abs ≤ tolZ + 1e-15 then [] else [s!"z_value:Phi({z})={RefDist.normCdf z}≠{pt}"]) ++
             -- the span of interval_bounds is the t value below the limit, the z value from it on
             (let c := if dof < 100000.0 then t else z
              if hi == c && lo == -c then [] else ["interval_bounds-uses-wrong-law"])
           | _, _, _, _ => ["malformed"])
        | _ => []
      { model := model, prop := cs } }

/-- `zprop f conf n k => ci`: the z implied by a Wilson interval satisfies Φ(z) = target -/
def zpropOp (args : List String) : Option OpEval := do
  let (conf, r) ← pConf args
  let (n, r) ← pNat r
  let (k, _) ← pNat r
  pure {
    needs := zNeed conf
    run := fun crit impl =>
      let model := tokOutcome tokUnitInterval (Proportion.ci crit conf n k)
      let cs := match impl with
        | [g] =>
          (match parseOkUnit g with
           | some (lo, hi) =>
             let nn := Float.ofNat n
             let ph := Float.ofNat k / nn
             -- the finite root and the sign of z
             let (p, sgn) := match conf with
               | .lower _ => (hi, if hi ≥ ph then 1.0 else -1.0)
               | _ => (lo, if lo ≤ ph then 1.0 else -1.0)
             let z := sgn * (nn * (p - ph) * (p - ph) / (p * (1.0 - p))).sqrt
             let f := RefDist.normCdf z
             if (f - target conf).abs ≤ 1e-9 then [] else [s!"proportion:Phi({z})={f}≠target({target conf})"]
           | none => [])
        | _ => ["malformed"]
      { model := model, prop := cs } }

/-- `ucrit f conf xs ys => ci | meanA meanB sdA sdB` -/
def ucritOp (args : List String) : Option OpEval := do
  let (conf, r) ← pConf args
  let (xs, r) ← pList (α := Float) r
  let (ys, _) ← pList (α := Float) r
  let u := Unpaired.fromLists xs ys
  let prep : Outcome (Err Float) (Arith.Prep Float) := u.ciPrep
  let needs := match prep with
    | .ok p => [critReq conf p.dof]
    | _ => []
  pure {
    needs := needs
    run := fun crit impl =>
      let out : Outcome (Err Float) (Interval Float) := Unpaired.ci crit conf xs ys
      let tol := match prep with
        | .ok p => boundTol (F := Float) p.mean (crit (critReq conf p.dof)) p.sem
        | _ => 0.0
      let model := joinBar [tokOutcome (tokInterval tol) out,
        [relTok u.a.mean, relTok u.b.mean, relTok u.a.stdDev, relTok u.b.stdDev]]
      let cs := match impl with
        | [ci, [ma, mb, sa, sb]] =>
          (match parseF64? ma, parseF64? mb, parseF64? sa, parseF64? sb with
           | some ma, some mb, some sa, some sb =>
             let na := Float.ofNat xs.length; let nb := Float.ofNat ys.length
             let A := sa * sa / na; let B := sb * sb / nb
             let se := (A + B).sqrt
             let nu := (A + B) * (A + B) / (A * A / (na + 1.0) + B * B / (nb + 1.0)) - 2.0
             (match impliedC ci (ma - mb) se with
              | some c =>
                -- the half-width is a difference of rounded bounds: allow its cancellation error
                let (f, tol) := refCdf nu c
                let p := target conf
                let cancel := 64.0 * eps53 * (ma.abs + mb.abs + c.abs * se) / se
                if (f - p).abs ≤ tol + cancel then [] else [s!"unpaired:CDF({c};dof={nu})={f}≠target({p})"]
              | none => ["interval-not-ok"])
           | _, _, _, _ => ["malformed"])
        | _ => ["malformed"]
      { model := model, prop := cs } }

def critOps (op ty : String) (args : List String) : Option OpEval :=
  match op, ty with
  | "tcrit", "f" => tcritOp args
  | "hook", "f" => hookOp args
  | "zprop", "f" => zpropOp args
  | "ucrit", "f" => ucritOp args
  | _, _ => none

end StatsCI.Driver
