/-
  StatsCI.Driver.Codec — the canonical textual encoding shared with the Rust harness.
  Floats travel as hexadecimal bit patterns (`x…` f64, `y…` f32), never as decimal text.
-/
import StatsCI.Model.Instances
import StatsCI.Model.Confidence

namespace StatsCI.Driver
open StatsCI

def hexDigit? (c : Char) : Option Nat :=
  if '0' ≤ c ∧ c ≤ '9' then some (c.toNat - '0'.toNat)
  else if 'a' ≤ c ∧ c ≤ 'f' then some (c.toNat - 'a'.toNat + 10)
  else if 'A' ≤ c ∧ c ≤ 'F' then some (c.toNat - 'A'.toNat + 10)
  else none

def parseHex? (s : String) : Option Nat :=
  if s.isEmpty then none else
  s.foldl (fun acc c => match acc, hexDigit? c with
    | some a, some d => some (a * 16 + d)
    | _, _ => none) (some 0)

def hexOf (n width : Nat) : String :=
  let ds := Nat.toDigits 16 n
  String.ofList (List.replicate (width - ds.length) '0' ++ ds)

def parseF64? (s : String) : Option Float :=
  if s.startsWith "x" then (parseHex? (s.drop 1).toString).map (fun n => Float.ofBits n.toUInt64) else none
def parseF32? (s : String) : Option Float32 :=
  if s.startsWith "y" then (parseHex? (s.drop 1).toString).map (fun n => Float32.ofBits n.toUInt32) else none
def encF64 (x : Float) : String := "x" ++ hexOf x.toBits.toNat 16
def encF32 (x : Float32) : String := "y" ++ hexOf x.toBits.toNat 8

def parseInt? (s : String) : Option Int := s.toInt?
def parseNat? (s : String) : Option Nat := s.toNat?
def parseStr? (s : String) : Option String :=
  if s.startsWith "s:" then some (s.drop 2).toString else none
def encBool (b : Bool) : String := if b then "T" else "F"

/-- element codec -/
class Codec (α : Type) where
  dec : String → Option α
  enc : α → String

instance : Codec Float := ⟨parseF64?, encF64⟩
instance : Codec Float32 := ⟨parseF32?, encF32⟩
instance : Codec Int := ⟨parseInt?, fun i => toString i⟩
instance : Codec Nat := ⟨parseNat?, fun n => toString n⟩
instance : Codec String := ⟨parseStr?, fun s => "s:" ++ s⟩

/-- a tiny parser over the token list -/
abbrev P (α : Type) := List String → Option (α × List String)

def pTok : P String
  | [] => none
  | t :: ts => some (t, ts)

def pElem {α : Type} [Codec α] : P α
  | [] => none
  | t :: ts => (Codec.dec t).map (fun a => (a, ts))

def pNat : P Nat := pElem
def pF64 : P Float := pElem

def pInterval {α : Type} [Codec α] : P (Interval α)
  | "I2" :: a :: b :: ts => do
      let a ← Codec.dec a; let b ← Codec.dec b; pure (.twoSided a b, ts)
  | "IU" :: a :: ts => do let a ← Codec.dec a; pure (.upper a, ts)
  | "IL" :: b :: ts => do let b ← Codec.dec b; pure (.lower b, ts)
  | _ => none

def pOpt {α : Type} [Codec α] : P (Option α)
  | "N" :: ts => some (none, ts)
  | "S" :: a :: ts => do let a ← Codec.dec a; pure (some a, ts)
  | _ => none

def pConf : P (Confidence Float)
  | "C2" :: l :: ts => do let l ← parseF64? l; pure (.twoSided l, ts)
  | "CU" :: l :: ts => do let l ← parseF64? l; pure (.upper l, ts)
  | "CL" :: l :: ts => do let l ← parseF64? l; pure (.lower l, ts)
  | _ => none

/-- `n x1 … xn` -/
def pList {α : Type} [Codec α] : P (List α)
  | n :: ts => do
      let n ← parseNat? n
      let xs := ts.take n
      if xs.length ≠ n then none else
      let vs ← xs.mapM Codec.dec
      pure (vs, ts.drop n)
  | _ => none

def encInterval {α : Type} [Codec α] : Interval α → List String
  | .twoSided a b => ["I2", Codec.enc a, Codec.enc b]
  | .upper a => ["IU", Codec.enc a]
  | .lower b => ["IL", Codec.enc b]

def encOpt {α : Type} [Codec α] : Option α → List String
  | none => ["N"]
  | some a => ["S", Codec.enc a]

def encConf : Confidence Float → List String
  | .twoSided l => ["C2", encF64 l]
  | .upper l => ["CU", encF64 l]
  | .lower l => ["CL", encF64 l]

def encIErr : IntervalError → List String
  | .invalidBounds => ["err", "Interval", "InvalidBounds"]
  | .emptyInterval => ["err", "Interval", "EmptyInterval"]

def encErr : Err Float → List String
  | .tooFewSamples n => ["err", "TooFewSamples", toString n]
  | .tooFewSuccesses k n x => ["err", "TooFewSuccesses", toString k, toString n, encF64 x]
  | .tooFewFailures k n x => ["err", "TooFewFailures", toString k, toString n, encF64 x]
  | .invalidConfidenceLevel l => ["err", "InvalidConfidenceLevel", encF64 l]
  | .invalidQuantile q => ["err", "InvalidQuantile", encF64 q]
  | .invalidSuccesses k n => ["err", "InvalidSuccesses", toString k, toString n]
  | .nonPositiveValue x => ["err", "NonPositiveValue", encF64 x]
  | .invalidInputData => ["err", "InvalidInputData"]
  | .floatConversion => ["err", "FloatConversionError"]
  | .indexError x n => ["err", "IndexError", encF64 x, toString n]
  | .interval e => encIErr e
  | .differentSampleSizes a b => ["err", "DifferentSampleSizes", toString a, toString b]

def encIRes {α : Type} [Codec α] : Except IntervalError (Interval α) → List String
  | .ok i => "ok" :: encInterval i
  | .error e => encIErr e

def encOutcome {α : Type} (f : α → List String) : Outcome (Err Float) α → List String
  | .ok a => "ok" :: f a
  | .err e => encErr e
  | .panic t => ["panic", t]

/-! ### comparison of token lists -/

/-- order-preserving integer image of an f64 bit pattern (±0 ↦ 0) -/
def ordBits64 (b : UInt64) : Int :=
  let m : Nat := (b &&& 0x7fffffffffffffff).toNat
  if b >>> 63 == 1 then - (m : Int) else (m : Int)
def ordBits32 (b : UInt32) : Int :=
  let m : Nat := (b &&& 0x7fffffff).toNat
  if b >>> 31 == 1 then - (m : Int) else (m : Int)

def ulpDist64 (a b : Float) : Nat := (ordBits64 a.toBits - ordBits64 b.toBits).natAbs
def ulpDist32 (a b : Float32) : Nat := (ordBits32 a.toBits - ordBits32 b.toBits).natAbs

/-- token equality; float tokens are equal when bit-identical, both NaN, or within `ulps` units
    in the last place (`+0 = −0`). Returns (equal, bit-identical). -/
def tokEq (ulps : Nat) (m i : String) : Bool × Bool :=
  if m == i then (true, true) else
  match parseF64? m, parseF64? i with
  | some a, some b =>
      if a.isNaN && b.isNaN then (true, false)
      else if a.isNaN || b.isNaN then (false, false)
      else (ulpDist64 a b ≤ ulps, false)
  | _, _ =>
    match parseF32? m, parseF32? i with
    | some a, some b =>
        if a.isNaN && b.isNaN then (true, false)
        else if a.isNaN || b.isNaN then (false, false)
        else (ulpDist32 a b ≤ ulps, false)
    | _, _ => (false, false)

def toksEq (ulps : Nat) : List String → List String → Bool × Bool
  | [], [] => (true, true)
  | m :: ms, i :: is =>
      let (e, x) := tokEq ulps m i
      let (e', x') := toksEq ulps ms is
      (e && e', x && x')
  | _, _ => (false, false)

end StatsCI.Driver
