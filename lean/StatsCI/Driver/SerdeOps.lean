/-
  StatsCI.Driver.SerdeOps — C20: the value tree serde produces must equal the model's encoding,
  field for field and bit for bit; the round-trip flags are reported by the harness.
-/
import StatsCI.Driver.CritOps
import StatsCI.Model.Serde

namespace StatsCI.Driver
open StatsCI

/-- canonical text of a tree (map keys sorted, as the harness prints them) -/
partial def renderTree {α : Type} [Codec α] : Tree α → String
  | .num x => Codec.enc x
  | .nat n => toString n
  | .arr xs => "[" ++ ",".intercalate (xs.map renderTree) ++ "]"
  | .obj fs =>
    let sorted := fs.toArray.qsort (fun a b => a.1 < b.1) |>.toList
    "{" ++ ",".intercalate (sorted.map fun (k, v) => k ++ ":" ++ renderTree v) ++ "}"

def serGeneric {S : Type} {F : Type} [Codec F] (ops : AccOps S) (enc : S → Tree F) (args : List String) :
    Option OpEval := do
  let (_conf, prog) ← pConf args
  let r ← pInterp ops prog ⟨[], []⟩
  let fin ← r.stack.head?
  pure {
    run := fun _ _ =>
      { model := joinBar [[Tok.s (renderTree (enc fin.st))], [.s "T", .s "toml:T", .s "T", .s "T"]] } }

/-- `sertoml F kind history => toml:T T`: a state with a non-finite register survives the TOML round trip
    (equal, same query results); the expected flags do not depend on the state -/
def serTomlOp : Option OpEval :=
  some { run := fun _ impl =>
    let want := ["toml:T", "T"]
    { model := want.map Tok.s,
      prop := if impl == [want] then [] else ["non-finite-state-does-not-survive-the-TOML-round-trip"] } }

def serOps (op ty : String) (args : List String) : Option OpEval :=
  if op == "sertoml" then serTomlOp else
  match op with
  | "ser" =>
    match args with
    | kind :: rest =>
      match kind, ty with
      | "arith", "f" => serGeneric (F := Float) (arithOps (F := Float)) Serde.encArith rest
      | "arith", "g" => serGeneric (F := Float32) (arithOps (F := Float32)) Serde.encArith rest
      | "geo", "f" => serGeneric (F := Float) (geoOps (F := Float)) Serde.encGeometric rest
      | "geo", "g" => serGeneric (F := Float32) (geoOps (F := Float32)) Serde.encGeometric rest
      | "harm", "f" => serGeneric (F := Float) (harmOps (F := Float)) Serde.encHarmonic rest
      | "harm", "g" => serGeneric (F := Float32) (harmOps (F := Float32)) Serde.encHarmonic rest
      | "paired", "f" => serGeneric (F := Float) (pairedOps (F := Float)) Serde.encPaired rest
      | "paired", "g" => serGeneric (F := Float32) (pairedOps (F := Float32)) Serde.encPaired rest
      | "unpaired", "f" => serGeneric (F := Float) (unpairedOps (F := Float)) Serde.encUnpaired rest
      | "unpaired", "g" => serGeneric (F := Float32) (unpairedOps (F := Float32)) Serde.encUnpaired rest
      | "prop", _ => serGeneric (F := Float) propAccOps (Serde.encPropStats (α := Float)) rest
      | _, _ => none
    | [] => none
  | "serconf" => do
      let (c, _) ← pConf args
      pure { run := fun _ _ => { model := joinBar [[Tok.s (renderTree (Serde.encConfidence c))], [.s "T", .s "toml:T"]] } }
  | "serint" => do
      let (i, _) ← pInterval (α := Float) args
      pure { run := fun _ _ => { model := joinBar [[Tok.s (renderTree (Serde.encInterval i))], [.s "T", .s "toml:T"]] } }
  | _ => none

end StatsCI.Driver
