/-
  StatsCI.Driver.ProgOps — accumulation histories (C08, C09): the postfix stack machine of the
  harness interpreted over the model, with the error budget of theorem `C08.program` evaluated
  along the way and used as the oracle's tolerance.
-/
import StatsCI.Driver.PropOps

namespace StatsCI.Driver
open StatsCI

/-- xorshift64* (same as the harness) -/
def rngNext (s : UInt64) : UInt64 × UInt64 :=
  let x := s
  let x := x ^^^ (x >>> 12)
  let x := x ^^^ (x <<< 25)
  let x := x ^^^ (x >>> 27)
  (x * 0x2545F4914F6CDD1D, x)

def unitOf (r : UInt64) : Float := Float.ofNat (r >>> 11).toNat / 9007199254740992.0

structure SeqGen where
  id : Nat
  state : UInt64
  param : Float
  i : Nat

def SeqGen.new (id : Nat) (seed : UInt64) (param : Float) : SeqGen := ⟨id, seed ||| 1, param, 0⟩

def SeqGen.next (g : SeqGen) : Float × SeqGen :=
  let i := g.i
  match g.id with
  | 0 => (g.param, { g with i := i + 1 })
  | 1 =>
    let (r, s) := rngNext g.state
    ((0.5 + unitOf r) * g.param, { g with state := s, i := i + 1 })
  | 2 =>
    let (r, s) := rngNext g.state
    let u := unitOf r
    let k0 : Int := (((r >>> 3) &&& 63).toNat : Int) - 32
    let k : Int := if k0 < -20 then -20 else if k0 > 20 then 20 else k0
    let sg : Float := if r &&& 1 == 1 then -1.0 else 1.0
    (sg * (0.5 + u) * g.param * Float.scaleB 1.0 k, { g with state := s, i := i + 1 })
  | 3 =>
    match i % 3 with
    | 0 =>
      let (r, s) := rngNext g.state
      let p := (0.5 + unitOf r) * 1048576.0
      (p, { g with state := s, param := p, i := i + 1 })
    | 1 => (-g.param, { g with i := i + 1 })
    | _ => (0.0009765625, { g with i := i + 1 })
  | 5 => (if i % 2 == 0 then g.param else -g.param, { g with i := i + 1 })
  | _ =>
    if i == 0 then (g.param * 16777216.0, { g with i := i + 1 }) else (g.param, { g with i := i + 1 })

/-- a register together with the exact sum of what it was fed and the budgets of `C08.program` -/
structure KEnt (F : Type) where
  reg : Kahan F
  exact : Int        -- Σ data, in units of 2^-1074
  sumAbs : Float
  tb : Float
  eb : Float
  ok : Bool          -- node-wise side condition `Eb ≤ Tb/4`, and all data finite
  steps : Nat
  rdepth : Nat

def KEnt.empty {F : Type} [FloatLike F] : KEnt F := ⟨Kahan.empty, 0, 0.0, 0.0, 0.0, true, 0, 0⟩

def KEnt.add {F : Type} [FloatLike F] (e : KEnt F) (x : F) : KEnt F :=
  let u := FloatLike.u F
  let xv := FloatLike.toF64 x
  let ax := xv.abs
  let tb := e.tb + ax
  let eb := e.eb + 2.0 * u * ax + 9.0 * u * u * tb
  match toDyadic? xv with
  | some m =>
    { reg := e.reg.add x, exact := e.exact + m, sumAbs := e.sumAbs + ax, tb := tb, eb := eb,
      ok := e.ok && eb ≤ tb / 4.0, steps := e.steps + 1, rdepth := e.rdepth }
  | none => { e with reg := e.reg.add x, ok := false }

def KEnt.merge {F : Type} [FloatLike F] (l r : KEnt F) : KEnt F :=
  let u := FloatLike.u F
  let x := r.sumAbs + r.eb + 6.0 * u * r.tb
  let tb := l.tb + x
  let eb := l.eb + r.eb + 6.0 * u * r.tb + 2.0 * u * x + 18.0 * u * u * tb
  { reg := l.reg.merge r.reg, exact := l.exact + r.exact, sumAbs := l.sumAbs + r.sumAbs, tb := tb, eb := eb,
    ok := l.ok && r.ok && eb ≤ tb / 4.0, steps := l.steps + r.steps + 2,
    rdepth := Nat.max l.rdepth (r.rdepth + 1) }

/-- alternate on one register: a value by `+= x`, then a one-element register by `+= reg` -/
def hybridFeed {F : Type} [FloatLike F] [Widen F Float] (e : KEnt F) (g : SeqGen) (j : Nat) : Nat → KEnt F
  | 0 => e
  | n + 1 =>
    let (x, g') := g.next
    let xf : F := Widen.down x
    let e' := if j % 2 == 0 then e.add xf else e.merge ((KEnt.empty : KEnt F).add xf)
    hybridFeed e' g' (j + 1) n

/-- left fold of `nreg` registers of `k` generated values each into `acc` (by-value `+` and `+=` are the same merge) -/
def foldFeed {F : Type} [FloatLike F] [Widen F Float] (acc : KEnt F) (g : SeqGen) (k : Nat) : Nat → KEnt F
  | 0 => acc
  | n + 1 =>
    let rec fill (r : KEnt F) (g : SeqGen) : Nat → KEnt F × SeqGen
      | 0 => (r, g)
      | m + 1 =>
        let (x, g') := g.next
        fill (r.add (Widen.down x : F)) g' m
    let (r, g') := fill (KEnt.empty : KEnt F) g k
    foldFeed (acc.merge r) g' k n

def genFeed {F : Type} [FloatLike F] [Widen F Float] (e : KEnt F) (g : SeqGen) : Nat → KEnt F
  | 0 => e
  | n + 1 =>
    let (x, g') := g.next
    genFeed (e.add (Widen.down x : F)) g' n

structure KRun (F : Type) where
  stack : List (KEnt F)
  out : List (List Tok)
  prop : List String
  skipped : Nat

/-- one query: the register contents (exact comparison) and the error-bound oracle on the
    implementation's own `value()` -/
def kQuery {F : Type} [FloatLike F] (e : KEnt F) (impl : Option (List String)) : List Tok × List String × Nat :=
  let toks : List Tok := [.s (Codec.enc e.reg.sum), .s (Codec.enc e.reg.comp), .s (Codec.enc e.reg.value)]
  let u := FloatLike.u F
  match impl with
  | some [_, _, v] =>
    let vv : Option Float := match parseF64? v with
      | some x => some x
      | none => (parseF32? v).map Float32.toFloat
    match vv with
    | some x =>
      if !e.ok then (toks, [], 1) else
      match toDyadic? x with
      | none => (toks, ["non-finite-sum"], 0)
      | some m =>
        let err := (ratToFloat (m - e.exact) 1 (-1074)).abs
        let bound := (e.eb + 8.0 * u * e.tb) * 1.000001 + Float.scaleB 1.0 (-1000)
        -- the property as stated: a small constant multiple of u·Σ|x| whatever the merge tree
        let literal := (64.0 * u + 12.0 * Float.ofNat e.steps * u * u) * e.sumAbs * 1.000001 + Float.scaleB 1.0 (-1000)
        if err ≤ bound && err > literal then
          (toks, [s!"tree-shape:error({err})>({literal})=(64u+12·steps·u²)·Σ|x|-though-within-the-theorem's-bound({bound});rdepth={e.rdepth}"], 0)
        else
        if err ≤ bound then (toks, [], 0)
        else (toks, [s!"error({err})>bound({bound})=(Eb+8u·Tb);ΣabsX={e.sumAbs};steps={e.steps};rdepth={e.rdepth}"], 0)
    | none => (toks, ["malformed-value"], 0)
  | _ => (toks, ["malformed-query-output"], 0)

partial def kInterp {F : Type} [FloatLike F] [Widen F Float] (toks : List String) (impl : List (List String))
    (st : KRun F) : Option (KRun F) :=
  match toks with
  | [] => some st
  | "E" :: rest => kInterp rest impl { st with stack := KEnt.empty :: st.stack }
  | "a" :: x :: rest => do
      let x ← Codec.dec (α := F) x
      match st.stack with
      | e :: es => kInterp rest impl { st with stack := e.add x :: es }
      | [] => none
  | "x" :: n :: rest => do
      let n ← parseNat? n
      let xs ← (rest.take n).mapM (Codec.dec (α := F))
      match st.stack with
      | e :: es => kInterp (rest.drop n) impl { st with stack := xs.foldl KEnt.add e :: es }
      | [] => none
  | "g" :: id :: seed :: param :: n :: rest => do
      let id ← parseNat? id; let seed ← parseNat? seed; let param ← parseF64? param; let n ← parseNat? n
      match st.stack with
      | e :: es => kInterp rest impl { st with stack := genFeed e (SeqGen.new id seed.toUInt64 param) n :: es }
      | [] => none
  | "F" :: id :: seed :: param :: nreg :: k :: rest => do
      let id ← parseNat? id; let seed ← parseNat? seed; let param ← parseF64? param
      let nreg ← parseNat? nreg; let k ← parseNat? k
      match st.stack with
      | e :: es => kInterp rest impl { st with stack := foldFeed e (SeqGen.new id seed.toUInt64 param) k nreg :: es }
      | [] => none
  | "H" :: id :: seed :: param :: n :: rest => do
      let id ← parseNat? id; let seed ← parseNat? seed; let param ← parseF64? param; let n ← parseNat? n
      match st.stack with
      | e :: es => kInterp rest impl { st with stack := hybridFeed e (SeqGen.new id seed.toUInt64 param) 0 n :: es }
      | [] => none
  | "d" :: rest =>
      match st.stack with
      | e :: es => kInterp rest impl { st with stack := e :: e :: es }
      | [] => none
  | "s" :: rest =>
      match st.stack with
      | a :: b :: es => kInterp rest impl { st with stack := b :: a :: es }
      | _ => none
  | "m" :: rest | "p" :: rest =>
      match st.stack with
      | r :: l :: es => kInterp rest impl { st with stack := l.merge r :: es }
      | _ => none
  | "q" :: rest =>
      match st.stack with
      | e :: _ =>
        let (t, cs, sk) := kQuery e (impl.head?)
        kInterp rest (impl.drop 1) { st with out := st.out ++ [t], prop := st.prop ++ cs, skipped := st.skipped + sk }
      | [] => none
  | "e" :: rest =>
      -- `==` of registers is equality of their values; `KahanSum::from(v)` holds `v`
      match st.stack with
      | b :: a :: _ =>
        let f0 : Kahan F := Kahan.new b.reg.value
        let t : List Tok := [.s (encBool (Cmp.eq a.reg.value b.reg.value)), .s (encBool (Cmp.eq b.reg.value f0.value)),
                             .s (Codec.enc f0.value)]
        kInterp rest (impl.drop 1) { st with out := st.out ++ [t] }
      | _ => none
  | _ => none

/-- `kahan F <program> => sum comp value | …` (one group per query) -/
def kahanOp {F : Type} [FloatLike F] [Widen F Float] (args : List String) : Option OpEval :=
  -- validate the program once (cheaply, without data) by running it; malformed ⇒ BAD
  some {
    run := fun _ impl =>
      match kInterp (F := F) args impl ⟨[], [], [], 0⟩ with
      | some r => { model := joinBar r.out, prop := r.prop, skipped := r.skipped }
      | none => { model := [.s "malformed-program"] } }

/-! `Arithmetic` histories: the two registers (Σx and Σx²) side by side -/

structure AEnt (F : Type) where
  s1 : KEnt F
  s2 : KEnt F

structure ARun (F : Type) where
  stack : List (AEnt F)
  out : List (List Tok)
  prop : List String
  skipped : Nat

def AEnt.add {F : Type} [FloatLike F] (e : AEnt F) (x : F) : AEnt F := ⟨e.s1.add x, e.s2.add (NumOps.mul x x)⟩

def genFeedA {F : Type} [FloatLike F] [Widen F Float] (e : AEnt F) (g : SeqGen) : Nat → AEnt F
  | 0 => e
  | n + 1 =>
    let (x, g') := g.next
    genFeedA (e.add (Widen.down x : F)) g' n

/-- left fold of `nreg` fresh states of `k` generated values each into the long-lived state `acc` -/
def foldFeedA {F : Type} [FloatLike F] [Widen F Float] (acc : AEnt F) (g : SeqGen) (k : Nat) : Nat → AEnt F
  | 0 => acc
  | n + 1 =>
    let rec fill (r : AEnt F) (g : SeqGen) : Nat → AEnt F × SeqGen
      | 0 => (r, g)
      | m + 1 =>
        let (x, g') := g.next
        fill (r.add (Widen.down x : F)) g' m
    let (r, g') := fill (⟨KEnt.empty, KEnt.empty⟩ : AEnt F) g k
    foldFeedA ⟨acc.s1.merge r.s1, acc.s2.merge r.s2⟩ g' k n

partial def aInterp {F : Type} [FloatLike F] [Widen F Float] (toks : List String) (impl : List (List String))
    (st : ARun F) : Option (ARun F) :=
  match toks with
  | [] => some st
  | "E" :: rest => aInterp rest impl { st with stack := ⟨KEnt.empty, KEnt.empty⟩ :: st.stack }
  | "a" :: x :: rest => do
      let x ← Codec.dec (α := F) x
      match st.stack with
      | e :: es => aInterp rest impl { st with stack := e.add x :: es }
      | [] => none
  | "x" :: n :: rest => do
      let n ← parseNat? n
      let xs ← (rest.take n).mapM (Codec.dec (α := F))
      match st.stack with
      | e :: es => aInterp (rest.drop n) impl { st with stack := xs.foldl AEnt.add e :: es }
      | [] => none
  | "G" :: id :: seed :: param :: n :: _batch :: rest => do
      -- `extend` is a sequence of appends whatever the batch size
      let id ← parseNat? id; let seed ← parseNat? seed; let param ← parseF64? param; let n ← parseNat? n
      match st.stack with
      | e :: es => aInterp rest impl { st with stack := genFeedA e (SeqGen.new id seed.toUInt64 param) n :: es }
      | [] => none
  | "L" :: id :: seed :: param :: nreg :: k :: rest => do
      let id ← parseNat? id; let seed ← parseNat? seed; let param ← parseF64? param
      let nreg ← parseNat? nreg; let k ← parseNat? k
      match st.stack with
      | e :: es => aInterp rest impl { st with stack := foldFeedA e (SeqGen.new id seed.toUInt64 param) k nreg :: es }
      | [] => none
  | "d" :: rest =>
      match st.stack with
      | e :: es => aInterp rest impl { st with stack := e :: e :: es }
      | [] => none
  | "s" :: rest =>
      match st.stack with
      | a :: b :: es => aInterp rest impl { st with stack := b :: a :: es }
      | _ => none
  | "m" :: rest | "p" :: rest =>
      match st.stack with
      | r :: l :: es => aInterp rest impl { st with stack := ⟨l.s1.merge r.s1, l.s2.merge r.s2⟩ :: es }
      | _ => none
  | "q" :: rest =>
      match st.stack with
      | e :: _ =>
        let g := impl.head?
        let (t1, c1, k1) := kQuery e.s1 (g.map (·.take 3))
        let (t2, c2, k2) := kQuery e.s2 (g.map (·.drop 3))
        let p1 := c1.map fun m => "sum:" ++ m
        let p2 := c2.map fun m => "sum_sq:" ++ m
        let st' : ARun F := ⟨st.stack, st.out ++ [t1 ++ t2], st.prop ++ p1 ++ p2, st.skipped + k1 + k2⟩
        aInterp rest (impl.drop 1) st'
      | [] => none
  | _ => none

/-- `kahanA F <program> => s c v s2 c2 v2 | …` -/
def kahanAOp {F : Type} [FloatLike F] [Widen F Float] (args : List String) : Option OpEval :=
  some {
    run := fun _ impl =>
      match aInterp (F := F) args impl ⟨[], [], [], 0⟩ with
      | some r => { model := joinBar r.out, prop := r.prop, skipped := r.skipped }
      | none => { model := [.s "malformed-program"] } }

def progOp (op ty : String) (args : List String) : Option OpEval :=
  match op, ty with
  | "kahanA", "f" => kahanAOp (F := Float) args
  | "kahanA", "g" => kahanAOp (F := Float32) args
  | "kahan", "f" => kahanOp (F := Float) args
  | "kahan", "g" => kahanOp (F := Float32) args
  | _, _ => none

end StatsCI.Driver

namespace StatsCI.Driver
open StatsCI

/-! ### C09: the stack machine over every statistics state -/

/-- per-state-type operations of the interpreter -/
structure AccOps (S : Type) where
  obs : Nat
  new : S
  append : S → List String → Option S
  merge : S → S → S
  /-- critical values a query of this state needs -/
  needs : Confidence Float → S → List (CritReq Float)
  /-- query output; the `Float` is the rounding allowance (absolute, on sums) granted by the caller -/
  query : Crit Float → Confidence Float → S → List Tok

structure PEnt (S : Type) where
  st : S
  data : List String   -- observation tokens delivered, in order
  steps : Nat
  rdepth : Nat

def chunksOf (k : Nat) (xs : List String) : List (List String) :=
  if k == 0 then [] else
  let rec go (fuel : Nat) (xs : List String) (acc : List (List String)) : List (List String) :=
    match fuel, xs with
    | 0, _ => acc.reverse
    | _, [] => acc.reverse
    | f + 1, xs => go f (xs.drop k) (xs.take k :: acc)
  go (xs.length + 1) xs []

def feed {S : Type} (ops : AccOps S) (s : S) (obs : List String) : Option S :=
  (chunksOf ops.obs obs).foldlM (fun s o => ops.append s o) s

structure PRun (S : Type) where
  stack : List (PEnt S)
  queried : List (PEnt S)   -- state at each query, in order

partial def pInterp {S : Type} (ops : AccOps S) (toks : List String) (st : PRun S) : Option (PRun S) :=
  match toks with
  | [] => some st
  | "E" :: rest => pInterp ops rest { st with stack := ⟨ops.new, [], 0, 0⟩ :: st.stack }
  | "a" :: rest => do
      let obs := rest.take ops.obs
      match st.stack with
      | e :: es =>
        let s ← ops.append e.st obs
        pInterp ops (rest.drop ops.obs) { st with stack := ⟨s, e.data ++ obs, e.steps + 1, e.rdepth⟩ :: es }
      | [] => none
  | "x" :: n :: rest => do
      let n ← parseNat? n
      let obs := rest.take (n * ops.obs)
      match st.stack with
      | e :: es =>
        let s ← feed ops e.st obs
        pInterp ops (rest.drop (n * ops.obs)) { st with stack := ⟨s, e.data ++ obs, e.steps + n, e.rdepth⟩ :: es }
      | [] => none
  | "f" :: n :: rest => do
      let n ← parseNat? n
      let obs := rest.take (n * ops.obs)
      let s ← feed ops ops.new obs
      pInterp ops (rest.drop (n * ops.obs)) { st with stack := ⟨s, obs, n, 0⟩ :: st.stack }
  | "d" :: rest =>
      match st.stack with
      | e :: es => pInterp ops rest { st with stack := e :: e :: es }
      | [] => none
  | "m" :: rest | "p" :: rest =>
      match st.stack with
      | r :: l :: es =>
        pInterp ops rest { st with stack :=
          -- the delivered observations are kept for the batch oracle; histories that stand for more than 2^22
          -- observations (repeated `s + s`) drop them (only the serde round trip uses such histories)
          let d := if l.data.length + r.data.length > 4194304 then ["!"] else l.data ++ r.data
          ⟨ops.merge l.st r.st, d, l.steps + r.steps + 2, Nat.max l.rdepth (r.rdepth + 1)⟩ :: es }
      | _ => none
  | "q" :: rest =>
      match st.stack with
      | e :: _ => pInterp ops rest { st with queried := st.queried ++ [e] }
      | [] => none
  | _ => none

/-! tolerances granted to "the same up to rounding error" -/

/-- rounding allowances for statistics built from two compensated sums of `ys` accumulated along
    a history with the given `steps` / `rdepth` (closed form of `C08.program_closed`, both histories) -/
structure Allow where
  mean : Float
  sd : Float
  n : Nat
  meanV : Float
  sdV : Float

def allowOf {F : Type} [FloatLike F] (ys : List Float) (steps rdepth : Nat) : Allow :=
  let u := FloatLike.u F
  match exactStats ys with
  | none => ⟨1.0 / 0.0, 1.0 / 0.0, ys.length, 0.0, 0.0⟩
  | some e =>
    if e.n == 0 then ⟨1.0 / 0.0, 1.0 / 0.0, 0, 0.0, 0.0⟩ else
    let n := Float.ofNat e.n
    let c := (12.0 + 10.0 * Float.ofNat (rdepth + 1)) * u + 12.0 * Float.ofNat (steps + e.n + 2) * u * u
    let tolSum := 2.0 * c * e.sumAbsF + 16.0 * u * e.sumAbsF
    let tolSq := 2.0 * c * e.sumSqF + 16.0 * u * e.sumSqF
    let m := e.mean
    let tolMean := tolSum / n
    if e.n < 2 then ⟨tolMean, 1.0 / 0.0, e.n, m, 0.0⟩ else
    let var := e.variance
    let tolVar := (tolSq + 2.0 * m.abs * tolSum + 32.0 * u * e.sumSqF) / (n - 1.0)
    let sd := var.sqrt
    let tolSd := if var > 0.0 && tolVar < var then tolVar / sd + 8.0 * u * sd else (tolVar + var).sqrt
    ⟨tolMean, tolSd, e.n, m, sd⟩

/-- positional comparison of two query outputs of the implementation: integers exactly, floats
    within `tolStat` (statistics group) resp. `tolBound` (interval group) -/
def cmpQuery (tolStats : List Float) (tolBound : Float) (fin bat : List String) : List String :=
  let tolStat := tolStats.foldl (fun m x => if x > m then x else m) 0.0
  let fs := splitBar fin
  let bs := splitBar bat
  let isF (t : String) := t.startsWith "x" || t.startsWith "y"
  let val (t : String) : Float := match parseF64? t with
    | some x => x
    | none => match parseF32? t with
      | some x => x.toFloat
      | none => 0.0 / 0.0
  let cmpGroup (tol : Float) (a b : List String) : Bool :=
    a.length == b.length && (a.zip b).all fun (x, y) =>
      if isF x && isF y then
        let vx := val x; let vy := val y
        (vx.isNaN && vy.isNaN) || vx == vy || (vx - vy).abs ≤ tol
      else x == y
  -- the statistics group: one tolerance per float token, in order
  let cmpStats (a b : List String) : Bool :=
    a.length == b.length &&
    (Id.run do
      let mut ts := tolStats
      let mut ok := true
      for (x, y) in a.zip b do
        if isF x && isF y then
          let t := ts.head?.getD tolStat
          ts := ts.drop 1
          let vx := val x; let vy := val y
          if !((vx.isNaN && vy.isNaN) || vx == vy || (vx - vy).abs ≤ t) then ok := false
        else if x != y then ok := false
      return ok)
  match fs, bs with
  | s1 :: i1 :: _, s2 :: i2 :: _ =>
    (if cmpStats s1 s2 then [] else [s!"statistics-differ-from-batch(tol {tolStat})"]) ++
    (if cmpGroup tolBound i1 i2 then [] else [s!"interval-differs-from-batch(tol {tolBound})"])
  | [i1], [i2] => if cmpGroup tolBound i1 i2 then [] else ["differs-from-batch"]
  | _, _ => ["malformed-query"]

def decF {F : Type} [FloatLike F] (t : String) : Option F := Codec.dec t

def arithOps {F : Type} [FloatLike F] [Widen F Float] : AccOps (Arith F) where
  obs := 1
  new := Arith.empty
  append := fun s o => match o with
    | [t] => (decF (F := F) t).map s.append
    | _ => none
  merge := Arith.merge
  needs := fun conf s => match (s.ciPrep : Outcome (Err Float) (Arith.Prep Float)) with
    | .ok p => [critReq conf p.dof]
    | _ => []
  query := fun crit conf s =>
    let tol := match (s.ciPrep : Outcome (Err Float) (Arith.Prep Float)) with
      | .ok p => boundTol (F := F) p.mean (crit (critReq conf p.dof)) p.sem
      | _ => 0.0
    joinBar [statsToks s, tokOutcome (tokInterval tol) (s.ciMean crit conf : Outcome (Err Float) (Interval F)),
      [.s (Codec.enc s.sum.sum), .s (Codec.enc s.sum.comp), .s (Codec.enc s.sumSq.sum), .s (Codec.enc s.sumSq.comp)]]

def looseInterval {F : Type} [FloatLike F] (rel : Float) (i : Interval F) : List Tok :=
  let t (x : F) := FloatLike.tok x (rel * (FloatLike.toF64 x).abs + Float.scaleB 1.0 (-1060))
  match i with
  | .twoSided a b => [.s "I2", t a, t b]
  | .upper a => [.s "IU", t a]
  | .lower b => [.s "IL", t b]

def outcomeOf {α : Type} (o : Outcome (Err Float) α) (d : α) : α :=
  match o with
  | .ok a => a
  | _ => d

def geoOps {F : Type} [FloatLike F] [Widen F Float] : AccOps (Geometric F) where
  obs := 1
  new := Geometric.empty
  append := fun s o => match o with
    | [t] => (decF (F := F) t).bind fun x => match (s.append x : Outcome (Err Float) (Geometric F)) with
        | .ok s' => some s'
        | _ => none
    | _ => none
  merge := Geometric.merge
  needs := fun conf s => match (s.logs.ciPrep : Outcome (Err Float) (Arith.Prep Float)) with
    | .ok p => [critReq conf p.dof]
    | _ => []
  query := fun crit conf s =>
    joinBar [wstats s.sampleCount s.mean s.sem,
      tokOutcome (looseInterval (64.0 * FloatLike.u F)) (s.ciMean crit conf : Outcome (Err Float) (Interval F))]

def harmOps {F : Type} [FloatLike F] [Widen F Float] : AccOps (Harmonic F) where
  obs := 1
  new := Harmonic.empty
  append := fun s o => match o with
    | [t] => (decF (F := F) t).bind fun x => match (s.append x : Outcome (Err Float) (Harmonic F)) with
        | .ok s' => some s'
        | _ => none
    | _ => none
  merge := Harmonic.merge
  needs := fun conf s => match (s.recip.ciPrep : Outcome (Err Float) (Arith.Prep Float)) with
    | .ok p => [critReq conf.flipped p.dof]
    | _ => []
  query := fun crit conf s =>
    joinBar [wstats s.sampleCount s.mean s.sem,
      tokOutcome (looseInterval (64.0 * FloatLike.u F)) (s.ciMean crit conf : Outcome (Err Float) (Interval F))]

def pairedOps {F : Type} [FloatLike F] [Widen F Float] : AccOps (Paired F) where
  obs := 2
  new := Paired.empty
  append := fun s o => match o with
    | [a, b] => do let a ← decF (F := F) a; let b ← decF (F := F) b; pure (s.appendPair a b)
    | _ => none
  merge := Paired.merge
  needs := fun conf s => match (s.stats.ciPrep : Outcome (Err Float) (Arith.Prep Float)) with
    | .ok p => [critReq conf p.dof]
    | _ => []
  query := fun crit conf s =>
    let tol := match (s.stats.ciPrep : Outcome (Err Float) (Arith.Prep Float)) with
      | .ok p => boundTol (F := F) p.mean (crit (critReq conf p.dof)) p.sem
      | _ => 0.0
    joinBar [wstats s.sampleCount s.mean s.sem,
      tokOutcome (tokInterval tol) (s.ciMean crit conf : Outcome (Err Float) (Interval F))]

def unpairedOps {F : Type} [FloatLike F] [Widen F Float] : AccOps (Unpaired F) where
  obs := 2
  new := Unpaired.empty
  append := fun s o => match o with
    | ["A", x] => (decF (F := F) x).map s.appendA
    | ["B", y] => (decF (F := F) y).map s.appendB
    | _ => none
  merge := Unpaired.merge
  needs := fun conf s => match (s.ciPrep : Outcome (Err Float) (Arith.Prep Float)) with
    | .ok p => [critReq conf p.dof]
    | _ => []
  query := fun crit conf s =>
    let tol := match (s.ciPrep : Outcome (Err Float) (Arith.Prep Float)) with
      | .ok p => boundTol (F := F) p.mean (crit (critReq conf p.dof)) p.sem
      | _ => 0.0
    joinBar [[.s (toString s.a.count), .s (toString s.b.count), relTok s.a.mean, relTok s.b.mean],
      tokOutcome (tokInterval tol) (s.ciMean crit conf : Outcome (Err Float) (Interval F))]

def propAccOps : AccOps Proportion.Stats where
  obs := 1
  new := Proportion.Stats.empty
  append := fun s o => match o with
    | ["T"] => some s.addSuccess
    | ["F"] => some s.addFailure
    | _ => none
  merge := Proportion.Stats.merge
  needs := fun conf _ => zNeed conf
  query := fun crit conf s =>
    joinBar [[.s (toString s.population), .s (toString s.successes)], tokOutcome tokUnitInterval (s.ci crit conf)]

def quantAccOps : AccOps Nat where
  obs := 1
  new := 0
  append := fun s _ => some (s + 1)
  merge := fun a b => a + b
  needs := fun conf _ => zNeed conf
  query := fun crit conf s => tokOutcome tokNatInterval (Quantile.ciIndices crit conf s (0.5 : Float))

/-- inner (transformed) observations of a wrapper, as f64, for the rounding allowance -/
def innerData {F : Type} [FloatLike F] (kind : String) (data : List String) : List (List Float) :=
  let f (t : String) : Option F := Codec.dec t
  let v (x : F) : Float := FloatLike.toF64 x
  match kind with
  | "arith" => [data.filterMap fun t => (f t).map v]
  | "geo" => [data.filterMap fun t => (f t).map fun x => v (Scalar.ln x)]
  | "harm" => [data.filterMap fun t => (f t).map fun x => v (NumOps.div (NumOps.one : F) x)]
  | "paired" => [(chunksOf 2 data).filterMap fun
      | [a, b] => do let a ← f a; let b ← f b; pure (v (NumOps.sub a b))
      | _ => none]
  | "unpaired" =>
      let obs := chunksOf 2 data
      [obs.filterMap fun | ["A", x] => (f x).map v | _ => none,
       obs.filterMap fun | ["B", y] => (f y).map v | _ => none]
  | _ => []

/-- `count F kind d extra => count-after-appends count-after-merge`: a one-observation state doubled `d` times and
    then grown by `extra` observations holds exactly `2^d + extra` of them (the model's counter is a natural number) -/
def bigCountOp (args : List String) : Option OpEval :=
  match args with
  | [_, d, extra] => do
      let d ← parseNat? d; let extra ← parseNat? extra
      let n := 2 ^ d + extra
      pure { run := fun _ impl =>
        let want := [toString n, toString n]
        { model := want.map Tok.s,
          prop := if impl == [want] then [] else [s!"sample-count-differs-from-the-history(expected {n})"] } }
  | _ => none

/-- `prog F <kind> conf <program> => q… | B | batch` -/
def progGeneric {S : Type} {F : Type} [FloatLike F] (ops : AccOps S) (kind : String) (args : List String) :
    Option OpEval := do
  let (conf, prog) ← pConf args
  let r ← pInterp ops prog ⟨[], []⟩
  let fin ← r.stack.head?
  let batch ← feed ops ops.new fin.data
  let states := r.queried.map (·.st) ++ [batch]
  pure {
    needs := states.flatMap (ops.needs conf)
    run := fun crit impl =>
      let qs := (states.map (ops.query crit conf)).map fun q => q ++ [Tok.s "|", Tok.s "hist:same"]
      let nq := r.queried.length
      let model := joinBar (qs.take nq ++ [[Tok.s "B"]] ++ qs.drop nq)
      -- oracle: the final state of the history reports the batch result, up to rounding error
      let groups := impl   -- already split at `|`
      -- locate the `B` marker
      let pre := groups.takeWhile (· != ["B"])
      let post := groups.drop (pre.length + 1)
      let perQ := if nq == 0 then 1 else pre.length / nq
      let lastQ := pre.drop (pre.length - perQ)
      let flat (gs : List (List String)) : List String := " | ".intercalate (gs.map (" ".intercalate ·)) |>.splitOn " "
      let hist := if groups.any (· == ["hist:DIFFERS"]) then ["query-result-depends-on-the-call-history"] else []
      let lastQ := lastQ.filter (fun g => g != ["hist:same"] && g != ["hist:DIFFERS"])
      let post := post.filter (fun g => g != ["hist:same"] && g != ["hist:DIFFERS"])
      let cs := hist ++
        if nq == 0 then [] else
        match kind with
        | "prop" | "quant" =>
          if lastQ == post then [] else ["merged-state-is-not-the-component-wise-sum"]
        | _ =>
          let inner := innerData (F := F) kind fin.data
          let als := inner.map fun ys => allowOf (F := F) ys fin.steps fin.rdepth
          let c := match ops.needs conf batch with
            | rq :: _ => (crit rq).abs
            | [] => 0.0
          let u := FloatLike.u F
          match als with
          | [a] =>
            let n := Float.ofNat a.n
            let hw := c * a.sdV / n.sqrt
            let tolB := a.mean + c * a.sd / n.sqrt + 32.0 * u * (a.meanV.abs + hw)
            let tolM := a.mean + 32.0 * u * a.meanV.abs
            let tolSd := a.sd + 32.0 * u * a.sdV
            let tolVar := 2.0 * a.sdV * tolSd + tolSd * tolSd + 64.0 * u * a.sdV * a.sdV
            let tolS := fmax tolM tolSd
            let (tolSs, tolB) :=
              match kind with
              | "arith" => ([tolM, tolVar, tolSd, tolSd], tolB)
              | "geo" =>
                -- exp amplifies absolute allowances into relative ones
                let top := (a.meanV + hw).exp
                let t := (tolS + 32.0 * u) * top * (1.0 + a.sdV)
                ([t, t], (tolB + 32.0 * u) * top)
              | "harm" =>
                let lowb := fmax (a.meanV.abs - hw) (Float.scaleB 1.0 (-1000))
                let m2 := 1.0 / (a.meanV * a.meanV)
                let t := (tolS * m2 * (1.0 + a.sdV / a.meanV.abs)) + 32.0 * u / a.meanV.abs
                ([t, t], tolB / (lowb * lowb) * 2.0 + 32.0 * u / lowb)
              | _ => ([tolM, tolSd], tolB)
            cmpQuery tolSs tolB (flat (lastQ.take 2)) (flat (post.take 2))
          | [a, b] =>
            let na := Float.ofNat a.n; let nb := Float.ofNat b.n
            let se := (a.sdV * a.sdV / na + b.sdV * b.sdV / nb).sqrt
            let tolSe := if se > 0.0 then (a.sdV * a.sd / na + b.sdV * b.sd / nb) * 2.0 / se + 16.0 * u * se
                         else (a.sd * a.sd / na + b.sd * b.sd / nb).sqrt
            -- the critical values of the two states may differ slightly (different effective dof)
            let cs := (ops.needs conf fin.st ++ ops.needs conf batch).map fun rq => crit rq
            let dc := match cs with
              | [c1, c2] => (c1 - c2).abs
              | _ => 0.0
            let tolB := a.mean + b.mean + c * tolSe + dc * se + 64.0 * u * (a.meanV.abs + b.meanV.abs + c * se)
            cmpQuery [a.mean + 32.0 * u * a.meanV.abs, b.mean + 32.0 * u * b.meanV.abs] tolB (flat lastQ) (flat post)
          | _ => []
      { model := model, prop := cs } }

/-- `par g conf threads nchunks <chunks…> => query of the reduced state` (any reduction tree) -/
def parOp (args : List String) : Option OpEval := do
  let (conf, r) ← pConf args
  let (_threads, r) ← pNat r
  let (nchunks, r) ← pNat r
  let rec chunks (k : Nat) (ts : List String) (acc : List (List Float32)) : Option (List (List Float32)) :=
    match k with
    | 0 => some acc.reverse
    | k + 1 => do
      let (xs, rest) ← pList (α := Float32) ts
      chunks k rest (xs :: acc)
  let cs ← chunks nchunks r []
  let all := cs.flatten
  let batch := Arith.fromList all
  let ops := arithOps (F := Float32)
  pure {
    needs := ops.needs conf batch
    run := fun crit impl =>
      -- the scheduler picks the tree: the model output is the batch state, compared with the
      -- allowance of the deepest tree over these chunks
      let al := allowOf (F := Float32) (all.map Float32.toFloat) (all.length + 2 * nchunks) nchunks
      let c := match ops.needs conf batch with
        | rq :: _ => (crit rq).abs
        | [] => 0.0
      let n := Float.ofNat al.n
      let u := FloatLike.u Float32
      let tolB := al.mean + c * al.sd / n.sqrt + 32.0 * u * (al.meanV.abs + c * al.sdV / n.sqrt)
      let tolS := fmax al.mean al.sd + 32.0 * u * (al.meanV.abs + al.sdV)
      let inf : Float := 1.0 / 0.0
      let statT : List Tok :=
        if batch.count = 0 then statsToks batch else
        [.s (toString batch.count), .g batch.mean tolS, .g batch.variance (2.0 * al.sdV * tolS + tolS * tolS + 64.0 * u * al.sdV * al.sdV),
         .g batch.stdDev tolS, .g batch.sem inf]
      let ciT := tokOutcome (tokInterval (F := Float32) tolB) (batch.ciMean crit conf : Outcome (Err Float) (Interval Float32))
      let regs : List Tok := [.g batch.sum.sum inf, .g batch.sum.comp inf, .g batch.sumSq.sum inf, .g batch.sumSq.comp inf]
      let _ := impl
      { model := joinBar [statT, ciT, regs] } }

def progOp09 (op ty : String) (args : List String) : Option OpEval :=
  match op with
  | "prog" =>
    match args with
    | kind :: rest =>
      match kind, ty with
      | "arith", "f" => progGeneric (F := Float) (arithOps (F := Float)) kind rest
      | "arith", "g" => progGeneric (F := Float32) (arithOps (F := Float32)) kind rest
      | "geo", "f" => progGeneric (F := Float) (geoOps (F := Float)) kind rest
      | "geo", "g" => progGeneric (F := Float32) (geoOps (F := Float32)) kind rest
      | "harm", "f" => progGeneric (F := Float) (harmOps (F := Float)) kind rest
      | "harm", "g" => progGeneric (F := Float32) (harmOps (F := Float32)) kind rest
      | "paired", "f" => progGeneric (F := Float) (pairedOps (F := Float)) kind rest
      | "paired", "g" => progGeneric (F := Float32) (pairedOps (F := Float32)) kind rest
      | "unpaired", "f" => progGeneric (F := Float) (unpairedOps (F := Float)) kind rest
      | "unpaired", "g" => progGeneric (F := Float32) (unpairedOps (F := Float32)) kind rest
      | "prop", _ => progGeneric (F := Float) propAccOps kind rest
      | "quant", _ => progGeneric (F := Float) quantAccOps kind rest
      | _, _ => none
    | [] => none
  | "par" => parOp args
  | "count" => bigCountOp args
  | _ => none

end StatsCI.Driver
