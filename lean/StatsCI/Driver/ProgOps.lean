/-
  StatsCI.Driver.ProgOps — accumulation histories (C08, C09): the postfix stack machine of the
  harness interpreted over the model, with the error budget of theorem `C08.program` evaluated
  along the way and used as the oracle's tolerance.
-/
import StatsCI.Driver.PropOps

namespace StatsCI.Driver
open StatsCI

/-- xorshift64* (same as the harness) -/
def rngNext (s : UInt64) : UInt64 × UInt64 :=
  let x := s
  let x := x ^^^ (x >>> 12)
  let x := x ^^^ (x <<< 25)
  let x := x ^^^ (x >>> 27)
  (x * 0x2545F4914F6CDD1D, x)

def unitOf (r : UInt64) : Float := Float.ofNat (r >>> 11).toNat / 9007199254740992.0

structure SeqGen where
  id : Nat
  state : UInt64
  param : Float
  i : Nat

def SeqGen.new (id : Nat) (seed : UInt64) (param : Float) : SeqGen := ⟨id, seed ||| 1, param, 0⟩

def SeqGen.next (g : SeqGen) : Float × SeqGen :=
  let i := g.i
  match g.id with
  | 0 => (g.param, { g with i := i + 1 })
  | 1 =>
    let (r, s) := rngNext g.state
    ((0.5 + unitOf r) * g.param, { g with state := s, i := i + 1 })
  | 2 =>
    let (r, s) := rngNext g.state
    let u := unitOf r
    let k0 : Int := (((r >>> 3) &&& 63).toNat : Int) - 32
    let k : Int := if k0 < -20 then -20 else if k0 > 20 then 20 else k0
    let sg : Float := if r &&& 1 == 1 then -1.0 else 1.0
    (sg * (0.5 + u) * g.param * Float.scaleB 1.0 k, { g with state := s, i := i + 1 })
  | 3 =>
    match i % 3 with
    | 0 =>
      let (r, s) := rngNext g.state
      let p := (0.5 + unitOf r) * 1048576.0
      (p, { g with state := s, param := p, i := i + 1 })
    | 1 => (-g.param, { g with i := i + 1 })
    | _ => (0.0009765625, { g with i := i + 1 })
  | _ =>
    if i == 0 then (g.param * 16777216.0, { g with i := i + 1 }) else (g.param, { g with i := i + 1 })

/-- a register together with the exact sum of what it was fed and the budgets of `C08.program` -/
structure KEnt (F : Type) where
  reg : Kahan F
  exact : Int        -- Σ data, in units of 2^-1074
  sumAbs : Float
  tb : Float
  eb : Float
  ok : Bool          -- node-wise side condition `Eb ≤ Tb/4`, and all data finite
  steps : Nat
  rdepth : Nat

def KEnt.empty {F : Type} [FloatLike F] : KEnt F := ⟨Kahan.empty, 0, 0.0, 0.0, 0.0, true, 0, 0⟩

def KEnt.add {F : Type} [FloatLike F] (e : KEnt F) (x : F) : KEnt F :=
  let u := FloatLike.u F
  let xv := FloatLike.toF64 x
  let ax := xv.abs
  let tb := e.tb + ax
  let eb := e.eb + 2.0 * u * ax + 9.0 * u * u * tb
  match toDyadic? xv with
  | some m =>
    { reg := e.reg.add x, exact := e.exact + m, sumAbs := e.sumAbs + ax, tb := tb, eb := eb,
      ok := e.ok && eb ≤ tb / 4.0, steps := e.steps + 1, rdepth := e.rdepth }
  | none => { e with reg := e.reg.add x, ok := false }

def KEnt.merge {F : Type} [FloatLike F] (l r : KEnt F) : KEnt F :=
  let u := FloatLike.u F
  let x := r.sumAbs + r.eb + 6.0 * u * r.tb
  let tb := l.tb + x
  let eb := l.eb + r.eb + 6.0 * u * r.tb + 2.0 * u * x + 18.0 * u * u * tb
  { reg := l.reg.merge r.reg, exact := l.exact + r.exact, sumAbs := l.sumAbs + r.sumAbs, tb := tb, eb := eb,
    ok := l.ok && r.ok && eb ≤ tb / 4.0, steps := l.steps + r.steps + 2,
    rdepth := Nat.max l.rdepth (r.rdepth + 1) }

def genFeed {F : Type} [FloatLike F] [Widen F Float] (e : KEnt F) (g : SeqGen) : Nat → KEnt F
  | 0 => e
  | n + 1 =>
    let (x, g') := g.next
    genFeed (e.add (Widen.down x : F)) g' n

structure KRun (F : Type) where
  stack : List (KEnt F)
  out : List (List Tok)
  prop : List String
  skipped : Nat

/-- one query: the register contents (exact comparison) and the error-bound oracle on the
    implementation's own `value()` -/
def kQuery {F : Type} [FloatLike F] (e : KEnt F) (impl : Option (List String)) : List Tok × List String × Nat :=
  let toks : List Tok := [.s (Codec.enc e.reg.sum), .s (Codec.enc e.reg.comp), .s (Codec.enc e.reg.value)]
  let u := FloatLike.u F
  match impl with
  | some [_, _, v] =>
    let vv : Option Float := match parseF64? v with
      | some x => some x
      | none => (parseF32? v).map Float32.toFloat
    match vv with
    | some x =>
      if !e.ok then (toks, [], 1) else
      match toDyadic? x with
      | none => (toks, ["non-finite-sum"], 0)
      | some m =>
        let err := (ratToFloat (m - e.exact) 1 (-1074)).abs
        let bound := (e.eb + 8.0 * u * e.tb) * 1.000001 + Float.scaleB 1.0 (-1000)
        if err ≤ bound then (toks, [], 0)
        else (toks, [s!"error({err})>bound({bound})=(Eb+8u·Tb);ΣabsX={e.sumAbs};steps={e.steps};rdepth={e.rdepth}"], 0)
    | none => (toks, ["malformed-value"], 0)
  | _ => (toks, ["malformed-query-output"], 0)

partial def kInterp {F : Type} [FloatLike F] [Widen F Float] (toks : List String) (impl : List (List String))
    (st : KRun F) : Option (KRun F) :=
  match toks with
  | [] => some st
  | "E" :: rest => kInterp rest impl { st with stack := KEnt.empty :: st.stack }
  | "a" :: x :: rest => do
      let x ← Codec.dec (α := F) x
      match st.stack with
      | e :: es => kInterp rest impl { st with stack := e.add x :: es }
      | [] => none
  | "x" :: n :: rest => do
      let n ← parseNat? n
      let xs ← (rest.take n).mapM (Codec.dec (α := F))
      match st.stack with
      | e :: es => kInterp (rest.drop n) impl { st with stack := xs.foldl KEnt.add e :: es }
      | [] => none
  | "g" :: id :: seed :: param :: n :: rest => do
      let id ← parseNat? id; let seed ← parseNat? seed; let param ← parseF64? param; let n ← parseNat? n
      match st.stack with
      | e :: es => kInterp rest impl { st with stack := genFeed e (SeqGen.new id seed.toUInt64 param) n :: es }
      | [] => none
  | "d" :: rest =>
      match st.stack with
      | e :: es => kInterp rest impl { st with stack := e :: e :: es }
      | [] => none
  | "m" :: rest | "p" :: rest =>
      match st.stack with
      | r :: l :: es => kInterp rest impl { st with stack := l.merge r :: es }
      | _ => none
  | "q" :: rest =>
      match st.stack with
      | e :: _ =>
        let (t, cs, sk) := kQuery e (impl.head?)
        kInterp rest (impl.drop 1) { st with out := st.out ++ [t], prop := st.prop ++ cs, skipped := st.skipped + sk }
      | [] => none
  | _ => none

/-- `kahan F <program> => sum comp value | …` (one group per query) -/
def kahanOp {F : Type} [FloatLike F] [Widen F Float] (args : List String) : Option OpEval :=
  -- validate the program once (cheaply, without data) by running it; malformed ⇒ BAD
  some {
    run := fun _ impl =>
      match kInterp (F := F) args impl ⟨[], [], [], 0⟩ with
      | some r => { model := joinBar r.out, prop := r.prop, skipped := r.skipped }
      | none => { model := [.s "malformed-program"] } }

def progOp (op ty : String) (args : List String) : Option OpEval :=
  match op, ty with
  | "kahan", "f" => kahanOp (F := Float) args
  | "kahan", "g" => kahanOp (F := Float32) args
  | _, _ => none

end StatsCI.Driver
