/-
  StatsCI.Driver.Tok — model outputs as tokens with per-token float tolerances, crit tables.
-/
import StatsCI.Driver.Exact
import StatsCI.Model.Mean
import StatsCI.Model.Comparison
import StatsCI.Model.Proportion
import StatsCI.Model.Quantile
import StatsCI.Model.Program

namespace StatsCI.Driver
open StatsCI

/-- one token of model output -/
inductive Tok where
  /-- compared exactly (float-looking tokens: bit-identical, both NaN, or ±0) -/
  | s (t : String)
  /-- f64 compared within an absolute tolerance -/
  | f (x : Float) (tol : Float)
  /-- f32 compared within an absolute tolerance -/
  | g (x : Float32) (tol : Float)

def Tok.render : Tok → String
  | .s t => t
  | .f x _ => encF64 x
  | .g x _ => encF32 x

/-- (agrees, bit-identical) -/
def Tok.matches (t : Tok) (impl : String) : Bool × Bool :=
  match t with
  | .s m => tokEq 0 m impl
  | .f x tol =>
    match parseF64? impl with
    | none => (false, false)
    | some y =>
      if x.toBits == y.toBits then (true, true)
      else if x.isNaN && y.isNaN then (true, false)
      else if x.isNaN || y.isNaN then (false, false)
      else if x == y then (true, false)
      else (decide ((x - y).abs ≤ tol), false)
  | .g x tol =>
    match parseF32? impl with
    | none => (false, false)
    | some y =>
      if x.toBits == y.toBits then (true, true)
      else if x.isNaN && y.isNaN then (true, false)
      else if x.isNaN || y.isNaN then (false, false)
      else if x == y then (true, false)
      else (decide ((x.toFloat - y.toFloat).abs ≤ tol), false)

def toksMatch : List Tok → List String → Bool × Bool
  | [], [] => (true, true)
  | t :: ts, i :: is =>
      let (e, x) := t.matches i
      let (e', x') := toksMatch ts is
      (e && e', x && x')
  | _, _ => (false, false)

/-- floats of the data type: unit roundoff, conversion to f64, tolerant token -/
class FloatLike (F : Type) extends Scalar F, Codec F where
  u : Float
  toF64 : F → Float
  tok : F → Float → Tok
  tag : String

instance : FloatLike Float where
  u := Float.scaleB 1.0 (-53)
  toF64 := id
  tok := Tok.f
  tag := "f"

instance : FloatLike Float32 where
  u := Float.scaleB 1.0 (-24)
  toF64 := Float32.toFloat
  tok := Tok.g
  tag := "g"

/-- split the implementation's tokens at `|` -/
def splitBar (ts : List String) : List (List String) :=
  let rec go : List String → List String → List (List String) → List (List String)
    | [], cur, acc => (cur.reverse :: acc).reverse
    | "|" :: rest, cur, acc => go rest [] (cur.reverse :: acc)
    | t :: rest, cur, acc => go rest (t :: cur) acc
  go ts [] []

def joinBar (gs : List (List Tok)) : List Tok :=
  match gs with
  | [] => []
  | g :: rest => rest.foldl (fun acc h => acc ++ [Tok.s "|"] ++ h) g

/-! ### critical values -/

def critKey : CritReq Float → String
  | .t dof p => "t " ++ encF64 dof ++ " " ++ encF64 p
  | .z p => "z " ++ encF64 p

abbrev CritTable := List (String × Float)

/-- the external quantile routine as supplied by the harness for this request line -/
def critOf (tbl : CritTable) : Crit Float := fun req =>
  match tbl.lookup (critKey req) with
  | some v => v
  | none => 0.0 / 0.0

/-- interval outcome with tolerant bounds; `scale` is the magnitude the bounds were computed from -/
def tokInterval {F : Type} [FloatLike F] (tol : Float) : Interval F → List Tok
  | .twoSided a b => [.s "I2", FloatLike.tok a tol, FloatLike.tok b tol]
  | .upper a => [.s "IU", FloatLike.tok a tol]
  | .lower b => [.s "IL", FloatLike.tok b tol]

def tokErr : Err Float → List Tok
  | .tooFewSuccesses k n x => [.s "err", .s "TooFewSuccesses", .s (toString k), .s (toString n), .f x (1.0 / 0.0)]
  | .tooFewFailures k n x => [.s "err", .s "TooFewFailures", .s (toString k), .s (toString n), .f x (1.0 / 0.0)]
  | .indexError x n => [.s "err", .s "IndexError", .f x (1.0 / 0.0), .s (toString n)]
  | e => (encErr e).map Tok.s

/-- the model's panic tags as the classes the harness reports -/
def canonPanic (t : String) : String :=
  if t == "partial_cmp unwrap" then "sort"
  else if t == "index out of bounds" then "other"
  else t

def tokOutcome {α : Type} (f : α → List Tok) : Outcome (Err Float) α → List Tok
  | .ok a => .s "ok" :: f a
  | .err e => tokErr e
  | .panic t => [.s "panic", .s (canonPanic t)]

/-- parse an implementation outcome `ok I2 a b | ok IU a | ok IL b` -/
def pImplInterval {F : Type} [Codec F] (ts : List String) : Option (Interval F) :=
  match ts with
  | "ok" :: rest => (pInterval (α := F) rest).map (·.1)
  | _ => none

end StatsCI.Driver
