/-
  StatsCI.Driver.RefDist — reference CDFs (Student t, standard normal) in f64, used only to
  validate the external quantile routine (C06). Independent of statrs: regularised incomplete beta
  by a continued fraction (modified Lentz), log-gamma by Lanczos / Stirling, erfc by series and
  continued fraction. Cross-checked in `selfCheck` against the closed forms for ν = 1, 2.
-/
import StatsCI.Driver.Codec

namespace StatsCI.Driver.RefDist

def pi : Float := 3.141592653589793

/-- Lanczos approximation (g = 7, 9 coefficients), z > 0 -/
def lgammaLanczos (z : Float) : Float :=
  let c : Array Float := #[0.99999999999980993, 676.5203681218851, -1259.1392167224028,
    771.32342877765313, -176.61502916214059, 12.507343278686905, -0.13857109526572012,
    9.9843695780195716e-6, 1.5056327351493116e-7]
  let z := z - 1.0
  let x := Id.run do
    let mut x := c[0]!
    for i in [1:9] do
      x := x + c[i]! / (z + Float.ofNat i)
    return x
  let t := z + 7.5
  0.5 * (2.0 * pi).log + (z + 0.5) * t.log - t + x.log

/-- log1p with a series for small arguments -/
def log1p (x : Float) : Float :=
  if x.abs < 1e-4 then x - x * x / 2.0 + x * x * x / 3.0 - x * x * x * x / 4.0 else (1.0 + x).log

/-- Stirling correction series 1/(12z) − 1/(360z³) + 1/(1260z⁵) − 1/(1680z⁷) -/
def stirlingTail (z : Float) : Float :=
  let z2 := z * z
  (1.0 / 12.0 - (1.0 / 360.0 - (1.0 / 1260.0 - 1.0 / (1680.0 * z2)) / z2) / z2) / z

/-- ln B(a, b) = lnΓ(a) + lnΓ(b) − lnΓ(a+b), stable for a large argument (Stirling differences) -/
def lbeta (a b : Float) : Float :=
  let (a, b) := if a < b then (b, a) else (a, b)   -- a ≥ b
  if a < 40.0 then lgammaLanczos a + lgammaLanczos b - lgammaLanczos (a + b)
  else
    -- lnΓ(a) − lnΓ(a+b) by Stirling, without cancellation
    let s := a + b
    let d := (a - 0.5) * (-(log1p (b / a))) - b * s.log + b + stirlingTail a - stirlingTail s
    d + lgammaLanczos b

/-- continued fraction of the incomplete beta function (modified Lentz) -/
def betacf (a b x : Float) : Float := Id.run do
  let tiny := 1e-300
  let qab := a + b; let qap := a + 1.0; let qam := a - 1.0
  let mut c := 1.0
  let mut d := 1.0 - qab * x / qap
  if d.abs < tiny then d := tiny
  d := 1.0 / d
  let mut h := d
  for m in [1:600] do
    let mf := Float.ofNat m
    let m2 := 2.0 * mf
    let aa := mf * (b - mf) * x / ((qam + m2) * (a + m2))
    d := 1.0 + aa * d
    if d.abs < tiny then d := tiny
    c := 1.0 + aa / c
    if c.abs < tiny then c := tiny
    d := 1.0 / d
    h := h * d * c
    let aa := -(a + mf) * (qab + mf) * x / ((a + m2) * (qap + m2))
    d := 1.0 + aa * d
    if d.abs < tiny then d := tiny
    c := 1.0 + aa / c
    if c.abs < tiny then c := tiny
    d := 1.0 / d
    let del := d * c
    h := h * del
    if (del - 1.0).abs < 1e-16 then break
  return h

/-- regularised incomplete beta I_x(a, b); `xc = 1 − x` is supplied to avoid cancellation -/
def betaiC (a b x xc : Float) : Float :=
  if x ≤ 0.0 then 0.0 else if xc ≤ 0.0 then 1.0 else
  let front := (a * x.log + b * xc.log - lbeta a b).exp
  if x < (a + 1.0) / (a + b + 2.0) then front * betacf a b x / a
  else 1.0 - front * betacf b a xc / b

/-- Student-t CDF with ν degrees of freedom -/
def tCdf (nu t : Float) : Float :=
  if t.isNaN || nu.isNaN then 0.0 / 0.0 else
  if t == 0.0 then 0.5 else
  let t2 := t * t
  let x := nu / (nu + t2)      -- = 1 − y
  let y := t2 / (nu + t2)
  -- upper tail P(T > |t|) = ½ I_x(ν/2, ½)
  let tail := 0.5 * betaiC (nu / 2.0) 0.5 x y
  if t > 0.0 then 1.0 - tail else tail

/-- the upper tail P(T > t) for t ≥ 0 (no cancellation near 1) -/
def tTail (nu t : Float) : Float :=
  let t2 := t * t
  0.5 * betaiC (nu / 2.0) 0.5 (nu / (nu + t2)) (t2 / (nu + t2))

/-- erfc(x) for x ≥ 0 -/
def erfcPos (x : Float) : Float :=
  if x < 2.5 then
    -- erf by the all-positive series 2/√π e^{-x²} Σ 2^n x^{2n+1}/(2n+1)!!
    let s := Id.run do
      let mut term := x
      let mut sum := x
      for n in [1:200] do
        term := term * 2.0 * x * x / (2.0 * Float.ofNat n + 1.0)
        sum := sum + term
        if term < 1e-18 * sum then break
      return sum
    1.0 - 2.0 / pi.sqrt * (-(x * x)).exp * s
  else
    -- continued fraction erfc(x) = e^{-x²}/(x√π) · 1/(1+ 1/(2x²)/(1+2/(2x²)/(1+…)))
    let f := Id.run do
      let mut f := 0.0
      for k in [0:120] do
        let kk := Float.ofNat (120 - k)
        f := kk / 2.0 / (x + f)
      return f
    (-(x * x)).exp / pi.sqrt / (x + f)

/-- standard normal upper tail P(Z > z) -/
def normTail (z : Float) : Float :=
  let s := (2.0 : Float).sqrt
  if z ≥ 0.0 then 0.5 * erfcPos (z / s) else 1.0 - 0.5 * erfcPos (-z / s)

def normCdf (z : Float) : Float := normTail (-z)

/-- closed forms: ν = 1 (Cauchy) needs atan, which Lean's Float has; ν = 2 is algebraic -/
def tCdf1 (t : Float) : Float := 0.5 + t.atan / pi
def tCdf2 (t : Float) : Float := 0.5 + t / (2.0 * (2.0 + t * t).sqrt)

/-- worst disagreement with the closed forms on a grid -/
def selfCheck : Float := Id.run do
  let mut worst := 0.0
  for i in [0:200] do
    let t := (Float.ofNat i - 100.0) / 12.5
    let d1 := (tCdf 1.0 t - tCdf1 t).abs
    let d2 := (tCdf 2.0 t - tCdf2 t).abs
    if d1 > worst then worst := d1
    if d2 > worst then worst := d2
  return worst

end StatsCI.Driver.RefDist
