/-
  StatsCI.Driver.CoverOps — C12: exact binomial coverage of the implementation's intervals.
  The probability is summed over all outcomes k (not sampled); the binomial weights are evaluated
  in f64 by a log-space recurrence (relative error ≈ n·2^-52, far below the documented slacks).
-/
import StatsCI.Driver.RelOps

namespace StatsCI.Driver
open StatsCI

/-- Bin(n, p) probabilities for k = 0..n -/
def binomPmf (n : Nat) (p : Float) : Array Float := Id.run do
  let lp := p.log
  let lq := (1.0 - p).log
  let mut logw := Float.ofNat n * lq
  let mut out : Array Float := Array.mkEmpty (n + 1)
  out := out.push logw.exp
  for k in [0:n] do
    logw := logw + (Float.ofNat (n - k) / Float.ofNat (k + 1)).log + lp - lq
    out := out.push logw.exp
  return out

/-- documented slack (spec/slack.json): at a point p of the region n·p, n·(1−p) ≥ 10 the coverage may
    fall at most `a(L)/√(n p (1−p)) + 0.005` below the nominal level (the oscillation of the coverage of
    a lattice statistic scales with the lattice spacing 1/√(n p (1−p)), not with 1/√n) -/
def slackA (level : Float) : Float :=
  if level ≤ 0.81 then 0.23 else if level ≤ 0.91 then 0.125 else if level ≤ 0.951 then 0.08 else 0.027

def slackAt (level : Float) (n : Nat) (p : Float) : Float :=
  slackA level / (Float.ofNat n * p * (1.0 - p)).sqrt + 0.005

/-- documented tolerance on the mean coverage over p -/
def slackMean (_twoSided : Bool) (_n : Nat) : Float := 0.004

structure CoverStat where
  mean : Float
  min : Float
  argmin : Float
  points : Nat
  /-- the point with the largest excess of the shortfall over its allowance (and that excess) -/
  worstExcess : Float := -1.0
  worstAt : Float := 0.0
  worstCov : Float := 0.0

/-- coverage of a family of intervals (indexed by the outcome k) over a grid of p -/
def coverage (n : Nat) (grid : Nat) (cover : Nat → Float → Bool)
    (allow : Float → Float := fun _ => 0.0) (level : Float := 0.0) : CoverStat := Id.run do
  let mut sum := 0.0
  let mut cnt := 0
  let mut mn := 2.0
  let mut arg := 0.0
  let mut wex := -1.0
  let mut wat := 0.0
  let mut wcov := 0.0
  for j in [1:grid] do
    let p := Float.ofNat j / Float.ofNat grid
    if Float.ofNat n * p ≥ 10.0 && Float.ofNat n * (1.0 - p) ≥ 10.0 then
      let w := binomPmf n p
      let mut c := 0.0
      for k in [0:n+1] do
        if cover k p then c := c + w[k]!
      sum := sum + c
      cnt := cnt + 1
      if c < mn then
        mn := c
        arg := p
      let ex := (level - c) - allow p
      if ex > wex then
        wex := ex
        wat := p
        wcov := c
  return ⟨if cnt == 0 then 0.0 / 0.0 else sum / Float.ofNat cnt, mn, arg, cnt, wex, wat, wcov⟩

def pairsOf : List String → List (String × String)
  | a :: b :: rest => (a, b) :: pairsOf rest
  | _ => []

/-- `cover p conf n => lo_0 hi_0 … lo_n hi_n` (`- -` where the call is rejected) -/
def coverOp (ratio : Bool) (args : List String) : Option OpEval := do
  let (conf, r) ← pConf args
  let (n, _) ← pNat r
  pure {
    needs := zNeed conf
    run := fun crit impl =>
      let model : List Tok := (List.range (n + 1)).flatMap fun k =>
        match (if ratio then Proportion.ciWilsonRatio crit conf n (Float.ofNat k / Float.ofNat n)
               else Proportion.ci crit conf n k) with
        | .ok (.twoSided a b) => [Tok.f a (16.0 * eps53), Tok.f b (16.0 * eps53)]
        | _ => [.s "-", .s "-"]
      let ivs : Array (Option (Float × Float)) := ((pairsOf (impl.head?.getD [])).map fun (a, b) =>
        match parseF64? a, parseF64? b with
        | some x, some y => some (x, y)
        | _, _ => none).toArray
      let level := conf.level
      let two := match conf with
        | .twoSided _ => true
        | _ => false
      let grid := if n ≤ 400 then 2000 else if n ≤ 1000 then 1000 else 400
      let st := coverage n grid (fun k p =>
        match ivs[k]? with
        | some (some (lo, hi)) => lo ≤ p && p ≤ hi
        | _ => false) (slackAt level n) level
      let cs :=
        if st.points == 0 then [] else
        -- the mean is taken over the grid points of the region; it needs a region, not a point
        (if st.points < 100 || (st.mean - level).abs ≤ slackMean two n then []
         else [s!"mean-coverage({st.mean})-not-within-{slackMean two n}-of-nominal({level})"]) ++
        (if st.worstExcess ≤ 0.0 then []
         else [s!"coverage({st.worstCov})-at-p={st.worstAt}-more-than-{slackAt level n st.worstAt}-below-nominal({level})"])
      { model := model, prop := cs,
        info := [s!"cover n={n} kind={kindOfConf conf} level={level} mean={st.mean} min={st.min} at={st.argmin} points={st.points}"] } }

/-- n-dependent slack for the distribution-free coverage of quantile intervals -/
def qSlack (level : Float) (n : Nat) (q : Float) : Float :=
  let a := if level ≤ 0.81 then 0.50 else if level ≤ 0.91 then 0.45 else if level ≤ 0.951 then 0.42 else 0.30
  a / (Float.ofNat n * q * (1.0 - q)).sqrt + 0.005

/-- `qcover n conf n G => lo hi …` for q = j/G, j = 1..G-1 -/
def qcoverOp (args : List String) : Option OpEval := do
  let (conf, r) ← pConf args
  let (n, r) ← pNat r
  let (g, _) ← pNat r
  pure {
    needs := zNeed conf
    run := fun crit impl =>
      let model : List Tok := (List.range (g - 1)).flatMap fun j =>
        let q := Float.ofNat (j + 1) / Float.ofNat g
        match Quantile.ciIndices crit conf n q with
        | .ok (.twoSided a b) => [Tok.s (toString a), .s (toString b)]
        | .ok (.upper a) => [.s (toString a), .s "-"]
        | .ok (.lower b) => [.s "-", .s (toString b)]
        | _ => [.s "x", .s "x"]
      let level := conf.level
      let prs := (pairsOf (impl.head?.getD [])).toArray
      let (cs, sum, cnt, worst, worstScaled) := Id.run do
        let mut cs : List String := []
        let mut sum := 0.0
        let mut cnt := 0
        let mut worst := 0.0
        let mut worstScaled := 0.0
        for j in [0:g-1] do
          let q := Float.ofNat (j + 1) / Float.ofNat g
          match prs[j]? with
          | some (a, b) =>
            if a == "x" then continue
            let w := binomPmf n q
            let lo := (parseNat? a).map (· + 1) |>.getD 0          -- B ≥ lo + 1
            let hi := (parseNat? b).getD n                          -- B ≤ hi
            let mut c := 0.0
            for bb in [lo:hi+1] do
              c := c + (w[bb]?.getD 0.0)
            sum := sum + c
            cnt := cnt + 1
            let short := level - c
            if short > worst then worst := short
            let sc := (short - 0.005) * (Float.ofNat n * q * (1.0 - q)).sqrt
            if sc > worstScaled then worstScaled := sc
            if short > qSlack level n q then
              cs := cs ++ [s!"quantile-coverage({c})-at-q={q}-more-than-{qSlack level n q}-below-nominal({level})"]
          | none => pure ()
        return (cs.take 3, sum, cnt, worst, worstScaled)
      let mean := if cnt == 0 then 0.0 / 0.0 else sum / Float.ofNat cnt
      let meanBad := if cnt == 0 || n < 100 then [] else
        if (mean - level).abs ≤ 0.025 then [] else [s!"mean-quantile-coverage({mean})-not-within-0.025-of-nominal({level})"]
      { model := model, prop := cs ++ meanBad,
        info := [s!"qcover n={n} kind={kindOfConf conf} level={level} mean={mean} worst_shortfall={worst} worst_scaled={worstScaled} points={cnt}"] } }

def coverOps (op ty : String) (args : List String) : Option OpEval :=
  match op, ty with
  | "cover", "p" => coverOp false args
  | "cover", "r" => coverOp true args
  | "cover", "b" => coverOp false args
  | "qcover", "n" => qcoverOp args
  | "qcover2", "n" => qcoverOp args
  | _, _ => none

end StatsCI.Driver
