/-
  StatsCI.Driver.Exact — exact (dyadic / rational) reference statistics of float inputs, used
  only by the property oracles: "the true mean and variance of the data".
-/
import StatsCI.Driver.Codec

namespace StatsCI.Driver

/-- a finite f64 as an integer multiple of 2^-1074 -/
def toDyadic? (x : Float) : Option Int :=
  if !x.isFinite then none else
  let b := x.toBits
  let neg := b >>> 63 == 1
  let e := ((b >>> 52) &&& 0x7ff).toNat
  let f := (b &&& 0xfffffffffffff).toNat
  let m : Nat := if e == 0 then f else (2 ^ 52 + f) * 2 ^ (e - 1)
  some (if neg then - (m : Int) else (m : Int))

/-- `num / den · 2^e2` as the nearest-ish f64 (relative error ≤ 2^-52) -/
def ratToFloat (num : Int) (den : Nat) (e2 : Int) : Float :=
  if den == 0 then 0.0 / 0.0 else
  if num == 0 then 0.0 else
  let a := num.natAbs
  let bn : Int := Nat.log2 a
  let bd : Int := Nat.log2 den
  let s : Int := 66 - (bn - bd)
  let q : Nat := if s ≥ 0 then (a <<< s.toNat) / den else a / (den <<< (-s).toNat)
  let r := Float.scaleB (Float.ofNat q) (e2 - s)
  if num < 0 then -r else r

/-- dyadic rationals `m · 2^e` (exact arithmetic on float values) -/
structure Dy where
  m : Int
  e : Int
  deriving Repr

namespace Dy
def ofInt (i : Int) : Dy := ⟨i, 0⟩
def ofFloat? (x : Float) : Option Dy := (toDyadic? x).map fun m => ⟨m, -1074⟩
def norm (a : Dy) : Dy :=
  if a.m == 0 then ⟨0, 0⟩ else
  -- strip up to 1100 trailing zero bits to keep the numbers small
  let rec go (m : Int) (e : Int) (fuel : Nat) : Dy :=
    match fuel with
    | 0 => ⟨m, e⟩
    | fuel + 1 => if m % 2 == 0 then go (m / 2) (e + 1) fuel else ⟨m, e⟩
  go a.m a.e 1100
def mul (a b : Dy) : Dy := ⟨a.m * b.m, a.e + b.e⟩
def align (a b : Dy) : Int × Int × Int :=
  if a.e ≤ b.e then (a.m, b.m * (2 : Int) ^ (b.e - a.e).toNat, a.e)
  else (a.m * (2 : Int) ^ (a.e - b.e).toNat, b.m, b.e)
def add (a b : Dy) : Dy := let (x, y, e) := align a b; ⟨x + y, e⟩
def sub (a b : Dy) : Dy := let (x, y, e) := align a b; ⟨x - y, e⟩
def toFloat (a : Dy) : Float := ratToFloat a.m 1 a.e
end Dy

/-- exact statistics of a finite sample: everything as integers over the common scale 2^-1074 -/
structure ExactStats where
  n : Nat
  /-- Σ m_i with x_i = m_i · 2^-1074 -/
  s : Int
  /-- Σ m_i² -/
  q : Nat
  /-- Σ |m_i| -/
  a : Nat
  deriving Repr

def exactStats (xs : List Float) : Option ExactStats := do
  let ms ← xs.mapM toDyadic?
  pure { n := ms.length, s := ms.foldl (· + ·) 0, q := ms.foldl (fun acc m => acc + m.natAbs * m.natAbs) 0,
         a := ms.foldl (fun acc m => acc + m.natAbs) 0 }

namespace ExactStats
def mean (e : ExactStats) : Float := ratToFloat e.s e.n (-1074)
/-- mean absolute value Σ|x|/n -/
def meanAbs (e : ExactStats) : Float := ratToFloat e.a e.n (-1074)
def sumF (e : ExactStats) : Float := ratToFloat e.s 1 (-1074)
def sumAbsF (e : ExactStats) : Float := ratToFloat e.a 1 (-1074)
def sumSqF (e : ExactStats) : Float := ratToFloat e.q 1 (-2148)
/-- n·Σx² − (Σx)² ≥ 0 -/
def varNum (e : ExactStats) : Int := (e.n : Int) * e.q - e.s * e.s
/-- (n−1)-denominator variance -/
def variance (e : ExactStats) : Float := ratToFloat e.varNum (e.n * (e.n - 1)) (-2148)
/-- cancellation factor of the one-pass formula: Σx² / ((n−1)·s²) -/
def kappa (e : ExactStats) : Float :=
  if e.varNum == 0 then 1.0 / 0.0 else ratToFloat ((e.q : Int) * e.n) e.varNum.natAbs 0
end ExactStats

end StatsCI.Driver
