/-
  StatsCI.Driver — line-protocol driver (compiled, Mathlib-free).

  stdin : one request per line,
            `<property> <entry> <type> <args…> => <implementation's output> [|| <critical values>]`
  mode `need`: per line, the requests to the external quantile routine (`-` if none)
  mode `eval`: one line per request that does not check (`DIFF`, `PROP`, `BAD`) and a final `SUMMARY`.
-/
import StatsCI.Driver.IntervalOps
import StatsCI.Driver.StatOps
import StatsCI.Driver.ConfOps
import StatsCI.Driver.PropOps
import StatsCI.Driver.ProgOps
import StatsCI.Driver.RelOps
import StatsCI.Driver.CoverOps
import StatsCI.Driver.CritOps
import StatsCI.Driver.SerdeOps

namespace StatsCI.Driver
open StatsCI

/-- C11: an `Ok` interval has no NaN bound and its lower bound is not above its upper bound; the
    only panics are the documented ones -/
def saneGroup (allowPanic : List String) (g : List String) : List String :=
  let val (t : String) : Option Float :=
    match parseF64? t with
    | some x => some x
    | none => match parseF32? t with
      | some x => some x.toFloat
      | none => (parseNat? t).map Float.ofNat
  match g with
  | ["ok", "I2", a, b] =>
    (match val a, val b with
     | some x, some y =>
       (if x.isNaN || y.isNaN then ["Ok-with-NaN-bound"] else []) ++
       (if x > y then ["Ok-with-lower-above-upper"] else [])
     | _, _ => [])
  | ["ok", "IU", a] | ["ok", "IL", a] =>
    (match val a with
     | some x => if x.isNaN then ["Ok-with-NaN-bound"] else []
     | none => [])
  | "panic" :: c :: _ => if allowPanic.contains c then [] else [s!"undocumented-panic({c})"]
  | _ => []

def expectWrap (cls innerOp : String) (ev : OpEval) : OpEval :=
  { needs := ev.needs
    run := fun crit impl =>
      let v := ev.run crit impl
      let allow := if innerOp == "qci" then ["sort", "capacity"] else if innerOp == "wilson" then ["stats_new"]
                   else if innerOp == "relto" then ["relative_to"] else []
      let sane := impl.flatMap (saneGroup allow)
      let first := impl.head?.getD []
      let c := outcomeClass first
      let clsBad :=
        match cls with
        | "sane" => if c == "ok" then [] else [s!"valid-input-rejected({c})"]
        | "sane-or-InvalidInputData" => if c == "ok" || c == "InvalidInputData" then [] else [s!"unexpected-outcome({c})"]
        | other => if c == other then [] else [s!"expected-{other}-got-{c}"]
      { model := v.model, prop := clsBad ++ sane, skipped := 0 } }

mutual
/-- evaluate one request; `none` = the line is malformed -/
partial def evalLine (prop op : String) (args : List String) : Option OpEval :=
  if op == "expect" then
    match args with
    | ty :: cls :: innerOp :: rest => (evalLine0 prop innerOp (ty :: rest)).map (expectWrap cls innerOp)
    | _ => none
  else evalLine0 prop op args

partial def evalLine0 (prop op : String) (args : List String) : Option OpEval :=
  match args with
  | [] => none
  | ty :: rest =>
    match prop with
    | "C07" | "C13" | "C14" | "C15" | "C19" =>
        (intervalOp op ty rest).map fun m => { run := fun _ _ => { model := m.map Tok.s } }
    | "C18" => (confOp op rest).map fun m => { run := fun _ _ => { model := m.map Tok.s } }
    | _ =>
      match statOp op ty rest with
      | some e => some e
      | none =>
        match propOp op ty rest with
        | some e => some e
        | none =>
          match progOp op ty rest with
          | some e => some e
          | none =>
            match progOp09 op ty rest with
            | some e => some e
            | none =>
              match relOps op ty rest with
              | some e => some e
              | none =>
                match coverOps op ty rest with
                | some e => some e
                | none =>
                  match critOps op ty rest with
                  | some e => some e
                  | none =>
                    match serOps op ty rest with
                    | some e => some e
                    | none =>
                      -- interval operations reached from another property (C11: documented panics of `relative_to`)
                      (intervalOp op ty rest).map fun m => { run := fun _ _ => { model := m.map Tok.s } }

end

def splitAt (sep : String) (toks : List String) : List String × List String :=
  let pre := toks.takeWhile (· != sep)
  (pre, toks.drop (pre.length + 1))

structure Stats where
  total : Nat := 0
  ok : Nat := 0
  bitExact : Nat := 0
  diff : Nat := 0
  prop : Nat := 0
  bad : Nat := 0
  skipped : Nat := 0

def tokenize (line : String) : List String :=
  (line.trimAscii.toString.splitOn " ").filter (· != "")

partial def evalLoop (h : IO.FS.Stream) (st : Stats) (lineNo : Nat) : IO Stats := do
  let line ← h.getLine
  if line.isEmpty then return st
  let toks := tokenize line
  let short := (line.trimAscii.toString.take 400).toString
  match toks with
  | [] => evalLoop h st (lineNo + 1)
  | prop :: op :: rest =>
    let (main, critToks) := splitAt "||" rest
    let (args, impl) := splitAt "=>" main
    match evalLine prop op args with
    | none =>
        IO.println s!"BAD {lineNo} :: {short}"
        evalLoop h { st with total := st.total + 1, bad := st.bad + 1 } (lineNo + 1)
    | some ev =>
        let vals := critToks.filterMap parseF64?
        let tbl : CritTable := (ev.needs.map critKey).zip vals
        let v := ev.run (critOf tbl) (splitBar impl)
        let (e, x) := toksMatch v.model impl
        let mut st := { st with total := st.total + 1, skipped := st.skipped + v.skipped }
        for i in v.info do
          IO.println s!"INFO {lineNo} {i}"
        if !v.prop.isEmpty then
          IO.println s!"PROP {lineNo} {" ".intercalate v.prop} :: {short}"
          st := { st with prop := st.prop + 1 }
        if e then
          st := { st with ok := st.ok + 1, bitExact := st.bitExact + (if x then 1 else 0) }
        else
          let m := (" ".intercalate (v.model.map Tok.render)).take 400
          IO.println s!"DIFF {lineNo} model=[{m}] :: {short}"
          st := { st with diff := st.diff + 1 }
        evalLoop h st (lineNo + 1)
  | _ =>
    IO.println s!"BAD {lineNo} :: {short}"
    evalLoop h { st with total := st.total + 1, bad := st.bad + 1 } (lineNo + 1)

partial def needLoop (h : IO.FS.Stream) : IO Unit := do
  let line ← h.getLine
  if line.isEmpty then return
  let toks := tokenize line
  match toks with
  | prop :: op :: rest =>
    let (main, _) := splitAt "||" rest
    let (args, _) := splitAt "=>" main
    match evalLine prop op args with
    | some ev =>
      if ev.needs.isEmpty then IO.println "-"
      else IO.println (" ; ".intercalate (ev.needs.map critKey))
    | none => IO.println "-"
  | _ => IO.println "-"
  needLoop h

end StatsCI.Driver

open StatsCI.Driver in
def main (args : List String) : IO UInt32 := do
  let stdin ← IO.getStdin
  match args with
  | ["need"] => needLoop stdin; return 0
  | _ =>
    let sc := RefDist.selfCheck
    IO.println s!"INFO 0 refdist_selfcheck={sc}"
    if !(sc ≤ 1e-13) then IO.println "BAD 0 reference CDF self-check failed"
    let st ← evalLoop stdin {} 1
    IO.println s!"SUMMARY total={st.total} ok={st.ok} bitexact={st.bitExact} diff={st.diff} prop={st.prop} bad={st.bad} oracle_skipped={st.skipped}"
    return 0
