/-
  StatsCI.Driver — line-protocol driver (compiled, Mathlib-free).

  stdin : one request per line,  `<property> <entry> <type> <args…> => <implementation's output>`
  stdout: one line per request that does not check (`DIFF`, `PROP`, `BAD`) and a final `SUMMARY`.
-/
import StatsCI.Driver.IntervalOps

namespace StatsCI.Driver
open StatsCI

structure Verdict where
  /-- model output (tokens) -/
  model : List String
  /-- admissible distance for float tokens, in units in the last place -/
  ulps : Nat := 0
  /-- property-oracle complaints about the implementation's own output -/
  prop : List String := []

/-- evaluate one request; `none` = the line is malformed -/
def evalLine (prop op : String) (args impl : List String) : Option Verdict :=
  let _ := impl
  match prop with
  | "C07" | "C13" | "C14" | "C15" | "C19" =>
      match args with
      | ty :: rest => (intervalOp op ty rest).map fun m => { model := m }
      | [] => none
  | _ => none

def splitArrow (toks : List String) : List String × List String :=
  let pre := toks.takeWhile (· != "=>")
  (pre, (toks.drop (pre.length + 1)))

structure Stats where
  total : Nat := 0
  ok : Nat := 0
  bitExact : Nat := 0
  diff : Nat := 0
  prop : Nat := 0
  bad : Nat := 0

partial def loop (h : IO.FS.Stream) (st : Stats) (lineNo : Nat) : IO Stats := do
  let line ← h.getLine
  if line.isEmpty then return st
  let toks := (line.trimAscii.toString.splitOn " ").filter (· != "")
  match toks with
  | [] => loop h st (lineNo + 1)
  | prop :: op :: rest =>
    let (args, impl) := splitArrow rest
    match evalLine prop op args impl with
    | none =>
        IO.println s!"BAD {lineNo} :: {line.trimAscii}"
        loop h { st with total := st.total + 1, bad := st.bad + 1 } (lineNo + 1)
    | some v =>
        let (e, x) := toksEq v.ulps v.model impl
        let mut st := { st with total := st.total + 1 }
        if !v.prop.isEmpty then
          IO.println s!"PROP {lineNo} {" ".intercalate v.prop} :: {line.trimAscii}"
          st := { st with prop := st.prop + 1 }
        if e then
          st := { st with ok := st.ok + 1, bitExact := st.bitExact + (if x then 1 else 0) }
        else
          IO.println s!"DIFF {lineNo} model=[{" ".intercalate v.model}] :: {line.trimAscii}"
          st := { st with diff := st.diff + 1 }
        loop h st (lineNo + 1)
  | _ =>
    IO.println s!"BAD {lineNo} :: {line.trimAscii}"
    loop h { st with total := st.total + 1, bad := st.bad + 1 } (lineNo + 1)

end StatsCI.Driver

open StatsCI.Driver in
def main (_args : List String) : IO UInt32 := do
  let stdin ← IO.getStdin
  let st ← loop stdin {} 1
  IO.println s!"SUMMARY total={st.total} ok={st.ok} bitexact={st.bitExact} diff={st.diff} prop={st.prop} bad={st.bad}"
  return 0
