/-
  StatsCI.Model.Comparison — model of `src/comparison.rs`: `Paired`, `Unpaired`.
-/
import StatsCI.Model.Mean

namespace StatsCI
open NumOps Scalar

/-- `Paired<T> { stats }`: arithmetic statistics of the differences `a_i - b_i` -/
structure Paired (F : Type) where
  stats : Arith F
  deriving Repr, Inhabited

namespace Paired
variable {F W : Type} [Scalar F] [Scalar W] [Widen F W]

def empty : Paired F := ⟨Arith.empty⟩

/-- `append_pair(a, b)` -/
def appendPair (p : Paired F) (a b : F) : Paired F := ⟨p.stats.append (sub a b)⟩

/-- `extend_tuple(iter)` -/
def extendTuple (p : Paired F) (xs : List (F × F)) : Paired F :=
  xs.foldl (fun p ab => p.appendPair ab.1 ab.2) p

/-- `extend(data_a, data_b)`: appends the common prefix; unequal lengths give
    `DifferentSampleSizes(len_a, len_b)`. Second component: the state left behind. -/
def extendAux : Paired F → Nat → List F → List F → Outcome (Err W) (Paired F) × Paired F
  | p, _, [], [] => (.ok p, p)
  | p, c, [], _ :: ys => (.err (.differentSampleSizes c (c + 1 + ys.length)), p)
  | p, c, _ :: xs, [] => (.err (.differentSampleSizes (c + 1 + xs.length) c), p)
  | p, c, x :: xs, y :: ys => extendAux (p.appendPair x y) (c + 1) xs ys

def extend (p : Paired F) (as bs : List F) : Outcome (Err W) (Paired F) × Paired F :=
  extendAux p 0 as bs

def merge (a b : Paired F) : Paired F := ⟨a.stats.merge b.stats⟩
def sampleCount (p : Paired F) : Nat := p.stats.count
def mean (p : Paired F) : F := p.stats.mean
def sem (p : Paired F) : F := p.stats.sem

def ciMean (crit : Crit W) (p : Paired F) (conf : Confidence W) : Outcome (Err W) (Interval F) :=
  p.stats.ciMean crit conf

/-- `Paired::ci(confidence, data_a, data_b)` -/
def ci (crit : Crit W) (conf : Confidence W) (as bs : List F) : Outcome (Err W) (Interval F) :=
  ((extend empty as bs).1 : Outcome (Err W) (Paired F)).bind fun p => p.ciMean crit conf

end Paired

/-- `Unpaired<T> { stats_a, stats_b }` -/
structure Unpaired (F : Type) where
  a : Arith F
  b : Arith F
  deriving Repr, Inhabited

namespace Unpaired
variable {F W : Type} [Scalar F] [Scalar W] [Widen F W]

def empty : Unpaired F := ⟨Arith.empty, Arith.empty⟩
def new (a b : Arith F) : Unpaired F := ⟨a, b⟩
def appendA (u : Unpaired F) (x : F) : Unpaired F := { u with a := u.a.append x }
def appendB (u : Unpaired F) (y : F) : Unpaired F := { u with b := u.b.append y }
def appendPair (u : Unpaired F) (x y : F) : Unpaired F := (u.appendA x).appendB y
def extendA (u : Unpaired F) (xs : List F) : Unpaired F := { u with a := u.a.extend xs }
def extendB (u : Unpaired F) (ys : List F) : Unpaired F := { u with b := u.b.extend ys }
def extend (u : Unpaired F) (xs ys : List F) : Unpaired F := (u.extendA xs).extendB ys
def fromLists (xs ys : List F) : Unpaired F := (empty.extendA xs).extendB ys
def merge (u v : Unpaired F) : Unpaired F := ⟨u.a.merge v.a, u.b.merge v.b⟩

/-- the documented effective degrees of freedom, in the crate's operation order:
    `S*S / (A*A/(na+1) + B*B/(nb+1)) - 1 - 1` with `A = sa²/na`, `B = sb²/nb`, `S = A + B` -/
def effectiveDof (sa2na sb2nb na nb : F) : F :=
  let s := add sa2na sb2nb
  sub (sub (div (mul s s)
      (add (div (mul sa2na sa2na) (add na one)) (div (mul sb2nb sb2nb) (add nb one)))) one) one

/-- the lower bound `min(na, nb) - 1` the crate applies to the computed effective degrees of freedom
    (`if dof < dof_min { dof_min } else { dof }`: a NaN passes through) -/
def clampDof (dof na nb : F) : F :=
  let dofMin := sub (fmin na nb) one
  if lt dof dofMin then dofMin else dof

/-- guards and statistics of `Unpaired::ci_mean`, computed in `F` and widened, except for the effective
    number of degrees of freedom, which is computed in `W` -/
def ciPrep (u : Unpaired F) : Outcome (Err W) (Arith.Prep W) :=
  if u.a.count < 2 then .err (.tooFewSamples u.a.count) else
  if u.b.count < 2 then .err (.tooFewSamples u.b.count) else
  let na : F := Scalar.ofNat u.a.count
  let nb : F := Scalar.ofNat u.b.count
  let sdA := u.a.stdDev
  let sdB := u.b.stdDev
  let meanDiff := sub u.a.mean u.b.mean
  let sa2na := div (mul sdA sdA) na
  let sb2nb := div (mul sdB sdB) nb
  let sumS2n := add sa2na sb2nb
  let sem := sqrt sumS2n
  -- the effective dof is computed in the wide type (`f64`) from the widened variance terms and counts
  let dof : W := clampDof (effectiveDof (Widen.up sa2na) (Widen.up sb2nb) (Widen.up na) (Widen.up nb))
    (Widen.up na) (Widen.up nb)
  if !(isFinite meanDiff) || !(isFinite sem) then .err .invalidInputData else
  .ok ⟨Widen.up meanDiff, Widen.up sem, dof⟩

def ciMean (crit : Crit W) (u : Unpaired F) (conf : Confidence W) : Outcome (Err W) (Interval F) :=
  (ciPrep u : Outcome (Err W) (Arith.Prep W)).bind fun p =>
  (intervalBounds crit conf p.mean p.sem p.dof).bind fun b =>
  intervalOfKind conf (Widen.down b.1 : F) (Widen.down b.2 : F)

def ci (crit : Crit W) (conf : Confidence W) (xs ys : List F) : Outcome (Err W) (Interval F) :=
  (fromLists xs ys).ciMean crit conf

end Unpaired
end StatsCI
