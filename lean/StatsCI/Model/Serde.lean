/-
  StatsCI.Model.Serde — model of the derived `Serialize` / `Deserialize` implementations
  (feature `serde`): the value tree serde produces for a `Confidence`, an `Interval` and every
  incremental statistics state, and the inverse.

  Conventions of the derives (externally tagged enums, structs as maps):
    Confidence::TwoSided(l)      ↦ {"TwoSided": l}
    Interval::TwoSided(a, b)     ↦ {"TwoSided": [a, b]}      Interval::UpperOneSided(a) ↦ {"UpperOneSided": a}
    KahanSum { sum, compensation }, Arithmetic { sum, sum_sq, count }, Harmonic { recip_space },
    Geometric { log_space }, Paired { stats }, Unpaired { stats_a, stats_b },
    proportion::Stats { population, successes }
-/
import StatsCI.Model.Comparison
import StatsCI.Model.Proportion

namespace StatsCI

/-- a self-describing value tree (what `serde_json::Value` / `toml::Value` hold) -/
inductive Tree (α : Type) where
  | num (x : α)
  | nat (n : Nat)
  | arr (xs : List (Tree α))
  | obj (fields : List (String × Tree α))
  deriving Repr, Inhabited

namespace Serde
variable {α : Type}

/-- field lookup by name (maps are unordered for the deserializer) -/
def field (fs : List (String × Tree α)) (name : String) : Option (Tree α) :=
  (fs.find? (fun kv => kv.1 == name)).map (·.2)

def encConfidence : Confidence α → Tree α
  | .twoSided l => .obj [("TwoSided", .num l)]
  | .upper l => .obj [("UpperOneSided", .num l)]
  | .lower l => .obj [("LowerOneSided", .num l)]

def decConfidence : Tree α → Option (Confidence α)
  | .obj [("TwoSided", .num l)] => some (.twoSided l)
  | .obj [("UpperOneSided", .num l)] => some (.upper l)
  | .obj [("LowerOneSided", .num l)] => some (.lower l)
  | _ => none

def encInterval : Interval α → Tree α
  | .twoSided a b => .obj [("TwoSided", .arr [.num a, .num b])]
  | .upper a => .obj [("UpperOneSided", .num a)]
  | .lower b => .obj [("LowerOneSided", .num b)]

def decInterval : Tree α → Option (Interval α)
  | .obj [("TwoSided", .arr [.num a, .num b])] => some (.twoSided a b)
  | .obj [("UpperOneSided", .num a)] => some (.upper a)
  | .obj [("LowerOneSided", .num b)] => some (.lower b)
  | _ => none

def encKahan (k : Kahan α) : Tree α := .obj [("sum", .num k.sum), ("compensation", .num k.comp)]

def decKahan : Tree α → Option (Kahan α)
  | .obj fs =>
    match field fs "sum", field fs "compensation" with
    | some (.num s), some (.num c) => some ⟨s, c⟩
    | _, _ => none
  | _ => none

def encArith (a : Arith α) : Tree α :=
  .obj [("sum", encKahan a.sum), ("sum_sq", encKahan a.sumSq), ("count", .nat a.count)]

def decArith : Tree α → Option (Arith α)
  | .obj fs =>
    match field fs "sum", field fs "sum_sq", field fs "count" with
    | some s, some q, some (.nat n) =>
      match decKahan s, decKahan q with
      | some s, some q => some ⟨s, q, n⟩
      | _, _ => none
    | _, _, _ => none
  | _ => none

def encHarmonic (h : Harmonic α) : Tree α := .obj [("recip_space", encArith h.recip)]
def decHarmonic : Tree α → Option (Harmonic α)
  | .obj fs => (field fs "recip_space").bind fun t => (decArith t).map fun a => ⟨a⟩
  | _ => none

def encGeometric (g : Geometric α) : Tree α := .obj [("log_space", encArith g.logs)]
def decGeometric : Tree α → Option (Geometric α)
  | .obj fs => (field fs "log_space").bind fun t => (decArith t).map fun a => ⟨a⟩
  | _ => none

def encPaired (p : Paired α) : Tree α := .obj [("stats", encArith p.stats)]
def decPaired : Tree α → Option (Paired α)
  | .obj fs => (field fs "stats").bind fun t => (decArith t).map fun a => ⟨a⟩
  | _ => none

def encUnpaired (u : Unpaired α) : Tree α := .obj [("stats_a", encArith u.a), ("stats_b", encArith u.b)]
def decUnpaired : Tree α → Option (Unpaired α)
  | .obj fs =>
    match field fs "stats_a", field fs "stats_b" with
    | some a, some b =>
      match decArith a, decArith b with
      | some a, some b => some ⟨a, b⟩
      | _, _ => none
    | _, _ => none
  | _ => none

def encPropStats (s : Proportion.Stats) : Tree α :=
  .obj [("population", .nat s.population), ("successes", .nat s.successes)]
def decPropStats : Tree α → Option Proportion.Stats
  | .obj fs =>
    match field fs "population", field fs "successes" with
    | some (.nat n), some (.nat k) => some ⟨n, k⟩
    | _, _ => none
  | _ => none

end Serde
end StatsCI
