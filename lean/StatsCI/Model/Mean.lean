/-
  StatsCI.Model.Mean — model of `src/mean.rs`: `Arithmetic`, `Harmonic`, `Geometric`.
  `F` is the data type (`f32`/`f64`), `W` is `f64`.
-/
import StatsCI.Model.Kahan
import StatsCI.Model.Interval
import StatsCI.Model.Stats

namespace StatsCI
open NumOps Scalar

/-- `Arithmetic<F> { sum, sum_sq, count }` -/
structure Arith (F : Type) where
  sum : Kahan F
  sumSq : Kahan F
  count : Nat
  deriving Repr, Inhabited

/-- constructor of the result interval from the confidence kind (shared tail of every `ci_mean`) -/
def intervalOfKind {W F : Type} [Cmp F] (conf : Confidence W) (lo hi : F) :
    Outcome (Err W) (Interval F) :=
  match conf with
  | .twoSided _ => liftI (Interval.new lo hi)
  | .upper _ => .ok (Interval.newUpper lo)
  | .lower _ => .ok (Interval.newLower hi)

namespace Arith
variable {F W : Type} [Scalar F]

/-- `Default` / `new()` -/
def empty : Arith F := ⟨Kahan.empty, Kahan.empty, 0⟩

/-- `append(x)`: `sum += x; sum_sq += x * x; count += 1` -/
def append (a : Arith F) (x : F) : Arith F :=
  ⟨a.sum.add x, a.sumSq.add (mul x x), a.count + 1⟩

/-- `extend(data)` -/
def extend (a : Arith F) (xs : List F) : Arith F := xs.foldl append a

/-- `from_iter(data)` -/
def fromList (xs : List F) : Arith F := extend empty xs

/-- `add` / `+` / `+=` -/
def merge (a b : Arith F) : Arith F :=
  ⟨a.sum.merge b.sum, a.sumSq.merge b.sumSq, a.count + b.count⟩

/-- `sample_count()` -/
def sampleCount (a : Arith F) : Nat := a.count

/-- `sample_mean()`: `sum.value() / count` -/
def mean (a : Arith F) : F := div a.sum.value (Scalar.ofNat a.count)

/-- `sample_variance()`: `(sum_sq - mean * sum) / (count - 1)`, clamped at zero.
    `none` is the `usize` underflow of `count - 1` on the empty state (overflow checks on). -/
def variance? (a : Arith F) : Option F :=
  if a.count = 0 then none else
  let v := div (sub a.sumSq.value (mul a.mean a.sum.value)) (Scalar.ofNat (a.count - 1))
  some (if lt v (zero : F) then zero else v)

/-- `sample_variance()` on a non-empty state -/
def variance (a : Arith F) : F :=
  let v := div (sub a.sumSq.value (mul a.mean a.sum.value)) (Scalar.ofNat (a.count - 1))
  if lt v (zero : F) then zero else v

/-- `sample_std_dev()` -/
def stdDev (a : Arith F) : F := sqrt a.variance

/-- `sample_sem()`: `std_dev / sqrt(count - 1)` -/
def sem (a : Arith F) : F := div a.stdDev (sqrt (Scalar.ofNat (a.count - 1)))

variable [Scalar W] [Widen F W]

/-- what `ci_mean` hands to `interval_bounds` -/
structure Prep (W : Type) where
  mean : W
  sem : W
  dof : W
  deriving Repr

/-- guards and statistics of `ci_mean`, up to the call of `interval_bounds` -/
def ciPrep (a : Arith F) : Outcome (Err W) (Prep W) :=
  if a.count < 2 then .err (.tooFewSamples a.count) else
  let n : W := Scalar.ofNat a.count
  let mean : W := Widen.up a.mean
  let sd : W := Widen.up a.stdDev
  if !(isFinite mean) || !(isFinite sd) then .err .invalidInputData else
  .ok ⟨mean, div sd (sqrt n), sub n one⟩

/-- `ci_mean(confidence)` -/
def ciMean (crit : Crit W) (a : Arith F) (conf : Confidence W) : Outcome (Err W) (Interval F) :=
  (ciPrep a : Outcome (Err W) (Prep W)).bind fun p =>
  (intervalBounds crit conf p.mean p.sem p.dof).bind fun b =>
  intervalOfKind conf (Widen.down b.1 : F) (Widen.down b.2 : F)

/-- `Arithmetic::ci(confidence, data)` -/
def ci (crit : Crit W) (conf : Confidence W) (xs : List F) : Outcome (Err W) (Interval F) :=
  ciMean crit (fromList xs) conf

end Arith

/-- `Harmonic<F> { recip_space }` -/
structure Harmonic (F : Type) where
  recip : Arith F
  deriving Repr, Inhabited

namespace Harmonic
variable {F W : Type} [Scalar F] [Scalar W] [Widen F W]

def empty : Harmonic F := ⟨Arith.empty⟩

/-- `append(x)`: rejects `x <= 0` with `NonPositiveValue(x)`, leaving the state unchanged -/
def append (h : Harmonic F) (x : F) : Outcome (Err W) (Harmonic F) :=
  if le x (zero : F) then .err (.nonPositiveValue (Widen.up x))
  else .ok ⟨h.recip.append (div one x)⟩

/-- `extend(data)`: stops at the first rejected value; the second component is the state left behind -/
def extend : Harmonic F → List F → Outcome (Err W) (Harmonic F) × Harmonic F
  | h, [] => (.ok h, h)
  | h, x :: xs =>
    match (append h x : Outcome (Err W) (Harmonic F)) with
    | .ok h' => extend h' xs
    | .err e => (.err e, h)
    | .panic t => (.panic t, h)

def fromList (xs : List F) : Outcome (Err W) (Harmonic F) := (extend (W := W) empty xs).1

def merge (a b : Harmonic F) : Harmonic F := ⟨a.recip.merge b.recip⟩
def sampleCount (h : Harmonic F) : Nat := h.recip.count

/-- `sample_mean()`: `1 / mean(1/x)` -/
def mean (h : Harmonic F) : F := div one h.recip.mean

/-- `sample_sem()`: `H * H * sd(1/x) / sqrt(n - 1)` -/
def sem (h : Harmonic F) : F :=
  let m := h.mean
  div (mul (mul m m) h.recip.stdDev) (sqrt (Scalar.ofNat (h.recip.count - 1)))

/-- reciprocal of a reciprocal-space bound; the part of the reciprocal-space interval at or below
    zero corresponds to no harmonic mean, so `1/r` is read as `+∞` there -/
def recipBound (r : F) : F := if gt r (zero : F) then div one r else posInf

/-- `ci_mean`: arithmetic CI of the reciprocals at the flipped confidence, ends exchanged -/
def ciMean (crit : Crit W) (h : Harmonic F) (conf : Confidence W) : Outcome (Err W) (Interval F) :=
  (h.recip.ciMean crit conf.flipped).bind fun ci =>
  let ext : Extremes F := ⟨negInf, posInf⟩
  let lo := recipBound (@Interval.highX F ext ci)
  let hi := recipBound (@Interval.lowX F ext ci)
  intervalOfKind conf lo hi

def ci (crit : Crit W) (conf : Confidence W) (xs : List F) : Outcome (Err W) (Interval F) :=
  (fromList xs : Outcome (Err W) (Harmonic F)).bind fun h => h.ciMean crit conf

end Harmonic

/-- `Geometric<F> { log_space }` -/
structure Geometric (F : Type) where
  logs : Arith F
  deriving Repr, Inhabited

namespace Geometric
variable {F W : Type} [Scalar F] [Scalar W] [Widen F W]

def empty : Geometric F := ⟨Arith.empty⟩

/-- `append(x)`: rejects `x <= 0` with `NonPositiveValue(x)`, leaving the state unchanged -/
def append (g : Geometric F) (x : F) : Outcome (Err W) (Geometric F) :=
  if le x (zero : F) then .err (.nonPositiveValue (Widen.up x))
  else .ok ⟨g.logs.append (ln x)⟩

def extend : Geometric F → List F → Outcome (Err W) (Geometric F) × Geometric F
  | g, [] => (.ok g, g)
  | g, x :: xs =>
    match (append g x : Outcome (Err W) (Geometric F)) with
    | .ok g' => extend g' xs
    | .err e => (.err e, g)
    | .panic t => (.panic t, g)

def fromList (xs : List F) : Outcome (Err W) (Geometric F) := (extend (W := W) empty xs).1

def merge (a b : Geometric F) : Geometric F := ⟨a.logs.merge b.logs⟩
def sampleCount (g : Geometric F) : Nat := g.logs.count

/-- `sample_mean()`: `exp(mean(ln x))` -/
def mean (g : Geometric F) : F := exp g.logs.mean

/-- `sample_sem()`: `G * sd(ln x) / sqrt(n - 1)` -/
def sem (g : Geometric F) : F :=
  div (mul g.mean g.logs.stdDev) (sqrt (Scalar.ofNat (g.logs.count - 1)))

/-- `ci_mean`: `exp` of the arithmetic CI of the logarithms -/
def ciMean (crit : Crit W) (g : Geometric F) (conf : Confidence W) : Outcome (Err W) (Interval F) :=
  (g.logs.ciMean crit conf).bind fun ci =>
  let ext : Extremes F := ⟨negInf, posInf⟩
  let lo := exp (@Interval.lowX F ext ci)
  let hi := exp (@Interval.highX F ext ci)
  intervalOfKind conf lo hi

def ci (crit : Crit W) (conf : Confidence W) (xs : List F) : Outcome (Err W) (Interval F) :=
  (fromList xs : Outcome (Err W) (Geometric F)).bind fun g => g.ciMean crit conf

end Geometric
end StatsCI
