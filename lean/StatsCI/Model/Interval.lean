/-
  StatsCI.Model.Interval — model of `src/interval.rs`, function by function.
-/
import StatsCI.Model.Basic

namespace StatsCI

/-- `Interval<T>`: `[lo, hi]`, `[lo, +∞)`, `(-∞, hi]` -/
inductive Interval (α : Type) where
  | twoSided (lo hi : α)
  | upper (lo : α)
  | lower (hi : α)
  deriving Repr, Inhabited, DecidableEq

/-- `MIN`/`MAX` of a primitive integer type, `±∞` of a float type: the stand-ins for a missing side -/
class Extremes (α : Type) where
  minValue : α
  maxValue : α

/-- `core::ops::Bound<&T>` -/
inductive Bound (α : Type) where
  | included (x : α)
  | excluded (x : α)
  | unbounded
  deriving Repr, DecidableEq

namespace Interval
variable {α : Type}

section cmp
variable [Cmp α]

/-- `Interval::new`: rejects `low > high` -/
def new (lo hi : α) : Except IntervalError (Interval α) :=
  if gt lo hi then .error .invalidBounds else .ok (.twoSided lo hi)

def newUpper (lo : α) : Interval α := .upper lo
def newLower (hi : α) : Interval α := .lower hi

def isTwoSided : Interval α → Bool
  | .twoSided _ _ => true
  | _ => false
def isOneSided (i : Interval α) : Bool := !i.isTwoSided
def isUpper : Interval α → Bool
  | .upper _ => true
  | _ => false
def isLower : Interval α → Bool
  | .lower _ => true
  | _ => false

/-- `contains` -/
def contains (i : Interval α) (x : α) : Bool :=
  match i with
  | .twoSided lo hi => le lo x && le x hi
  | .upper lo => le lo x
  | .lower hi => le x hi

/-- `intersects` -/
def intersects (a b : Interval α) : Bool :=
  match a, b with
  | .upper _, .upper _ => true
  | .lower _, .lower _ => true
  | .upper x, .lower y => le x y
  | .upper x, .twoSided _ y => le x y
  | .lower x, .upper y => le y x
  | .lower x, .twoSided y _ => le y x
  | .twoSided _ y, .upper z => le z y
  | .twoSided x _, .lower z => le x z
  | .twoSided x y, .twoSided a b => le x b && le a y

/-- `includes` -/
def includes (a b : Interval α) : Bool :=
  match a, b with
  | .upper x, .upper y => le x y
  | .lower x, .lower y => ge x y
  | .upper x, .twoSided y _ => le x y
  | .lower x, .twoSided _ y => ge x y
  | .twoSided x y, .twoSided a b => le x a && le b y
  | .upper _, .lower _ => false
  | .lower _, .upper _ => false
  | .twoSided _ _, .upper _ => false
  | .twoSided _ _, .lower _ => false

def isIncludedIn (a b : Interval α) : Bool := b.includes a

/-- `left` / `low` / `low_as_ref` -/
def left : Interval α → Option α
  | .upper x => some x
  | .twoSided x _ => some x
  | .lower _ => none

/-- `right` / `high` / `high_as_ref` -/
def right : Interval α → Option α
  | .lower x => some x
  | .twoSided _ x => some x
  | .upper _ => none

def low (i : Interval α) : Option α := i.left
def high (i : Interval α) : Option α := i.right

def isDegenerate : Interval α → Bool
  | .twoSided x y => eq x y
  | _ => false

/-- derived `PartialEq` -/
def beq (a b : Interval α) : Bool :=
  match a, b with
  | .twoSided x y, .twoSided u v => eq x u && eq y v
  | .upper x, .upper u => eq x u
  | .lower x, .lower u => eq x u
  | _, _ => false

/-- `TryFrom<(T, T)>` -/
def tryFromPair (p : α × α) : Except IntervalError (Interval α) :=
  if le p.1 p.2 then new p.1 p.2 else .error .invalidBounds

/-- `TryFrom<(Option<T>, Option<T>)>` -/
def tryFromOptPair : Option α × Option α → Except IntervalError (Interval α)
  | (some lo, some hi) => new lo hi
  | (some lo, none) => .ok (newUpper lo)
  | (none, some hi) => .ok (newLower hi)
  | (none, none) => .error .emptyInterval

/-- `From<Interval<T>> for (Option<T>, Option<T>)` -/
def toOptPair : Interval α → Option α × Option α
  | .twoSided lo hi => (some lo, some hi)
  | .upper lo => (some lo, none)
  | .lower hi => (none, some hi)

/-- `TryFrom<RangeInclusive<T>>` -/
def tryFromRangeInclusive (start stop : α) : Except IntervalError (Interval α) := new start stop
/-- `From<RangeFrom<T>>` -/
def fromRangeFrom (start : α) : Interval α := newUpper start
/-- `From<RangeToInclusive<T>>` -/
def fromRangeToInclusive (stop : α) : Interval α := newLower stop

/-- `RangeBounds::start_bound` -/
def startBound (i : Interval α) : Bound α :=
  match i.left with
  | some lo => .included lo
  | none => .unbounded

/-- `RangeBounds::end_bound` -/
def endBound (i : Interval α) : Bound α :=
  match i.right with
  | some hi => .included hi
  | none => .unbounded

/-- the provided method `RangeBounds::contains` of core, applied to our bounds -/
def rangeContains (i : Interval α) (x : α) : Bool :=
  (match i.startBound with
   | .included s => le s x
   | .excluded s => lt s x
   | .unbounded => true)
  &&
  (match i.endBound with
   | .included e => le x e
   | .excluded e => lt x e
   | .unbounded => true)

/-- `PartialOrd::partial_cmp` -/
def partialCmp (a b : Interval α) : Option Ordering :=
  if beq a b then some .eq else
  match a, b with
  | .upper lo, .lower hi => if ge lo hi then some .gt else none
  | .upper lo, .twoSided _ hi =>
      if ge lo hi then some .gt else none
  | .twoSided lo _, .lower hi =>
      if ge lo hi then some .gt else none
  | .twoSided lo h1, .twoSided l2 hi =>
      if ge lo hi then some .gt
      else if ge l2 h1 then some .lt else none
  | .lower hi, .upper lo => if ge lo hi then some .lt else none
  | .lower hi, .twoSided lo _ => if ge lo hi then some .lt else none
  | .twoSided _ hi, .upper lo => if ge lo hi then some .lt else none
  | .upper _, .upper _ => none
  | .lower _, .lower _ => none

/-- operators `<`, `<=`, `>`, `>=` as core derives them from `partial_cmp` -/
def ltI (a b : Interval α) : Bool := partialCmp a b == some .lt
def leI (a b : Interval α) : Bool :=
  match partialCmp a b with
  | some .lt => true
  | some .eq => true
  | _ => false
def gtI (a b : Interval α) : Bool := partialCmp a b == some .gt
def geI (a b : Interval α) : Bool :=
  match partialCmp a b with
  | some .gt => true
  | some .eq => true
  | _ => false

/-- `approx::{AbsDiffEq, RelativeEq, UlpsEq}` for intervals, parametric in the element predicate -/
def approxEq (e : α → α → Bool) (a b : Interval α) : Bool :=
  match a, b with
  | .twoSided x y, .twoSided u v => e x u && e y v
  | .upper x, .upper u => e x u
  | .lower y, .lower v => e y v
  | _, _ => false

end cmp

/-- `Display`, parametric in the element formatting -/
def display (fmt : α → String) : Interval α → String
  | .twoSided lo hi => "[" ++ fmt lo ++ ", " ++ fmt hi ++ "]"
  | .upper lo => "[" ++ fmt lo ++ ",->)"
  | .lower hi => "(<-," ++ fmt hi ++ "]"

/-- item fed to the hasher: the discriminant written by `Hash` (an `i32`) or an element -/
inductive HashItem (α : Type) where
  | tag (n : Nat)
  | elem (x : α)
  deriving Repr, DecidableEq

/-- `Hash::hash`: the exact sequence of items fed to the hasher -/
def hashSeq : Interval α → List (HashItem α)
  | .twoSided lo hi => [.tag 0, .elem lo, .elem hi]
  | .upper lo => [.tag 1, .elem lo]
  | .lower hi => [.tag 2, .elem hi]

/-- `Clone::clone` -/
def clone : Interval α → Interval α
  | .twoSided lo hi => .twoSided lo hi
  | .upper lo => .upper lo
  | .lower hi => .lower hi

section extremes
variable [Extremes α]
/-- `low_f` / `low_i` / `low_u` -/
def lowX : Interval α → α
  | .twoSided lo _ => lo
  | .upper lo => lo
  | .lower _ => Extremes.minValue
/-- `high_f` / `high_i` / `high_u` -/
def highX : Interval α → α
  | .twoSided _ hi => hi
  | .upper _ => Extremes.maxValue
  | .lower hi => hi
/-- `From<Interval<x>> for (x, x)` -/
def toPair : Interval α → α × α
  | .twoSided lo hi => (lo, hi)
  | .upper lo => (lo, Extremes.maxValue)
  | .lower hi => (Extremes.minValue, hi)
end extremes

section num
variable [NumOps α]
open NumOps

/-- private `applied`: kind-preserving map of the bounds -/
def applied (i : Interval α) (fLow fHigh : α → α) : Interval α :=
  match i with
  | .twoSided lo hi => .twoSided (fLow lo) (fHigh hi)
  | .lower hi => .lower (fHigh hi)
  | .upper lo => .upper (fLow lo)

def appliedBoth (i : Interval α) (f : α → α) : Interval α := i.applied f f

/-- order-reversing map of the bounds: mirrors the interval -/
def appliedFlipped (i : Interval α) (f : α → α) : Interval α :=
  match i with
  | .twoSided lo hi => .twoSided (f hi) (f lo)
  | .lower hi => .upper (f hi)
  | .upper lo => .lower (f lo)

/-- `Mul<F>` -/
def mulScalar (i : Interval α) (k : α) : Interval α :=
  if lt k zero then i.appliedFlipped (fun x => mul x k)
  else if gt k zero then i.appliedBoth (fun x => mul x k)
  else
    match i with
    | .twoSided lo hi => .twoSided (mul lo k) (mul hi k)
    | .upper x => .twoSided (mul x k) (mul x k)
    | .lower x => .twoSided (mul x k) (mul x k)

/-- `Div<F>` -/
def divScalar (i : Interval α) (k : α) : Interval α :=
  if lt k zero then i.appliedFlipped (fun x => div x k)
  else i.appliedBoth (fun x => div x k)

/-- `Add<F>` -/
def addScalar (i : Interval α) (k : α) : Interval α := i.appliedBoth (fun x => add x k)
/-- `Sub<F>` -/
def subScalar (i : Interval α) (k : α) : Interval α := i.appliedBoth (fun x => sub x k)
/-- `Neg` -/
def negI (i : Interval α) : Interval α := i.appliedFlipped neg

/-- `Add<Interval>`; `none` is the documented panic -/
def addI (a b : Interval α) : Option (Interval α) :=
  match a, b with
  | .twoSided a b, .twoSided x y => some (.twoSided (add a x) (add b y))
  | .twoSided a _, .upper x => some (.upper (add a x))
  | .upper a, .upper x => some (.upper (add a x))
  | .twoSided _ b, .lower y => some (.lower (add b y))
  | .lower b, .lower y => some (.lower (add b y))
  | .upper a, .twoSided x _ => some (.upper (add a x))
  | .lower b, .twoSided _ y => some (.lower (add b y))
  | .upper _, .lower _ => none
  | .lower _, .upper _ => none

/-- `Sub<Interval>`; `none` is the documented panic -/
def subI (a b : Interval α) : Option (Interval α) :=
  match a, b with
  | .twoSided a b, .twoSided x y => some (.twoSided (sub a y) (sub b x))
  | .twoSided _ b, .upper x => some (.lower (sub b x))
  | .lower b, .upper x => some (.lower (sub b x))
  | .twoSided a _, .lower y => some (.upper (sub a y))
  | .upper a, .lower y => some (.upper (sub a y))
  | .upper a, .twoSided _ y => some (.upper (sub a y))
  | .lower b, .twoSided x _ => some (.lower (sub b x))
  | .upper _, .upper _ => none
  | .lower _, .lower _ => none

/-- `width` -/
def width : Interval α → Option α
  | .twoSided lo hi => some (sub hi lo)
  | _ => none

/-- `relative_to`; `none` is a documented panic (zero reference / same direction) -/
def relativeTo (self reference : Interval α) : Option (Interval α) :=
  let isZero (x : α) : Bool := eq x zero
  match reference, self with
  | .twoSided a b, s =>
    if isZero a || isZero b then none else
    match s with
    | .twoSided x y => some (.twoSided (div (sub x b) b) (div (sub y a) a))
    | .lower y => some (.lower (div (sub y a) a))
    | .upper x => some (.upper (div (sub x b) b))
  | .upper a, s =>
    if isZero a then none else
    match s with
    | .lower y => some (.lower (div (sub y a) a))
    | .twoSided _ y => some (.lower (div (sub y a) a))
    | .upper _ => none
  | .lower b, s =>
    if isZero b then none else
    match s with
    | .upper x => some (.upper (div (sub x b) b))
    | .twoSided x _ => some (.upper (div (sub x b) b))
    | .lower _ => none

end num

def map {β : Type} (f : α → β) : Interval α → Interval β
  | .twoSided lo hi => .twoSided (f lo) (f hi)
  | .upper lo => .upper (f lo)
  | .lower hi => .lower (f hi)

end Interval
end StatsCI
