/-
  StatsCI.Model.Quantile — model of `src/quantile.rs`.
-/
import StatsCI.Model.Proportion

namespace StatsCI
open NumOps Scalar

namespace Quantile
variable {W : Type} [Scalar W]

/-- `Stats::index(quantile)` for a population `n`: `min(floor(p·n), n − 1)` -/
def index (n : Nat) (p : W) : Outcome (Err W) Nat :=
  if n = 0 then .err (.tooFewSamples n) else
  if lt p (zero : W) || lt (one : W) p then .err (.invalidQuantile p) else
  .ok (min (floorToNat (mul p (Scalar.ofNat n))) (n - 1))

/-- `Stats::ci(confidence, quantile)` = `ci_indices(confidence, n, quantile)` -/
def ciIndices (crit : Crit W) (conf : Confidence W) (n : Nat) (q : W) :
    Outcome (Err W) (Interval Nat) :=
  if !(gt q (zero : W) && lt q (one : W)) then .err (.invalidQuantile q) else
  if n < 4 then .err (.tooFewSamples n) else
  let successes := roundToNat (mul q (Scalar.ofNat n))
  (Proportion.ciWilson crit conf n successes).bind fun pci =>
  let ext : Extremes W := ⟨negInf, posInf⟩
  let lh := @Interval.toPair W ext pci
  if lt lh.1 (zero : W) then .err (.indexError lh.1 n) else
  if gt lh.2 (one : W) then .err (.indexError lh.2 n) else
  (index n lh.1).bind fun lo =>
  (index n lh.2).bind fun hi =>
  match conf with
  | .twoSided _ =>
      if lo > hi then .err (.interval .invalidBounds) else .ok (.twoSided lo hi)
  | .upper _ => .ok (.upper lo)
  | .lower _ => .ok (.lower hi)

/-- element access `sorted[i]`; out of range would be a Rust panic -/
def nth {T : Type} (xs : List T) (i : Nat) : Outcome (Err W) T :=
  match xs[i]? with
  | some x => .ok x
  | none => .panic "index out of bounds"

/-- the element at a selected rank; one that is not comparable with itself (NaN) cannot bound an interval -/
def bound {T : Type} [Cmp T] (xs : List T) (i : Nat) : Outcome (Err W) T :=
  (nth (W := W) xs i).bind fun x => if le x x then .ok x else .err .invalidInputData

/-- `ci_sorted_unchecked(confidence, sorted, quantile)` -/
def ciSortedUnchecked {T : Type} [Cmp T] (crit : Crit W) (conf : Confidence W)
    (sorted : List T) (q : W) : Outcome (Err W) (Interval T) :=
  if !(gt q (zero : W) && lt q (one : W)) then .err (.invalidQuantile q) else
  (ciIndices crit conf sorted.length q).bind fun idx =>
  match idx with
  | .twoSided lo hi =>
      (bound sorted lo).bind fun a => (bound sorted hi).bind fun b => liftI (Interval.new a b)
  | .upper lo => (bound sorted lo).bind fun a => .ok (.upper a)
  | .lower hi => (bound sorted hi).bind fun b => .ok (.lower b)

/-- `sort_by(|a, b| a.partial_cmp(b).unwrap())`: a stable sort; it panics when it meets an
    element that is not comparable (every element is compared at least once when `len ≥ 2`) -/
def sortData {T : Type} [Cmp T] (xs : List T) : Outcome (Err W) (List T) :=
  if xs.length ≥ 2 && xs.any (fun x => !(le x x)) then .panic "partial_cmp unwrap"
  else .ok (xs.mergeSort (fun a b => le a b))

/-- `ci(confidence, data, quantile)` -/
def ci {T : Type} [Cmp T] (crit : Crit W) (conf : Confidence W) (xs : List T) (q : W) :
    Outcome (Err W) (Interval T) :=
  (sortData xs).bind fun sorted => ciSortedUnchecked crit conf sorted q

/-- `ci_max_size::<_, _, CAP>(confidence, data, quantile)`: collecting more than `CAP` elements panics -/
def ciMaxSize {T : Type} [Cmp T] (cap : Nat) (crit : Crit W) (conf : Confidence W)
    (xs : List T) (q : W) : Outcome (Err W) (Interval T) :=
  if xs.length > cap then .panic "capacity" else ci crit conf xs q

end Quantile
end StatsCI
