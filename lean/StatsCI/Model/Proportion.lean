/-
  StatsCI.Model.Proportion — model of `src/proportion.rs`.  `W` is `f64`.
-/
import StatsCI.Model.Interval
import StatsCI.Model.Stats

namespace StatsCI
open NumOps Scalar

namespace Proportion

/-- `proportion::Stats { population, successes }` -/
structure Stats where
  population : Nat
  successes : Nat
  deriving Repr, Inhabited, DecidableEq

namespace Stats
def empty : Stats := ⟨0, 0⟩
/-- `Stats::new`; `none` is the documented panic (`population < successes`) -/
def new? (population successes : Nat) : Option Stats :=
  if population < successes then none else some ⟨population, successes⟩
def addSuccess (s : Stats) : Stats := ⟨s.population + 1, s.successes + 1⟩
def addFailure (s : Stats) : Stats := ⟨s.population + 1, s.successes⟩
def push (s : Stats) (b : Bool) : Stats := if b then s.addSuccess else s.addFailure
/-- `extend(data)` / `FromIterator<bool>` -/
def extend (s : Stats) (bs : List Bool) : Stats := bs.foldl push s
def fromList (bs : List Bool) : Stats := extend empty bs
/-- `extend_if(data, is_success)` -/
def extendIf {T : Type} (s : Stats) (xs : List T) (p : T → Bool) : Stats :=
  xs.foldl (fun s x => s.push (p x)) s
/-- `+` / `+=` -/
def merge (a b : Stats) : Stats := ⟨a.population + b.population, a.successes + b.successes⟩
end Stats

/-- `is_significant(population, successes)`; never underflows -/
def isSignificant (population successes : Nat) : Bool :=
  decide (population > 30) && decide (successes > 5) &&
    decide (successes ≤ population) && decide (population - successes > 5)

variable {W : Type} [Scalar W]

/-- far ends `1.` and `0.` and the constructor shared by `ci_wilson` and `ci_z_normal` -/
def finish (conf : Confidence W) (mean span : W) : Outcome (Err W) (Interval W) :=
  match conf with
  | .twoSided _ => liftI (Interval.new (sub mean span) (add mean span))
  | .upper _ => liftI (Interval.new (sub mean span) (one : W))
  | .lower _ => liftI (Interval.new (zero : W) (add mean span))

/-- the end of `ci_wilson`: the two bounds are proportions and are clamped into `[0, 1]`
    (`(mean - span).max(0.)`, `(mean + span).min(1.)`) before the interval is built -/
def finishWilson (conf : Confidence W) (mean span : W) : Outcome (Err W) (Interval W) :=
  let low := fmax (sub mean span) (zero : W)
  let high := fmin (add mean span) (one : W)
  match conf with
  | .twoSided _ => liftI (Interval.new low high)
  | .upper _ => liftI (Interval.new (fmin low (one : W)) (one : W))
  | .lower _ => liftI (Interval.new (zero : W) (fmax high (zero : W)))

/-- the two Wilson numbers: `mean = (k + z²/2)/(n + z²)`, `span = z/(n + z²) · sqrt(k(n-k)/n + z²/4)` -/
def wilsonCentre (n ns z : W) : W :=
  let zsq := mul z z
  div (add ns (div zsq (add one one))) (add n zsq)
def wilsonSpan (n ns z : W) : W :=
  let zsq := mul z z
  let nf := sub n ns
  mul (div z (add n zsq)) (sqrt (add (div (mul ns nf) n) (div zsq (add (add one one) (add one one)))))

/-- `ci_wilson(confidence, population, successes)` -/
def ciWilson (crit : Crit W) (conf : Confidence W) (population successes : Nat) :
    Outcome (Err W) (Interval W) :=
  if successes > population then .err (.invalidSuccesses successes population) else
  let n : W := Scalar.ofNat population
  let ns : W := Scalar.ofNat successes
  let nf : W := sub n ns
  if successes < 2 then .err (.tooFewSuccesses successes population ns) else
  if population - successes < 2 then .err (.tooFewFailures (population - successes) population nf) else
  (zValue crit conf).bind fun z =>
  finishWilson conf (wilsonCentre n ns z) (wilsonSpan n ns z)

/-- `ci(confidence, population, successes)` -/
def ci (crit : Crit W) (conf : Confidence W) (population successes : Nat) :
    Outcome (Err W) (Interval W) := ciWilson crit conf population successes

/-- `Stats::ci` -/
def Stats.ci (crit : Crit W) (s : Stats) (conf : Confidence W) : Outcome (Err W) (Interval W) :=
  Proportion.ci crit conf s.population s.successes

/-- `ci_true(confidence, data)` -/
def ciTrue (crit : Crit W) (conf : Confidence W) (bs : List Bool) : Outcome (Err W) (Interval W) :=
  (Stats.fromList bs).ci crit conf

/-- `ci_if(confidence, data, cond)` -/
def ciIf {T : Type} (crit : Crit W) (conf : Confidence W) (xs : List T) (p : T → Bool) :
    Outcome (Err W) (Interval W) :=
  (Stats.empty.extendIf xs p).ci crit conf

/-- `ci_wilson_ratio(confidence, population, success_rate)` -/
def ciWilsonRatio (crit : Crit W) (conf : Confidence W) (population : Nat) (rate : W) :
    Outcome (Err W) (Interval W) :=
  if le rate (zero : W) then .err (.nonPositiveValue rate) else
  ciWilson crit conf population (roundToNat (mul rate (Scalar.ofNat population)))

/-- `ci_z_normal(confidence, population, successes)` (Wald) -/
def ciZNormal (crit : Crit W) (conf : Confidence W) (population successes : Nat) :
    Outcome (Err W) (Interval W) :=
  if successes > population then .err (.invalidSuccesses successes population) else
  let n : W := Scalar.ofNat population
  let x : W := Scalar.ofNat successes
  let p := div x n
  let q := sub one p
  if successes < 10 then .err (.tooFewSuccesses successes population (mul n p)) else
  if population - successes < 10 then
    .err (.tooFewFailures (population - successes) population (mul n q)) else
  let sd := sqrt (div (mul p q) n)
  (zValue crit conf).bind fun z =>
  finish conf p (mul z sd)

end Proportion
end StatsCI
