/-
  StatsCI.Model.Kahan — model of `src/utils.rs` (compensated summation register).
-/
import StatsCI.Model.Basic

namespace StatsCI
open NumOps

/-- `KahanSum<T> { sum, compensation }` -/
structure Kahan (α : Type) where
  sum : α
  comp : α
  deriving Repr, Inhabited

namespace Kahan
variable {α : Type} [NumOps α]

/-- `KahanSum::new(value)` -/
def new (v : α) : Kahan α := ⟨v, zero⟩
/-- `Default` -/
def empty : Kahan α := new zero

/-- `kahan_add`: `y = x - c; t = sum + y; c' = (t - sum) - y; sum' = t` -/
def add (k : Kahan α) (x : α) : Kahan α :=
  let y := sub x k.comp
  let t := NumOps.add k.sum y
  ⟨t, sub (sub t k.sum) y⟩

/-- `AddAssign<Self>`: two `kahan_add`, of `rhs.sum` then `rhs.compensation` -/
def merge (k r : Kahan α) : Kahan α := (k.add r.sum).add r.comp

/-- `value()`: `sum + compensation` (the crate's sign convention) -/
def value (k : Kahan α) : α := NumOps.add k.sum k.comp

/-- `PartialEq`: equality of `value()` -/
def beq (a b : Kahan α) : Bool := Cmp.eq a.value b.value

/-- feed a list, one `+= x` at a time -/
def addList (k : Kahan α) (xs : List α) : Kahan α := xs.foldl add k

end Kahan
end StatsCI
