/-
  StatsCI.Model.Stats — model of `src/stats.rs`: which external quantile is asked for.

  The inverse CDFs of `statrs` are *parameters* of the model: `Crit W` maps a request
  (distribution, degrees of freedom, probability) to the critical value.
-/
import StatsCI.Model.Confidence

namespace StatsCI
open NumOps Scalar

/-- the request made to the external quantile routine -/
inductive CritReq (W : Type) where
  /-- `StudentsT::new(0, 1, dof).inverse_cdf(p)` -/
  | t (dof p : W)
  /-- `Normal::new(0, 1).inverse_cdf(p)` -/
  | z (p : W)
  deriving Repr, Inhabited, DecidableEq

/-- the external quantile routine -/
abbrev Crit (W : Type) := CritReq W → W

variable {W : Type} [Scalar W]

/-- `POPULATION_LIMIT = 100_000.` -/
def populationLimit : W := Scalar.ofNat 100000

/-- `statrs` asserts `0 <= p <= 1` in `inverse_cdf` -/
def probOk (p : W) : Bool := le (zero : W) p && le p (one : W)

/-- `z_value(confidence)` -/
def zValue (crit : Crit W) (conf : Confidence W) : Outcome (Err W) W :=
  let p := conf.quantile
  if probOk p then .ok (crit (.z p)) else .panic "inverse_cdf"

/-- `t_value(confidence, dof)`: `StudentsT::new(..).unwrap()` panics unless `dof > 0` -/
def tValue (crit : Crit W) (conf : Confidence W) (dof : W) : Outcome (Err W) W :=
  if gt dof (zero : W) then
    let p := conf.quantile
    if probOk p then .ok (crit (.t dof p)) else .panic "inverse_cdf"
  else .panic "t_value"

/-- the request `interval_bounds` makes: t below the population limit, z from it on -/
def critReq (conf : Confidence W) (dof : W) : CritReq W :=
  if lt dof (populationLimit : W) then .t dof conf.quantile else .z conf.quantile

/-- `interval_bounds(confidence, mean, std_err_mean, dof) = (mean - span, mean + span)` -/
def intervalBounds (crit : Crit W) (conf : Confidence W) (mean sem dof : W) :
    Outcome (Err W) (W × W) :=
  (if lt dof (populationLimit : W) then tValue crit conf dof else zValue crit conf).bind fun c =>
    let span := mul c sem
    .ok (sub mean span, add mean span)

end StatsCI
