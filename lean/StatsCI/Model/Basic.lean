/-
  StatsCI.Model.Basic — operation classes and the outcome type of the model.

  No imports: every file under `StatsCI/Model` is Mathlib-free so that the
  compiled driver links.  The classes carry *operations only* (no laws), so
  that IEEE floats (not lawful) and ℝ-with-rounding (lawful) both instantiate
  them and the very same model definitions are run natively and reasoned about.
-/
namespace StatsCI

/-- Rust's `PartialOrd`/`PartialEq` surface, Bool-valued.
    `a >= b` is `le b a`, `a > b` is `lt b a` (true of every std type incl. floats). -/
class Cmp (α : Type) where
  le : α → α → Bool
  lt : α → α → Bool
  eq : α → α → Bool

/-- arithmetic of the element type of an `Interval` (`Mul/Div/Add/Sub/Neg/Zero`) -/
class NumOps (α : Type) extends Cmp α where
  add : α → α → α
  sub : α → α → α
  mul : α → α → α
  div : α → α → α
  neg : α → α
  zero : α
  one : α

/-- `num_traits::Float` as far as the crate uses it -/
class Scalar (α : Type) extends NumOps α where
  sqrt : α → α
  ln : α → α
  exp : α → α
  /-- `F::from(n: usize)` / `n as f64` -/
  ofNat : Nat → α
  isFinite : α → Bool
  /-- `x.floor() as usize` (saturating, NaN ↦ 0) -/
  floorToNat : α → Nat
  /-- `x.round() as usize` (half away from zero, saturating, NaN ↦ 0) -/
  roundToNat : α → Nat
  posInf : α
  negInf : α

/-- the pair (data type `F`, computation type `f64`): `to_f64` and `F::from(f64)` -/
class Widen (F W : Type) where
  up : F → W
  down : W → F

export Cmp (le lt eq)

section
variable {α : Type} [Cmp α]
@[inline] def ge (a b : α) : Bool := Cmp.le b a
@[inline] def gt (a b : α) : Bool := Cmp.lt b a
/-- `a.max(b)` of the float types: the larger one; if one is NaN (incomparable) the other -/
def fmax (a b : α) : α :=
  if Cmp.lt a b then b else if Cmp.le b a then a else if Cmp.eq a a then a else b
/-- `a.min(b)` of the float types: the smaller one; if one is NaN (incomparable) the other -/
def fmin (a b : α) : α :=
  if Cmp.lt b a then b else if Cmp.le a b then a else if Cmp.eq a a then a else b
end

/-- `error::IntervalError` -/
inductive IntervalError where
  | invalidBounds
  | emptyInterval
  deriving Repr, DecidableEq, Inhabited

/-- `error::CIError`; `W` is the type of the `f64` payloads -/
inductive Err (W : Type) where
  | tooFewSamples (n : Nat)
  | tooFewSuccesses (k n : Nat) (np : W)
  | tooFewFailures (f n : Nat) (nq : W)
  | invalidConfidenceLevel (l : W)
  | invalidQuantile (q : W)
  | invalidSuccesses (k n : Nat)
  | nonPositiveValue (x : W)
  | invalidInputData
  | floatConversion
  | indexError (x : W) (n : Nat)
  | interval (e : IntervalError)
  | differentSampleSizes (a b : Nat)
  deriving Repr, Inhabited

/-- result of an API call: value, documented error, or panic (with a class tag) -/
inductive Outcome (ε α : Type) where
  | ok (a : α)
  | err (e : ε)
  | panic (tag : String)
  deriving Repr, Inhabited

namespace Outcome
variable {ε α β : Type}

@[inline] def bind (x : Outcome ε α) (f : α → Outcome ε β) : Outcome ε β :=
  match x with
  | ok a => f a
  | err e => err e
  | panic t => panic t

@[inline] def map (f : α → β) (x : Outcome ε α) : Outcome ε β :=
  match x with
  | ok a => ok (f a)
  | err e => err e
  | panic t => panic t

instance : Monad (Outcome ε) where
  pure := ok
  bind := bind

def isOk : Outcome ε α → Bool
  | ok _ => true
  | _ => false

def isPanic : Outcome ε α → Bool
  | panic _ => true
  | _ => false

@[simp] theorem bind_ok (a : α) (f : α → Outcome ε β) : (ok a).bind f = f a := rfl
@[simp] theorem bind_err (e : ε) (f : α → Outcome ε β) : (err e : Outcome ε α).bind f = err e := rfl
@[simp] theorem bind_panic (t : String) (f : α → Outcome ε β) :
    (panic t : Outcome ε α).bind f = panic t := rfl
end Outcome

/-- lift an interval-constructor result into a `CIResult` (`map_err(|e| e.into())`) -/
def liftI {W α : Type} : Except IntervalError α → Outcome (Err W) α
  | .ok a => .ok a
  | .error e => .err (.interval e)

end StatsCI
