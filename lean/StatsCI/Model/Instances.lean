/-
  StatsCI.Model.Instances — the executable carriers: IEEE `Float` (f64), `Float32` (f32),
  `Int` (i64 within range), `Nat` (usize within range), `String`.
-/
import StatsCI.Model.Interval

namespace StatsCI

instance : Scalar Float where
  le a b := decide (a ≤ b)
  lt a b := decide (a < b)
  eq a b := a == b
  add := Float.add
  sub := Float.sub
  mul := Float.mul
  div := Float.div
  neg := Float.neg
  zero := 0.0
  one := 1.0
  sqrt := Float.sqrt
  ln := Float.log
  exp := Float.exp
  ofNat := Float.ofNat
  isFinite := Float.isFinite
  floorToNat x := x.floor.toUSize.toNat
  roundToNat x := x.round.toUSize.toNat
  posInf := 1.0 / 0.0
  negInf := -1.0 / 0.0

instance : Scalar Float32 where
  le a b := decide (a ≤ b)
  lt a b := decide (a < b)
  eq a b := a == b
  add := Float32.add
  sub := Float32.sub
  mul := Float32.mul
  div := Float32.div
  neg := Float32.neg
  zero := 0.0
  one := 1.0
  sqrt := Float32.sqrt
  ln := Float32.log
  exp := Float32.exp
  ofNat := Float32.ofNat
  isFinite := Float32.isFinite
  floorToNat x := x.floor.toUSize.toNat
  roundToNat x := x.round.toUSize.toNat
  posInf := 1.0 / 0.0
  negInf := -1.0 / 0.0

instance : Widen Float Float := ⟨id, id⟩
instance : Widen Float32 Float := ⟨Float32.toFloat, Float.toFloat32⟩

instance : Extremes Float := ⟨-1.0 / 0.0, 1.0 / 0.0⟩
instance : Extremes Float32 := ⟨-1.0 / 0.0, 1.0 / 0.0⟩

/-- `i64` (values stay within range in every generated case; division truncates like Rust's) -/
instance : NumOps Int where
  le a b := decide (a ≤ b)
  lt a b := decide (a < b)
  eq a b := decide (a = b)
  add := Int.add
  sub := Int.sub
  mul := Int.mul
  div := Int.tdiv
  neg := Int.neg
  zero := 0
  one := 1

/-- `i64::MIN`, `i64::MAX` -/
instance : Extremes Int := ⟨-9223372036854775808, 9223372036854775807⟩

/-- `usize` / `u8`: comparison only (`u8::MIN`, `u8::MAX` are supplied by the driver where needed) -/
instance : Cmp Nat where
  le a b := decide (a ≤ b)
  lt a b := decide (a < b)
  eq a b := decide (a = b)

instance : Cmp String where
  le a b := decide (a ≤ b)
  lt a b := decide (a < b)
  eq a b := decide (a = b)

end StatsCI
