/-
  StatsCI.Model.Program — accumulation histories (C08, C09).

  Every API call sequence over {new, append, extend, from_iter, clone/copy, +, +=} that builds one
  state is a tree: `from_iter xs = extend empty xs`, `clone` is the identity on values, `a + b` and
  `a += b` are both `merge a b`. Queries take `&self` and do not occur in the tree. A parallel
  reduction is *some* such tree over *some* arrangement of the chunks.
-/
import StatsCI.Model.Comparison
import StatsCI.Model.Proportion

namespace StatsCI

/-- an accumulation history delivering observations of type `α` -/
inductive Prog (α : Type) where
  | empty
  | append (p : Prog α) (x : α)
  | extend (p : Prog α) (xs : List α)
  | merge (l r : Prog α)
  deriving Repr, Inhabited

namespace Prog
variable {α : Type}

/-- the observations delivered, in the order the tree visits them -/
def data : Prog α → List α
  | empty => []
  | append p x => p.data ++ [x]
  | extend p xs => p.data ++ xs
  | merge l r => l.data ++ r.data

/-- the same history over transformed observations (`x ↦ x*x`, `ln x`, `1/x`, `a − b`) -/
def map {β : Type} (f : α → β) : Prog α → Prog β
  | empty => empty
  | append p x => append (p.map f) (f x)
  | extend p xs => extend (p.map f) (xs.map f)
  | merge l r => merge (l.map f) (r.map f)

/-- number of elementary `kahan_add` steps performed along the history -/
def steps : Prog α → Nat
  | empty => 0
  | append p _ => p.steps + 1
  | extend p xs => p.steps + xs.length
  | merge l r => l.steps + r.steps + 2

/-- how many times a register is consumed as the *right* operand of a merge on the way to the root -/
def rdepth : Prog α → Nat
  | empty => 0
  | append p _ => p.rdepth
  | extend p _ => p.rdepth
  | merge l r => max l.rdepth (r.rdepth + 1)

section
variable [NumOps α]
/-- the compensated-sum register reached by the history (`KahanSum`) -/
def evalK : Prog α → Kahan α
  | empty => Kahan.empty
  | append p x => p.evalK.add x
  | extend p xs => p.evalK.addList xs
  | merge l r => l.evalK.merge r.evalK
end

section
variable [Scalar α]
/-- the `Arithmetic` state reached by the history -/
def evalA : Prog α → Arith α
  | empty => Arith.empty
  | append p x => p.evalA.append x
  | extend p xs => p.evalA.extend xs
  | merge l r => l.evalA.merge r.evalA
end

/-- the `proportion::Stats` state reached by a history of Boolean observations -/
def evalP : Prog Bool → Proportion.Stats
  | empty => Proportion.Stats.empty
  | append p b => p.evalP.push b
  | extend p bs => p.evalP.extend bs
  | merge l r => l.evalP.merge r.evalP

/-- the `quantile::Stats` state (a population count) reached by merging counts -/
def evalCount : Prog Unit → Nat
  | empty => 0
  | append p _ => p.evalCount + 1
  | extend p xs => p.evalCount + xs.length
  | merge l r => l.evalCount + r.evalCount

end Prog
end StatsCI
