/-
  StatsCI.Model.Confidence — model of `src/confidence.rs`.
-/
import StatsCI.Model.Basic

namespace StatsCI

/-- `Confidence` (the level is an `f64`: type `W`) -/
inductive Confidence (W : Type) where
  | twoSided (l : W)
  | upper (l : W)
  | lower (l : W)
  deriving Repr, Inhabited, DecidableEq

/-- the three kinds, as reported by `kind()` / the `is_*` predicates -/
inductive Kind where
  | twoSided | upper | lower
  deriving Repr, DecidableEq, Inhabited

namespace Confidence
variable {W : Type}

section
variable [Scalar W]
open NumOps Scalar

/-- the validity test shared by every constructor: `confidence > 0. && confidence < 1.` -/
def validLevel (l : W) : Bool := gt l (zero : W) && lt l (one : W)

/-- `new_two_sided` / `new`; `none` is the documented panic -/
def newTwoSided? (l : W) : Option (Confidence W) := if validLevel l then some (.twoSided l) else none
/-- `new_upper`; `none` is the documented panic -/
def newUpper? (l : W) : Option (Confidence W) := if validLevel l then some (.upper l) else none
/-- `new_lower`; `none` is the documented panic -/
def newLower? (l : W) : Option (Confidence W) := if validLevel l then some (.lower l) else none

/-- `TryFrom<f64>` (and `TryFrom<f32>` after widening) -/
def tryFrom (l : W) : Outcome (Err W) (Confidence W) :=
  if validLevel l then
    match newTwoSided? l with
    | some c => .ok c
    | none => .panic "confidence"
  else .err (.invalidConfidenceLevel l)

/-- `quantile()`: `1 - (1 - L)/2` two-sided, `L` one-sided -/
def quantile : Confidence W → W
  | .twoSided l => sub one (div (sub one l) (add one one))
  | .upper l => l
  | .lower l => l

/-- `percent()` -/
def percent (c : Confidence W) : W :=
  match c with
  | .twoSided l | .upper l | .lower l => mul l (Scalar.ofNat 100)

/-- `PartialOrd::partial_cmp` -/
def partialCmp (a b : Confidence W) : Option Ordering :=
  let cmpW (x y : W) : Option Ordering :=
    if lt x y then some .lt else if eq x y then some .eq else if lt y x then some .gt else none
  match a, b with
  | .twoSided x, .twoSided y => cmpW x y
  | .upper x, .upper y => cmpW x y
  | .lower x, .lower y => cmpW x y
  | _, _ => none

/-- derived `PartialEq` -/
def beq (a b : Confidence W) : Bool :=
  match a, b with
  | .twoSided x, .twoSided y => eq x y
  | .upper x, .upper y => eq x y
  | .lower x, .lower y => eq x y
  | _, _ => false
end

/-- `level()` -/
def level : Confidence W → W
  | .twoSided l => l
  | .upper l => l
  | .lower l => l

def kind : Confidence W → Kind
  | .twoSided _ => .twoSided
  | .upper _ => .upper
  | .lower _ => .lower

/-- `kind()` string -/
def kindStr (c : Confidence W) : String :=
  match c with
  | .twoSided _ => "two-sided"
  | .upper _ => "upper one-sided"
  | .lower _ => "lower one-sided"

def isTwoSided : Confidence W → Bool
  | .twoSided _ => true
  | _ => false
def isOneSided (c : Confidence W) : Bool := !c.isTwoSided
def isUpper : Confidence W → Bool
  | .upper _ => true
  | _ => false
def isLower : Confidence W → Bool
  | .lower _ => true
  | _ => false

/-- `flipped()` -/
def flipped : Confidence W → Confidence W
  | .twoSided l => .twoSided l
  | .upper l => .lower l
  | .lower l => .upper l

end Confidence
end StatsCI
