-- Root of the `StatsCI` library: executable model, lemmas, property theorems, axiom audit.
import StatsCI.Model.Basic
import StatsCI.Model.Interval
import StatsCI.Model.Confidence
import StatsCI.Model.Kahan
import StatsCI.Model.Stats
import StatsCI.Model.Mean
import StatsCI.Model.Comparison
import StatsCI.Model.Proportion
import StatsCI.Model.Quantile
import StatsCI.Model.Instances
import StatsCI.Lemmas.Order
import StatsCI.Properties.C07
import StatsCI.Model.Program
import StatsCI.Lemmas.RR
