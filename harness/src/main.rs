//! Correspondence harness: drives the real stats-ci API and prints, one case per line,
//! `<property> <entry> <args…> => <what the implementation returned>`.
mod enc;
mod gen;
mod interval_ops;
mod stat_ops;
mod prop_ops;
#[cfg(feature = "serde")]
mod serde_ops;
mod crit_ops;
mod rel_ops;
mod conf_ops;
mod prog_ops;

use enc::*;
use std::io::Write;

fn chains(tier: &str) -> (Vec<i64>, Vec<f64>, Vec<&'static str>, Vec<u8>) {
    let ci: Vec<i64> = if tier == "thorough" { (-4..=4).collect() } else { (-3..=3).collect() };
    let cf: Vec<f64> = if tier == "thorough" {
        vec![f64::NEG_INFINITY, -2.5, -1.0, -0.0, 0.0, 0.5, 2.0, 1e300, f64::INFINITY]
    } else {
        vec![f64::NEG_INFINITY, -1.5, -0.0, 0.0, 2.0, 1e300, f64::INFINITY]
    };
    let cs: Vec<&'static str> = vec!["", "a", "ab", "b", "ba", "c", "zz"];
    let cu: Vec<u8> = vec![0, 1, 2, 100, 254, 255];
    (ci, cf, cs, cu)
}

fn gen(prop: &str, tier: &str, seed: u64) -> Vec<String> {
    let mut out = Vec::new();
    let mut rng = Rng::new(seed);
    let (ci, cf, cs, cu) = chains(tier);
    match prop {
        "C07" => {
            interval_ops::c07(&mut out, &ci);
            interval_ops::c07(&mut out, &cf);
            interval_ops::c07(&mut out, &cs);
            interval_ops::c07(&mut out, &cu);
            interval_ops::c07_probes(&mut out, &cf, &[f64::NAN, -f64::NAN, 5e-324, -5e-324, f64::MAX, f64::MIN, 1.0, f64::MIN_POSITIVE]);
            interval_ops::c07_probes(&mut out, &ci, &[i64::MIN, i64::MAX, 7, -7]);
        }
        "C15" => {
            interval_ops::c15(&mut out, &ci);
            interval_ops::c15(&mut out, &cf);
            interval_ops::c15(&mut out, &cs);
        }
        "C14" => {
            interval_ops::c14_in(&mut out, &ci);
            interval_ops::c14_in(&mut out, &cf);
            interval_ops::c14_in(&mut out, &cs);
            interval_ops::c14_in(&mut out, &cu);
            interval_ops::c14_acc(&mut out, &ci);
            interval_ops::c14_acc(&mut out, &cf);
            interval_ops::c14_acc(&mut out, &cs);
            interval_ops::c14_acc(&mut out, &cu);
            interval_ops::c14_ext(&mut out, &ci);
            interval_ops::c14_ext(&mut out, &cf);
            interval_ops::c14_ext(&mut out, &cu);
            interval_ops::c14_pairs(&mut out);
            interval_ops::c14_used_ranges(&mut out);
            interval_ops::c14_hash(&mut out, &ci);
            interval_ops::c14_hash(&mut out, &cs);
            interval_ops::c14_hash(&mut out, &cu);
        }
        "C13" => {
            let box_i: Vec<i64> = if tier == "thorough" { (-6..=6).collect() } else { (-4..=4).collect() };
            let sc_i: Vec<i64> = (-4..=4).collect();
            interval_ops::c13(&mut out, &box_i, &sc_i);
            let box_f: Vec<f64> = vec![-3.0, -1.25, -0.5, 0.0, 0.75, 2.0, 6.0];
            let sc_f: Vec<f64> = vec![-4.0, -1.5, -0.25, 0.0, 0.5, 1.0, 3.0];
            interval_ops::c13(&mut out, &box_f, &sc_f);
            let rel: Vec<f64> = vec![-2.0, -0.5, 0.0, 0.25, 1.0, 1.5, 4.0, 16.0];
            interval_ops::c13_rel(&mut out, &rel);
            interval_ops::c13_unsigned(&mut out, &[0u8, 1, 2, 5, 9, 100, 200, 255], &[0u8, 1, 3, 100, 255]);
            interval_ops::c13_signed(&mut out, &[-128i8, -127, -100, -60, -1, 0, 1, 27, 60, 100, 127], &[-128i8, -2, -1, 0, 1, 2, 27, 127]);
        }
        "C19" => {
            let ch: Vec<f64> = vec![-1.0, 0.0, 1.0, 1.0 + f64::EPSILON, 1.0 + 1e-9, 1.5, 1e10, f64::INFINITY];
            interval_ops::c19(&mut out, &ch, &mut rng, if tier == "thorough" { 12 } else { 3 });
            interval_ops::c19_display(&mut out, &ci);
            interval_ops::c19_display(&mut out, &cs);
            interval_ops::c19_display(&mut out, &[-1.5f64, 0.0, 2.0, 1e21, 1e-7, f64::INFINITY]);
            // long renderings: huge and tiny magnitudes (`{}` never uses an exponent), many digits, long text
            interval_ops::c19_display(&mut out, &[-f64::MAX, -1e100, -1.2345678901234567e-14, 5e-324, f64::MIN_POSITIVE, 1.2345678901234567e-14, 1e30, 1e59, f64::MAX]);
            let long_a: &'static str = Box::leak("a".repeat(70).into_boxed_str());
            let long_b: &'static str = Box::leak(format!("{}b", "a".repeat(150)).into_boxed_str());
            interval_ops::c19_display(&mut out, &["", "a", long_a, long_b]);
        }
        "C02" => prop_ops::c02(&mut out, &mut rng, tier),
        "C17" => prop_ops::c17(&mut out, &mut rng, tier),
        "C03" => prop_ops::c03(&mut out, &mut rng, tier),
        "C12" => prop_ops::c12(&mut out, &mut rng, tier),
        "C18" => conf_ops::c18(&mut out, &mut rng, tier),
        #[cfg(feature = "serde")]
        "C20" => serde_ops::c20(&mut out, &mut rng, tier),
        "C06" => crit_ops::c06(&mut out, &mut rng, tier),
        "C16" => rel_ops::c16(&mut out, &mut rng, tier),
        "C10" => rel_ops::c10(&mut out, &mut rng, tier),
        "C09" => prog_ops::c09(&mut out, &mut rng, tier),
        "C08" => prog_ops::c08(&mut out, &mut rng, tier),
        "C11" => stat_ops::c11(&mut out, &mut rng, tier),
        "C01" => stat_ops::c01(&mut out, &mut rng, tier),
        "C05" => stat_ops::c05(&mut out, &mut rng, tier),
        "C04" => stat_ops::c04(&mut out, &mut rng, tier),
        _ => {
            eprintln!("unknown property {}", prop);
            std::process::exit(2);
        }
    }
    out
}

fn main() {
    // panics are outcomes; keep stderr quiet
    std::panic::set_hook(Box::new(|_| {}));
    let args: Vec<String> = std::env::args().collect();
    if args.len() < 2 {
        eprintln!("usage: harness gen <PROP> <tier> <seed> | crit");
        std::process::exit(2);
    }
    match args[1].as_str() {
        "gen" => {
            let prop = &args[2];
            let tier = args.get(3).map(|s| s.as_str()).unwrap_or("quick");
            let seed: u64 = args.get(4).and_then(|s| s.parse().ok()).unwrap_or(1);
            let lines = gen(prop, tier, seed);
            let stdout = std::io::stdout();
            let mut w = std::io::BufWriter::new(stdout.lock());
            for l in lines {
                writeln!(w, "{}", l).unwrap();
            }
        }
        "crit" => {
            // the external quantile routine (statrs), called directly, for the model's requests
            use statrs::distribution::{ContinuousCDF, Normal, StudentsT};
            use std::io::BufRead;
            let stdin = std::io::stdin();
            let stdout = std::io::stdout();
            let mut w = std::io::BufWriter::new(stdout.lock());
            let normal = Normal::new(0., 1.).unwrap();
            let f = |t: &str| -> f64 { f64::from_bits(u64::from_str_radix(&t[1..], 16).unwrap()) };
            for line in stdin.lock().lines() {
                let line = line.unwrap();
                let line = line.trim();
                if line == "-" || line.is_empty() {
                    writeln!(w, "-").unwrap();
                    continue;
                }
                let mut vals = Vec::new();
                for req in line.split(" ; ") {
                    let t: Vec<&str> = req.split_whitespace().collect();
                    let v = std::panic::catch_unwind(|| match t[0] {
                        "t" => StudentsT::new(0., 1., f(t[1])).unwrap().inverse_cdf(f(t[2])),
                        _ => normal.inverse_cdf(f(t[1])),
                    })
                    .unwrap_or(f64::NAN);
                    vals.push(v.enc());
                }
                writeln!(w, "{}", vals.join(" ")).unwrap();
            }
        }
        _ => {
            eprintln!("unknown subcommand");
            std::process::exit(2);
        }
    }
}
