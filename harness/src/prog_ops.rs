//! Accumulation histories (C08, C09): a postfix stack machine over registers / statistics states.
//!
//!   E            push an empty state
//!   a <x>        append one observation to the top state
//!   x <n> <xs…>  extend the top state with n observations
//!   g <id> <seed> <param> <n>   extend the top state with a generated sequence (long streams)
//!   f <n> <xs…>  push from_iter(xs)
//!   d            push a copy of the top state (clone / Copy)
//!   m            pop r; top += r
//!   p            pop r, pop l; push l + r
//!   q            query the top state (does not modify it)
use crate::enc::*;
use crate::stat_ops::FElem;
use stats_ci::utils::KahanSum;

/// deterministic generated sequences, defined identically in the Lean driver
pub struct SeqGen {
    pub id: u64,
    pub rng: Rng,
    pub param: f64,
    pub i: u64,
}
impl SeqGen {
    pub fn new(id: u64, seed: u64, param: f64) -> Self {
        SeqGen { id, rng: Rng(seed | 1), param, i: 0 }
    }
    pub fn next(&mut self) -> f64 {
        let i = self.i;
        self.i += 1;
        match self.id {
            0 => self.param,
            1 => {
                // same-sign stream in [param/2, 3 param/2)
                let u = (self.rng.next() >> 11) as f64 / 9007199254740992.0;
                (0.5 + u) * self.param
            }
            2 => {
                // mixed signs and magnitudes 2^-20 .. 2^20 around param
                let r = self.rng.next();
                let u = (r >> 11) as f64 / 9007199254740992.0;
                let k = ((r >> 3) & 63) as i32 - 32;
                let k = k.clamp(-20, 20);
                let s = if r & 1 == 1 { -1.0 } else { 1.0 };
                s * (0.5 + u) * self.param * (2.0f64).powi(k)
            }
            3 => {
                // cancelling pattern x, -x, eps
                match i % 3 {
                    0 => {
                        let u = (self.rng.next() >> 11) as f64 / 9007199254740992.0;
                        self.param = (0.5 + u) * 1048576.0;
                        self.param
                    }
                    1 => -self.param,
                    _ => 0.0009765625,
                }
            }
            _ => {
                // large head, then small increments
                if i == 0 {
                    self.param * 16777216.0
                } else {
                    self.param
                }
            }
        }
    }
}

pub fn kahan_prog<F: FElem>(toks: &[String]) -> String {
    let mut st: Vec<KahanSum<F>> = Vec::new();
    let mut i = 0;
    let f = |t: &str| -> F {
        if t.starts_with('x') {
            F::from64(f64::from_bits(u64::from_str_radix(&t[1..], 16).unwrap()))
        } else {
            F::from(f32::from_bits(u32::from_str_radix(&t[1..], 16).unwrap())).unwrap()
        }
    };
    let mut out: Vec<String> = Vec::new();
    while i < toks.len() {
        match toks[i].as_str() {
            "E" => {
                st.push(KahanSum::default());
                i += 1;
            }
            "a" => {
                let x = f(&toks[i + 1]);
                *st.last_mut().unwrap() += x;
                i += 2;
            }
            "x" => {
                let n: usize = toks[i + 1].parse().unwrap();
                for j in 0..n {
                    let x = f(&toks[i + 2 + j]);
                    *st.last_mut().unwrap() += x;
                }
                i += 2 + n;
            }
            "g" => {
                let id: u64 = toks[i + 1].parse().unwrap();
                let seed: u64 = toks[i + 2].parse().unwrap();
                let param = f64::from_bits(u64::from_str_radix(&toks[i + 3][1..], 16).unwrap());
                let n: u64 = toks[i + 4].parse().unwrap();
                let mut g = SeqGen::new(id, seed, param);
                let top = st.last_mut().unwrap();
                for _ in 0..n {
                    *top += F::from64(g.next());
                }
                i += 5;
            }
            "d" => {
                let c = *st.last().unwrap();
                st.push(c);
                i += 1;
            }
            "m" => {
                let r = st.pop().unwrap();
                *st.last_mut().unwrap() += r;
                i += 1;
            }
            "p" => {
                let r = st.pop().unwrap();
                let l = st.pop().unwrap();
                st.push(l + r);
                i += 1;
            }
            "q" => {
                let k = st.last().unwrap();
                let (s, c) = k.verif_parts();
                out.push(format!("{} {} {}", s.enc(), c.enc(), k.value().enc()));
                i += 1;
            }
            _ => panic!("bad token"),
        }
    }
    out.join(" | ")
}

fn fenc<F: FElem>(x: f64) -> String {
    F::from64(x).enc()
}

/// a random program over `chunks` chunks of data
fn random_tree<F: FElem>(rng: &mut Rng, chunks: &[Vec<f64>]) -> Vec<String> {
    // build each chunk as its own register, then merge in a random order / shape
    let mut toks: Vec<String> = Vec::new();
    let mut depth = 0usize;
    for (ci, c) in chunks.iter().enumerate() {
        toks.push("E".into());
        depth += 1;
        if rng.coin() {
            toks.push("x".into());
            toks.push(format!("{}", c.len()));
            for x in c {
                toks.push(fenc::<F>(*x));
            }
        } else {
            for x in c {
                toks.push("a".into());
                toks.push(fenc::<F>(*x));
            }
        }
        if rng.below(5) == 0 {
            toks.push("q".into());
        }
        // merge eagerly sometimes (left fold), otherwise leave on the stack (deeper right operands)
        while depth >= 2 && (rng.coin() || ci + 1 == chunks.len()) {
            toks.push(if rng.coin() { "m".into() } else { "p".into() });
            depth -= 1;
        }
    }
    while depth >= 2 {
        toks.push("m".into());
        depth -= 1;
    }
    toks.push("q".into());
    toks
}

pub fn c08(out: &mut Vec<String>, rng: &mut Rng, tier: &str) {
    let reps = if tier == "thorough" { 1500 } else { 250 };
    for i in 0..reps {
        let nchunks = 1 + rng.below(if i % 3 == 0 { 1 } else { 8 }) as usize;
        let mut chunks = Vec::new();
        let style = rng.below(5);
        for _ in 0..nchunks {
            let n = rng.range(0, 60) as usize;
            let mut g = SeqGen::new(style, rng.next(), (2.0f64).powi(rng.range(-30, 30) as i32));
            chunks.push((0..n).map(|_| g.next()).collect::<Vec<f64>>());
        }
        if i % 2 == 0 {
            let t = random_tree::<f64>(rng, &chunks);
            out.push(format!("C08 kahan f {} => {}", t.join(" "), kahan_prog::<f64>(&t)));
        } else {
            let t = random_tree::<f32>(rng, &chunks);
            out.push(format!("C08 kahan g {} => {}", t.join(" "), kahan_prog::<f32>(&t)));
        }
    }
    // every binary merge tree shape over up to 5 chunks is reached by the stack machine:
    // enumerate all well-formed postfix merge sequences
    fn shapes(n: usize) -> Vec<Vec<bool>> {
        // sequences of push(true)/merge(false) with n pushes, n-1 merges, stack never < 1 before merge
        fn go(p: usize, m: usize, n: usize, cur: &mut Vec<bool>, out: &mut Vec<Vec<bool>>) {
            if p == n && m == n - 1 {
                out.push(cur.clone());
                return;
            }
            if p < n {
                cur.push(true);
                go(p + 1, m, n, cur, out);
                cur.pop();
            }
            if m + 1 < p {
                cur.push(false);
                go(p, m + 1, n, cur, out);
                cur.pop();
            }
        }
        let mut out = Vec::new();
        go(0, 0, n, &mut Vec::new(), &mut out);
        out
    }
    for n in 2..=(if tier == "thorough" { 6 } else { 5 }) {
        for sh in shapes(n) {
            let mut toks: Vec<String> = Vec::new();
            let mut g = SeqGen::new(2, rng.next(), 1.0);
            for step in sh {
                if step {
                    toks.push("E".into());
                    toks.push("x".into());
                    toks.push("7".into());
                    for _ in 0..7 {
                        toks.push(fenc::<f32>(g.next()));
                    }
                } else {
                    toks.push("m".into());
                }
            }
            toks.push("q".into());
            out.push(format!("C08 kahan g {} => {}", toks.join(" "), kahan_prog::<f32>(&toks)));
        }
    }
    // long streams (generated on both sides): constants, same-sign, mixed, cancelling, head+increments
    let lens: Vec<u64> = if tier == "thorough" { vec![100_000, 1_000_000, 10_000_000] } else { vec![50_000, 1_000_000] };
    for n in lens {
        for id in 0..5u64 {
            let param: f64 = match id {
                0 => 0.1,
                1 => 1.1,
                2 => 1.0,
                3 => 1.0,
                _ => 1.0,
            };
            for nchunks in [1u64, 8] {
                let mut toks: Vec<String> = Vec::new();
                for c in 0..nchunks {
                    toks.push("E".into());
                    toks.push("g".into());
                    toks.push(format!("{}", id));
                    toks.push(format!("{}", rng.next() >> 1));
                    toks.push(param.enc());
                    toks.push(format!("{}", n / nchunks));
                    if c > 0 && c % 2 == 1 {
                        toks.push("m".into());
                    }
                }
                // fold what is left on the stack (pairs -> balanced-ish tree)
                let pushes = nchunks;
                let merges = (0..nchunks).filter(|c| *c > 0 && c % 2 == 1).count() as u64;
                for _ in 0..(pushes - merges - 1) {
                    toks.push("p".into());
                }
                toks.push("q".into());
                out.push(format!("C08 kahan g {} => {}", toks.join(" "), kahan_prog::<f32>(&toks)));
                if n <= 1_000_000 {
                    out.push(format!("C08 kahan f {} => {}", toks.join(" "), kahan_prog::<f64>(&toks)));
                }
            }
        }
    }
}
