//! Accumulation histories (C08, C09): a postfix stack machine over registers / statistics states.
//!
//!   E            push an empty state
//!   a <x>        append one observation to the top state
//!   x <n> <xs…>  extend the top state with n observations
//!   g <id> <seed> <param> <n>   extend the top state with a generated sequence (long streams)
//!   f <n> <xs…>  push from_iter(xs)
//!   d            push a copy of the top state (clone / Copy)
//!   m            pop r; top += r
//!   p            pop r, pop l; push l + r
//!   q            query the top state (does not modify it)
use crate::enc::*;
use crate::stat_ops::FElem;
use stats_ci::utils::KahanSum;

/// deterministic generated sequences, defined identically in the Lean driver
pub struct SeqGen {
    pub id: u64,
    pub rng: Rng,
    pub param: f64,
    pub i: u64,
}
impl SeqGen {
    pub fn new(id: u64, seed: u64, param: f64) -> Self {
        SeqGen { id, rng: Rng(seed | 1), param, i: 0 }
    }
    pub fn next(&mut self) -> f64 {
        let i = self.i;
        self.i += 1;
        match self.id {
            0 => self.param,
            1 => {
                // same-sign stream in [param/2, 3 param/2)
                let u = (self.rng.next() >> 11) as f64 / 9007199254740992.0;
                (0.5 + u) * self.param
            }
            2 => {
                // mixed signs and magnitudes 2^-20 .. 2^20 around param
                let r = self.rng.next();
                let u = (r >> 11) as f64 / 9007199254740992.0;
                let k = ((r >> 3) & 63) as i32 - 32;
                let k = k.clamp(-20, 20);
                let s = if r & 1 == 1 { -1.0 } else { 1.0 };
                s * (0.5 + u) * self.param * (2.0f64).powi(k)
            }
            3 => {
                // cancelling pattern x, -x, eps
                match i % 3 {
                    0 => {
                        let u = (self.rng.next() >> 11) as f64 / 9007199254740992.0;
                        self.param = (0.5 + u) * 1048576.0;
                        self.param
                    }
                    1 => -self.param,
                    _ => 0.0009765625,
                }
            }
            5 => {
                // alternating signs: the running total keeps returning to (nearly) zero
                if i % 2 == 0 {
                    self.param
                } else {
                    -self.param
                }
            }
            _ => {
                // large head, then small increments
                if i == 0 {
                    self.param * 16777216.0
                } else {
                    self.param
                }
            }
        }
    }
}

pub fn kahan_prog<F: FElem>(toks: &[String]) -> String {
    let mut st: Vec<KahanSum<F>> = Vec::new();
    let mut i = 0;
    let f = |t: &str| -> F {
        if t.starts_with('x') {
            F::from64(f64::from_bits(u64::from_str_radix(&t[1..], 16).unwrap()))
        } else {
            F::from(f32::from_bits(u32::from_str_radix(&t[1..], 16).unwrap())).unwrap()
        }
    };
    let mut out: Vec<String> = Vec::new();
    while i < toks.len() {
        match toks[i].as_str() {
            "E" => {
                st.push(KahanSum::default());
                i += 1;
            }
            "a" => {
                let x = f(&toks[i + 1]);
                *st.last_mut().unwrap() += x;
                i += 2;
            }
            "x" => {
                let n: usize = toks[i + 1].parse().unwrap();
                for j in 0..n {
                    let x = f(&toks[i + 2 + j]);
                    *st.last_mut().unwrap() += x;
                }
                i += 2 + n;
            }
            "g" => {
                let id: u64 = toks[i + 1].parse().unwrap();
                let seed: u64 = toks[i + 2].parse().unwrap();
                let param = f64::from_bits(u64::from_str_radix(&toks[i + 3][1..], 16).unwrap());
                let n: u64 = toks[i + 4].parse().unwrap();
                let mut g = SeqGen::new(id, seed, param);
                let top = st.last_mut().unwrap();
                for _ in 0..n {
                    *top += F::from64(g.next());
                }
                i += 5;
            }
            "H" => {
                // alternate on ONE long-lived register: a value by `+= x`, then a one-element register by `+= reg`
                let id: u64 = toks[i + 1].parse().unwrap();
                let seed: u64 = toks[i + 2].parse().unwrap();
                let param = f64::from_bits(u64::from_str_radix(&toks[i + 3][1..], 16).unwrap());
                let n: u64 = toks[i + 4].parse().unwrap();
                let mut g = SeqGen::new(id, seed, param);
                let top = st.last_mut().unwrap();
                for j in 0..n {
                    let x = F::from64(g.next());
                    if j % 2 == 0 {
                        *top += x;
                    } else {
                        let mut r = KahanSum::<F>::default();
                        r += x;
                        *top += r;
                    }
                }
                i += 5;
            }
            "F" => {
                // left fold of `nreg` registers of `k` generated values each: `acc = acc + r` (by value) and
                // `acc += r` alternately
                let id: u64 = toks[i + 1].parse().unwrap();
                let seed: u64 = toks[i + 2].parse().unwrap();
                let param = f64::from_bits(u64::from_str_radix(&toks[i + 3][1..], 16).unwrap());
                let nreg: u64 = toks[i + 4].parse().unwrap();
                let k: u64 = toks[i + 5].parse().unwrap();
                let mut g = SeqGen::new(id, seed, param);
                let mut acc = st.pop().unwrap();
                for j in 0..nreg {
                    let mut r = KahanSum::<F>::default();
                    for _ in 0..k {
                        r += F::from64(g.next());
                    }
                    if j % 4 == 3 {
                        acc += r;
                    } else {
                        acc = acc + r;
                    }
                }
                st.push(acc);
                i += 6;
            }
            "d" => {
                let c = *st.last().unwrap();
                st.push(c);
                i += 1;
            }
            "s" => {
                let n = st.len();
                st.swap(n - 1, n - 2);
                i += 1;
            }
            "m" => {
                let r = st.pop().unwrap();
                *st.last_mut().unwrap() += r;
                i += 1;
            }
            "p" => {
                let r = st.pop().unwrap();
                let l = st.pop().unwrap();
                st.push(l + r);
                i += 1;
            }
            "q" => {
                let k = st.last().unwrap();
                let (s, c) = k.verif_parts();
                out.push(format!("{} {} {}", s.enc(), c.enc(), k.value().enc()));
                i += 1;
            }
            "e" => {
                // `==` of the two topmost registers, and of the top one with `KahanSum::from(its value)`
                let n = st.len();
                let (a, bb) = (st[n - 2], st[n - 1]);
                let f = KahanSum::<F>::from(bb.value());
                out.push(format!("{} {} {}", b(a == bb), b(bb == f), f.value().enc()));
                i += 1;
            }
            _ => panic!("bad token"),
        }
    }
    out.join(" | ")
}

/// the same machine over `Arithmetic` states; queries print both registers (through the hook)
pub fn arith_regs_prog<F: FElem>(toks: &[String]) -> String {
    use stats_ci::mean::Arithmetic;
    use stats_ci::StatisticsOps;
    let mut st: Vec<Arithmetic<F>> = Vec::new();
    let mut out: Vec<String> = Vec::new();
    let mut i = 0;
    let f = |t: &str| -> F { pf::<F>(t) };
    while i < toks.len() {
        match toks[i].as_str() {
            "E" => {
                st.push(Arithmetic::new());
                i += 1;
            }
            "a" => {
                StatisticsOps::append(st.last_mut().unwrap(), f(&toks[i + 1])).unwrap();
                i += 2;
            }
            "x" => {
                let n: usize = toks[i + 1].parse().unwrap();
                let v: Vec<F> = toks[i + 2..i + 2 + n].iter().map(|t| f(t)).collect();
                StatisticsOps::extend(st.last_mut().unwrap(), &v).unwrap();
                i += 2 + n;
            }
            "G" => {
                // extend with a generated stream, `batch` observations per call of `extend`
                let id: u64 = toks[i + 1].parse().unwrap();
                let seed: u64 = toks[i + 2].parse().unwrap();
                let param = f64::from_bits(u64::from_str_radix(&toks[i + 3][1..], 16).unwrap());
                let n: usize = toks[i + 4].parse().unwrap();
                let batch: usize = toks[i + 5].parse().unwrap();
                let mut g = SeqGen::new(id, seed, param);
                let top = st.last_mut().unwrap();
                let mut left = n;
                while left > 0 {
                    let b = batch.min(left);
                    let v: Vec<F> = (0..b).map(|_| F::from64(g.next())).collect();
                    StatisticsOps::extend(top, &v).unwrap();
                    left -= b;
                }
                i += 6;
            }
            "L" => {
                // left fold: `nreg` fresh states of `k` generated observations each, merged into the long-lived
                // state on top of the stack (by `+` and by `+=` alternately)
                let id: u64 = toks[i + 1].parse().unwrap();
                let seed: u64 = toks[i + 2].parse().unwrap();
                let param = f64::from_bits(u64::from_str_radix(&toks[i + 3][1..], 16).unwrap());
                let nreg: usize = toks[i + 4].parse().unwrap();
                let k: usize = toks[i + 5].parse().unwrap();
                let mut g = SeqGen::new(id, seed, param);
                for j in 0..nreg {
                    let v: Vec<F> = (0..k).map(|_| F::from64(g.next())).collect();
                    let mut part = Arithmetic::<F>::new();
                    StatisticsOps::extend(&mut part, &v).unwrap();
                    if j % 2 == 0 {
                        let acc = st.pop().unwrap();
                        st.push(acc + part);
                    } else {
                        *st.last_mut().unwrap() += part;
                    }
                }
                i += 6;
            }
            "d" => {
                let c = *st.last().unwrap();
                st.push(c);
                i += 1;
            }
            "s" => {
                let n = st.len();
                st.swap(n - 1, n - 2);
                i += 1;
            }
            "m" => {
                let r = st.pop().unwrap();
                *st.last_mut().unwrap() += r;
                i += 1;
            }
            "p" => {
                let r = st.pop().unwrap();
                let l = st.pop().unwrap();
                st.push(l + r);
                i += 1;
            }
            "q" => {
                let ((s, c), (s2, c2), _) = st.last().unwrap().verif_parts();
                out.push(format!("{} {} {} {} {} {}", s.enc(), c.enc(), (s + c).enc(), s2.enc(), c2.enc(), (s2 + c2).enc()));
                i += 1;
            }
            _ => panic!("bad token"),
        }
    }
    out.join(" | ")
}

fn fenc<F: FElem>(x: f64) -> String {
    F::from64(x).enc()
}

/// a random program over `chunks` chunks of data
fn random_tree<F: FElem>(rng: &mut Rng, chunks: &[Vec<f64>]) -> Vec<String> {
    // build each chunk as its own register, then merge in a random order / shape
    let mut toks: Vec<String> = Vec::new();
    let mut depth = 0usize;
    for (ci, c) in chunks.iter().enumerate() {
        toks.push("E".into());
        depth += 1;
        if rng.coin() {
            toks.push("x".into());
            toks.push(format!("{}", c.len()));
            for x in c {
                toks.push(fenc::<F>(*x));
            }
        } else {
            for x in c {
                toks.push("a".into());
                toks.push(fenc::<F>(*x));
            }
        }
        if rng.below(5) == 0 {
            toks.push("q".into());
        }
        // merge eagerly sometimes (left fold), otherwise leave on the stack (deeper right operands)
        while depth >= 2 && (rng.coin() || ci + 1 == chunks.len()) {
            toks.push(if rng.coin() { "m".into() } else { "p".into() });
            depth -= 1;
        }
    }
    while depth >= 2 {
        toks.push("m".into());
        depth -= 1;
    }
    toks.push("q".into());
    toks
}

pub fn c08(out: &mut Vec<String>, rng: &mut Rng, tier: &str) {
    let reps = if tier == "thorough" { 1500 } else { 250 };
    for i in 0..reps {
        let nchunks = 1 + rng.below(if i % 3 == 0 { 1 } else { 8 }) as usize;
        let mut chunks = Vec::new();
        let style = rng.below(5);
        for _ in 0..nchunks {
            let n = rng.range(0, 60) as usize;
            let mut g = SeqGen::new(style, rng.next(), (2.0f64).powi(rng.range(-30, 30) as i32));
            chunks.push((0..n).map(|_| g.next()).collect::<Vec<f64>>());
        }
        if i % 2 == 0 {
            let t = random_tree::<f64>(rng, &chunks);
            out.push(format!("C08 kahan f {} => {}", t.join(" "), kahan_prog::<f64>(&t)));
        } else {
            let t = random_tree::<f32>(rng, &chunks);
            out.push(format!("C08 kahan g {} => {}", t.join(" "), kahan_prog::<f32>(&t)));
        }
    }
    // every binary merge tree shape over up to 5 chunks is reached by the stack machine:
    // enumerate all well-formed postfix merge sequences
    fn shapes(n: usize) -> Vec<Vec<bool>> {
        // sequences of push(true)/merge(false) with n pushes, n-1 merges, stack never < 1 before merge
        fn go(p: usize, m: usize, n: usize, cur: &mut Vec<bool>, out: &mut Vec<Vec<bool>>) {
            if p == n && m == n - 1 {
                out.push(cur.clone());
                return;
            }
            if p < n {
                cur.push(true);
                go(p + 1, m, n, cur, out);
                cur.pop();
            }
            if m + 1 < p {
                cur.push(false);
                go(p, m + 1, n, cur, out);
                cur.pop();
            }
        }
        let mut out = Vec::new();
        go(0, 0, n, &mut Vec::new(), &mut out);
        out
    }
    for n in 2..=(if tier == "thorough" { 6 } else { 5 }) {
        for sh in shapes(n) {
            let mut toks: Vec<String> = Vec::new();
            let mut g = SeqGen::new(2, rng.next(), 1.0);
            for step in sh {
                if step {
                    toks.push("E".into());
                    toks.push("x".into());
                    toks.push("7".into());
                    for _ in 0..7 {
                        toks.push(fenc::<f32>(g.next()));
                    }
                } else {
                    toks.push("m".into());
                }
            }
            toks.push("q".into());
            out.push(format!("C08 kahan g {} => {}", toks.join(" "), kahan_prog::<f32>(&toks)));
        }
    }
    // right-deep merge trees: the accumulated register is the RIGHT operand of every merge
    // (`r = chunk; r += acc; acc = r`), same-sign data
    for (nchunks, f32v, gid) in [(40usize, true, 1u64), (400, true, 1), (2000, true, 1), (400, false, 1), (3000, false, 1),
                                 (40, true, 0), (400, true, 0), (2000, true, 0), (2000, false, 0), (20000, true, 0)] {
        if tier != "thorough" && nchunks > 2000 {
            continue;
        }
        let mut g = SeqGen::new(gid, rng.next(), 1.1);
        let mut toks: Vec<String> = vec!["E".into()];
        for c in 0..nchunks {
            toks.push("E".into());
            let len = 1 + (c % 3);
            toks.push("x".into());
            toks.push(format!("{}", len));
            for _ in 0..len {
                toks.push(if f32v { fenc::<f32>(g.next()) } else { fenc::<f64>(g.next()) });
            }
            toks.push("s".into());
            toks.push("m".into());
        }
        toks.push("q".into());
        if f32v {
            out.push(format!("C08 kahan g {} => {}", toks.join(" "), kahan_prog::<f32>(&toks)));
        } else {
            out.push(format!("C08 kahan f {} => {}", toks.join(" "), kahan_prog::<f64>(&toks)));
        }
    }
    // equality of registers is equality of their values (`==`), `From<T>` builds a register holding the value
    for _ in 0..(if tier == "thorough" { 300 } else { 60 }) {
        let n = rng.range(1, 12) as usize;
        let xs: Vec<f64> = (0..n).map(|_| (rng.unit() - 0.5) * 8.0).collect();
        let mut toks: Vec<String> = vec!["E".into(), "x".into(), format!("{}", n)];
        toks.extend(xs.iter().map(|x| x.enc()));
        // the same data in another order / a clone / one more element
        toks.push("E".into());
        toks.push("x".into());
        let ys: Vec<f64> = match rng.below(3) {
            0 => xs.clone(),
            1 => xs.iter().rev().cloned().collect(),
            _ => { let mut y = xs.clone(); y.push(rng.unit() * 1e-9); y }
        };
        toks.push(format!("{}", ys.len()));
        toks.extend(ys.iter().map(|x| x.enc()));
        toks.push("e".into());
        out.push(format!("C08 kahan f {} => {}", toks.join(" "), kahan_prog::<f64>(&toks)));
        let t32: Vec<String> = toks.iter().map(|t| if t.starts_with('x') && t.len() == 17 { (f64::from_bits(u64::from_str_radix(&t[1..], 16).unwrap()) as f32).enc() } else { t.clone() }).collect();
        out.push(format!("C08 kahan g {} => {}", t32.join(" "), kahan_prog::<f32>(&t32)));
    }
    // long left folds of small registers, merged by value (`acc + r`) and in place (`acc += r`)
    for (nreg, k, id, param) in [(30_000u64, 3u64, 0u64, 0.1f64), (100_000, 3, 1, 1.1), (20_000, 8, 2, 1.0), (50_000, 1, 1, -0.7)] {
        let toks: Vec<String> = vec!["E".into(), "F".into(), format!("{}", id), format!("{}", rng.next() >> 1), param.enc(), format!("{}", nreg), format!("{}", k), "q".into()];
        out.push(format!("C08 kahan g {} => {}", toks.join(" "), kahan_prog::<f32>(&toks)));
        out.push(format!("C08 kahan f {} => {}", toks.join(" "), kahan_prog::<f64>(&toks)));
    }
    // long streams of one sign, negative as well as positive (running total dominated by what was added before)
    for (n, id, param) in [(100_000u64, 1u64, -1.1f64), (100_000, 0, -0.1), (300_000, 1, -3.7), (100_000, 1, 2.3)] {
        for op in ["g", "H"] {
            let toks: Vec<String> = vec!["E".into(), op.into(), format!("{}", id), format!("{}", rng.next() >> 1), param.enc(), format!("{}", n), "q".into()];
            out.push(format!("C08 kahan g {} => {}", toks.join(" "), kahan_prog::<f32>(&toks)));
            out.push(format!("C08 kahan f {} => {}", toks.join(" "), kahan_prog::<f64>(&toks)));
        }
    }
    // long one-sign streams of tiny magnitude: the running totals are normal numbers but the error terms
    // (the compensation) are subnormal — they still carry the lost low-order parts
    for (n, id, param32, param64) in [(100_000u64, 1u64, 1.1e-37f64, 1.3e-298f64), (60_000, 0, 3.0e-38, 7.0e-301), (200_000, 1, -2.3e-37, -4.1e-299)] {
        for op in ["g", "H"] {
            let t32: Vec<String> = vec!["E".into(), op.into(), format!("{}", id), format!("{}", rng.next() >> 1), param32.enc(), format!("{}", n), "q".into()];
            out.push(format!("C08 kahan g {} => {}", t32.join(" "), kahan_prog::<f32>(&t32)));
            let t64: Vec<String> = vec!["E".into(), op.into(), format!("{}", id), format!("{}", rng.next() >> 1), param64.enc(), format!("{}", n), "q".into()];
            out.push(format!("C08 kahan f {} => {}", t64.join(" "), kahan_prog::<f64>(&t64)));
        }
    }
    // one register fed alternately by value and by (one-element) register
    for (n, id, param) in [(20_000u64, 1u64, 1.1f64), (1_000_000, 1, 1.1), (1_000_000, 2, 1.0), (200_000, 0, 0.1)] {
        if tier != "thorough" && n > 200_000 && id == 2 {
            continue;
        }
        let toks: Vec<String> = vec!["E".into(), "H".into(), format!("{}", id), format!("{}", rng.next() >> 1), param.enc(), format!("{}", n), "q".into()];
        out.push(format!("C08 kahan g {} => {}", toks.join(" "), kahan_prog::<f32>(&toks)));
        out.push(format!("C08 kahan f {} => {}", toks.join(" "), kahan_prog::<f64>(&toks)));
    }
    // the statistics built on the registers: `Arithmetic` histories (sum and sum of squares),
    // including a long-lived state extended in many small batches
    for i in 0..(if tier == "thorough" { 300 } else { 60 }) {
        let nchunks = 1 + rng.below(6) as usize;
        let style = rng.below(5);
        let chunks: Vec<Vec<f64>> = (0..nchunks)
            .map(|_| {
                let n = rng.range(0, 40) as usize;
                let mut g = SeqGen::new(style, rng.next(), (2.0f64).powi(rng.range(-12, 12) as i32));
                (0..n).map(|_| g.next()).collect()
            })
            .collect();
        if i % 2 == 0 {
            let t = random_tree::<f64>(rng, &chunks);
            out.push(format!("C08 kahanA f {} => {}", t.join(" "), arith_regs_prog::<f64>(&t)));
        } else {
            let t = random_tree::<f32>(rng, &chunks);
            out.push(format!("C08 kahanA g {} => {}", t.join(" "), arith_regs_prog::<f32>(&t)));
        }
    }
    // a long-lived state into which many small fresh states are merged (left fold), on cancelling and on
    // same-sign data: both statistics keep the bound of the history
    for (nreg, k, id, param) in [(20_000usize, 1usize, 5u64, 1.1f64), (30_000, 2, 5, 0.3), (10_000, 3, 5, 1.7), (20_000, 1, 1, 1.1), (5_000, 4, 2, 1.0)] {
        let nreg = if tier == "thorough" { nreg * 10 } else { nreg };
        let toks: Vec<String> = vec![
            "E".into(), "L".into(), format!("{}", id), format!("{}", rng.next() >> 1), param.enc(),
            format!("{}", nreg), format!("{}", k), "q".into(),
        ];
        out.push(format!("C08 kahanA g {} => {}", toks.join(" "), arith_regs_prog::<f32>(&toks)));
        out.push(format!("C08 kahanA f {} => {}", toks.join(" "), arith_regs_prog::<f64>(&toks)));
    }
    let long_n: Vec<usize> = if tier == "thorough" { vec![200_000, 2_000_000, 8_000_000] } else { vec![100_000, 400_000] };
    for n in long_n {
        for (id, param, batch) in [(0u64, 1.1f64, 4usize), (1, 1.1, 1), (0, 0.1, 7), (2, 1.0, 3)] {
            let toks: Vec<String> = vec![
                "E".into(), "G".into(), format!("{}", id), format!("{}", rng.next() >> 1), param.enc(),
                format!("{}", n), format!("{}", batch), "q".into(),
            ];
            out.push(format!("C08 kahanA g {} => {}", toks.join(" "), arith_regs_prog::<f32>(&toks)));
            if n <= 400_000 {
                out.push(format!("C08 kahanA f {} => {}", toks.join(" "), arith_regs_prog::<f64>(&toks)));
            }
        }
    }
    // long streams (generated on both sides): constants, same-sign, mixed, cancelling, head+increments
    let lens: Vec<u64> = if tier == "thorough" { vec![100_000, 1_000_000, 10_000_000] } else { vec![50_000, 1_000_000] };
    for n in lens {
        for id in 0..5u64 {
            let param: f64 = match id {
                0 => 0.1,
                1 => 1.1,
                2 => 1.0,
                3 => 1.0,
                _ => 1.0,
            };
            for nchunks in [1u64, 8] {
                let mut toks: Vec<String> = Vec::new();
                for c in 0..nchunks {
                    toks.push("E".into());
                    toks.push("g".into());
                    toks.push(format!("{}", id));
                    toks.push(format!("{}", rng.next() >> 1));
                    toks.push(param.enc());
                    toks.push(format!("{}", n / nchunks));
                    if c > 0 && c % 2 == 1 {
                        toks.push("m".into());
                    }
                }
                // fold what is left on the stack (pairs -> balanced-ish tree)
                let pushes = nchunks;
                let merges = (0..nchunks).filter(|c| *c > 0 && c % 2 == 1).count() as u64;
                for _ in 0..(pushes - merges - 1) {
                    toks.push("p".into());
                }
                toks.push("q".into());
                out.push(format!("C08 kahan g {} => {}", toks.join(" "), kahan_prog::<f32>(&toks)));
                if n <= 1_000_000 {
                    out.push(format!("C08 kahan f {} => {}", toks.join(" "), kahan_prog::<f64>(&toks)));
                }
            }
        }
    }
}

// ------------------------------------------------------------------------------------------
// C09: the same stack machine over every statistics state

use stats_ci::comparison::{Paired, Unpaired};
use stats_ci::mean::{Arithmetic, Geometric, Harmonic};
use stats_ci::{proportion, quantile, Confidence, StatisticsOps};

fn pf<F: FElem>(t: &str) -> F {
    if t.starts_with('x') {
        F::from64(f64::from_bits(u64::from_str_radix(&t[1..], 16).unwrap()))
    } else {
        F::from(f32::from_bits(u32::from_str_radix(&t[1..], 16).unwrap())).unwrap()
    }
}

pub trait Acc: Clone + Send + 'static {
    /// tokens per observation
    const OBS: usize;
    fn new() -> Self;
    fn append(&mut self, obs: &[String]);
    /// extend with a chunk of observations (uses the type's own chunked entry points)
    fn extend(&mut self, obs: &[String]);
    fn from_iter(obs: &[String]) -> Self {
        let mut s = Self::new();
        s.extend(obs);
        s
    }
    fn merge_assign(&mut self, r: Self);
    fn add(self, r: Self) -> Self;
    fn query(&self, conf: Confidence) -> String;
}

fn arith_query<F: FElem>(a: &Arithmetic<F>, conf: Confidence) -> String {
    let ((s, c), (s2, c2), n) = a.verif_parts();
    format!(
        "{} {} {} {} {} | {} | {} {} {} {}",
        n,
        guarded(|| a.sample_mean().enc()),
        guarded(|| a.sample_variance().enc()),
        guarded(|| a.sample_std_dev().enc()),
        guarded(|| a.sample_sem().enc()),
        guarded(|| enc_cires(&a.ci_mean(conf))),
        s.enc(),
        c.enc(),
        s2.enc(),
        c2.enc()
    )
}

impl<F: FElem> Acc for Arithmetic<F> {
    const OBS: usize = 1;
    fn new() -> Self {
        Arithmetic::new()
    }
    fn append(&mut self, obs: &[String]) {
        StatisticsOps::append(self, pf::<F>(&obs[0])).unwrap();
    }
    fn extend(&mut self, obs: &[String]) {
        let v: Vec<F> = obs.iter().map(|t| pf::<F>(t)).collect();
        StatisticsOps::extend(self, &v).unwrap();
    }
    fn from_iter(obs: &[String]) -> Self {
        let v: Vec<F> = obs.iter().map(|t| pf::<F>(t)).collect();
        <Arithmetic<F> as StatisticsOps<F>>::from_iter(&v).unwrap()
    }
    fn merge_assign(&mut self, r: Self) {
        *self += r;
    }
    fn add(self, r: Self) -> Self {
        self + r
    }
    fn query(&self, conf: Confidence) -> String {
        arith_query(self, conf)
    }
}

macro_rules! wrapper_acc {
    ($ty:ident) => {
        impl<F: FElem> Acc for $ty<F> {
            const OBS: usize = 1;
            fn new() -> Self {
                $ty::new()
            }
            fn append(&mut self, obs: &[String]) {
                $ty::append(self, pf::<F>(&obs[0])).unwrap();
            }
            fn extend(&mut self, obs: &[String]) {
                let v: Vec<F> = obs.iter().map(|t| pf::<F>(t)).collect();
                StatisticsOps::extend(self, &v).unwrap();
            }
            fn from_iter(obs: &[String]) -> Self {
                let v: Vec<F> = obs.iter().map(|t| pf::<F>(t)).collect();
                <$ty<F> as StatisticsOps<F>>::from_iter(&v).unwrap()
            }
            fn merge_assign(&mut self, r: Self) {
                *self += r;
            }
            fn add(self, r: Self) -> Self {
                self + r
            }
            fn query(&self, conf: Confidence) -> String {
                format!(
                    "{} {} {} | {}",
                    self.sample_count(),
                    guarded(|| self.sample_mean().enc()),
                    guarded(|| self.sample_sem().enc()),
                    guarded(|| enc_cires(&self.ci_mean(conf)))
                )
            }
        }
    };
}
wrapper_acc!(Geometric);
wrapper_acc!(Harmonic);

impl<F: FElem> Acc for Paired<F> {
    const OBS: usize = 2;
    fn new() -> Self {
        Paired::default()
    }
    fn append(&mut self, obs: &[String]) {
        self.append_pair(pf::<F>(&obs[0]), pf::<F>(&obs[1])).unwrap();
    }
    fn extend(&mut self, obs: &[String]) {
        let a: Vec<F> = obs.iter().step_by(2).map(|t| pf::<F>(t)).collect();
        let b: Vec<F> = obs.iter().skip(1).step_by(2).map(|t| pf::<F>(t)).collect();
        if a.len() % 2 == 0 {
            Paired::extend(self, &a, &b).unwrap();
        } else {
            let t: Vec<(F, F)> = a.into_iter().zip(b.into_iter()).collect();
            self.extend_tuple(&t).unwrap();
        }
    }
    fn merge_assign(&mut self, r: Self) {
        *self += r;
    }
    fn add(self, r: Self) -> Self {
        self + r
    }
    fn query(&self, conf: Confidence) -> String {
        format!(
            "{} {} {} | {}",
            self.sample_count(),
            guarded(|| self.sample_mean().enc()),
            guarded(|| self.sample_sem().enc()),
            guarded(|| enc_cires(&self.ci_mean(conf)))
        )
    }
}

impl<F: FElem> Acc for Unpaired<F> {
    const OBS: usize = 2; // `A x` or `B y`
    fn new() -> Self {
        Unpaired::default()
    }
    fn append(&mut self, obs: &[String]) {
        // alternate between the wrapper and the mutable accessor of the per-sample statistics
        let x = pf::<F>(&obs[1]);
        let via_accessor = obs[1].as_bytes().last().map(|c| c % 2 == 0).unwrap_or(false);
        if obs[0] == "A" {
            if via_accessor {
                stats_ci::StatisticsOps::append(self.stats_a_mut(), x).unwrap();
            } else {
                self.append_a(x).unwrap();
            }
        } else if via_accessor {
            stats_ci::StatisticsOps::append(self.stats_b_mut(), x).unwrap();
        } else {
            self.append_b(x).unwrap();
        }
    }
    fn extend(&mut self, obs: &[String]) {
        let mut a: Vec<F> = Vec::new();
        let mut b: Vec<F> = Vec::new();
        for o in obs.chunks(2) {
            if o[0] == "A" {
                a.push(pf::<F>(&o[1]));
            } else {
                b.push(pf::<F>(&o[1]));
            }
        }
        if a.len() % 2 == 0 {
            Unpaired::extend(self, &a, &b).unwrap();
        } else {
            self.extend_b(&b).unwrap();
            self.extend_a(&a).unwrap();
        }
    }
    fn from_iter(obs: &[String]) -> Self {
        let mut a: Vec<F> = Vec::new();
        let mut b: Vec<F> = Vec::new();
        for o in obs.chunks(2) {
            if o[0] == "A" {
                a.push(pf::<F>(&o[1]));
            } else {
                b.push(pf::<F>(&o[1]));
            }
        }
        Unpaired::from_iter(&a, &b).unwrap()
    }
    fn merge_assign(&mut self, r: Self) {
        *self += r;
    }
    fn add(self, r: Self) -> Self {
        self + r
    }
    fn query(&self, conf: Confidence) -> String {
        format!(
            "{} {} {} {} | {}",
            self.stats_a().sample_count(),
            self.stats_b().sample_count(),
            guarded(|| self.stats_a().sample_mean().enc()),
            guarded(|| self.stats_b().sample_mean().enc()),
            guarded(|| enc_cires(&self.ci_mean(conf)))
        )
    }
}

impl Acc for proportion::Stats {
    const OBS: usize = 1;
    fn new() -> Self {
        proportion::Stats::default()
    }
    fn append(&mut self, obs: &[String]) {
        if obs[0] == "T" {
            self.add_success()
        } else {
            self.add_failure()
        }
    }
    fn extend(&mut self, obs: &[String]) {
        let v: Vec<bool> = obs.iter().map(|t| t == "T").collect();
        match v.len() % 4 {
            0 => proportion::Stats::extend(self, &v),
            1 => self.extend_if(&v, |x| *x),
            // containers with gaps (inexact size hint)
            2 => proportion::Stats::extend(self, &Sparse::of(&v, 3)),
            _ => self.extend_if(&Sparse::of(&v, 2), |x| *x),
        }
    }
    fn from_iter(obs: &[String]) -> Self {
        if obs.len() % 2 == 0 {
            obs.iter().map(|t| t == "T").collect()
        } else {
            // a lazily thinned iterator: its size hint is only an upper bound
            let padded: Vec<Option<bool>> = obs.iter().flat_map(|t| [None, Some(t == "T")]).collect();
            padded.iter().filter_map(|x| *x).collect()
        }
    }
    fn merge_assign(&mut self, r: Self) {
        *self += r;
    }
    fn add(self, r: Self) -> Self {
        self + r
    }
    fn query(&self, conf: Confidence) -> String {
        format!("{} {} | {}", self.population(), self.successes(), guarded(|| enc_cires(&self.ci(conf))))
    }
}

impl Acc for quantile::Stats {
    const OBS: usize = 1;
    fn new() -> Self {
        quantile::Stats::default()
    }
    fn append(&mut self, _obs: &[String]) {
        *self += quantile::Stats::new(1);
    }
    fn extend(&mut self, obs: &[String]) {
        *self = *self + quantile::Stats::new(obs.len());
    }
    fn from_iter(obs: &[String]) -> Self {
        quantile::Stats::new(obs.len())
    }
    fn merge_assign(&mut self, r: Self) {
        *self += r;
    }
    fn add(self, r: Self) -> Self {
        self + r
    }
    fn query(&self, conf: Confidence) -> String {
        guarded(|| enc_cires(&self.ci(conf, 0.5)))
    }
}

/// interpret a program; returns the outputs of its queries, then `B` and the batch query
pub fn run_prog<S: Acc>(conf: Confidence, toks: &[String]) -> String {
    let mut st: Vec<S> = Vec::new();
    let mut data: Vec<Vec<String>> = Vec::new(); // observations delivered to each stack entry, in order
    let mut out: Vec<String> = Vec::new();
    let mut i = 0;
    while i < toks.len() {
        match toks[i].as_str() {
            "E" => {
                st.push(S::new());
                data.push(Vec::new());
                i += 1;
            }
            "a" => {
                let obs = &toks[i + 1..i + 1 + S::OBS];
                st.last_mut().unwrap().append(obs);
                data.last_mut().unwrap().extend_from_slice(obs);
                i += 1 + S::OBS;
            }
            "x" | "f" => {
                let n: usize = toks[i + 1].parse().unwrap();
                let obs = &toks[i + 2..i + 2 + n * S::OBS];
                if toks[i] == "x" {
                    st.last_mut().unwrap().extend(obs);
                    data.last_mut().unwrap().extend_from_slice(obs);
                } else {
                    st.push(S::from_iter(obs));
                    data.push(obs.to_vec());
                }
                i += 2 + n * S::OBS;
            }
            "d" => {
                let c = st.last().unwrap().clone();
                let d = data.last().unwrap().clone();
                st.push(c);
                data.push(d);
                i += 1;
            }
            "m" => {
                let r = st.pop().unwrap();
                let rd = data.pop().unwrap();
                st.last_mut().unwrap().merge_assign(r);
                data.last_mut().unwrap().extend(rd);
                i += 1;
            }
            "p" => {
                let r = st.pop().unwrap();
                let l = st.pop().unwrap();
                let rd = data.pop().unwrap();
                st.push(l.add(r));
                data.last_mut().unwrap().extend(rd);
                i += 1;
            }
            "q" => {
                let here = guarded(|| st.last().unwrap().query(conf));
                // the same query on a copy of the state, asked on a fresh thread: a query is a function
                // of the state and the confidence, not of what was asked before
                let copy = st.last().unwrap().clone();
                let fresh = std::thread::spawn(move || {
                    std::panic::set_hook(Box::new(|_| {}));
                    guarded(|| copy.query(conf))
                })
                .join()
                .unwrap_or_else(|_| "panic thread".to_string());
                out.push(format!("{} | {}", here, if fresh == here { "hist:same" } else { "hist:DIFFERS" }));
                i += 1;
            }
            _ => panic!("bad token {}", toks[i]),
        }
    }
    // the batch computation over everything the final state was fed, in delivery order
    let all = data.last().cloned().unwrap_or_default();
    out.push("B".to_string());
    out.push(format!("{} | hist:same", guarded(|| S::from_iter(&all).query(conf))));
    out.join(" | ")
}

fn obs_tokens<F: FElem>(kind: &str, rng: &mut Rng, scale: f64) -> Vec<String> {
    match kind {
        "arith" => vec![fenc::<F>((rng.unit() - 0.3) * scale)],
        "geo" | "harm" => vec![fenc::<F>((0.25 + rng.unit()) * scale)],
        "paired" => vec![fenc::<F>(rng.unit() * scale), fenc::<F>((rng.unit() - 0.1) * scale)],
        "unpaired" => vec![if rng.coin() { "A".into() } else { "B".into() }, fenc::<F>((rng.unit() - 0.4) * scale)],
        "prop" => vec![if rng.below(3) == 0 { "F".into() } else { "T".into() }],
        _ => vec!["U".into()],
    }
}

/// a random history: chunks built by append / extend / from_iter, clones, merges in random
/// shapes, queries interleaved (sometimes repeated)
fn random_history<F: FElem>(kind: &str, rng: &mut Rng, max_ops: usize) -> Vec<String> {
    let scale = (2.0f64).powi(rng.range(-8, 8) as i32);
    let mut toks: Vec<String> = Vec::new();
    let mut depth = 0usize;
    let nops = rng.range(1, max_ops as i64) as usize;
    for _ in 0..nops {
        match rng.below(10) {
            0 | 1 => {
                toks.push("E".into());
                depth += 1;
            }
            2 if depth > 0 => {
                toks.push("a".into());
                toks.extend(obs_tokens::<F>(kind, rng, scale));
            }
            3 | 4 if depth > 0 => {
                let n = rng.range(0, 12) as usize;
                toks.push("x".into());
                toks.push(format!("{}", n));
                for _ in 0..n {
                    toks.extend(obs_tokens::<F>(kind, rng, scale));
                }
            }
            5 => {
                let n = rng.range(0, 12) as usize;
                toks.push("f".into());
                toks.push(format!("{}", n));
                for _ in 0..n {
                    toks.extend(obs_tokens::<F>(kind, rng, scale));
                }
                depth += 1;
            }
            6 if depth > 0 && depth < 6 => {
                toks.push("d".into());
                depth += 1;
            }
            7 | 8 if depth >= 2 => {
                toks.push(if rng.coin() { "m".into() } else { "p".into() });
                depth -= 1;
            }
            9 if depth > 0 => {
                toks.push("q".into());
                if rng.coin() {
                    toks.push("q".into());
                }
            }
            _ => {}
        }
    }
    if depth == 0 {
        toks.push("E".into());
        depth = 1;
    }
    while depth >= 2 {
        toks.push(if rng.coin() { "m".into() } else { "p".into() });
        depth -= 1;
    }
    toks.push("q".into());
    toks
}

pub fn c09(out: &mut Vec<String>, rng: &mut Rng, tier: &str) {
    let reps = if tier == "thorough" { 600 } else { 80 };
    let kinds = ["arith", "geo", "harm", "paired", "unpaired", "prop", "quant"];
    for i in 0..reps {
        for kind in kinds {
            let conf = crate::gen::rand_conf(rng);
            let max_ops = if i % 10 == 0 { 200 } else { 40 };
            let f32v = i % 2 == 1;
            let (toks, res, tag) = match (kind, f32v) {
                ("arith", false) => { let t = random_history::<f64>(kind, rng, max_ops); let r = run_prog::<Arithmetic<f64>>(conf, &t); (t, r, "f") }
                ("arith", true) => { let t = random_history::<f32>(kind, rng, max_ops); let r = run_prog::<Arithmetic<f32>>(conf, &t); (t, r, "g") }
                ("geo", false) => { let t = random_history::<f64>(kind, rng, max_ops); let r = run_prog::<Geometric<f64>>(conf, &t); (t, r, "f") }
                ("geo", true) => { let t = random_history::<f32>(kind, rng, max_ops); let r = run_prog::<Geometric<f32>>(conf, &t); (t, r, "g") }
                ("harm", false) => { let t = random_history::<f64>(kind, rng, max_ops); let r = run_prog::<Harmonic<f64>>(conf, &t); (t, r, "f") }
                ("harm", true) => { let t = random_history::<f32>(kind, rng, max_ops); let r = run_prog::<Harmonic<f32>>(conf, &t); (t, r, "g") }
                ("paired", false) => { let t = random_history::<f64>(kind, rng, max_ops); let r = run_prog::<Paired<f64>>(conf, &t); (t, r, "f") }
                ("paired", true) => { let t = random_history::<f32>(kind, rng, max_ops); let r = run_prog::<Paired<f32>>(conf, &t); (t, r, "g") }
                ("unpaired", false) => { let t = random_history::<f64>(kind, rng, max_ops); let r = run_prog::<Unpaired<f64>>(conf, &t); (t, r, "f") }
                ("unpaired", true) => { let t = random_history::<f32>(kind, rng, max_ops); let r = run_prog::<Unpaired<f32>>(conf, &t); (t, r, "g") }
                ("prop", _) => { let t = random_history::<f64>(kind, rng, max_ops); let r = run_prog::<proportion::Stats>(conf, &t); (t, r, "f") }
                _ => { let t = random_history::<f64>(kind, rng, max_ops); let r = run_prog::<quantile::Stats>(conf, &t); (t, r, "f") }
            };
            out.push(format!("C09 prog {} {} {} {} => {}", tag, kind, enc_conf(&conf), toks.join(" "), res));
        }
    }
    // sample counts of states standing for more than 2^24 observations (beyond the integers an f32 can count)
    for (d, extra) in [(24usize, 1000usize), (25, 3), (22, 5)] {
        out.push(big_count_case::<f32, Arithmetic<f32>>("arith", d, extra));
        out.push(big_count_case::<f32, Geometric<f32>>("geo", d, extra));
        out.push(big_count_case::<f32, Harmonic<f32>>("harm", d, extra));
        out.push(big_count_case::<f32, Paired<f32>>("paired", d, extra));
        out.push(big_count_case::<f64, Arithmetic<f64>>("arith", d, extra));
    }
    // … and for more than 2^32 observations (beyond a 32-bit counter), every state type
    for (d, extra) in [(32usize, 3usize), (33, 7), (31, 2)] {
        out.push(big_count_case::<f64, Arithmetic<f64>>("arith", d, extra));
        out.push(big_count_case::<f32, Arithmetic<f32>>("arith", d, extra));
        out.push(big_count_case::<f64, Geometric<f64>>("geo", d, extra));
        out.push(big_count_case::<f64, Harmonic<f64>>("harm", d, extra));
        out.push(big_count_case::<f64, Paired<f64>>("paired", d, extra));
    }
    // long chunks through extend / from_iter (more than a thousand observations per call)
    for (i, n) in [1024usize, 1025, 2050, 3000, 5000].iter().enumerate() {
        for kind in ["arith", "geo", "unpaired"] {
            let conf = crate::gen::rand_conf(rng);
            let mut toks: Vec<String> = Vec::new();
            let op = if i % 2 == 0 { "f" } else { "x" };
            if op == "x" {
                toks.push("E".into());
            }
            toks.push(op.into());
            toks.push(format!("{}", n));
            for _ in 0..*n {
                toks.extend(obs_tokens::<f64>(kind, rng, 1.0));
            }
            toks.push("a".into());
            toks.extend(obs_tokens::<f64>(kind, rng, 1.0));
            toks.push("q".into());
            let res = match kind {
                "arith" => run_prog::<Arithmetic<f64>>(conf, &toks),
                "geo" => run_prog::<Geometric<f64>>(conf, &toks),
                _ => run_prog::<Unpaired<f64>>(conf, &toks),
            };
            out.push(format!("C09 prog f {} {} {} => {}", kind, enc_conf(&conf), toks.join(" "), res));
        }
    }
    // parallel reduction (rayon) of chunked data over 1..16 threads: any schedule must give the batch result
    use rayon::prelude::*;
    let preps = if tier == "thorough" { 60 } else { 12 };
    for i in 0..preps {
        let threads = 1 + (i % 16);
        let nchunks = rng.range(1, 40) as usize;
        let conf = crate::gen::rand_conf(rng);
        let chunks: Vec<Vec<f32>> = (0..nchunks)
            .map(|_| {
                let n = rng.range(0, 400) as usize;
                (0..n).map(|_| ((rng.unit() - 0.2) * 8.0) as f32).collect()
            })
            .collect();
        let pool = rayon::ThreadPoolBuilder::new().num_threads(threads).build().unwrap();
        let reduced: Arithmetic<f32> = pool.install(|| {
            chunks
                .par_iter()
                .map(|c| <Arithmetic<f32> as StatisticsOps<f32>>::from_iter(c).unwrap())
                .reduce(Arithmetic::default, |a, b| a + b)
        });
        let mut l = format!("C09 par g {} {} {}", enc_conf(&conf), threads, nchunks);
        for c in &chunks {
            l.push(' ');
            l.push_str(&crate::stat_ops::enc_list(c));
        }
        out.push(format!("{} => {}", l, arith_query(&reduced, conf)));
    }
}

/// sample counts of very large states: a one-observation state doubled `d` times (`s = s + s` / `s += s`), then
/// `extra` single appends; and the same doubled state merged with a chunk of `extra` observations
pub fn big_count_case<F: FElem, S: Acc + Clone>(kind: &str, d: usize, extra: usize) -> String {
    big_count_case_p::<F, S>("C09", kind, d, extra)
}

pub fn big_count_case_p<F: FElem, S: Acc + Clone>(prop: &str, kind: &str, d: usize, extra: usize) -> String {
    let one: Vec<String> = match kind {
        "paired" => vec![fenc::<F>(1.5), fenc::<F>(0.5)],
        "unpaired" => vec!["A".into(), fenc::<F>(1.5)],
        _ => vec![fenc::<F>(1.5)],
    };
    let res = guarded(|| {
        let mut s = S::from_iter(&one);
        for i in 0..d {
            if i % 2 == 0 {
                s = s.clone().add(s.clone());
            } else {
                let c = s.clone();
                s.merge_assign(c);
            }
        }
        let mut a = s.clone();
        for _ in 0..extra {
            a.append(&one);
        }
        let mut chunk: Vec<String> = Vec::new();
        for _ in 0..extra {
            chunk.extend(one.clone());
        }
        let bq = s.clone().add(S::from_iter(&chunk));
        let conf = Confidence::new_two_sided(0.9);
        let first = |q: String| q.split(' ').next().unwrap_or("?").to_string();
        format!("{} {}", first(a.query(conf)), first(bq.query(conf)))
    });
    format!("{} count {} {} {} {} => {}", prop, F::TAG, kind, d, extra, res)
}

pub fn fenc_pub<F: FElem>(x: f64) -> String {
    fenc::<F>(x)
}
pub fn obs_tokens_pub<F: FElem>(kind: &str, rng: &mut Rng, scale: f64) -> Vec<String> {
    obs_tokens::<F>(kind, rng, scale)
}
pub fn random_history_pub<F: FElem>(kind: &str, rng: &mut Rng, max_ops: usize) -> Vec<String> {
    random_history::<F>(kind, rng, max_ops).into_iter().filter(|t| t != "q").collect()
}
/// the state at the top of the stack after running a program (queries ignored)
pub fn final_state<S: Acc>(toks: &[String]) -> S {
    let mut st: Vec<S> = Vec::new();
    let mut i = 0;
    while i < toks.len() {
        match toks[i].as_str() {
            "E" => {
                st.push(S::new());
                i += 1;
            }
            "a" => {
                st.last_mut().unwrap().append(&toks[i + 1..i + 1 + S::OBS]);
                i += 1 + S::OBS;
            }
            "x" | "f" => {
                let n: usize = toks[i + 1].parse().unwrap();
                let obs = &toks[i + 2..i + 2 + n * S::OBS];
                if toks[i] == "x" {
                    st.last_mut().unwrap().extend(obs);
                } else {
                    st.push(S::from_iter(obs));
                }
                i += 2 + n * S::OBS;
            }
            "d" => {
                let c = st.last().unwrap().clone();
                st.push(c);
                i += 1;
            }
            "m" => {
                let r = st.pop().unwrap();
                st.last_mut().unwrap().merge_assign(r);
                i += 1;
            }
            "p" => {
                let r = st.pop().unwrap();
                let l = st.pop().unwrap();
                st.push(l.add(r));
                i += 1;
            }
            "q" => i += 1,
            _ => panic!("bad token"),
        }
    }
    st.pop().unwrap()
}
