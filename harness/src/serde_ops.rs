//! C20: serialized state round-trips losslessly (built only with `--features serde`).
use crate::enc::*;
use crate::prog_ops::{final_state, obs_tokens_pub, random_history_pub, Acc};
use crate::stat_ops::FElem;
use serde::de::DeserializeOwned;
use serde::Serialize;
use stats_ci::comparison::{Paired, Unpaired};
use stats_ci::mean::{Arithmetic, Geometric, Harmonic};
use stats_ci::{proportion, Confidence, Interval};

/// canonical text of a value tree; floats as bit patterns of the data type `F`
fn tree<F: FElem>(v: &serde_json::Value) -> String {
    match v {
        serde_json::Value::Number(n) => {
            if let Some(u) = n.as_u64() {
                format!("{}", u)
            } else {
                F::from64(n.as_f64().unwrap()).enc()
            }
        }
        serde_json::Value::Array(a) => format!("[{}]", a.iter().map(|x| tree::<F>(x)).collect::<Vec<_>>().join(",")),
        serde_json::Value::Object(o) => {
            // serde_json's map is sorted by key unless preserve_order; report in sorted order
            let mut ks: Vec<&String> = o.keys().collect();
            ks.sort();
            format!("{{{}}}", ks.iter().map(|k| format!("{}:{}", k, tree::<F>(&o[*k]))).collect::<Vec<_>>().join(","))
        }
        serde_json::Value::Null => "null".into(),
        serde_json::Value::Bool(b) => format!("{}", b),
        serde_json::Value::String(s) => format!("\"{}\"", s),
    }
}

fn roundtrips<S: Serialize + DeserializeOwned + PartialEq>(s: &S) -> (String, Option<S>) {
    let v = serde_json::to_value(s).unwrap();
    let via_value: Result<S, _> = serde_json::from_value(v.clone());
    let text = serde_json::to_string(s).unwrap();
    let via_text: Result<S, _> = serde_json::from_str(&text);
    let toml_flag = match toml::to_string(s) {
        Ok(t) => match toml::from_str::<S>(&t) {
            Ok(b) => {
                if &b == s {
                    "toml:T"
                } else {
                    "toml:F"
                }
            }
            Err(_) => "toml:parse-error",
        },
        Err(_) => "toml:unsupported",
    };
    let ok = match (&via_value, &via_text) {
        (Ok(a), Ok(b)) => a == s && b == s,
        _ => false,
    };
    (format!("{} {}", b(ok), toml_flag), via_value.ok())
}

fn ser_state<F: FElem, S: Acc + Serialize + DeserializeOwned + PartialEq>(kind: &str, conf: Confidence, rng: &mut Rng, max_ops: usize) -> String {
    let toks = random_history_pub::<F>(kind, rng, max_ops);
    ser_state_toks::<F, S>(kind, conf, rng, toks)
}

/// constant samples of values that are not exactly representable (the one-pass variance rounds to a
/// tiny negative number for some of them; the accessors clamp it, and the state must still round-trip)
fn constant_history<F: FElem>(kind: &str, v: f64, n: usize) -> Vec<String> {
    let one: Vec<String> = match kind {
        "paired" => vec![crate::prog_ops::fenc_pub::<F>(v), crate::prog_ops::fenc_pub::<F>(v * 0.5)],
        "unpaired" => vec!["A".into(), crate::prog_ops::fenc_pub::<F>(v)],
        _ => vec![crate::prog_ops::fenc_pub::<F>(v)],
    };
    let mut toks: Vec<String> = vec!["E".into(), "x".into(), format!("{}", n)];
    for _ in 0..n {
        toks.extend(one.clone());
    }
    if kind == "unpaired" {
        toks.push("x".into());
        toks.push(format!("{}", n));
        for _ in 0..n {
            toks.push("B".into());
            toks.push(crate::prog_ops::fenc_pub::<F>(v * 1.5));
        }
    }
    toks
}

fn ser_state_toks<F: FElem, S: Acc + Serialize + DeserializeOwned + PartialEq>(kind: &str, conf: Confidence, rng: &mut Rng, toks: Vec<String>) -> String {
    let s: S = final_state::<S>(&toks);
    let v = serde_json::to_value(&s).unwrap();
    let (flags, restored) = roundtrips(&s);
    let (same, cont) = match restored {
        Some(mut r) => {
            let same = r.query(conf) == s.query(conf);
            // continue to accumulate identically: 100 further observations, then a merge with itself
            let mut o = s.clone();
            let mut more: Vec<String> = Vec::new();
            for _ in 0..100 {
                more.extend(obs_tokens_pub::<F>(kind, rng, 1.0));
            }
            o.extend(&more);
            r.extend(&more);
            let o2 = o.clone().add(o.clone());
            let r2 = r.clone().add(r.clone());
            (same, o.query(conf) == r.query(conf) && o2.query(conf) == r2.query(conf))
        }
        None => (false, false),
    };
    format!(
        "C20 ser {} {} {} {} => {} | {} {} {}",
        F::TAG, kind, enc_conf(&conf), toks.join(" "), tree::<F>(&v), flags, b(same), b(cont)
    )
}

/// a state with an infinite register (finite observations whose squares overflow on the last step): it has no JSON
/// form (JSON has no infinity), but TOML has; the TOML round trip must restore it unchanged
fn ser_toml_nonfinite<F: FElem, S: Acc + Serialize + DeserializeOwned + PartialEq>(kind: &str, big: f64) -> String {
    let toks: Vec<String> = match kind {
        "paired" => vec!["E".into(), "a".into(), crate::prog_ops::fenc_pub::<F>(1.0), crate::prog_ops::fenc_pub::<F>(0.5), "a".into(), crate::prog_ops::fenc_pub::<F>(big), crate::prog_ops::fenc_pub::<F>(-big * 0.25)],
        "unpaired" => vec!["E".into(), "a".into(), "A".into(), crate::prog_ops::fenc_pub::<F>(big * 0.3), "a".into(), "A".into(), crate::prog_ops::fenc_pub::<F>(big), "a".into(), "B".into(), crate::prog_ops::fenc_pub::<F>(1.0), "a".into(), "B".into(), crate::prog_ops::fenc_pub::<F>(2.0)],
        _ => vec!["E".into(), "a".into(), crate::prog_ops::fenc_pub::<F>(big * 0.3), "a".into(), crate::prog_ops::fenc_pub::<F>(big)],
    };
    let s: S = final_state::<S>(&toks);
    let conf = Confidence::new_two_sided(0.9);
    let res = guarded(|| match toml::to_string(&s) {
        Ok(t) => match toml::from_str::<S>(&t) {
            Ok(r) => format!("toml:{} {}", b(r == s), b(r.query(conf) == s.query(conf))),
            Err(_) => "toml:parse-error F".to_string(),
        },
        Err(_) => "toml:unsupported F".to_string(),
    });
    format!("C20 sertoml {} {} {} => {}", F::TAG, kind, toks.join(" "), res)
}

pub fn c20(out: &mut Vec<String>, rng: &mut Rng, tier: &str) {
    // (the squares of the two observations are finite, their sum is not: the register becomes (inf, inf) without a NaN)
    out.push(ser_toml_nonfinite::<f64, Arithmetic<f64>>("arith", 1.3e154));
    out.push(ser_toml_nonfinite::<f64, Unpaired<f64>>("unpaired", 1.3e154));
    out.push(ser_toml_nonfinite::<f32, Arithmetic<f32>>("arith", 1.8e19));
    out.push(ser_toml_nonfinite::<f32, Unpaired<f32>>("unpaired", 1.8e19));
    let reps = if tier == "thorough" { 300 } else { 40 };
    let kmax = if tier == "thorough" { 60 } else { 24 };
    for k in 1..kmax {
        for n in [1usize, 2, 3, 6, 7, 10, 11] {
            let v = k as f64 / 10.0;
            let conf = crate::gen::rand_conf(rng);
            out.push(ser_state_toks::<f64, Arithmetic<f64>>("arith", conf, rng, constant_history::<f64>("arith", v, n)));
            if (k + n) % 3 == 0 {
                out.push(ser_state_toks::<f32, Arithmetic<f32>>("arith", conf, rng, constant_history::<f32>("arith", v, n)));
                out.push(ser_state_toks::<f64, Geometric<f64>>("geo", conf, rng, constant_history::<f64>("geo", v, n)));
                out.push(ser_state_toks::<f64, Harmonic<f64>>("harm", conf, rng, constant_history::<f64>("harm", v, n)));
                out.push(ser_state_toks::<f64, Paired<f64>>("paired", conf, rng, constant_history::<f64>("paired", v, n)));
                out.push(ser_state_toks::<f64, Unpaired<f64>>("unpaired", conf, rng, constant_history::<f64>("unpaired", v, n)));
            }
        }
    }
    // short ascending samples spanning several decades (the last term dominates the running total: the register
    // holds a full ulp of compensation), then further accumulation after the round trip
    for i in 0..(if tier == "thorough" { 1500 } else { 240 }) {
        let n = 2 + i % 4;
        let conf = crate::gen::rand_conf(rng);
        let mut v = 0.01 + rng.unit();
        let mut toks: Vec<String> = vec!["E".into()];
        for _ in 0..n {
            toks.push("a".into());
            toks.push(crate::prog_ops::fenc_pub::<f64>(v));
            v *= 3.0 + 30.0 * rng.unit();
        }
        match i % 3 {
            0 => out.push(ser_state_toks::<f64, Arithmetic<f64>>("arith", conf, rng, toks)),
            1 => out.push(ser_state_toks::<f64, Geometric<f64>>("geo", conf, rng, toks)),
            _ => out.push(ser_state_toks::<f64, Harmonic<f64>>("harm", conf, rng, toks)),
        }
    }
    // states standing for 2^31 .. 2^33 observations, reached by repeated `s + s`
    for doublings in [31usize, 32, 33] {
        let conf = crate::gen::rand_conf(rng);
        for kind in ["arith", "geo", "unpaired"] {
            let mut toks: Vec<String> = vec!["E".into(), "x".into(), "1".into()];
            toks.extend(obs_tokens_pub::<f64>(kind, rng, 1.0));
            if kind == "unpaired" {
                toks[3] = "A".into();
                toks.push("a".into());
                toks.push("B".into());
                toks.push(crate::prog_ops::fenc_pub::<f64>(0.75));
            }
            for _ in 0..doublings {
                toks.push("d".into());
                toks.push("p".into());
            }
            out.push(match kind {
                "arith" => ser_state_toks::<f64, Arithmetic<f64>>(kind, conf, rng, toks),
                "geo" => ser_state_toks::<f64, Geometric<f64>>(kind, conf, rng, toks),
                _ => ser_state_toks::<f64, Unpaired<f64>>(kind, conf, rng, toks),
            });
        }
    }
    // intervals the API itself returns with an unusual shape: a relative interval against a reference that
    // straddles zero has its bounds in decreasing order; infinite bounds; degenerate intervals
    for (a, b, c, d) in [(1.0f64, 2.0f64, -1.0f64, 2.0f64), (0.5, 4.0, -3.0, 0.25), (2.0, 2.0, -1.0, 1.0)] {
        let iv = Interval::new(a, b).unwrap().relative_to(&Interval::new(c, d).unwrap());
        let v = serde_json::to_value(&iv).unwrap();
        let (flags, _) = roundtrips(&iv);
        out.push(format!("C20 serint f {} => {} | {}", enc_interval(&iv), tree::<f64>(&v), flags));
    }
    for iv in [Interval::new(3.0f64, 3.0).unwrap(), Interval::new(-0.0f64, 0.0).unwrap(), Interval::new_upper(-2.5f64), Interval::new_lower(1e300f64)] {
        let v = serde_json::to_value(&iv).unwrap();
        let (flags, _) = roundtrips(&iv);
        out.push(format!("C20 serint f {} => {} | {}", enc_interval(&iv), tree::<f64>(&v), flags));
    }
    for i in 0..reps {
        let conf = crate::gen::rand_conf(rng);
        let m = if i % 8 == 0 { 150 } else { 30 };
        out.push(ser_state::<f64, Arithmetic<f64>>("arith", conf, rng, m));
        out.push(ser_state::<f32, Arithmetic<f32>>("arith", conf, rng, m));
        out.push(ser_state::<f64, Geometric<f64>>("geo", conf, rng, m));
        out.push(ser_state::<f32, Harmonic<f32>>("harm", conf, rng, m));
        out.push(ser_state::<f64, Harmonic<f64>>("harm", conf, rng, m));
        out.push(ser_state::<f64, Paired<f64>>("paired", conf, rng, m));
        out.push(ser_state::<f32, Unpaired<f32>>("unpaired", conf, rng, m));
        out.push(ser_state::<f64, Unpaired<f64>>("unpaired", conf, rng, m));
        out.push(ser_state::<f64, proportion::Stats>("prop", conf, rng, m));
        // a Confidence and an Interval
        let v = serde_json::to_value(&conf).unwrap();
        let (flags, _) = roundtrips(&conf);
        out.push(format!("C20 serconf f {} => {} | {}", enc_conf(&conf), tree::<f64>(&v), flags));
        let a = (rng.unit() - 0.5) * 100.0;
        let iv = match i % 3 {
            0 => Interval::new(a, a + rng.unit() * 10.0).unwrap(),
            1 => Interval::new_upper(a),
            _ => Interval::new_lower(a),
        };
        let v = serde_json::to_value(&iv).unwrap();
        let (flags, _) = roundtrips(&iv);
        out.push(format!("C20 serint f {} => {} | {}", enc_interval(&iv), tree::<f64>(&v), flags));
    }
}
