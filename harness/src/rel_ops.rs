//! Metamorphic relations on the implementation itself (C16 equivariance, C10 coherence).
use crate::enc::*;
use crate::gen::*;
use crate::stat_ops::{enc_list, FElem};
use stats_ci::comparison::{Paired, Unpaired};
use stats_ci::mean::{Arithmetic, Geometric, Harmonic};
use stats_ci::{proportion, quantile, Confidence, StatisticsOps};

#[derive(Clone)]
pub enum Data<F> {
    One(Vec<F>),
    Two(Vec<F>, Vec<F>),
    NK(usize, usize),
    NQ(usize, f64),
}

pub fn enc_data<F: FElem>(d: &Data<F>) -> String {
    match d {
        Data::One(x) => enc_list(x),
        Data::Two(x, y) => format!("{} {}", enc_list(x), enc_list(y)),
        Data::NK(n, k) => format!("{} {}", n, k),
        Data::NQ(n, q) => format!("{} {}", n, q.enc()),
    }
}

/// one-shot interval of a producer
pub fn produce<F: FElem>(prod: &str, conf: Confidence, d: &Data<F>) -> String {
    guarded(|| match (prod, d) {
        ("arith", Data::One(x)) => enc_cires(&Arithmetic::<F>::ci(conf, x)),
        ("geo", Data::One(x)) => enc_cires(&Geometric::<F>::ci(conf, x)),
        ("harm", Data::One(x)) => enc_cires(&Harmonic::<F>::ci(conf, x)),
        ("paired", Data::Two(x, y)) => enc_cires(&Paired::<F>::ci(conf, x, y)),
        ("unpaired", Data::Two(x, y)) => {
            // half of each sample through the wrappers, half through the mutable accessors
            let mut s = Unpaired::<F>::default();
            let (hx, hy) = (x.len() / 2, y.len() / 2);
            s.extend_a(&x[..hx].to_vec()).unwrap();
            s.extend_b(&y[..hy].to_vec()).unwrap();
            stats_ci::StatisticsOps::extend(s.stats_a_mut(), &x[hx..].to_vec()).unwrap();
            stats_ci::StatisticsOps::extend(s.stats_b_mut(), &y[hy..].to_vec()).unwrap();
            enc_cires(&s.ci_mean(conf))
        }
        ("wilson", Data::NK(n, k)) => enc_cires(&proportion::ci(conf, *n, *k)),
        ("wald", Data::NK(n, k)) => enc_cires(&proportion::ci_z_normal(conf, *n, *k)),
        ("qidx", Data::NQ(n, q)) => enc_cires(&quantile::ci_indices(conf, *n, *q)),
        // the median interval of unsorted data whose values are their own ranks (a permutation of 0..n)
        ("qci", Data::One(x)) => enc_cires(&quantile::ci(conf, x, 0.5)),
        _ => "bad".to_string(),
    })
}

/// the point estimate reported by the crate for this producer
pub fn estimate<F: FElem>(prod: &str, d: &Data<F>) -> String {
    guarded(|| match (prod, d) {
        ("arith", Data::One(x)) => Arithmetic::<F>::from_iter(x).unwrap().sample_mean().enc(),
        ("geo", Data::One(x)) => Geometric::<F>::from_iter(x).unwrap().sample_mean().enc(),
        ("harm", Data::One(x)) => Harmonic::<F>::from_iter(x).unwrap().sample_mean().enc(),
        ("paired", Data::Two(x, y)) => {
            let mut s = Paired::<F>::default();
            s.extend(x, y).unwrap();
            s.sample_mean().enc()
        }
        ("unpaired", Data::Two(x, y)) => {
            let s = Unpaired::<F>::from_iter(x, y).unwrap();
            (s.stats_a().sample_mean() - s.stats_b().sample_mean()).enc()
        }
        ("wilson", Data::NK(n, k)) | ("wald", Data::NK(n, k)) => (*k as f64 / *n as f64).enc(),
        ("qidx", Data::NQ(n, q)) => format!("{}", (q * *n as f64).round() as usize),
        ("qci", Data::One(x)) => format!("{}", (0.5 * x.len() as f64).round() as usize),
        _ => "bad".to_string(),
    })
}

fn map1<F: FElem>(d: &Data<F>, f: &dyn Fn(F) -> F) -> Data<F> {
    match d {
        Data::One(x) => Data::One(x.iter().map(|v| f(*v)).collect()),
        Data::Two(x, y) => Data::Two(x.iter().map(|v| f(*v)).collect(), y.iter().map(|v| f(*v)).collect()),
        o => o.clone(),
    }
}

fn shuffle<T: Copy>(rng: &mut Rng, xs: &[T]) -> Vec<T> {
    let mut v = xs.to_vec();
    for i in (1..v.len()).rev() {
        let j = rng.below(i as u64 + 1) as usize;
        v.swap(i, j);
    }
    v
}

fn permutations<T: Copy>(xs: &[T]) -> Vec<Vec<T>> {
    if xs.len() <= 1 {
        return vec![xs.to_vec()];
    }
    let mut out = Vec::new();
    for i in 0..xs.len() {
        let mut rest = xs.to_vec();
        let x = rest.remove(i);
        for mut p in permutations(&rest) {
            p.insert(0, x);
            out.push(p);
        }
    }
    out
}

fn gen_data<F: FElem>(prod: &str, rng: &mut Rng, wide: bool) -> Data<F> {
    let (me, mr) = if F::TAG == "g" { (8, 30.0) } else { (if wide { 40 } else { 20 }, 1.0e3) };
    let n = rng.range(2, 60) as usize;
    let cast = |v: Vec<f64>| -> Vec<F> { v.iter().map(|x| F::from64(*x)).collect() };
    // every so often: zero spread (constant sample, constant differences)
    if rng.below(12) == 0 && (prod == "arith" || prod == "paired") {
        let c = (rng.range(-40, 40) as f64) * 0.25;
        return match prod {
            "arith" => Data::One(cast(vec![c; n])),
            _ => {
                let xs = sample_f64(rng, n, me, mr);
                let ys: Vec<f64> = xs.iter().map(|x| x - c).collect();
                Data::Two(cast(xs.iter().map(|x| (*x * 4.0).round() / 4.0).collect()), cast(ys.iter().zip(xs.iter()).map(|(_, x)| (*x * 4.0).round() / 4.0 - c).collect()))
            }
        };
    }
    match prod {
        "arith" => Data::One(cast(sample_f64(rng, n, me, mr))),
        "geo" | "harm" => Data::One(cast(sample_pos_f64(rng, n, me / 2))),
        "paired" => Data::Two(cast(sample_f64(rng, n, me, mr)), cast(sample_f64(rng, n, me, mr))),
        "unpaired" => {
            let m = rng.range(2, 60) as usize;
            Data::Two(cast(sample_f64(rng, n, me, mr)), cast(sample_f64(rng, m, me, mr)))
        }
        "wilson" | "wald" => {
            let n = rng.range(24, 4000) as usize;
            let k = rng.range(12, n as i64 - 12) as usize;
            Data::NK(n, k)
        }
        _ => {
            let n = rng.range(8, 3000) as usize;
            let q = 0.1 + 0.8 * rng.unit();
            Data::NQ(n, q)
        }
    }
}

fn xf_line<F: FElem>(prod: &str, xform: &str, param: &str, c1: Confidence, d1: &Data<F>, c2: Confidence, d2: &Data<F>) -> String {
    format!(
        "C16 xf {} {} {} {} {} {} {} {} => {} | {}",
        F::TAG,
        prod,
        xform,
        param,
        enc_conf(&c1),
        enc_data(d1),
        enc_conf(&c2),
        enc_data(d2),
        produce(prod, c1, d1),
        produce(prod, c2, d2)
    )
}

fn c16_for<F: FElem>(out: &mut Vec<String>, rng: &mut Rng, reps: usize) {
    for i in 0..reps {
        for prod in ["arith", "paired", "unpaired", "geo", "harm"] {
            let conf = rand_conf(rng);
            let d = gen_data::<F>(prod, rng, false);
            // scaling by a power of two (exponents kept away from overflow / underflow)
            // exponents kept away from overflow / underflow: the unpaired dof takes fourth powers of
            // the data, so max|x|·2^e (and min|x|·2^e) must stay within 2^±25 (f32) resp. 2^±200 (f64)
            let (mx, mn) = {
                let vals: Vec<f64> = match &d {
                    Data::One(x) => x.iter().map(|v| v.to_f64().unwrap().abs()).collect(),
                    Data::Two(x, y) => x.iter().chain(y.iter()).map(|v| v.to_f64().unwrap().abs()).collect(),
                    _ => vec![1.0],
                };
                let mx = vals.iter().cloned().fold(1e-300, f64::max);
                let mn = vals.iter().cloned().filter(|v| *v > 0.0).fold(mx, f64::min);
                (mx.log2().ceil() as i64, mn.log2().floor() as i64)
            };
            let lim: i64 = if F::TAG == "g" { 25 } else { 200 };
            let (elo, ehi) = ((-lim - mn).max(-lim), (lim - mx).min(lim));
            let e = if elo <= ehi { rng.range(elo, ehi) } else { 0 };
            let k = F::from64((2.0f64).powi(e as i32));
            out.push(xf_line(prod, "scale", &format!("{}", e), conf, &d, conf, &map1(&d, &|x| x * k)));
            if prod == "geo" || prod == "harm" {
                continue;
            }
            // negation mirrors the interval and exchanges upper / lower
            out.push(xf_line(prod, "neg", "0", conf, &d, conf.flipped(), &map1(&d, &|x| -x)));
            // shift by a constant (paired: both samples, the differences do not move)
            let sh = F::from64((rng.unit() - 0.5) * 8.0 * (2.0f64).powi(rng.range(-3, 6) as i32));
            if prod == "arith" {
                out.push(xf_line(prod, "shift", &sh.enc(), conf, &d, conf, &map1(&d, &|x| x + sh)));
            }
            // reordering
            let dp = match &d {
                Data::One(x) => Data::One(shuffle(rng, x)),
                Data::Two(x, y) => {
                    if prod == "paired" {
                        let idx: Vec<usize> = shuffle(rng, &(0..x.len()).collect::<Vec<_>>());
                        Data::Two(idx.iter().map(|i| x[*i]).collect(), idx.iter().map(|i| y[*i]).collect())
                    } else {
                        Data::Two(shuffle(rng, x), shuffle(rng, y))
                    }
                }
                o => o.clone(),
            };
            out.push(xf_line(prod, "perm", "0", conf, &d, conf, &dp));
        }
        if i % 4 == 0 {
            // shifts that make the sum exactly zero; paired differences that cancel exactly; geometric data balanced around 1
            let conf = rand_conf(rng);
            let h = rng.range(2, 9) as usize;
            let m = rng.range(-12, 12) as f64;
            let mut xs: Vec<f64> = (0..h).map(|_| rng.range(1, 30) as f64).collect();
            let neg: Vec<f64> = xs.iter().map(|x| -x).collect();
            xs.extend(neg); // sums to zero
            let base: Vec<F> = xs.iter().map(|x| F::from64(x + m)).collect();
            let shifted: Vec<F> = xs.iter().map(|x| F::from64(*x)).collect();
            out.push(xf_line("arith", "shift", &F::from64(-m).enc(), conf, &Data::One(base.clone()), conf, &Data::One(shifted.clone())));
            // paired: the same shift on both samples leaves the differences (which cancel exactly) alone
            let other: Vec<F> = xs.iter().map(|x| F::from64(x + m - x)).collect();
            let d1 = Data::Two(base.clone(), other.clone());
            let d2 = Data::Two(base.iter().map(|v| *v * F::from64(2.0)).collect(), other.iter().map(|v| *v * F::from64(2.0)).collect());
            out.push(xf_line("paired", "scale", "1", conf, &d1, conf, &d2));
            // geometric: powers of two balanced around 1 (logs cancel exactly), scaled by 2^e
            let g: Vec<F> = (0..h).flat_map(|j| { let e = (j as i32 % 5) + 1; [F::from64((2.0f64).powi(e)), F::from64((2.0f64).powi(-e))] }).collect();
            let e = rng.range(-6, 6);
            let k = F::from64((2.0f64).powi(e as i32));
            out.push(xf_line("geo", "scale", &format!("{}", e), conf, &Data::One(g.clone()), conf, &Data::One(g.iter().map(|v| *v * k).collect())));
        }
        if i % 5 == 0 {
            // unpaired samples whose exact effective dof is a whole number (equal sizes and spreads: the second
            // sample is a shifted, reversed copy of the first; or a constant baseline): shift and reorder
            let conf = rand_conf(rng);
            let n = rng.range(3, 12) as usize;
            let a: Vec<f64> = (0..n).map(|_| (rng.range(-400, 400) as f64) * 0.1 + rng.unit() * 0.01).collect();
            let sh = rng.range(-20, 20) as f64 * 0.5;
            let bq: Vec<f64> = if i % 10 == 0 { vec![5.0; n.max(3) - 1] } else { a.iter().rev().map(|x| x + sh).collect() };
            let (fa, fb): (Vec<F>, Vec<F>) = (a.iter().map(|x| F::from64(*x)).collect(), bq.iter().map(|x| F::from64(*x)).collect());
            let d = Data::Two(fa.clone(), fb.clone());
            let c = F::from64(0.1 + rng.unit());
            // (the same shift on both samples leaves the difference where it is: the relation is "equal up to rounding")
            out.push(xf_line("unpaired", "perm", "0", conf, &d, conf, &map1(&d, &|x| x + c)));
            out.push(xf_line("unpaired", "perm", "0", conf, &d, conf, &Data::Two(shuffle(rng, &fa), shuffle(rng, &fb))));
        }
        if i % 20 == 0 {
            // all permutations of a small sample
            let base: Vec<F> = sample_f64(rng, 5, 10, 20.0).iter().map(|x| F::from64(*x)).collect();
            let conf = rand_conf(rng);
            for p in permutations(&base) {
                out.push(xf_line("arith", "perm", "0", conf, &Data::One(base.clone()), conf, &Data::One(p)));
            }
        }
    }
}

pub fn c16(out: &mut Vec<String>, rng: &mut Rng, tier: &str) {
    let reps = if tier == "thorough" { 400 } else { 60 };
    // scaling the arithmetic (and paired) interval up to where only the squares still fit
    for n in [200usize, 1000] {
        let base: Vec<f64> = (0..n).map(|_| 1.0 + 1.5 * rng.unit()).collect();
        for (e64, e32) in [(504i32, 56i32), (500, 55), (-500, -60)] {
            let conf = rand_conf(rng);
            let k = (2.0f64).powi(e64);
            out.push(xf_line::<f64>("arith", "scale", &format!("{}", e64), conf, &Data::One(base.clone()), conf, &Data::One(base.iter().map(|x| x * k).collect())));
            let b32: Vec<f32> = base.iter().map(|x| *x as f32).collect();
            let k32 = (2.0f32).powi(e32);
            out.push(xf_line::<f32>("arith", "scale", &format!("{}", e32), conf, &Data::One(b32.clone()), conf, &Data::One(b32.iter().map(|x| x * k32).collect())));
        }
    }
    // negation of samples that sit on a large offset (relative spread 1e-9 … 1e-7 in f64, 1e-4 … 1e-3 in f32):
    // whatever the sign of the mean, the interval of the negated data is the exact mirror image
    for (i, (basev, spread)) in [(4.0e8f64, 4.45f64), (3.5e8, 4.45), (1234567890.0, 4.45), (1.0e8, 0.3), (7.7e9, 40.0), (2.5e7, 0.05)].iter().enumerate() {
        let n = 5 + 3 * i;
        let xs: Vec<f64> = (0..n).map(|_| basev + (rng.unit() - 0.5) * 2.0 * spread).collect();
        for prod in ["arith", "paired", "unpaired"] {
            let conf = rand_conf(rng);
            let d = if prod == "arith" {
                Data::One(xs.clone())
            } else if prod == "paired" {
                Data::Two(xs.clone(), xs.iter().map(|_| (rng.unit() - 0.5) * spread * 0.1).collect())
            } else {
                Data::Two(xs.clone(), xs.iter().rev().take(n - 1).map(|x| x + spread * 0.3).collect())
            };
            out.push(xf_line::<f64>(prod, "neg", "0", conf, &d, conf.flipped(), &map1(&d, &|x| -x)));
        }
        let ys: Vec<f32> = (0..n).map(|_| (basev * 1e-4 * (1.0 + (rng.unit() - 0.5) * 4e-4)) as f32).collect();
        let conf = rand_conf(rng);
        let d = Data::One(ys.clone());
        out.push(xf_line::<f32>("arith", "neg", "0", conf, &d, conf.flipped(), &map1(&d, &|x| -x)));
    }
    c16_for::<f64>(out, rng, reps);
    c16_for::<f32>(out, rng, reps);
}

fn c10_for<F: FElem>(out: &mut Vec<String>, rng: &mut Rng, reps: usize, grid: usize) {
    let prods = ["arith", "geo", "harm", "paired", "unpaired", "wilson", "wald", "qidx"];
    for _ in 0..reps {
        for prod in prods {
            if F::TAG == "g" && (prod == "wilson" || prod == "wald" || prod == "qidx") {
                continue;
            }
            let d = gen_data::<F>(prod, rng, false);
            let est = estimate(prod, &d);
            // pairs of levels on a grid: one-sided L vs two-sided 2L-1, and nested levels of one kind
            for _ in 0..grid {
                let l = 0.5 + (1 + rng.below(98)) as f64 / 200.0; // (0.5, 1)
                let kind = 1 + rng.below(2);
                let (ca, cb) = (conf_of(kind, l), conf_of(0, 2.0 * l - 1.0));
                out.push(format!(
                    "C10 ci2 {} {} {} {} {} => {} | {} | {}",
                    F::TAG, prod, enc_conf(&ca), enc_conf(&cb), enc_data(&d), produce(prod, ca, &d), produce(prod, cb, &d), est
                ));
                let k = rng.below(3);
                let l1 = 0.001 + 0.998 * rng.unit();
                let l2 = l1 + (0.9999 - l1) * rng.unit();
                let (ca, cb) = (conf_of(k, l1), conf_of(k, l2));
                out.push(format!(
                    "C10 ci2 {} {} {} {} {} => {} | {} | {}",
                    F::TAG, prod, enc_conf(&ca), enc_conf(&cb), enc_data(&d), produce(prod, ca, &d), produce(prod, cb, &d), est
                ));
            }
        }
    }
}

pub fn c10(out: &mut Vec<String>, rng: &mut Rng, tier: &str) {
    let (reps, grid) = if tier == "thorough" { (120, 12) } else { (25, 4) };
    // samples beyond the t -> z switch (more than 100 000 observations): one-sided(L) against two-sided(2L-1)
    for prod in ["arith", "geo", "harm", "paired", "unpaired"] {
        let n = 100_003usize;
        let mk = |rng: &mut Rng| -> Vec<f64> { (0..n).map(|_| 1.0 + rng.unit()).collect() };
        let d: Data<f64> = match prod {
            "paired" | "unpaired" => Data::Two(mk(rng), mk(rng)),
            _ => Data::One(mk(rng)),
        };
        let est = estimate(prod, &d);
        for l in [0.9f64, 0.6] {
            for kind in 1..3u64 {
                let (ca, cb) = (conf_of(kind, l), conf_of(0, 2.0 * l - 1.0));
                out.push(format!(
                    "C10 ci2 f {} {} {} {} => {} | {} | {}",
                    prod, enc_conf(&ca), enc_conf(&cb), enc_data(&d), produce(prod, ca, &d), produce(prod, cb, &d), est
                ));
            }
        }
        if tier != "thorough" && prod == "harm" {
            // (the quick tier keeps the line count moderate)
        }
    }
    // quantile intervals of unsorted samples (values = ranks), below and above the fixed-capacity limit of 1024
    for n in [20usize, 300, 1025, 2500] {
        let perm: Vec<f64> = shuffle(rng, &(0..n).map(|i| i as f64).collect::<Vec<f64>>());
        let d: Data<f64> = Data::One(perm);
        let est = estimate("qci", &d);
        for l in [0.6f64, 0.9, 0.975] {
            for kind in 1..3u64 {
                let (ca, cb) = (conf_of(kind, l), conf_of(0, 2.0 * l - 1.0));
                out.push(format!(
                    "C10 ci2 f qci {} {} {} => {} | {} | {}",
                    enc_conf(&ca), enc_conf(&cb), enc_data(&d), produce("qci", ca, &d), produce("qci", cb, &d), est
                ));
            }
            let (ca, cb) = (conf_of(0, l), conf_of(0, 0.5 + l / 2.0));
            out.push(format!(
                "C10 ci2 f qci {} {} {} => {} | {} | {}",
                enc_conf(&ca), enc_conf(&cb), enc_data(&d), produce("qci", ca, &d), produce("qci", cb, &d), est
            ));
        }
    }
    // a zero critical value (one-sided level exactly 1/2, two-sided level below an ulp): the interval collapses onto
    // the point estimate, which it must contain exactly
    for (n, k) in [(10usize, 3usize), (7, 5), (22, 15), (100, 29), (47, 3), (1000, 333)] {
        let d = Data::<f64>::NK(n, k);
        let est = estimate("wilson", &d);
        for (ca, cb) in [(conf_of(1, 0.5), conf_of(2, 0.5)), (conf_of(0, 1e-17), conf_of(1, 0.5)), (conf_of(2, 0.5), conf_of(0, 1e-300))] {
            out.push(format!(
                "C10 ci2 f wilson {} {} {} => {} | {} | {}",
                enc_conf(&ca), enc_conf(&cb), enc_data(&d), produce("wilson", ca, &d), produce("wilson", cb, &d), est
            ));
        }
    }
    // the Wilson-based producers at a level within an ulp of 1 (infinite critical value: the widest interval)
    for (prod, d) in [("wilson", Data::<f64>::NK(40, 13)), ("wilson", Data::NK(5000, 4000)), ("qidx", Data::NQ(50, 0.3)), ("qidx", Data::NQ(2000, 0.9))] {
        let est = estimate(prod, &d);
        let top = f64::from_bits(1.0f64.to_bits() - 1);
        for l in [0.5f64, 0.99, 0.999999] {
            let (ca, cb) = (conf_of(0, l), conf_of(0, top));
            out.push(format!(
                "C10 ci2 f {} {} {} {} => {} | {} | {}",
                prod, enc_conf(&ca), enc_conf(&cb), enc_data(&d), produce(prod, ca, &d), produce(prod, cb, &d), est
            ));
        }
    }
    // proportion producers at the edge of their domains (few successes / failures) at very high levels
    for n in [30usize, 100, 1000, 100_000] {
        for k in [10usize, 11, 12, 14] {
            for kk in [k, n - k] {
                for l in [0.99f64, 0.999, 0.9995, 0.99995] {
                    for prod in ["wilson", "wald"] {
                        let d: Data<f64> = Data::NK(n, kk);
                        let est = estimate(prod, &d);
                        for kind in 1..3u64 {
                            let (ca, cb) = (conf_of(kind, l), conf_of(0, 2.0 * l - 1.0));
                            out.push(format!(
                                "C10 ci2 f {} {} {} {} => {} | {} | {}",
                                prod, enc_conf(&ca), enc_conf(&cb), enc_data(&d), produce(prod, ca, &d), produce(prod, cb, &d), est
                            ));
                        }
                    }
                }
            }
        }
    }
    c10_for::<f64>(out, rng, reps, grid);
    c10_for::<f32>(out, rng, reps / 2, grid);
}
