//! Drivers of the `Confidence` API (C18).
use crate::enc::*;
use crate::interval_ops::hexstr;
use stats_ci::Confidence;

fn ord_str(o: Option<std::cmp::Ordering>) -> &'static str {
    match o {
        Some(std::cmp::Ordering::Less) => "lt",
        Some(std::cmp::Ordering::Equal) => "eq",
        Some(std::cmp::Ordering::Greater) => "gt",
        None => "none",
    }
}

pub fn levels64() -> Vec<f64> {
    let mut v = vec![
        0.0,
        -0.0,
        1.0,
        f64::from_bits(1),                       // smallest subnormal
        f64::MIN_POSITIVE,
        f64::from_bits(1.0f64.to_bits() - 1),    // just below 1
        f64::from_bits(1.0f64.to_bits() + 1),    // just above 1
        -f64::from_bits(1),
        0.5,
        0.95,
        0.999999,
        1e-300,
        2.0,
        -0.5,
        -1.0,
        1e300,
        f64::NAN,
        f64::INFINITY,
        f64::NEG_INFINITY,
        f64::MAX,
        f64::MIN,
    ];
    for i in 1..20 {
        v.push(i as f64 / 20.0);
    }
    v
}

pub fn c18(out: &mut Vec<String>, rng: &mut Rng, tier: &str) {
    let mut levels = levels64();
    let extra = if tier == "thorough" { 2000 } else { 200 };
    for _ in 0..extra {
        levels.push(match rng.below(4) {
            0 => rng.unit(),
            1 => f64::from_bits(rng.next()),
            2 => (rng.unit() - 0.5) * 4.0,
            _ => 1.0 - rng.unit() * 1e-12,
        });
    }
    for l in &levels {
        let le = l.enc();
        out.push(format!("C18 new c N {} => {}", le, guarded(|| format!("ok {}", enc_conf(&Confidence::new(*l))))));
        out.push(format!("C18 new c 2 {} => {}", le, guarded(|| format!("ok {}", enc_conf(&Confidence::new_two_sided(*l))))));
        out.push(format!("C18 new c U {} => {}", le, guarded(|| format!("ok {}", enc_conf(&Confidence::new_upper(*l))))));
        out.push(format!("C18 new c L {} => {}", le, guarded(|| format!("ok {}", enc_conf(&Confidence::new_lower(*l))))));
        out.push(format!(
            "C18 try c {} => {}",
            le,
            guarded(|| match Confidence::try_from(*l) {
                Ok(c) => format!("ok {}", enc_conf(&c)),
                Err(e) => enc_cierr(&e),
            })
        ));
        let l32 = *l as f32;
        out.push(format!(
            "C18 try32 c {} => {}",
            l32.enc(),
            guarded(|| match Confidence::try_from(l32) {
                Ok(c) => format!("ok {}", enc_conf(&c)),
                Err(e) => enc_cierr(&e),
            })
        ));
        // the enum variants are public: a literal constructs a value whatever the level
        if !(*l > 0.0 && *l < 1.0) {
            out.push(format!("C18 literal c 2 {} => ok {}", le, enc_conf(&Confidence::TwoSided(*l))));
        }
    }
    let mut confs: Vec<Confidence> = Vec::new();
    for l in [0.001, 0.3, 0.5, 0.9, 0.95, 0.9500000000000001, 0.99, 0.9999] {
        confs.push(Confidence::new_two_sided(l));
        confs.push(Confidence::new_upper(l));
        confs.push(Confidence::new_lower(l));
    }
    for _ in 0..(extra / 10) {
        confs.push(crate::gen::rand_conf(rng));
    }
    // levels that differ only far below 1 ulp of 1/2 .. 1 (tiny levels) or by one or two ulps (next to 1 and inside [1/2, 1))
    let u = f64::EPSILON / 2.0;
    for l in [1e-300, 1e-20, 1e-17, 1.1e-16, 1.0 - 3.0 * u, 1.0 - 4.0 * u, 1.0 - 5.0 * u, 0.75, 0.75 + 2.0 * u, 0.75 + 4.0 * u] {
        // (the constructors themselves are probed, guarded, by the `new` lines above; here a panic only loses the value)
        for k in 0..3 {
            let c = std::panic::catch_unwind(|| match k {
                0 => Confidence::new_two_sided(l),
                1 => Confidence::new_upper(l),
                _ => Confidence::new_lower(l),
            });
            if let Ok(c) = c {
                confs.push(c);
            }
        }
    }
    for c in &confs {
        out.push(format!(
            "C18 acc c {} => {} {} {} {} {} {} {} | {} | {} | {}",
            enc_conf(c),
            c.level().enc(),
            c.percent().enc(),
            hexstr(c.kind()),
            b(c.is_two_sided()),
            b(c.is_one_sided()),
            b(c.is_upper()),
            b(c.is_lower()),
            enc_conf(&c.flipped()),
            enc_conf(&c.flipped().flipped()),
            stats_ci::verif::confidence_quantile(*c).enc()
        ));
        for d in &confs {
            out.push(format!(
                "C18 cmp c {} {} => {} {} {} {} {} {}",
                enc_conf(c),
                enc_conf(d),
                ord_str(c.partial_cmp(d)),
                b(c < d),
                b(c <= d),
                b(c > d),
                b(c >= d),
                b(c == d)
            ));
        }
    }
    out.push(format!("C18 default c => {}", enc_conf(&Confidence::default())));
}
