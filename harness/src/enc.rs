//! Canonical textual encoding shared with the Lean driver.
use stats_ci::error::{CIError, IntervalError};
use stats_ci::{Confidence, Interval};
use std::panic::{catch_unwind, AssertUnwindSafe};

pub trait Elem: PartialOrd + Clone + std::fmt::Debug {
    const TAG: &'static str;
    fn enc(&self) -> String;
}
impl Elem for i64 {
    const TAG: &'static str = "i";
    fn enc(&self) -> String {
        format!("{}", self)
    }
}
impl Elem for u8 {
    const TAG: &'static str = "u";
    fn enc(&self) -> String {
        format!("{}", self)
    }
}
impl Elem for i8 {
    const TAG: &'static str = "b";
    fn enc(&self) -> String {
        format!("{}", self)
    }
}
impl Elem for usize {
    const TAG: &'static str = "n";
    fn enc(&self) -> String {
        format!("{}", self)
    }
}
impl Elem for f64 {
    const TAG: &'static str = "f";
    fn enc(&self) -> String {
        format!("x{:016x}", self.to_bits())
    }
}
impl Elem for f32 {
    const TAG: &'static str = "g";
    fn enc(&self) -> String {
        format!("y{:08x}", self.to_bits())
    }
}
impl Elem for &'static str {
    const TAG: &'static str = "s";
    fn enc(&self) -> String {
        format!("s:{}", self)
    }
}
impl Elem for char {
    const TAG: &'static str = "s";
    fn enc(&self) -> String {
        format!("s:{}", self)
    }
}

pub fn b(x: bool) -> &'static str {
    if x {
        "T"
    } else {
        "F"
    }
}

pub fn enc_opt<T: Elem>(o: Option<T>) -> String {
    match o {
        Some(x) => format!("S {}", x.enc()),
        None => "N".to_string(),
    }
}

pub fn enc_interval<T: Elem>(i: &Interval<T>) -> String {
    match i {
        Interval::TwoSided(a, b) => format!("I2 {} {}", a.enc(), b.enc()),
        Interval::UpperOneSided(a) => format!("IU {}", a.enc()),
        Interval::LowerOneSided(b) => format!("IL {}", b.enc()),
    }
}

pub fn enc_conf(c: &Confidence) -> String {
    match c {
        Confidence::TwoSided(l) => format!("C2 {}", l.enc()),
        Confidence::UpperOneSided(l) => format!("CU {}", l.enc()),
        Confidence::LowerOneSided(l) => format!("CL {}", l.enc()),
    }
}

pub fn enc_ierr(e: &IntervalError) -> String {
    match e {
        IntervalError::InvalidBounds => "err Interval InvalidBounds".into(),
        IntervalError::EmptyInterval => "err Interval EmptyInterval".into(),
    }
}

pub fn enc_cierr(e: &CIError) -> String {
    match e {
        CIError::TooFewSamples(n) => format!("err TooFewSamples {}", n),
        CIError::TooFewSuccesses(k, n, x) => format!("err TooFewSuccesses {} {} {}", k, n, x.enc()),
        CIError::TooFewFailures(k, n, x) => format!("err TooFewFailures {} {} {}", k, n, x.enc()),
        CIError::InvalidConfidenceLevel(l) => format!("err InvalidConfidenceLevel {}", l.enc()),
        CIError::InvalidQuantile(q) => format!("err InvalidQuantile {}", q.enc()),
        CIError::InvalidSuccesses(k, n) => format!("err InvalidSuccesses {} {}", k, n),
        CIError::NonPositiveValue(x) => format!("err NonPositiveValue {}", x.enc()),
        CIError::InvalidInputData => "err InvalidInputData".into(),
        CIError::FloatConversionError(_) => "err FloatConversionError".into(),
        CIError::IndexError(x, n) => format!("err IndexError {} {}", x.enc(), n),
        CIError::Error(_) => "err Error".into(),
        CIError::IntervalError(e) => enc_ierr(e),
        CIError::DifferentSampleSizes(a, b) => format!("err DifferentSampleSizes {} {}", a, b),
    }
}

pub fn enc_ires<T: Elem>(r: &Result<Interval<T>, IntervalError>) -> String {
    match r {
        Ok(i) => format!("ok {}", enc_interval(i)),
        Err(e) => enc_ierr(e),
    }
}

pub fn enc_cires<T: Elem>(r: &Result<Interval<T>, CIError>) -> String {
    match r {
        Ok(i) => format!("ok {}", enc_interval(i)),
        Err(e) => enc_cierr(e),
    }
}

/// classify a panic message into the classes the model knows
pub fn panic_class(msg: &str) -> &'static str {
    if msg.contains("Confidence level must be") {
        "confidence"
    } else if msg.contains("overflow") {
        "overflow"
    } else if msg.contains("Option::unwrap()") {
        "sort"
    } else if msg.contains("capacity") || msg.contains("ArrayVec") {
        "capacity"
    } else if msg.contains("Number of successes") {
        "stats_new"
    } else if msg.contains("relative interval") {
        "relative_to"
    } else if msg.contains("Cannot add one-sided") || msg.contains("Cannot subtract one-sided") {
        "interval_op"
    } else if msg.contains("FreedomInvalid") {
        "t_value"
    } else if msg.contains("assertion failed: (0.0..=1.0)") || msg.contains("0.0..=1.0") {
        "inverse_cdf"
    } else if msg.contains("assertion failed") {
        "assert"
    } else if msg.contains("divide by zero") {
        "divzero"
    } else {
        "other"
    }
}

/// a container whose by-reference iterator has an INEXACT size hint (`(0, Some(len))`): a series with gaps,
/// iterated through `filter_map`. The generic signatures of the crate (`for<'a> &'a I: IntoIterator<Item = &'a T>`)
/// admit it; only the observations that are present count.
pub struct Sparse<T>(pub Vec<Option<T>>);
impl<T: Clone> Sparse<T> {
    /// the values of `xs` with `gaps` empty slots spread between them (and after them)
    pub fn of(xs: &[T], gaps: usize) -> Self {
        let mut v: Vec<Option<T>> = Vec::new();
        for (i, x) in xs.iter().enumerate() {
            if gaps > 0 && i % 2 == 1 {
                v.push(None);
            }
            v.push(Some(x.clone()));
        }
        for _ in 0..gaps {
            v.push(None);
        }
        Sparse(v)
    }
}
impl<'a, T> IntoIterator for &'a Sparse<T> {
    type Item = &'a T;
    type IntoIter = std::iter::FilterMap<std::slice::Iter<'a, Option<T>>, fn(&'a Option<T>) -> Option<&'a T>>;
    fn into_iter(self) -> Self::IntoIter {
        self.0.iter().filter_map(Option::as_ref as fn(&'a Option<T>) -> Option<&'a T>)
    }
}

/// run `f`, turning a panic into `panic <class>`
pub fn guarded<F: FnOnce() -> String>(f: F) -> String {
    match catch_unwind(AssertUnwindSafe(f)) {
        Ok(s) => s,
        Err(e) => {
            let msg = if let Some(s) = e.downcast_ref::<&str>() {
                s.to_string()
            } else if let Some(s) = e.downcast_ref::<String>() {
                s.clone()
            } else {
                "?".to_string()
            };
            format!("panic {}", panic_class(&msg))
        }
    }
}

/// xorshift64* — every random choice derives from one state
pub struct Rng(pub u64);
impl Rng {
    pub fn new(seed: u64) -> Self {
        let mut r = Rng(seed ^ 0x9E37_79B9_7F4A_7C15);
        if r.0 == 0 {
            r.0 = 0x1234_5678_9ABC_DEF1;
        }
        for _ in 0..4 {
            r.next();
        }
        r
    }
    pub fn next(&mut self) -> u64 {
        let mut x = self.0;
        x ^= x >> 12;
        x ^= x << 25;
        x ^= x >> 27;
        self.0 = x;
        x.wrapping_mul(0x2545_F491_4F6C_DD1D)
    }
    pub fn below(&mut self, n: u64) -> u64 {
        if n == 0 {
            0
        } else {
            self.next() % n
        }
    }
    pub fn range(&mut self, lo: i64, hi: i64) -> i64 {
        lo + self.below((hi - lo + 1) as u64) as i64
    }
    /// uniform in [0,1)
    pub fn unit(&mut self) -> f64 {
        (self.next() >> 11) as f64 / (1u64 << 53) as f64
    }
    pub fn coin(&mut self) -> bool {
        self.next() & 1 == 1
    }
    pub fn pick<'a, T>(&mut self, xs: &'a [T]) -> &'a T {
        &xs[self.below(xs.len() as u64) as usize]
    }
}
