//! Drivers of the proportion and quantile API (C02, C17, C12, C03).
use crate::enc::*;
use crate::gen::*;
use stats_ci::{proportion, quantile, Confidence, Interval};

fn nk_line(conf: Confidence, n: usize, k: usize) -> String {
    let w = guarded(|| enc_cires(&proportion::ci_wilson(conf, n, k)));
    let c = guarded(|| enc_cires(&proportion::ci(conf, n, k)));
    let s = guarded(|| enc_cires(&proportion::Stats::new(n, k).ci(conf)));
    let z = guarded(|| enc_cires(&proportion::ci_z_normal(conf, n, k)));
    let sig = guarded(|| b(proportion::is_significant(n, k)).to_string());
    format!("wilson p {} {} {} => {} | {} | {} | {} | {}", enc_conf(&conf), n, k, w, c, s, z, sig)
}

pub fn c02(out: &mut Vec<String>, rng: &mut Rng, tier: &str) {
    // a failed request must not affect later ones: an out-of-range level written as an enum literal makes the
    // quantile routine panic (caught here, as a caller recovering from a bad request would); every later call
    // with valid arguments must still return its interval
    for bad in [Confidence::TwoSided(95.), Confidence::UpperOneSided(-0.5), Confidence::LowerOneSided(f64::NAN)] {
        let _ = guarded(|| enc_cires(&proportion::ci_wilson(bad, 100, 50)));
        let _ = guarded(|| enc_cires(&proportion::ci_z_normal(bad, 100, 50)));
    }
    let nmax = if tier == "thorough" { 400 } else { 90 };
    let confs: Vec<Confidence> = if tier == "thorough" {
        let mut v = Vec::new();
        for l in [0.8, 0.9, 0.95, 0.99] {
            for k in 0..3 {
                v.push(conf_of(k, l));
            }
        }
        v.push(conf_of(1, 0.2));
        v.push(conf_of(2, 0.2));
        v
    } else {
        vec![conf_of(0, 0.95), conf_of(1, 0.9), conf_of(2, 0.99), conf_of(1, 0.3)]
    };
    // exhaustive over all (n, k), 0 <= k <= n + 1
    for n in 0..=nmax {
        for k in 0..=(n + 1) {
            for c in &confs {
                out.push(format!("C02 {}", nk_line(*c, n, k)));
            }
        }
    }
    // sampled beyond the bound, up to 10^9, including the edges of both domains
    let reps = if tier == "thorough" { 20000 } else { 2000 };
    for i in 0..reps {
        // populations up to 2^62 (beyond the range where n and k are exact in f64)
        let e = if i % 4 == 0 { rng.range(31, 62) } else { rng.range(2, 30) };
        let n = rng.range(1, 1i64 << e) as usize;
        let k = match rng.below(8) {
            0 => rng.below(12) as usize,
            1 => n.saturating_sub(rng.below(12) as usize),
            2 => n + rng.below(3) as usize,
            _ => rng.below(n as u64 + 1) as usize,
        };
        out.push(format!("C02 {}", nk_line(rand_conf(rng), n, k)));
    }
    // extreme confidence levels: next to 1 (the two-sided quantile rounds to 1: infinite critical value) and next to 0
    for l in [f64::from_bits(1.0f64.to_bits() - 1), f64::from_bits(1.0f64.to_bits() - 2), 1.0 - 1e-15, 1.0 - 1e-12, 1e-300, f64::from_bits(1), 1e-17] {
        for kind in 0..3u64 {
            for (n, k) in [(4usize, 2usize), (10, 3), (1000, 2), (1000, 998), (100_000, 50_000)] {
                out.push(format!("C02 {}", nk_line(conf_of(kind, l), n, k)));
            }
            // huge populations with a handful of successes / failures: the roots are within rounding of 0 and 1
            // (for a one-sided level below 1/2 the critical value is negative and the *other* root is reported)
            for e in [50u32, 53, 56, 60] {
                for j in [2usize, 3, 5] {
                    out.push(format!("C02 {}", nk_line(conf_of(kind, l), 1usize << e, j)));
                    out.push(format!("C02 {}", nk_line(conf_of(kind, l), 1usize << e, (1usize << e) - j)));
                }
            }
        }
    }
    // one-sided levels below 1/2 (negative critical value) at huge populations with few successes / failures
    for l in [0.4, 0.1, 1e-3, 1e-9, 1e-40] {
        for kind in 1..3u64 {
            for e in [45u32, 50, 52, 53, 54, 57, 62] {
                for j in [2usize, 3, 4, 7] {
                    let n = (1usize << e) + (rng.below(5) as usize);
                    out.push(format!("C02 {}", nk_line(conf_of(kind, l), n, j)));
                    out.push(format!("C02 {}", nk_line(conf_of(kind, l), n, n - j)));
                }
            }
        }
    }
    // front-ends: boolean data, predicate over data, running Stats
    let reps = if tier == "thorough" { 2000 } else { 300 };
    for i in 0..reps {
        let n = if i < 40 { i } else { rng.range(0, 400) as usize };
        let data: Vec<i64> = (0..n).map(|_| rng.range(0, 99)).collect();
        let t = rng.range(-1, 100);
        let conf = rand_conf(rng);
        let bools: Vec<bool> = data.iter().map(|x| *x <= t).collect();
        let o1 = guarded(|| enc_cires(&proportion::ci_true(conf, &bools)));
        let o2 = guarded(|| enc_cires(&proportion::ci_if(conf, &data, |x| *x <= t)));
        let o3 = guarded(|| enc_cires(&proportion::Stats::from_iter(bools.iter().cloned()).ci(conf)));
        let o4 = guarded(|| {
            let mut s = proportion::Stats::default();
            let (a, bb) = bools.split_at(n / 2);
            s.extend(&a.to_vec());
            let mut s2 = proportion::Stats::default();
            s2.extend_if(&data[n / 2..].to_vec(), |x| *x <= t);
            let _ = bb;
            s += s2;
            format!("{} {} {}", s.population(), s.successes(), enc_cires(&s.ci(conf)))
        });
        // containers / iterators with an inexact size hint: a series with gaps, a filtered iterator
        let o5 = guarded(|| enc_cires(&proportion::ci_true(conf, &Sparse::of(&bools, 5))));
        let o6 = guarded(|| enc_cires(&proportion::ci_if(conf, &Sparse::of(&data, 4), |x| *x <= t)));
        let o7 = guarded(|| {
            let sp = Sparse::of(&bools, 7);
            let st: proportion::Stats = sp.0.iter().filter_map(|x| *x).collect();
            let st2 = proportion::Stats::from_iter(sp.0.iter().filter(|x| x.is_some()).map(|x| x.unwrap()));
            let mut st3 = proportion::Stats::default();
            st3.extend(&sp);
            let mut st4 = proportion::Stats::default();
            st4.extend_if(&Sparse::of(&data, 2), |x| *x <= t);
            format!(
                "{} {} {} {} {} {} {} {} {}",
                st.population(), st.successes(), st2.population(), st2.successes(), st3.population(), st3.successes(),
                st4.population(), st4.successes(), enc_cires(&st.ci(conf))
            )
        });
        // a predicate with memory (a quota: the first q calls succeed): every element is counted once, in order
        let q = (t + 1).max(0) as usize;
        let o8 = guarded(|| {
            let calls = std::cell::Cell::new(0usize);
            let mut st = proportion::Stats::default();
            st.extend_if(&data, |_: &i64| {
                let c = calls.get();
                calls.set(c + 1);
                c < q
            });
            let calls2 = std::cell::Cell::new(0usize);
            let r = proportion::ci_if(conf, &data, |_: &i64| {
                let c = calls2.get();
                calls2.set(c + 1);
                c < q
            });
            format!("{} {} {}", st.population(), st.successes(), enc_cires(&r))
        });
        let mut l = format!("C02 frontends p {} {} {}", enc_conf(&conf), t, n);
        for x in &data {
            l.push_str(&format!(" {}", x));
        }
        out.push(format!("{} => {} | {} | {} | {} | {} | {} | {} | {}", l, o1, o2, o3, o4, o5, o6, o7, o8));
    }
    // running Stats driven by a sequence of operations (chunks on a state that already holds counts)
    let reps = if tier == "thorough" { 3000 } else { 400 };
    for _ in 0..reps {
        let conf = rand_conf(rng);
        let mut toks: Vec<String> = Vec::new();
        let mut s = proportion::Stats::default();
        let bits = |rng: &mut Rng, n: usize| -> Vec<bool> { let p = rng.unit(); (0..n).map(|_| rng.unit() < p).collect() };
        let enc_bits = |v: &Vec<bool>| -> String { if v.is_empty() { "-".to_string() } else { v.iter().map(|x| if *x { '1' } else { '0' }).collect() } };
        let steps = rng.range(2, 7);
        for _ in 0..steps {
            match rng.below(8) {
                0 => {
                    let n = rng.range(0, 40) as usize;
                    let k = rng.range(0, n as i64) as usize;
                    s = proportion::Stats::new(n, k);
                    toks.push(format!("N {} {}", n, k));
                }
                1 | 2 => {
                    let nb = rng.range(0, 30) as usize;
                    let v = bits(rng, nb);
                    s.extend(&v);
                    toks.push(format!("X {}", enc_bits(&v)));
                }
                3 => {
                    let nb = rng.range(0, 30) as usize;
                    let v = bits(rng, nb);
                    let d: Vec<i64> = v.iter().map(|x| if *x { 1 } else { 0 }).collect();
                    s.extend_if(&d, |x| *x == 1);
                    toks.push(format!("I {}", enc_bits(&v)));
                }
                4 => {
                    s.add_success();
                    toks.push("S".into());
                }
                5 => {
                    s.add_failure();
                    toks.push("F".into());
                }
                6 => {
                    let n = rng.range(0, 40) as usize;
                    let k = rng.range(0, n as i64) as usize;
                    if rng.coin() {
                        s += proportion::Stats::new(n, k);
                        toks.push(format!("P {} {}", n, k));
                    } else {
                        s = s + proportion::Stats::new(n, k);
                        toks.push(format!("Q {} {}", n, k));
                    }
                }
                _ => {
                    let nb = rng.range(0, 30) as usize;
                    let v = bits(rng, nb);
                    s = proportion::Stats::from_iter(v.iter().cloned());
                    toks.push(format!("R {}", enc_bits(&v)));
                }
            }
        }
        let o = guarded(|| enc_cires(&s.ci(conf)));
        out.push(format!("C02 pseq p {} {} => {} {} | {}", enc_conf(&conf), toks.join(" "), s.population(), s.successes(), o));
    }
    // success-ratio form: every k/n for small n, and arbitrary rates
    let rmax = if tier == "thorough" { 2000 } else { 250 };
    for n in 1..=rmax {
        let step = if n <= 40 { 1 } else { 1 + n / 23 };
        let mut k = 0;
        while k <= n {
            let r = k as f64 / n as f64;
            let conf = conf_of((n + k) as u64, 0.95);
            let o = guarded(|| enc_cires(&proportion::ci_wilson_ratio(conf, n, r)));
            out.push(format!("C02 ratio p {} {} {} {} => {}", enc_conf(&conf), n, r.enc(), k, o));
            k += step;
        }
    }
    // counts at the very top of the usize range
    for (n, k) in [(usize::MAX, usize::MAX), (usize::MAX, usize::MAX - 1), (usize::MAX, usize::MAX - 2), (usize::MAX - 3, usize::MAX - 9),
                   (usize::MAX - 9, usize::MAX - 12), (usize::MAX, 5), (usize::MAX - 1, usize::MAX)] {
        for kind in 0..3u64 {
            out.push(format!("C02 {}", nk_line(conf_of(kind, 0.9), n, k)));
        }
    }
    // rates whose product with the population is beyond 2^64, infinite or NaN; populations near usize::MAX
    for (n, r) in [(10usize, 2e18f64), (100, 1e18), (7, f64::INFINITY), (7, f64::MAX), (12, f64::NAN), (usize::MAX - 5, 1.0), (usize::MAX, 0.5)] {
        for kind in 0..3u64 {
            let conf = conf_of(kind, 0.9);
            let o = guarded(|| enc_cires(&proportion::ci_wilson_ratio(conf, n, r)));
            out.push(format!("C02 ratio p {} {} {} - => {}", enc_conf(&conf), n, r.enc(), o));
        }
    }
    // products beyond 2^52 (where x + 0.5 is no longer exact) and just below a half
    for (n, r, k) in [
        ((1usize << 52) + 1, 1.0f64, (1usize << 52) + 1),
        ((1usize << 52) + 5, ((1u64 << 52) + 3) as f64 / ((1u64 << 52) + 5) as f64, (1usize << 52) + 3),
        ((1usize << 53) + 2, 0.5, (1usize << 52) + 1),
        (1, 0.49999999999999994, 0),
        (3, 0.16666666666666666, 1),
        (1, 0.5, 1),
        (5, 0.5, 3),
        (5, 0.7, 4),
    ] {
        for kind in 0..3u64 {
            let conf = conf_of(kind, 0.9);
            let o = guarded(|| enc_cires(&proportion::ci_wilson_ratio(conf, n, r)));
            out.push(format!("C02 ratio p {} {} {} {} => {}", enc_conf(&conf), n, r.enc(), k, o));
        }
    }
    for _ in 0..reps {
        let n = rng.range(0, 5000) as usize;
        let r = match rng.below(6) {
            0 => 0.0,
            1 => -rng.unit(),
            2 => f64::NAN,
            3 => 1.0 + rng.unit(),
            _ => rng.unit(),
        };
        let conf = rand_conf(rng);
        let o = guarded(|| enc_cires(&proportion::ci_wilson_ratio(conf, n, r)));
        out.push(format!("C02 ratio p {} {} {} - => {}", enc_conf(&conf), n, r.enc(), o));
    }
}

fn w(conf: Confidence, n: usize, k: usize) -> String {
    guarded(|| enc_cires(&proportion::ci(conf, n, k)))
}

pub fn c17(out: &mut Vec<String>, rng: &mut Rng, tier: &str) {
    let nmax = if tier == "thorough" { 400 } else { 70 };
    let confs = [conf_of(0, 0.95), conf_of(1, 0.9), conf_of(2, 0.99), conf_of(0, 0.5)];
    for n in 4..=nmax {
        for k in 2..=(n - 2) {
            let c = confs[(n + k) % confs.len()];
            let ec = enc_conf(&c);
            if k + 1 <= n - 2 {
                out.push(format!("C17 rel p mono {} {} {} {} {} {} => {} | {}", ec, n, k, ec, n, k + 1, w(c, n, k), w(c, n, k + 1)));
            }
            let f = c.flipped();
            out.push(format!("C17 rel p mirror {} {} {} {} {} {} => {} | {}", ec, n, k, enc_conf(&f), n, n - k, w(c, n, k), w(f, n, n - k)));
            let m = rng.range(2, 50) as usize;
            out.push(format!("C17 rel p shrink {} {} {} {} {} {} => {} | {}", ec, n, k, ec, m * n, m * k, w(c, n, k), w(c, m * n, m * k)));
            let l1 = 0.5 + rng.unit() * 0.49;
            let l2 = l1 + (0.9999 - l1) * (0.05 + 0.9 * rng.unit());
            let kind = rng.below(3);
            let (c1, c2) = (conf_of(kind, l1), conf_of(kind, l2));
            out.push(format!("C17 rel p wider {} {} {} {} {} {} => {} | {}", enc_conf(&c1), n, k, enc_conf(&c2), n, k, w(c1, n, k), w(c2, n, k)));
            if (n + k) % 3 == 0 {
                // levels below 1/2 as well (negative critical values for the one-sided kinds)
                let l1 = 0.001 + rng.unit() * 0.49;
                let l2 = l1 + (0.9999 - l1) * (0.02 + 0.9 * rng.unit());
                let (c1, c2) = (conf_of(kind, l1), conf_of(kind, l2));
                out.push(format!("C17 rel p wider {} {} {} {} {} {} => {} | {}", enc_conf(&c1), n, k, enc_conf(&c2), n, k, w(c1, n, k), w(c2, n, k)));
            }
        }
    }
    // the largest level below 1 (infinite critical value: the widest interval) against ordinary high levels
    for (n, k) in [(30usize, 7usize), (1000, 250)] {
        let top = f64::from_bits(1.0f64.to_bits() - 1);
        for l in [0.9f64, 0.999999, f64::from_bits(1.0f64.to_bits() - 2)] {
            for kind in 0..3u64 {
                let (c1, c2) = (conf_of(kind, l), conf_of(kind, top));
                out.push(format!("C17 rel p wider {} {} {} {} {} {} => {} | {}", enc_conf(&c1), n, k, enc_conf(&c2), n, k, w(c1, n, k), w(c2, n, k)));
            }
        }
    }
    // the usual levels against very close neighbours (a table of rounded critical values would show here)
    for (n, k) in [(30usize, 7usize), (1000, 250), (100_000, 777)] {
        for l in [0.5f64, 0.8, 0.9, 0.95, 0.975, 0.98, 0.99, 0.995, 0.999] {
            for d in [1e-6f64, 3e-5, 1e-9] {
                for kind in 0..3u64 {
                    for (l1, l2) in [(l - d, l), (l, l + d)] {
                        let (c1, c2) = (conf_of(kind, l1), conf_of(kind, l2));
                        out.push(format!("C17 rel p wider {} {} {} {} {} {} => {} | {}", enc_conf(&c1), n, k, enc_conf(&c2), n, k, w(c1, n, k), w(c2, n, k)));
                    }
                }
            }
        }
    }
    // level scans: consecutive levels on a grid that is fine near 1 and near 0 (a higher level is wider)
    for (n, k) in [(30usize, 7usize), (1000, 250), (1000, 12), (50_000, 49_000)] {
        let mut grid: Vec<f64> = Vec::new();
        for j in 1..40 {
            grid.push(j as f64 * 0.025);
        }
        for j in 0..60 {
            grid.push(0.999 + j as f64 * 0.00001665);
        }
        for j in 1..10 {
            grid.push(1.0 - (10.0f64).powi(-4 - j));
            grid.push((10.0f64).powi(-j));
        }
        for l in [1e-12f64, 1e-15, 3e-17, 1e-17, 1e-20, 1e-100, 1e-300] {
            grid.push(l);
        }
        grid.sort_by(|a, b| a.partial_cmp(b).unwrap());
        grid.dedup();
        for kind in 0..3u64 {
            for w2 in grid.windows(2) {
                let (c1, c2) = (conf_of(kind, w2[0]), conf_of(kind, w2[1]));
                out.push(format!("C17 rel p wider {} {} {} {} {} {} => {} | {}", enc_conf(&c1), n, k, enc_conf(&c2), n, k, w(c1, n, k), w(c2, n, k)));
            }
        }
    }
    // small numbers of successes / failures in large populations (where approximations are tempting),
    // including very high levels
    for n in [1_000usize, 9_999, 10_000, 99_999, 100_000, 100_001, 1_000_000, 50_000_000] {
        for (ci, c) in [conf_of(0, 0.9), conf_of(0, 0.999), conf_of(1, 0.99), conf_of(2, 0.95)].iter().enumerate() {
            let ec = enc_conf(c);
            for k in 2..(if tier == "thorough" { 60 } else { 24 }) {
                for (kk, k2) in [(k, k + 1), (n - k - 1, n - k)] {
                    if kk < 2 || k2 > n - 2 {
                        continue;
                    }
                    out.push(format!("C17 rel p mono {} {} {} {} {} {} => {} | {}", ec, n, kk, ec, n, k2, w(*c, n, kk), w(*c, n, k2)));
                }
                if (k + ci) % 4 == 0 {
                    let f = c.flipped();
                    out.push(format!("C17 rel p mirror {} {} {} {} {} {} => {} | {}", ec, n, k, enc_conf(&f), n, n - k, w(*c, n, k), w(f, n, n - k)));
                }
            }
        }
    }
    // larger populations
    let reps = if tier == "thorough" { 5000 } else { 500 };
    for _ in 0..reps {
        let n = rng.range(4, 1_000_000) as usize;
        let k = rng.range(2, n as i64 - 2) as usize;
        let c = rand_conf(rng);
        let ec = enc_conf(&c);
        let k2 = (k + 1 + rng.below(((n - 2 - k).min(1000)) as u64 + 1) as usize).min(n - 2);
        out.push(format!("C17 rel p mono {} {} {} {} {} {} => {} | {}", ec, n, k, ec, n, k2, w(c, n, k), w(c, n, k2)));
        let f = c.flipped();
        out.push(format!("C17 rel p mirror {} {} {} {} {} {} => {} | {}", ec, n, k, enc_conf(&f), n, n - k, w(c, n, k), w(f, n, n - k)));
        let m = rng.range(2, 50) as usize;
        out.push(format!("C17 rel p shrink {} {} {} {} {} {} => {} | {}", ec, n, k, ec, m * n, m * k, w(c, n, k), w(c, m * n, m * k)));
    }
    // populations from 2^33 to 2^52 with successes and failures both large (their product is beyond 2^64; the
    // counts are still exact in f64)
    for i in 0..(if tier == "thorough" { 400 } else { 60 }) {
        let e = rng.range(33, 52);
        let n = ((1i64 << e) + rng.range(0, 1 << 20)) as usize;
        let k = ((n as f64) * (0.05 + 0.9 * rng.unit())) as usize;
        let c = if i % 3 == 0 { conf_of(rng.below(3), 0.95) } else { rand_conf(rng) };
        let ec = enc_conf(&c);
        let step = 1 + (n as f64).sqrt() as usize * (1 + rng.below(50) as usize);
        let k2 = (k + step).min(n - 2);
        out.push(format!("C17 rel p mono {} {} {} {} {} {} => {} | {}", ec, n, k, ec, n, k2, w(c, n, k), w(c, n, k2)));
        let f = c.flipped();
        out.push(format!("C17 rel p mirror {} {} {} {} {} {} => {} | {}", ec, n, k, enc_conf(&f), n, n - k, w(c, n, k), w(f, n, n - k)));
        out.push(format!("C17 rel p shrink {} {} {} {} {} {} => {} | {}", ec, n, k, ec, 2 * n, 2 * k, w(c, n, k), w(c, 2 * n, 2 * k)));
    }
}

// ------------------------------------------------------------------------------------------
// quantiles (C03)

fn qidx_line(conf: Confidence, n: usize, q: f64) -> String {
    let a = guarded(|| enc_cires(&quantile::ci_indices(conf, n, q)));
    let s = guarded(|| enc_cires(&quantile::Stats::new(n).ci(conf, q)));
    format!("C03 qidx n {} {} {} => {} | {}", enc_conf(&conf), n, q.enc(), a, s)
}

fn next_up(x: f64) -> f64 {
    f64::from_bits(x.to_bits() + 1)
}
fn next_down(x: f64) -> f64 {
    f64::from_bits(x.to_bits() - 1)
}

pub trait QElem: Elem + Copy + PartialOrd {}
impl QElem for i64 {}
impl QElem for f64 {}
impl QElem for &'static str {}
impl QElem for char {}

fn qci_line<T: QElem>(conf: Confidence, q: f64, data: &[T], perms: &[Vec<T>]) -> String {
    let v: Vec<T> = data.to_vec();
    let o1 = guarded(|| enc_cires(&quantile::ci(conf, &v, q)));
    let o2 = guarded(|| {
        let mut s = v.clone();
        s.sort_by(|a, b| a.partial_cmp(b).unwrap());
        enc_cires(&quantile::ci_sorted_unchecked(conf, &s, q))
    });
    let o3 = guarded(|| enc_cires(&quantile::ci_max_size::<T, _, 16>(conf, &v, q)));
    let o4 = guarded(|| enc_cires(&quantile::ci_max_size::<T, _, 1024>(conf, &v, q)));
    let idx = guarded(|| enc_cires(&quantile::ci_indices(conf, v.len(), q)));
    // the pre-sorted entry point on the data AS GIVEN (order of arrival): the elements at the two ranks, or
    // InvalidBounds if they are inverted
    let raw = guarded(|| enc_cires(&quantile::ci_sorted_unchecked(conf, &v, q)));
    // a container with gaps (inexact size hint)
    let sp = guarded(|| enc_cires(&quantile::ci(conf, &Sparse::of(&v, 3), q)));
    let mut l = format!("C03 qci {} {} {} {}", T::TAG, enc_conf(&conf), q.enc(), v.len());
    for x in &v {
        l.push(' ');
        l.push_str(&x.enc());
    }
    let mut o = format!("{} | {} | {} | {} | {} | {} | {}", o1, o2, o3, o4, idx, raw, sp);
    for p in perms {
        let r = guarded(|| enc_cires(&quantile::ci(conf, p, q)));
        o.push_str(&format!(" | {}", r));
    }
    format!("{} => {}", l, o)
}

fn permutations<T: Copy>(xs: &[T]) -> Vec<Vec<T>> {
    if xs.len() <= 1 {
        return vec![xs.to_vec()];
    }
    let mut out = Vec::new();
    for i in 0..xs.len() {
        let mut rest = xs.to_vec();
        let x = rest.remove(i);
        for mut p in permutations(&rest) {
            p.insert(0, x);
            out.push(p);
        }
    }
    out
}

fn shuffle<T: Copy>(rng: &mut Rng, xs: &[T]) -> Vec<T> {
    let mut v = xs.to_vec();
    for i in (1..v.len()).rev() {
        let j = rng.below(i as u64 + 1) as usize;
        v.swap(i, j);
    }
    v
}

const WORDS: [&str; 12] = ["a", "ab", "abc", "b", "ba", "c", "d", "da", "e", "zz", "", "m"];

pub fn c03(out: &mut Vec<String>, rng: &mut Rng, tier: &str) {
    let nmax = if tier == "thorough" { 2000 } else { 160 };
    let confs = [conf_of(0, 0.95), conf_of(1, 0.9), conf_of(2, 0.99), conf_of(0, 0.5), conf_of(1, 0.3), conf_of(0, 0.999)];
    for n in 0..=nmax {
        // q such that q·n is every integer and half-integer in range (and its float neighbours)
        let mut qs: Vec<f64> = Vec::new();
        let stride = if n <= 40 { 1 } else { 1 + n / 16 };
        let mut j = 0;
        while j <= 2 * n.max(1) {
            let q = j as f64 / (2.0 * n.max(1) as f64);
            qs.push(q);
            if q > 0.0 && q < 1.0 {
                qs.push(next_up(q));
                qs.push(next_down(q));
            }
            j += stride;
        }
        for _ in 0..3 {
            qs.push(rng.unit());
        }
        for (i, q) in qs.iter().enumerate() {
            out.push(qidx_line(confs[(n + i) % confs.len()], n, *q));
        }
    }
    for q in [0.0, 1.0, -0.5, 1.5, f64::NAN, f64::INFINITY, f64::NEG_INFINITY, -0.0] {
        for n in [0usize, 3, 4, 15, 200] {
            out.push(qidx_line(conf_of(n as u64, 0.9), n, q));
        }
    }
    // Stats::index: the rank of a proportion, min(floor(p n), n - 1)
    for n in [0usize, 1, 2, 7, 10, 15, 100, 1000, 1_000_000] {
        let mut ps: Vec<f64> = vec![0.0, -0.0, 1.0, 0.5, 1.0 / 3.0, 0.999999999, next_down(1.0), next_up(1.0), -1e-9, 2.0, f64::NAN];
        for j in 0..=n.min(20) {
            let p = j as f64 / n.max(1) as f64;
            ps.push(p);
            if p > 0.0 && p < 1.0 {
                ps.push(next_up(p));
                ps.push(next_down(p));
            }
        }
        for p in ps {
            let r = guarded(|| match quantile::Stats::new(n).index(p) {
                Ok(i) => format!("ok {}", i),
                Err(e) => enc_cierr(&e),
            });
            out.push(format!("C03 index n {} {} => {}", n, p.enc(), r));
        }
    }
    let reps = if tier == "thorough" { 3000 } else { 300 };
    for _ in 0..reps {
        let n = rng.range(4, 2_000_000) as usize;
        let q = match rng.below(3) {
            0 => rng.unit(),
            1 => (rng.below(2 * n as u64) as f64 + 0.5) / (2.0 * n as f64),
            _ => rng.below(n as u64) as f64 / n as f64,
        };
        out.push(qidx_line(rand_conf(rng), n, q));
    }
    // an incomparable element inside data that is otherwise already in ascending order (documented panic)
    for n in [8usize, 15] {
        for pos in 0..n {
            let mut d: Vec<f64> = (0..n).map(|i| i as f64 * 1.5).collect();
            d[pos] = f64::NAN;
            let p: Vec<Vec<f64>> = vec![];
            out.push(qci_line::<f64>(confs[pos % confs.len()], 0.5, &d, &p));
        }
    }
    // data: all permutations of small samples (with ties), random permutations of larger ones
    let small_i: Vec<i64> = vec![3, 1, 4, 1, 5, 9, 2];
    let perms = permutations(&small_i);
    for (i, chunk) in perms.chunks(if tier == "thorough" { 40 } else { 252 }).enumerate() {
        let conf = confs[i % confs.len()];
        out.push(qci_line::<i64>(conf, 0.5, &small_i, chunk));
    }
    let reps = if tier == "thorough" { 600 } else { 120 };
    for i in 0..reps {
        let n = match i % 6 {
            0 => rng.range(0, 6) as usize,
            1 => rng.range(15, 18) as usize,
            2 => 1025,
            _ => rng.range(4, 300) as usize,
        };
        let conf = rand_conf(rng);
        let q = match rng.below(10) {
            0 => 0.0,
            1 => 1.0,
            2 => f64::NAN,
            _ => 0.02 + 0.96 * rng.unit(),
        };
        match i % 4 {
            0 => {
                let d: Vec<i64> = (0..n).map(|_| rng.range(-20, 20)).collect();
                let ps = vec![shuffle(rng, &d), shuffle(rng, &d)];
                out.push(qci_line::<i64>(conf, q, &d, &ps));
            }
            1 => {
                let pool = [-0.0f64, 0.0, 1.5, -2.25, 1e300, f64::INFINITY, f64::NEG_INFINITY, 3.0, 3.0, 7.5];
                let mut d: Vec<f64> = (0..n).map(|_| if rng.coin() { *rng.pick(&pool) } else { rng.unit() * 10.0 }).collect();
                if i % 40 == 1 && n > 0 {
                    let j = rng.below(n as u64) as usize;
                    d[j] = f64::NAN; // incomparable element: documented panic
                }
                let ps = vec![shuffle(rng, &d), shuffle(rng, &d)];
                out.push(qci_line::<f64>(conf, q, &d, &ps));
            }
            2 => {
                let d: Vec<&'static str> = (0..n).map(|_| *rng.pick(&WORDS)).collect();
                let ps = vec![shuffle(rng, &d), shuffle(rng, &d)];
                out.push(qci_line::<&'static str>(conf, q, &d, &ps));
            }
            _ => {
                let d: Vec<char> = (0..n).map(|_| (b'A' + rng.below(26) as u8) as char).collect();
                let ps = vec![shuffle(rng, &d), shuffle(rng, &d)];
                out.push(qci_line::<char>(conf, q, &d, &ps));
            }
        }
    }
}

// ------------------------------------------------------------------------------------------
// exact coverage (C12): the implementation's intervals for every outcome k

pub fn c12(out: &mut Vec<String>, _rng: &mut Rng, tier: &str) {
    let ns: Vec<usize> = if tier == "thorough" {
        vec![20, 25, 30, 40, 50, 60, 80, 100, 120, 150, 200, 250, 300, 400, 500, 600, 800, 1000, 1500, 2000, 3000]
    } else {
        vec![20, 37, 60, 100, 250, 600, 1500]
    };
    let levels = [0.8, 0.9, 0.95, 0.99];
    for n in &ns {
        for l in levels {
            for kind in 0..3 {
                let conf = conf_of(kind, l);
                let mut line = format!("C12 cover p {} {} =>", enc_conf(&conf), n);
                for k in 0..=*n {
                    let r = proportion::ci(conf, *n, k);
                    match r {
                        Ok(Interval::TwoSided(a, bb)) => line.push_str(&format!(" {} {}", a.enc(), bb.enc())),
                        _ => line.push_str(" - -"),
                    }
                }
                out.push(line);
            }
        }
    }
    // the same coverage with the requests of two or three settings interleaved (A, B, A, B, …): the interval for
    // (confidence, n, k) is a function of its arguments, whatever was asked before on this thread
    for (n, confs) in [
        (41usize, vec![conf_of(0, 0.95), conf_of(2, 0.95)]),
        (150, vec![conf_of(1, 0.9), conf_of(0, 0.95)]),
        (61, vec![conf_of(0, 0.9), conf_of(1, 0.9), conf_of(2, 0.99)]),
        (333, vec![conf_of(2, 0.8), conf_of(0, 0.99)]),
    ] {
        let mut lines: Vec<String> = confs.iter().map(|c| format!("C12 cover p {} {} =>", enc_conf(c), n)).collect();
        for k in 0..=n {
            for (i, c) in confs.iter().enumerate() {
                match proportion::ci(*c, n, k) {
                    Ok(Interval::TwoSided(a, bb)) => lines[i].push_str(&format!(" {} {}", a.enc(), bb.enc())),
                    _ => lines[i].push_str(" - -"),
                }
            }
        }
        out.extend(lines);
    }
    // quantile intervals: ranks for a grid of q
    let nq: Vec<usize> = if tier == "thorough" { vec![20, 30, 50, 100, 200, 400, 1000, 3000] } else { vec![20, 50, 100, 400, 1200] };
    for n in &nq {
        for l in levels {
            for kind in 0..3 {
                let conf = conf_of(kind, l);
                let g = if tier == "thorough" { 400 } else { 100 };
                let mut line = format!("C12 qcover n {} {} {} =>", enc_conf(&conf), n, g);
                for j in 1..g {
                    let q = j as f64 / g as f64;
                    match quantile::ci_indices(conf, *n, q) {
                        Ok(Interval::TwoSided(a, bb)) => line.push_str(&format!(" {} {}", a, bb)),
                        Ok(Interval::UpperOneSided(a)) => line.push_str(&format!(" {} -", a)),
                        Ok(Interval::LowerOneSided(bb)) => line.push_str(&format!(" - {}", bb)),
                        Err(_) => line.push_str(" x x"),
                    }
                }
                out.push(line);
            }
        }
    }
    // the same ranks through the data-taking entry point: unsorted samples whose values are their own ranks
    let nq2: Vec<usize> = if tier == "thorough" { vec![20, 40, 100, 300] } else { vec![20, 60, 150] };
    for n in &nq2 {
        let perm: Vec<usize> = shuffle(_rng, &(0..*n).collect::<Vec<usize>>());
        for l in levels {
            for kind in 0..3 {
                let conf = conf_of(kind, l);
                let g = 100;
                let mut line = format!("C12 qcover2 n {} {} {} =>", enc_conf(&conf), n, g);
                for j in 1..g {
                    let q = j as f64 / g as f64;
                    match quantile::ci(conf, &perm, q) {
                        Ok(Interval::TwoSided(a, bb)) => line.push_str(&format!(" {} {}", a, bb)),
                        Ok(Interval::UpperOneSided(a)) => line.push_str(&format!(" {} -", a)),
                        Ok(Interval::LowerOneSided(bb)) => line.push_str(&format!(" - {}", bb)),
                        Err(_) => line.push_str(" x x"),
                    }
                }
                out.push(line);
            }
        }
    }
    // proportion intervals of a running Stats fed in two or three batches (extend, extend_if, add_*)
    for n in [30usize, 60, 150] {
        for l in levels {
            for kind in 0..3 {
                let conf = conf_of(kind, l);
                let mut line = format!("C12 cover b {} {} =>", enc_conf(&conf), n);
                for k in 0..=n {
                    let mut st = proportion::Stats::default();
                    let n1 = n / 3;
                    let k1 = k.min(n1);
                    let b1: Vec<bool> = (0..n1).map(|i| i < k1).collect();
                    st.extend(&b1);
                    let n2 = n / 3;
                    let k2 = (k - k1).min(n2);
                    let b2: Vec<u32> = (0..n2).map(|i| if i < k2 { 1 } else { 0 }).collect();
                    st.extend_if(&b2, |x| *x == 1);
                    for i in 0..(n - n1 - n2) {
                        if i < k - k1 - k2 { st.add_success() } else { st.add_failure() }
                    }
                    match st.ci(conf) {
                        Ok(Interval::TwoSided(a, bb)) => line.push_str(&format!(" {} {}", a.enc(), bb.enc())),
                        _ => line.push_str(" - -"),
                    }
                }
                out.push(line);
            }
        }
    }
    // proportion intervals through the success-ratio front-end
    for n in [25usize, 47, 100, 333] {
        for l in levels {
            for kind in 0..3 {
                let conf = conf_of(kind, l);
                let mut line = format!("C12 cover r {} {} =>", enc_conf(&conf), n);
                for k in 0..=n {
                    match proportion::ci_wilson_ratio(conf, n, k as f64 / n as f64) {
                        Ok(Interval::TwoSided(a, bb)) => line.push_str(&format!(" {} {}", a.enc(), bb.enc())),
                        _ => line.push_str(" - -"),
                    }
                }
                out.push(line);
            }
        }
    }
}

pub fn nk_line_pub(conf: Confidence, n: usize, k: usize) -> String {
    nk_line(conf, n, k)
}
pub fn qidx_line_pub(prop: &str, conf: Confidence, n: usize, q: f64) -> String {
    qidx_line(conf, n, q).replacen("C03", prop, 1)
}
/// descending / shuffled finite data: every entry point, including the pre-sorted one applied to the data as given
pub fn qci_unsorted_pub(prop: &str, conf: Confidence, q: f64, n: usize, mode: usize) -> String {
    let d: Vec<f64> = (0..n).map(|i| match mode % 3 {
        0 => (n - i) as f64 * 1.25,
        1 => ((i * 7919) % n) as f64 - 3.5,
        _ => if i == n / 3 { f64::INFINITY } else if i == 2 * n / 3 { f64::NEG_INFINITY } else { i as f64 },
    }).collect();
    let p: Vec<Vec<f64>> = vec![];
    qci_line::<f64>(conf, q, &d, &p).replacen("C03", prop, 1)
}
pub fn qci_nan_sorted_pub(prop: &str, conf: Confidence, n: usize, pos: usize) -> String {
    let mut d: Vec<f64> = (0..n).map(|i| i as f64 * 1.5).collect();
    d[pos] = f64::NAN;
    let p: Vec<Vec<f64>> = vec![];
    qci_line::<f64>(conf, 0.5, &d, &p).replacen("C03", prop, 1)
}
pub fn qci_i64_pub(prop: &str, conf: Confidence, q: f64, data: &[i64]) -> String {
    let p: Vec<Vec<i64>> = vec![data.iter().rev().cloned().collect()];
    qci_line::<i64>(conf, q, data, &p).replacen("C03", prop, 1)
}
