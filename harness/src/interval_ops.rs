//! Drivers of the real `Interval` API (C07, C13, C14, C15, C19).
use crate::enc::*;
use stats_ci::Interval;
use std::hash::{Hash, Hasher};
use std::ops::RangeBounds;

pub fn all_intervals<T: Elem + Copy>(chain: &[T]) -> Vec<Interval<T>> {
    let mut v = Vec::new();
    for (i, a) in chain.iter().enumerate() {
        for b in chain[i..].iter() {
            if a <= b {
                v.push(Interval::TwoSided(*a, *b));
            }
        }
        // equal-but-distinct representations (0.0 / -0.0) in the other order
        for b in chain[..i].iter() {
            if a <= b {
                v.push(Interval::TwoSided(*a, *b));
            }
        }
    }
    for a in chain {
        v.push(Interval::UpperOneSided(*a));
    }
    for a in chain {
        v.push(Interval::LowerOneSided(*a));
    }
    v
}

pub fn hexstr(s: &str) -> String {
    let mut o = String::from("h:");
    for b in s.bytes() {
        o.push_str(&format!("{:02x}", b));
    }
    o
}

pub fn c07<T: Elem + Copy>(out: &mut Vec<String>, chain: &[T]) {
    let t = T::TAG;
    let ivs = all_intervals(chain);
    for i in &ivs {
        for x in chain {
            out.push(format!("C07 contains {} {} {} => {}", t, enc_interval(i), x.enc(), b(i.contains(x))));
            let r = RangeBounds::contains(i, x);
            // membership as a consumer of the two bounds computes it (BTreeMap::range, slicing, drain, …)
            let lo_ok = match i.start_bound() {
                std::ops::Bound::Included(s) => s <= x,
                std::ops::Bound::Excluded(s) => s < x,
                std::ops::Bound::Unbounded => true,
            };
            let hi_ok = match i.end_bound() {
                std::ops::Bound::Included(e) => x <= e,
                std::ops::Bound::Excluded(e) => x < e,
                std::ops::Bound::Unbounded => true,
            };
            out.push(format!("C07 rcontains {} {} {} => {} {}", t, enc_interval(i), x.enc(), b(r), b(lo_ok && hi_ok)));
        }
        let eb = |bd: std::ops::Bound<&T>| match bd {
            std::ops::Bound::Included(s) => format!("In {}", s.enc()),
            std::ops::Bound::Excluded(s) => format!("Ex {}", s.enc()),
            std::ops::Bound::Unbounded => "Un".to_string(),
        };
        out.push(format!("C07 rbounds {} {} => {} {}", t, enc_interval(i), eb(i.start_bound()), eb(i.end_bound())));
        for j in &ivs {
            let (ei, ej) = (enc_interval(i), enc_interval(j));
            out.push(format!("C07 intersects {} {} {} => {}", t, ei, ej, b(i.intersects(j))));
            out.push(format!("C07 includes {} {} {} => {}", t, ei, ej, b(i.includes(j))));
            out.push(format!("C07 is_included_in {} {} {} => {}", t, ei, ej, b(i.is_included_in(j))));
        }
    }
}

/// membership of values that are not on the chain of bounds (for floats: NaN, which belongs to no closed set,
/// subnormals and the extremes of the range), through both views of the interval
pub fn c07_probes<T: Elem + Copy>(out: &mut Vec<String>, chain: &[T], probes: &[T]) {
    let t = T::TAG;
    for i in &all_intervals(chain) {
        for x in probes {
            out.push(format!("C07 contains {} {} {} => {}", t, enc_interval(i), x.enc(), b(i.contains(x))));
            let r = RangeBounds::contains(i, x);
            let lo_ok = match i.start_bound() {
                std::ops::Bound::Included(s) => s <= x,
                std::ops::Bound::Excluded(s) => s < x,
                std::ops::Bound::Unbounded => true,
            };
            let hi_ok = match i.end_bound() {
                std::ops::Bound::Included(e) => x <= e,
                std::ops::Bound::Excluded(e) => x < e,
                std::ops::Bound::Unbounded => true,
            };
            out.push(format!("C07 rcontains {} {} {} => {} {}", t, enc_interval(i), x.enc(), b(r), b(lo_ok && hi_ok)));
        }
    }
}

fn ord_str(o: Option<std::cmp::Ordering>) -> &'static str {
    match o {
        Some(std::cmp::Ordering::Less) => "lt",
        Some(std::cmp::Ordering::Equal) => "eq",
        Some(std::cmp::Ordering::Greater) => "gt",
        None => "none",
    }
}

pub fn c15<T: Elem + Copy>(out: &mut Vec<String>, chain: &[T]) {
    let t = T::TAG;
    let ivs = all_intervals(chain);
    for i in &ivs {
        for j in &ivs {
            out.push(format!(
                "C15 pcmp {} {} {} => {} {} {} {} {} {}",
                t,
                enc_interval(i),
                enc_interval(j),
                ord_str(i.partial_cmp(j)),
                b(i < j),
                b(i <= j),
                b(i > j),
                b(i >= j),
                b(i == j)
            ));
        }
    }
}

#[derive(Default)]
pub struct RecHasher(pub Vec<String>);
impl Hasher for RecHasher {
    fn finish(&self) -> u64 {
        0
    }
    fn write(&mut self, bytes: &[u8]) {
        let mut o = String::from("bytes:");
        for b in bytes {
            o.push_str(&format!("{:02x}", b));
        }
        self.0.push(o);
    }
    fn write_u8(&mut self, i: u8) {
        self.0.push(format!("u8:{}", i));
    }
    fn write_i32(&mut self, i: i32) {
        self.0.push(format!("i32:{}", i));
    }
    fn write_i64(&mut self, i: i64) {
        self.0.push(format!("i64:{}", i));
    }
    fn write_u64(&mut self, i: u64) {
        self.0.push(format!("u64:{}", i));
    }
    fn write_usize(&mut self, i: usize) {
        self.0.push(format!("usize:{}", i));
    }
}

pub trait Ext: Elem + Copy {
    fn to_pair(i: Interval<Self>) -> (Self, Self);
    fn low_x(i: &Interval<Self>) -> Self;
    fn high_x(i: &Interval<Self>) -> Self;
    fn width(i: &Interval<Self>) -> Option<Self>;
}
impl Ext for i64 {
    fn to_pair(i: Interval<i64>) -> (i64, i64) {
        i.into()
    }
    fn low_x(i: &Interval<i64>) -> i64 {
        i.low_i()
    }
    fn high_x(i: &Interval<i64>) -> i64 {
        i.high_i()
    }
    fn width(i: &Interval<i64>) -> Option<i64> {
        i.width()
    }
}
impl Ext for u8 {
    fn to_pair(i: Interval<u8>) -> (u8, u8) {
        i.into()
    }
    fn low_x(i: &Interval<u8>) -> u8 {
        i.low_u()
    }
    fn high_x(i: &Interval<u8>) -> u8 {
        i.high_u()
    }
    fn width(i: &Interval<u8>) -> Option<u8> {
        i.width()
    }
}
impl Ext for f64 {
    fn to_pair(i: Interval<f64>) -> (f64, f64) {
        i.into()
    }
    fn low_x(i: &Interval<f64>) -> f64 {
        i.low_f()
    }
    fn high_x(i: &Interval<f64>) -> f64 {
        i.high_f()
    }
    fn width(i: &Interval<f64>) -> Option<f64> {
        i.width()
    }
}

/// constructors and conversions in (all element types)
pub fn c14_in<T: Elem + Copy>(out: &mut Vec<String>, chain: &[T]) {
    let t = T::TAG;
    for a in chain {
        for bb in chain {
            out.push(format!("C14 new {} {} {} => {}", t, a.enc(), bb.enc(), enc_ires(&Interval::new(*a, *bb))));
            out.push(format!(
                "C14 from_pair {} {} {} => {}",
                t,
                a.enc(),
                bb.enc(),
                enc_ires(&Interval::try_from((*a, *bb)))
            ));
            out.push(format!(
                "C14 from_range_incl {} {} {} => {}",
                t,
                a.enc(),
                bb.enc(),
                enc_ires(&Interval::try_from(*a..=*bb))
            ));
            out.push(format!(
                "C14 from_optpair {} {} {} => {}",
                t,
                enc_opt(Some(*a)),
                enc_opt(Some(*bb)),
                enc_ires::<T>(&Interval::try_from((Some(*a), Some(*bb))))
            ));
        }
        out.push(format!(
            "C14 from_optpair {} {} N => {}",
            t,
            enc_opt(Some(*a)),
            enc_ires::<T>(&Interval::try_from((Some(*a), None)))
        ));
        out.push(format!(
            "C14 from_optpair {} N {} => {}",
            t,
            enc_opt(Some(*a)),
            enc_ires::<T>(&Interval::try_from((None, Some(*a))))
        ));
        out.push(format!("C14 from_range_from {} {} => {}", t, a.enc(), enc_interval(&Interval::from(*a..))));
        out.push(format!("C14 from_range_to {} {} => {}", t, a.enc(), enc_interval(&Interval::from(..=*a))));
        out.push(format!("C14 new_upper {} {} => {}", t, a.enc(), enc_interval(&Interval::new_upper(*a))));
        out.push(format!("C14 new_lower {} {} => {}", t, a.enc(), enc_interval(&Interval::new_lower(*a))));
    }
    out.push(format!(
        "C14 from_optpair {} N N => {}",
        t,
        enc_ires(&Interval::<T>::try_from((None, None)))
    ));
}

/// accessors, predicates, option-pair conversion, clone, equality (all element types)
pub fn c14_acc<T: Elem + Copy>(out: &mut Vec<String>, chain: &[T]) {
    let t = T::TAG;
    let ivs = all_intervals(chain);
    for i in &ivs {
        // a copy compares equal to the original, through `==` and through every ordering operator
        let c = *i;
        let cl = i.clone();
        // `clone_from` into destinations of every kind (also element-wise through a Vec)
        let mut cf_ok = true;
        for d in ivs.iter().take(40) {
            let mut dst = *d;
            dst.clone_from(i);
            cf_ok = cf_ok && dst == *i && dst.is_upper() == i.is_upper() && dst.is_lower() == i.is_lower();
        }
        let mut dv: Vec<Interval<T>> = ivs.iter().rev().take(5).cloned().collect();
        let sv: Vec<Interval<T>> = std::iter::repeat(*i).take(5).collect();
        dv.clone_from(&sv);
        cf_ok = cf_ok && dv == sv;
        out.push(format!(
            "C14 copy {} {} => {} {} {} {} {} {}",
            t,
            enc_interval(i),
            b(*i == c && *i == cl && cf_ok),
            ord_str(i.partial_cmp(&c)),
            b(*i <= c),
            b(*i >= c),
            b(*i < c),
            b(*i > c)
        ));
        let op: (Option<T>, Option<T>) = (*i).into();
        out.push(format!(
            "C14 acc {} {} => {} {} {} {} {} {} {} {} {} {} {} {} {}",
            t,
            enc_interval(i),
            enc_opt(i.left().copied()),
            enc_opt(i.right().copied()),
            enc_opt(i.low()),
            enc_opt(i.high()),
            enc_opt(i.low_as_ref().copied()),
            enc_opt(i.high_as_ref().copied()),
            enc_opt(op.0),
            enc_opt(op.1),
            b(i.is_two_sided()),
            b(i.is_one_sided()),
            b(i.is_upper()),
            b(i.is_lower()),
            b(i.is_degenerate()),
        ));
        // round trip through the option pair, and clone
        let back: Result<Interval<T>, _> = Interval::try_from(op);
        let c = i.clone();
        out.push(format!(
            "C14 roundtrip {} {} => {} {}",
            t,
            enc_interval(i),
            enc_ires(&back),
            enc_interval(&c)
        ));
        for j in &ivs {
            out.push(format!("C14 eq {} {} {} => {}", t, enc_interval(i), enc_interval(j), b(i == j)));
        }
    }
}

macro_rules! pairs_for {
    ($out:ident, $kind:expr, $a:expr, $b:expr, $($x:ty),*) => {
        $(
            if let (Ok(a), Ok(bb)) = (<$x>::try_from($a), <$x>::try_from($b)) {
                let iv: Option<Interval<$x>> = match $kind {
                    0 => Interval::new(a, bb).ok(),
                    1 => Some(Interval::new_upper(a)),
                    _ => Some(Interval::new_lower(bb)),
                };
                if let Some(iv) = iv {
                    let p: ($x, $x) = iv.into();
                    $out.push(format!("C14 pairs n {} {} {} {} => {} {}", stringify!($x), $kind, $a, $b, p.0, p.1));
                }
            }
        )*
    };
}

/// the pair conversion of every integer instantiation (the missing side is MIN / MAX of that very type)
/// inclusive ranges that were (partly or wholly) iterated before the conversion: the conversion decides on the
/// bounds the range holds at that moment, exactly as `Interval::new` does
pub fn c14_used_ranges(out: &mut Vec<String>) {
    fn emit<T: Elem + Copy + PartialOrd>(out: &mut Vec<String>, how: &str, r: std::ops::RangeInclusive<T>) {
        let (a, b) = (*r.start(), *r.end());
        out.push(format!(
            "C14 from_range_used {} {} {} {} => {}",
            T::TAG,
            how,
            a.enc(),
            b.enc(),
            enc_ires(&Interval::try_from(r))
        ));
    }
    macro_rules! used {
        ($t:ty, $lo:expr, $hi:expr) => {{
            for a in $lo..=$hi {
                for b in a..=$hi {
                    let fresh: std::ops::RangeInclusive<$t> = a..=b;
                    emit(out, "fresh", fresh.clone());
                    let mut r = fresh.clone();
                    r.next();
                    emit(out, "next", r);
                    let mut r = fresh.clone();
                    r.next_back();
                    emit(out, "next_back", r);
                    let mut r = fresh.clone();
                    for _ in r.by_ref() {}
                    emit(out, "exhausted", r);
                    let mut r = fresh.clone();
                    while r.next_back().is_some() {}
                    emit(out, "exhausted_back", r);
                    let mut r = fresh.clone();
                    r.nth(100);
                    emit(out, "nth_beyond", r);
                    let mut r = fresh.clone();
                    r.nth((b - a) as usize);
                    emit(out, "nth_last", r);
                }
            }
        }};
    }
    used!(i64, -2i64, 3i64);
    used!(u8, 0u8, 3u8);
    used!(u8, 252u8, 255u8);
    used!(i8, 125i8, 127i8);
    used!(i8, -128i8, -126i8);
}

pub fn c14_pairs(out: &mut Vec<String>) {
    for (a, b) in [(-100i64, -3i64), (-7, 0), (-1, 1), (0, 0), (0, 5), (3, 100), (100, 127), (-128, -100)] {
        for kind in 0..3usize {
            pairs_for!(out, kind, a, b, i8, i16, i32, i64, i128, isize, u8, u16, u32, u64, u128, usize);
        }
    }
}

/// numeric projections (`low_f`/`low_i`/`low_u`, tuple conversion, width)
pub fn c14_ext<T: Ext>(out: &mut Vec<String>, chain: &[T]) {
    let t = T::TAG;
    for i in &all_intervals(chain) {
        let p = T::to_pair(*i);
        out.push(format!(
            "C14 ext {} {} => {} {} {} {} {}",
            t,
            enc_interval(i),
            T::low_x(i).enc(),
            T::high_x(i).enc(),
            p.0.enc(),
            p.1.enc(),
            guarded(|| enc_opt(T::width(i)))
        ));
    }
}

pub fn c14_hash<T: Elem + Copy + Hash>(out: &mut Vec<String>, chain: &[T]) {
    let t = T::TAG;
    for i in &all_intervals(chain) {
        let mut h = RecHasher::default();
        i.hash(&mut h);
        out.push(format!("C14 hash {} {} => {}", t, enc_interval(i), h.0.join(" ")));
    }
}

pub trait Arith:
    Elem
    + Copy
    + std::ops::Add<Output = Self>
    + std::ops::Sub<Output = Self>
    + std::ops::Mul<Output = Self>
    + std::ops::Div<Output = Self>
    + std::ops::Neg<Output = Self>
    + num_traits::Num
{
}
impl Arith for i64 {}
impl Arith for f64 {}

pub fn c13<T: Arith>(out: &mut Vec<String>, chain: &[T], scalars: &[T]) {
    let t = T::TAG;
    let ivs = all_intervals(chain);
    for i in &ivs {
        let ei = enc_interval(i);
        for k in scalars {
            let ek = k.enc();
            out.push(format!("C13 mul {} {} {} => {}", t, ei, ek, guarded(|| enc_interval(&(*i * *k)))));
            if !k.is_zero() {
                out.push(format!("C13 div {} {} {} => {}", t, ei, ek, guarded(|| enc_interval(&(*i / *k)))));
            }
            out.push(format!("C13 add {} {} {} => {}", t, ei, ek, guarded(|| enc_interval(&(*i + *k)))));
            out.push(format!("C13 sub {} {} {} => {}", t, ei, ek, guarded(|| enc_interval(&(*i - *k)))));
        }
        out.push(format!("C13 neg {} {} => {}", t, ei, guarded(|| enc_interval(&(-*i)))));
        for j in &ivs {
            let ej = enc_interval(j);
            out.push(format!("C13 addi {} {} {} => {}", t, ei, ej, guarded(|| format!("ok {}", enc_interval(&(*i + *j))))));
            out.push(format!("C13 subi {} {} {} => {}", t, ei, ej, guarded(|| format!("ok {}", enc_interval(&(*i - *j))))));
        }
    }
}

/// interval arithmetic over an unsigned element type (`u8`): the results are the exact images whenever they are
/// representable; an operation overflows (panics under overflow checks) only if a bound of the result does
pub fn c13_unsigned(out: &mut Vec<String>, chain: &[u8], scalars: &[u8]) {
    let ivs = all_intervals(chain);
    for i in &ivs {
        let ei = enc_interval(i);
        for k in scalars {
            out.push(format!("C13 add u {} {} => {}", ei, k, guarded(|| enc_interval(&(*i + *k)))));
            out.push(format!("C13 sub u {} {} => {}", ei, k, guarded(|| enc_interval(&(*i - *k)))));
        }
        for j in &ivs {
            let ej = enc_interval(j);
            out.push(format!("C13 addi u {} {} => {}", ei, ej, guarded(|| format!("ok {}", enc_interval(&(*i + *j))))));
            out.push(format!("C13 subi u {} {} => {}", ei, ej, guarded(|| format!("ok {}", enc_interval(&(*i - *j))))));
        }
    }
}

/// interval arithmetic over a narrow signed type (`i8`, bounds next to both ends of the range): results wider than
/// `i8::MAX` are perfectly representable; an operation overflows only if a bound of the result does
pub fn c13_signed(out: &mut Vec<String>, chain: &[i8], scalars: &[i8]) {
    let ivs = all_intervals(chain);
    for i in &ivs {
        let ei = enc_interval(i);
        for k in scalars {
            out.push(format!("C13 add b {} {} => {}", ei, k, guarded(|| enc_interval(&(*i + *k)))));
            out.push(format!("C13 sub b {} {} => {}", ei, k, guarded(|| enc_interval(&(*i - *k)))));
            out.push(format!("C13 mul b {} {} => {}", ei, k, guarded(|| enc_interval(&(*i * *k)))));
        }
        out.push(format!("C13 neg b {} => {}", ei, guarded(|| enc_interval(&(-*i)))));
        for j in &ivs {
            let ej = enc_interval(j);
            out.push(format!("C13 addi b {} {} => {}", ei, ej, guarded(|| format!("ok {}", enc_interval(&(*i + *j))))));
            out.push(format!("C13 subi b {} {} => {}", ei, ej, guarded(|| format!("ok {}", enc_interval(&(*i - *j))))));
        }
    }
}

pub fn c13_rel(out: &mut Vec<String>, chain: &[f64]) {
    let ivs = all_intervals(chain);
    for i in &ivs {
        for j in &ivs {
            out.push(format!(
                "C13 relto f {} {} => {}",
                enc_interval(i),
                enc_interval(j),
                guarded(|| format!("ok {}", enc_interval(&i.relative_to(j))))
            ));
        }
    }
}

pub fn c19(out: &mut Vec<String>, chain: &[f64], rng: &mut Rng, n_tol: usize) {
    use approx::{AbsDiffEq, RelativeEq, UlpsEq};
    let ivs = all_intervals(chain);
    for i in &ivs {
        out.push(format!(
            "C19 display f {} {} {} => {}",
            enc_interval(i),
            hexstr(&i.left().map(|x| format!("{}", x)).unwrap_or_default()),
            hexstr(&i.right().map(|x| format!("{}", x)).unwrap_or_default()),
            guarded(|| {
                let plain = format!("{}", i);
                let same = [format!("{:12}", i), format!("{:.2}", i), format!("{:+}", i)].iter().all(|f| *f == plain);
                format!("{} {}", hexstr(&plain), b(same))
            })
        ));
        for j in &ivs {
            // tolerances straddling the actual bound differences
            let mut diffs: Vec<f64> = vec![0.0, f64::EPSILON, 1e-9, 0.5, 1.0, 4.0];
            for (a, bb) in [(i.left(), j.left()), (i.right(), j.right())] {
                if let (Some(a), Some(bb)) = (a, bb) {
                    let d = (a - bb).abs();
                    if d.is_finite() {
                        diffs.push(d);
                        diffs.push(d * (1.0 - 1e-12));
                        diffs.push(d * (1.0 + 1e-12));
                        let m = a.abs().max(bb.abs());
                        if m > 0.0 && m.is_finite() {
                            diffs.push(d / m);
                        }
                    }
                }
            }
            for _ in 0..n_tol {
                let eps = *rng.pick(&diffs);
                let mr = *rng.pick(&diffs);
                let ulps = *rng.pick(&[0u32, 1, 2, 4, 1000, u32::MAX]);
                let (ei, ej) = (enc_interval(i), enc_interval(j));
                out.push(format!("C19 absdiff f {} {} {} => {} {}", ei, ej, eps.enc(), b(i.abs_diff_eq(j, eps)), b(i.abs_diff_ne(j, eps))));
                out.push(format!(
                    "C19 releq f {} {} {} {} => {}",
                    ei,
                    ej,
                    eps.enc(),
                    mr.enc(),
                    format!("{} {}", b(i.relative_eq(j, eps, mr)), b(i.relative_ne(j, eps, mr)))
                ));
                out.push(format!(
                    "C19 ulps f {} {} {} {} => {}",
                    ei,
                    ej,
                    eps.enc(),
                    ulps,
                    format!("{} {}", b(i.ulps_eq(j, eps, ulps)), b(i.ulps_ne(j, eps, ulps)))
                ));
            }
        }
    }
}

pub fn c19_display<T: Elem + Copy + std::fmt::Display>(out: &mut Vec<String>, chain: &[T]) {
    for i in &all_intervals(chain) {
        out.push(format!(
            "C19 display {} {} {} {} => {}",
            T::TAG,
            enc_interval(i),
            hexstr(&i.left().map(|x| format!("{}", x)).unwrap_or_default()),
            hexstr(&i.right().map(|x| format!("{}", x)).unwrap_or_default()),
            guarded(|| {
                let plain = format!("{}", i);
                let flagged = [format!("{:12}", i), format!("{:>14}", i), format!("{:.2}", i), format!("{:+}", i), format!("{:08.3}", i)];
                let same = flagged.iter().all(|f| *f == plain);
                format!("{} {}", hexstr(&plain), b(same))
            })
        ));
    }
}
