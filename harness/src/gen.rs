//! Sample and confidence generators (all randomness from the one `Rng`).
use crate::enc::Rng;
use stats_ci::Confidence;

pub const LEVELS: [f64; 14] = [
    0.001, 0.01, 0.05, 0.1, 0.3, 0.5, 0.6, 0.8, 0.9, 0.95, 0.975, 0.99, 0.999, 0.9999,
];

pub fn conf_of(kind: u64, level: f64) -> Confidence {
    match kind % 3 {
        0 => Confidence::TwoSided(level),
        1 => Confidence::UpperOneSided(level),
        _ => Confidence::LowerOneSided(level),
    }
}

pub fn rand_conf(rng: &mut Rng) -> Confidence {
    let level = if rng.below(4) == 0 {
        0.001 + rng.unit() * (0.9999 - 0.001)
    } else {
        *rng.pick(&LEVELS)
    };
    conf_of(rng.below(3), level)
}

fn pow2(k: i64) -> f64 {
    (2.0f64).powi(k as i32)
}

/// a sample of `n` finite f64 values; `max_exp` bounds the magnitudes (2^±max_exp),
/// `max_ratio` bounds |centre| / spread (keeps the one-pass variance inside its conditioning domain)
pub fn sample_f64(rng: &mut Rng, n: usize, max_exp: i64, max_ratio: f64) -> Vec<f64> {
    let style = rng.below(7);
    let k = rng.range(-max_exp, max_exp);
    let scale = pow2(k);
    let mut v: Vec<f64> = match style {
        0 => (0..n).map(|_| rng.range(-50, 50) as f64).collect(),
        1 => {
            let ratio = if rng.coin() { rng.unit() * max_ratio } else { rng.unit() * 4.0 };
            let centre = if rng.coin() { ratio } else { -ratio };
            (0..n).map(|_| (centre + rng.unit() - 0.5) * scale).collect()
        }
        2 => {
            // mixed magnitudes and signs
            (0..n)
                .map(|_| {
                    let s = if rng.coin() { 1.0 } else { -1.0 };
                    s * (0.5 + rng.unit()) * pow2(k + rng.range(0, 12))
                })
                .collect()
        }
        3 => {
            // few distinct values, many duplicates
            let d: Vec<f64> = (0..3).map(|_| (rng.range(-9, 9) as f64) * 0.25 * scale).collect();
            (0..n).map(|_| *rng.pick(&d)).collect()
        }
        4 => {
            // two clusters
            let c1 = rng.unit() * 8.0;
            let c2 = -rng.unit() * 8.0;
            (0..n).map(|_| (if rng.coin() { c1 } else { c2 } + rng.unit() * 0.125) * scale).collect()
        }
        5 => {
            // strictly positive, wide dynamic range
            (0..n).map(|_| (0.5 + rng.unit()) * pow2(k / 2 + rng.range(-8, 8))).collect()
        }
        _ => {
            // decimal-looking values
            (0..n).map(|_| (rng.range(-9999, 9999) as f64) / 100.0).collect()
        }
    };
    // make sure the sample is not constant (constant data is a C11 case)
    if n >= 2 && v.iter().all(|x| *x == v[0]) {
        v[0] = v[0] + scale.max(1.0);
    }
    v
}

/// strictly positive sample for geometric / harmonic means
pub fn sample_pos_f64(rng: &mut Rng, n: usize, max_exp: i64) -> Vec<f64> {
    let style = rng.below(4);
    let k = rng.range(-max_exp, max_exp);
    let mut v: Vec<f64> = match style {
        0 => (0..n).map(|_| rng.range(1, 100) as f64).collect(),
        1 => (0..n).map(|_| (0.5 + rng.unit()) * pow2(k)).collect(),
        2 => (0..n).map(|_| (0.5 + rng.unit()) * pow2(k + rng.range(-10, 10))).collect(),
        _ => (0..n).map(|_| (1.0 + rng.unit() * 1e-3) * pow2(k)).collect(),
    };
    if n >= 2 && v.iter().all(|x| *x == v[0]) {
        v[0] = v[0] * 1.5;
    }
    v
}

pub fn sizes(rng: &mut Rng, tier: &str) -> Vec<usize> {
    let mut s: Vec<usize> = (2..=9).collect();
    let many = if tier == "thorough" { 400 } else { 60 };
    for _ in 0..many {
        s.push(rng.range(10, 300) as usize);
    }
    for _ in 0..(many / 10) {
        s.push(rng.range(301, 5000) as usize);
    }
    s
}
