//! Drivers of the mean / comparison API (C01, C04, C05, C16, C10, C11, C09).
use crate::enc::*;
use crate::gen::*;
use num_traits::Float;
use stats_ci::mean::{Arithmetic, Geometric, Harmonic};
use stats_ci::{Confidence, MeanCI, StatisticsOps};

pub trait FElem: Float + Elem + Copy + Send + Sync + 'static {
    fn from64(x: f64) -> Self;
}
impl FElem for f64 {
    fn from64(x: f64) -> f64 {
        x
    }
}
impl FElem for f32 {
    fn from64(x: f64) -> f32 {
        x as f32
    }
}

pub fn enc_list<F: Elem>(xs: &[F]) -> String {
    let mut s = format!("{}", xs.len());
    for x in xs {
        s.push(' ');
        s.push_str(&x.enc());
    }
    s
}

fn stats_line<F: FElem>(a: &Arithmetic<F>) -> String {
    format!(
        "{} {} {} {} {}",
        a.sample_count(),
        guarded(|| a.sample_mean().enc()),
        guarded(|| a.sample_variance().enc()),
        guarded(|| a.sample_std_dev().enc()),
        guarded(|| a.sample_sem().enc())
    )
}

/// C01: five call styles of the arithmetic-mean interval + the statistics
pub fn arith_case<F: FElem>(prop: &str, conf: Confidence, xs: &[F]) -> String {
    let v: Vec<F> = xs.to_vec();
    let o1 = guarded(|| enc_cires(&Arithmetic::<F>::ci(conf, &v)));
    let o2 = guarded(|| match Arithmetic::<F>::from_iter(&v) {
        Ok(s) => enc_cires(&s.ci_mean(conf)),
        Err(e) => enc_cierr(&e),
    });
    let o3 = guarded(|| {
        let mut s = Arithmetic::<F>::new();
        for (i, x) in v.iter().enumerate() {
            StatisticsOps::append(&mut s, *x).unwrap();
            if i % 7 == 3 {
                let _ = std::panic::catch_unwind(std::panic::AssertUnwindSafe(|| s.ci_mean(conf).ok()));
                let _ = s.sample_mean();
            }
        }
        let r1 = s.ci_mean(conf);
        let r2 = s.ci_mean(conf);
        // repeated queries return identical results
        assert_eq!(enc_cires(&r1), enc_cires(&r2));
        enc_cires(&r1)
    });
    let o4 = guarded(|| enc_cires(&<Arithmetic<F> as StatisticsOps<F>>::ci(conf, &v)));
    let o5 = guarded(|| enc_cires(&<Arithmetic<F> as MeanCI<F>>::ci(conf, &v)));
    // from_iter of a first part, then extend in further chunks (and once with nothing)
    let o6 = guarded(|| {
        let a = v.len() / 3;
        let b = (2 * v.len()) / 3;
        let mut s = Arithmetic::<F>::from_iter(&v[..a].to_vec()).unwrap();
        StatisticsOps::extend(&mut s, &v[a..b].to_vec()).unwrap();
        StatisticsOps::extend(&mut s, &Vec::<F>::new()).unwrap();
        StatisticsOps::extend(&mut s, &v[b..].to_vec()).unwrap();
        enc_cires(&s.ci_mean(conf))
    });
    // two partial states (the smaller one on the left) merged with `+`
    let o7 = guarded(|| {
        let a = v.len() / 3;
        let l = Arithmetic::<F>::from_iter(&v[..a].to_vec()).unwrap();
        let r = Arithmetic::<F>::from_iter(&v[a..].to_vec()).unwrap();
        enc_cires(&(l + r).ci_mean(conf))
    });
    // a container with gaps (inexact size hint) through ci / from_iter / extend
    let o8 = guarded(|| {
        let sp = Sparse::of(&v, 3);
        let a = enc_cires(&Arithmetic::<F>::ci(conf, &sp));
        let bq = match Arithmetic::<F>::from_iter(&sp) {
            Ok(s) => enc_cires(&s.ci_mean(conf)),
            Err(e) => enc_cierr(&e),
        };
        let mut s3 = Arithmetic::<F>::new();
        StatisticsOps::extend(&mut s3, &sp).unwrap();
        let c = enc_cires(&s3.ci_mean(conf));
        if a == bq && bq == c { a } else { format!("styles-differ {} / {} / {}", a, bq, c) }
    });
    // two partial states merged with `+=`
    let o9 = guarded(|| {
        let a = v.len() / 3;
        let mut l = Arithmetic::<F>::from_iter(&v[..a].to_vec()).unwrap();
        l += Arithmetic::<F>::from_iter(&v[a..].to_vec()).unwrap();
        enc_cires(&l.ci_mean(conf))
    });
    let st = guarded(|| {
        let mut s = Arithmetic::<F>::new();
        StatisticsOps::extend(&mut s, &v).unwrap();
        stats_line(&s)
    });
    format!(
        "{} arith {} {} {} => {} | {} | {} | {} | {} | {} | {} | {} | {} | {}",
        prop,
        F::TAG,
        enc_conf(&conf),
        enc_list(&v),
        o1,
        o2,
        o3,
        o4,
        o5,
        o6,
        o7,
        o8,
        o9,
        st
    )
}

pub fn c01(out: &mut Vec<String>, rng: &mut Rng, tier: &str) {
    let szs = sizes(rng, tier);
    // a state standing for more than 2^32 observations (merged from partial states): count and interval
    for (d, extra) in [(32usize, 3usize), (33, 5)] {
        out.push(crate::prog_ops::big_count_case_p::<f64, Arithmetic<f64>>("C01", "arith", d, extra));
        out.push(crate::prog_ops::big_count_case_p::<f32, Arithmetic<f32>>("C01", "arith", d, extra));
    }
    // long samples sitting on an offset (many readings of a quantity far from zero with a small spread):
    // n·u·(mean/s)² is of order one or more, yet the compensated sums keep the variance meaningful
    for (n, base, spread) in [(4096usize, 100.0f64, 1.0f64), (20_000, 30.0, 0.5), (1500, 250.0, 2.0)] {
        let xs: Vec<f32> = (0..n).map(|_| (base + (rng.unit() - 0.5) * 2.0 * spread) as f32).collect();
        out.push(arith_case::<f32>("C01", rand_conf(rng), &xs));
    }
    for (n, base, spread) in [(200_000usize, 100_000.0f64, 0.5f64), (50_000, 1013.25, 0.01), (300_000, 2.0e6, 3.0)] {
        let xs: Vec<f64> = (0..n).map(|_| base + (rng.unit() - 0.5) * 2.0 * spread).collect();
        out.push(arith_case::<f64>("C01", rand_conf(rng), &xs));
    }
    for n in &szs {
        for rep in 0..3 {
            let conf = rand_conf(rng);
            if rep % 2 == 0 {
                let xs = sample_f64(rng, *n, 40, 1.0e5);
                out.push(arith_case::<f64>("C01", conf, &xs));
            } else {
                let xs: Vec<f32> = sample_f64(rng, *n, 15, 60.0).iter().map(|x| *x as f32).collect();
                out.push(arith_case::<f32>("C01", conf, &xs));
            }
        }
    }
    // both sides of the t -> z switch, and a long sample
    let big: Vec<usize> = if tier == "thorough" {
        vec![99_999, 100_000, 100_001, 100_002, 100_003, 200_000, 1_000_000]
    } else {
        vec![99_999, 100_000, 100_001, 100_002, 150_000]
    };
    for n in big {
        let conf = rand_conf(rng);
        let xs = sample_f64(rng, n, 10, 100.0);
        out.push(arith_case::<f64>("C01", conf, &xs));
        if n <= 100_002 {
            let ys: Vec<f32> = sample_f64(rng, n, 4, 8.0).iter().map(|x| *x as f32).collect();
            out.push(arith_case::<f32>("C01", conf, &ys));
        }
    }
    // zero spread: constant samples and duplicates whose computed variance is exactly zero; every
    // kind must keep its shape ([mean, +inf), (-inf, mean], [mean, mean])
    for c in [4.0f64, -2.5, 0.1, 1.0 / 3.0, 1e-9, 123456.789] {
        for n in [2usize, 3, 5, 40] {
            for k in 0..3 {
                let conf = conf_of(k, *rng.pick(&LEVELS));
                out.push(arith_case::<f64>("C01", conf, &vec![c; n]));
                out.push(arith_case::<f32>("C01", conf, &vec![c as f32; n]));
            }
        }
    }
    // samples whose sum is exactly zero (balanced integers, symmetric data) and with exact zeros
    for _ in 0..(if tier == "thorough" { 100 } else { 20 }) {
        let h = rng.range(1, 20) as usize;
        let mut xs: Vec<f64> = (0..h).map(|_| rng.range(1, 40) as f64 * 0.5).collect();
        let neg: Vec<f64> = xs.iter().map(|x| -x).collect();
        xs.extend(neg);
        if rng.coin() {
            xs.push(0.0);
        }
        out.push(arith_case::<f64>("C01", rand_conf(rng), &xs));
        let ys: Vec<f32> = xs.iter().map(|x| *x as f32).collect();
        out.push(arith_case::<f32>("C01", rand_conf(rng), &ys));
    }
    // magnitudes for which (Σx)² is out of range although Σx, every x² and Σx² are not
    for (n, m32, m64) in [(200usize, 1e17f64, 1e152f64), (200, 5e17, 5e152), (1000, 1e17, 1e152), (100, 6e17, 8e152)] {
        for sign in [1.0f64, -1.0] {
            let xs: Vec<f32> = (0..n).map(|_| (sign * m32 * (1.0 + 1.5 * rng.unit())) as f32).collect();
            out.push(arith_case::<f32>("C01", rand_conf(rng), &xs));
            let ys: Vec<f64> = (0..n).map(|_| sign * m64 * (1.0 + 1.5 * rng.unit())).collect();
            out.push(arith_case::<f64>("C01", rand_conf(rng), &ys));
        }
    }
    // tiny spreads at ordinary and at small magnitudes (nanosecond-scale data)
    for _ in 0..(if tier == "thorough" { 200 } else { 30 }) {
        let n = rng.range(2, 60) as usize;
        let scale = (2.0f64).powi(rng.range(-40, -10) as i32);
        let xs: Vec<f64> = (0..n).map(|_| (1.0 + rng.unit()) * scale).collect();
        out.push(arith_case::<f64>("C01", rand_conf(rng), &xs));
        let ys: Vec<f32> = (0..n).map(|_| ((1.0 + rng.unit()) * (2.0f64).powi(rng.range(-20, -8) as i32)) as f32).collect();
        out.push(arith_case::<f32>("C01", rand_conf(rng), &ys));
    }
    // all levels of the grid on one small sample, three kinds
    let xs = sample_f64(rng, 12, 3, 4.0);
    for l in LEVELS {
        for k in 0..3 {
            out.push(arith_case::<f64>("C01", conf_of(k, l), &xs));
        }
    }
}


// ------------------------------------------------------------------------------------------
// geometric / harmonic (C05)

macro_rules! gstats {
    ($s:expr) => {
        format!(
            "{} {} {}",
            $s.sample_count(),
            guarded(|| $s.sample_mean().enc()),
            guarded(|| $s.sample_sem().enc())
        )
    };
}

/// `geo F conf xs => ci | from_iter+ci_mean | incremental | count mean sem | Arithmetic::ci(conf, ln xs) | arith mean`
pub fn geo_case<F: FElem>(prop: &str, conf: Confidence, xs: &[F]) -> String {
    let v: Vec<F> = xs.to_vec();
    let o1 = guarded(|| enc_cires(&Geometric::<F>::ci(conf, &v)));
    let o2 = guarded(|| match Geometric::<F>::from_iter(&v) {
        Ok(s) => enc_cires(&s.ci_mean(conf)),
        Err(e) => enc_cierr(&e),
    });
    let o3 = guarded(|| {
        let mut s = Geometric::<F>::new();
        for x in v.iter() {
            if let Err(e) = s.append(*x) {
                return enc_cierr(&e);
            }
        }
        enc_cires(&s.ci_mean(conf))
    });
    let st = guarded(|| match Geometric::<F>::from_iter(&v) {
        Ok(s) => format!("ok {}", gstats!(s)),
        Err(e) => enc_cierr(&e),
    });
    let logs: Vec<F> = v.iter().map(|x| x.ln()).collect();
    let a = guarded(|| enc_cires(&Arithmetic::<F>::ci(conf, &logs)));
    let am = guarded(|| Arithmetic::<F>::from_iter(&v).unwrap().sample_mean().enc());
    format!(
        "{} geo {} {} {} => {} | {} | {} | {} | {} | {}",
        prop, F::TAG, enc_conf(&conf), enc_list(&v), o1, o2, o3, st, a, am
    )
}

/// `harm F conf xs => ci | from_iter+ci_mean | incremental | count mean sem | Arithmetic::ci(conf.flipped, 1/xs) | arith mean`
pub fn harm_case<F: FElem>(prop: &str, conf: Confidence, xs: &[F]) -> String {
    let v: Vec<F> = xs.to_vec();
    let o1 = guarded(|| enc_cires(&Harmonic::<F>::ci(conf, &v)));
    let o2 = guarded(|| match Harmonic::<F>::from_iter(&v) {
        Ok(s) => enc_cires(&s.ci_mean(conf)),
        Err(e) => enc_cierr(&e),
    });
    let o3 = guarded(|| {
        let mut s = Harmonic::<F>::new();
        for x in v.iter() {
            if let Err(e) = s.append(*x) {
                return enc_cierr(&e);
            }
        }
        enc_cires(&s.ci_mean(conf))
    });
    let st = guarded(|| match Harmonic::<F>::from_iter(&v) {
        Ok(s) => format!("ok {}", gstats!(s)),
        Err(e) => enc_cierr(&e),
    });
    let recips: Vec<F> = v.iter().map(|x| F::one() / *x).collect();
    let a = guarded(|| enc_cires(&Arithmetic::<F>::ci(conf.flipped(), &recips)));
    let am = guarded(|| Arithmetic::<F>::from_iter(&v).unwrap().sample_mean().enc());
    format!(
        "{} harm {} {} {} => {} | {} | {} | {} | {} | {}",
        prop, F::TAG, enc_conf(&conf), enc_list(&v), o1, o2, o3, st, a, am
    )
}

/// a non-positive value at position `pos` of otherwise valid data: the error carries the value
/// and the state is left as it was before the rejected append
pub fn reject_case<F: FElem>(prop: &str, which: &str, conf: Confidence, xs: &[F], pos: usize, bad: F) -> String {
    let mut v: Vec<F> = xs.to_vec();
    v.insert(pos, bad);
    let run = |geo: bool| -> String {
        guarded(|| {
            let mut g = Geometric::<F>::new();
            let mut h = Harmonic::<F>::new();
            let mut first_err = String::from("none");
            let mut before = String::new();
            for x in v.iter() {
                let snap = if geo { gstats!(g) } else { gstats!(h) };
                let r = if geo { g.append(*x) } else { h.append(*x) };
                if let Err(e) = r {
                    first_err = enc_cierr(&e);
                    before = snap;
                    break;
                }
            }
            let after = if geo { gstats!(g) } else { gstats!(h) };
            let ci = if geo { enc_cires(&g.ci_mean(conf)) } else { enc_cires(&h.ci_mean(conf)) };
            let one = if geo { enc_cires(&Geometric::<F>::ci(conf, &v)) } else { enc_cires(&Harmonic::<F>::ci(conf, &v)) };
            // the same data as one batch: `extend` stops at the rejected value (documented as append for each value)
            let mut g2 = Geometric::<F>::new();
            let mut h2 = Harmonic::<F>::new();
            let r2 = if geo { g2.extend(&v) } else { h2.extend(&v) };
            let ext_err = match r2 {
                Ok(()) => String::from("none"),
                Err(e) => enc_cierr(&e),
            };
            let ext_after = if geo { gstats!(g2) } else { gstats!(h2) };
            format!("{} | {} | {} | {} | {} | {} | {}", first_err, before, after, ci, one, ext_err, ext_after)
        })
    };
    format!(
        "{} reject {} {} {} {} {} => {}",
        prop,
        F::TAG,
        which,
        enc_conf(&conf),
        pos,
        enc_list(&v),
        run(which == "geo")
    )
}

pub fn c05(out: &mut Vec<String>, rng: &mut Rng, tier: &str) {
    let szs = sizes(rng, tier);
    for n in &szs {
        for rep in 0..2 {
            let conf = rand_conf(rng);
            if rep == 0 {
                let xs = sample_pos_f64(rng, *n, 30);
                out.push(geo_case::<f64>("C05", conf, &xs));
                out.push(harm_case::<f64>("C05", conf, &xs));
            } else {
                let xs: Vec<f32> = sample_pos_f64(rng, *n, 10).iter().map(|x| *x as f32).collect();
                out.push(geo_case::<f32>("C05", conf, &xs));
                out.push(harm_case::<f32>("C05", conf, &xs));
            }
        }
    }
    // constant and nearly constant samples of values whose reciprocal / logarithm is not exact: the one-pass
    // variance of the transformed data can round slightly negative (it is clamped); mean, standard error and
    // interval must still be numbers
    for k in 1..(if tier == "thorough" { 120 } else { 40 }) {
        let v = k as f64 * 0.37 + 0.01;
        for n in [2usize, 3, 5, 25] {
            if (k + n) % 3 != 0 {
                continue;
            }
            let conf = rand_conf(rng);
            out.push(harm_case::<f64>("C05", conf, &vec![v; n]));
            out.push(geo_case::<f64>("C05", conf, &vec![v; n]));
            out.push(harm_case::<f32>("C05", conf, &vec![v as f32; n]));
            out.push(geo_case::<f32>("C05", conf, &vec![v as f32; n]));
        }
    }
    for base in [1000.0f32, 3.3, 0.07] {
        let xs: Vec<f32> = [0.0f32, 1e-4, 2e-4, 1e-4, 0.0].iter().map(|d| base * (1.0 + d)).collect();
        out.push(harm_case::<f32>("C05", rand_conf(rng), &xs));
        out.push(geo_case::<f32>("C05", rand_conf(rng), &xs));
    }
    // very large and very small magnitudes: the reciprocals (resp. logarithms) leave the ordinary range
    for i in 0..(if tier == "thorough" { 200 } else { 40 }) {
        let n = rng.range(2, 40) as usize;
        let conf = rand_conf(rng);
        let e = if i % 2 == 0 { rng.range(40, 60) } else { rng.range(-60, -40) };
        let xs: Vec<f64> = (0..n).map(|_| (0.5 + rng.unit()) * (2.0f64).powi(e as i32)).collect();
        out.push(geo_case::<f64>("C05", conf, &xs));
        out.push(harm_case::<f64>("C05", conf, &xs));
        let e32 = if i % 2 == 0 { rng.range(22, 30) } else { rng.range(-30, -22) };
        let ys: Vec<f32> = (0..n).map(|_| ((0.5 + rng.unit()) * (2.0f64).powi(e32 as i32)) as f32).collect();
        out.push(geo_case::<f32>("C05", conf, &ys));
        out.push(harm_case::<f32>("C05", conf, &ys));
    }
    // strictly positive *subnormal* observations (below the smallest normal float) are valid data: the
    // logarithm is an ordinary number (the harmonic mean is left out: the reciprocal of a subnormal overflows,
    // which the crate reports through InvalidInputData / non-finite statistics)
    for (k, n) in [(0usize, 3usize), (1, 5), (2, 8), (3, 4)] {
        // one subnormal observation among ordinary ones (the geometric mean itself stays a normal number: results
        // that are subnormal have too few significant bits for a relative comparison)
        let subs64 = [5e-324f64, 1e-310, 2.2e-308, 3e-320];
        let mut mixed: Vec<f64> = sample_pos_f64(rng, n, 8);
        mixed[k] = subs64[k];
        out.push(geo_case::<f64>("C05", rand_conf(rng), &mixed));
        let subs32 = [1e-45f32, 1e-40, 1.1e-38, 3e-42];
        let mut mixed32: Vec<f32> = mixed.iter().map(|x| *x as f32).collect();
        mixed32[k] = subs32[k];
        out.push(geo_case::<f32>("C05", rand_conf(rng), &mixed32));
    }
    // harmonic <= geometric <= arithmetic on the reported sample means
    for _ in 0..(if tier == "thorough" { 400 } else { 60 }) {
        let n = rng.range(1, 80) as usize;
        let xs = sample_pos_f64(rng, n, 25);
        let am = Arithmetic::<f64>::from_iter(&xs).unwrap().sample_mean();
        let gm = Geometric::<f64>::from_iter(&xs).unwrap().sample_mean();
        let hm = Harmonic::<f64>::from_iter(&xs).unwrap().sample_mean();
        out.push(format!("C05 means f {} => {} {} {}", enc_list(&xs), am.enc(), gm.enc(), hm.enc()));
        let ys: Vec<f32> = xs.iter().map(|x| *x as f32).collect();
        let am = Arithmetic::<f32>::from_iter(&ys).unwrap().sample_mean();
        let gm = Geometric::<f32>::from_iter(&ys).unwrap().sample_mean();
        let hm = Harmonic::<f32>::from_iter(&ys).unwrap().sample_mean();
        out.push(format!("C05 means g {} => {} {} {}", enc_list(&ys), am.enc(), gm.enc(), hm.enc()));
    }
    // rejection at every position of a short sample, and at random positions of longer ones
    let bads64 = [0.0f64, -0.0, -1.5, f64::NEG_INFINITY, -1e-300];
    let base = sample_pos_f64(rng, 6, 8);
    for pos in 0..=base.len() {
        for bad in bads64 {
            for which in ["geo", "harm"] {
                out.push(reject_case::<f64>("C05", which, rand_conf(rng), &base, pos, bad));
                let b32: Vec<f32> = base.iter().map(|x| *x as f32).collect();
                out.push(reject_case::<f32>("C05", which, rand_conf(rng), &b32, pos, bad as f32));
            }
        }
    }
    for _ in 0..(if tier == "thorough" { 200 } else { 30 }) {
        let n = rng.range(2, 60) as usize;
        let xs = sample_pos_f64(rng, n, 20);
        let pos = rng.below(n as u64 + 1) as usize;
        let bad = *rng.pick(&bads64);
        let which = if rng.coin() { "geo" } else { "harm" };
        out.push(reject_case::<f64>("C05", which, rand_conf(rng), &xs, pos, bad));
    }
}

// ------------------------------------------------------------------------------------------
// paired / unpaired (C04)

use stats_ci::comparison::{Paired, Unpaired};

pub fn paired_case<F: FElem>(prop: &str, conf: Confidence, xs: &[F], ys: &[F]) -> String {
    let (a, b): (Vec<F>, Vec<F>) = (xs.to_vec(), ys.to_vec());
    let o1 = guarded(|| enc_cires(&Paired::<F>::ci(conf, &a, &b)));
    let o2 = guarded(|| {
        let mut s = Paired::<F>::default();
        match s.extend(&a, &b) {
            Ok(()) => enc_cires(&s.ci_mean(conf)),
            Err(e) => enc_cierr(&e),
        }
    });
    let same = a.len() == b.len();
    let o3 = guarded(|| {
        if !same {
            return "skip".to_string();
        }
        let t: Vec<(F, F)> = a.iter().cloned().zip(b.iter().cloned()).collect();
        let mut s = Paired::<F>::default();
        s.extend_tuple(&t).unwrap();
        enc_cires(&s.ci_mean(conf))
    });
    let o4 = guarded(|| {
        if !same {
            return "skip".to_string();
        }
        let mut s = Paired::<F>::default();
        for (x, y) in a.iter().zip(b.iter()) {
            s.append_pair(*x, *y).unwrap();
        }
        enc_cires(&s.ci_mean(conf))
    });
    let st = guarded(|| {
        if !same {
            return "skip".to_string();
        }
        let mut s = Paired::<F>::default();
        s.extend(&a, &b).unwrap();
        format!("{} {} {}", s.sample_count(), s.sample_mean().enc(), guarded(|| s.sample_sem().enc()))
    });
    let diffs: Vec<F> = a.iter().zip(b.iter()).map(|(x, y)| *x - *y).collect();
    let ar = guarded(|| {
        if !same {
            return "skip".to_string();
        }
        enc_cires(&Arithmetic::<F>::ci(conf, &diffs))
    });
    // two series with gaps (different paddings: the size hints differ although the numbers of observations need not)
    let sp = guarded(|| enc_cires(&Paired::<F>::ci(conf, &Sparse::of(&a, 2), &Sparse::of(&b, 5))));
    format!(
        "{} paired {} {} {} {} => {} | {} | {} | {} | {} | {} | {}",
        prop, F::TAG, enc_conf(&conf), enc_list(&a), enc_list(&b), o1, o2, o3, o4, st, ar, sp
    )
}

pub fn unpaired_case<F: FElem>(prop: &str, conf: Confidence, xs: &[F], ys: &[F]) -> String {
    let (a, b): (Vec<F>, Vec<F>) = (xs.to_vec(), ys.to_vec());
    let o1 = guarded(|| enc_cires(&Unpaired::<F>::ci(conf, &a, &b)));
    let o2 = guarded(|| enc_cires(&Unpaired::<F>::from_iter(&a, &b).unwrap().ci_mean(conf)));
    let o3 = guarded(|| {
        let mut s = Unpaired::<F>::default();
        s.extend_b(&b).unwrap();
        s.extend_a(&a).unwrap();
        enc_cires(&s.ci_mean(conf))
    });
    let o4 = guarded(|| {
        let mut s = Unpaired::<F>::default();
        let m = a.len().min(b.len());
        for i in 0..m {
            s.append_pair(a[i], b[i]).unwrap();
        }
        for x in &a[m..] {
            s.append_a(*x).unwrap();
        }
        for y in &b[m..] {
            s.append_b(*y).unwrap();
        }
        enc_cires(&s.ci_mean(conf))
    });
    let o5 = guarded(|| {
        let sa = Arithmetic::<F>::from_iter(&a).unwrap();
        let sb = Arithmetic::<F>::from_iter(&b).unwrap();
        enc_cires(&Unpaired::new(sa, sb).ci_mean(conf))
    });
    let o6 = guarded(|| {
        let mut s = Unpaired::<F>::default();
        s.extend(&a, &b).unwrap();
        enc_cires(&s.ci_mean(conf))
    });
    let o7 = guarded(|| enc_cires(&Unpaired::<F>::ci(conf, &Sparse::of(&a, 1), &Sparse::of(&b, 6))));
    // half of each sample through the wrapper, the other half through the mutable accessor of its statistics
    let o8 = guarded(|| {
        let mut s = Unpaired::<F>::default();
        let (ha, hb) = (a.len() / 2, b.len() / 2);
        s.extend_a(&a[..ha].to_vec()).unwrap();
        s.extend_b(&b[..hb].to_vec()).unwrap();
        StatisticsOps::extend(s.stats_b_mut(), &b[hb..].to_vec()).unwrap();
        StatisticsOps::extend(s.stats_a_mut(), &a[ha..].to_vec()).unwrap();
        format!("{} {} {}", s.stats_a().sample_count(), s.stats_b().sample_count(), enc_cires(&s.ci_mean(conf)))
    });
    // exchanging the two samples (with the flipped confidence) must mirror the interval
    let sw = guarded(|| enc_cires(&Unpaired::<F>::ci(conf.flipped(), &b, &a)));
    format!(
        "{} unpaired {} {} {} {} => {} | {} | {} | {} | {} | {} | {} | {} | {}",
        prop, F::TAG, enc_conf(&conf), enc_list(&a), enc_list(&b), o1, o2, o3, o4, o5, o6, o7, sw, o8
    )
}

/// a mismatched `extend` on a `Paired` state that already holds pairs: the error carries the lengths
/// of the two sequences of THIS call; the state keeps what it had plus the common prefix
pub fn paired_seq_case<F: FElem>(prop: &str, pre: &[(F, F)], xs: &[F], ys: &[F], how: usize) -> String {
    let r = guarded(|| {
        let mut s = Paired::<F>::default();
        match how % 3 {
            0 => {
                let (a, b): (Vec<F>, Vec<F>) = pre.iter().cloned().unzip();
                s.extend(&a, &b).unwrap();
            }
            1 => s.extend_tuple(&pre.to_vec()).unwrap(),
            _ => {
                for (a, b) in pre {
                    s.append_pair(*a, *b).unwrap();
                }
            }
        }
        let e = match s.extend(&xs.to_vec(), &ys.to_vec()) {
            Ok(()) => "ok".to_string(),
            Err(e) => enc_cierr(&e),
        };
        format!("{} | {}", e, s.sample_count())
    });
    let (pa, pb): (Vec<F>, Vec<F>) = pre.iter().cloned().unzip();
    format!("{} paired_seq {} {} {} {} {} => {}", prop, F::TAG, enc_list(&pa), enc_list(&pb), enc_list(xs), enc_list(ys), r)
}

pub fn c04(out: &mut Vec<String>, rng: &mut Rng, tier: &str) {
    // more than 100 000 observations in total with a small, noisy sample: the effective dof stays
    // small, so the Student-t quantile (not the normal one) applies
    for (na, nb) in [(100_001usize, 3usize), (3, 100_200), (60_000, 50_000), (99_990, 9)] {
        let quiet = |rng: &mut Rng, n: usize| -> Vec<f64> { (0..n).map(|_| 10.0 + (rng.unit() - 0.5) * 0.01).collect() };
        let noisy = |rng: &mut Rng, n: usize| -> Vec<f64> { (0..n).map(|_| (rng.unit() - 0.5) * 200.0).collect() };
        let (xs, ys) = if na > nb { (quiet(rng, na), noisy(rng, nb)) } else { (noisy(rng, na), quiet(rng, nb)) };
        if tier == "thorough" || na + nb < 101_000 {
            out.push(unpaired_case::<f64>("C04", rand_conf(rng), &xs, &ys));
        }
    }
    // finite observations whose squares overflow the data type: the documented outcome is InvalidInputData
    for (m32, m64) in [(3e19f64, 2e154f64), (1e30, 1e200)] {
        let xs: Vec<f64> = vec![1.0, 2.5, -0.5, 4.0];
        let big: Vec<f64> = vec![0.75, 1.5, 2.0];
        for which in 0..2 {
            let (a64, b64): (Vec<f64>, Vec<f64>) = if which == 0 { (xs.iter().map(|x| x * m64).collect(), big.clone()) } else { (big.clone(), xs.iter().map(|x| x * m64).collect()) };
            out.push(unpaired_case::<f64>("C04", rand_conf(rng), &a64, &b64));
            let (a32, b32): (Vec<f32>, Vec<f32>) = if which == 0 { (xs.iter().map(|x| (x * m32) as f32).collect(), big.iter().map(|x| *x as f32).collect()) } else { (big.iter().map(|x| *x as f32).collect(), xs.iter().map(|x| (x * m32) as f32).collect()) };
            out.push(unpaired_case::<f32>("C04", rand_conf(rng), &a32, &b32));
        }
    }
    // exactly equal sample means (a sample against a permutation of itself, integer data of equal mean, constants)
    for n in [2usize, 3, 7, 12] {
        let xs: Vec<f64> = (0..n).map(|_| rng.range(-9, 9) as f64).collect();
        let ys: Vec<f64> = xs.iter().rev().cloned().collect();
        out.push(unpaired_case::<f64>("C04", rand_conf(rng), &xs, &ys));
        let zs: Vec<f64> = xs.iter().map(|x| 2.0 * xs.iter().sum::<f64>() / n as f64 - x).collect();
        out.push(unpaired_case::<f64>("C04", rand_conf(rng), &xs, &zs));
        let xf: Vec<f32> = xs.iter().map(|x| *x as f32).collect();
        let yf: Vec<f32> = ys.iter().map(|x| *x as f32).collect();
        out.push(unpaired_case::<f32>("C04", rand_conf(rng), &xf, &yf));
        out.push(unpaired_case::<f64>("C04", rand_conf(rng), &vec![4.0; n], &vec![4.0; n + 1]));
    }
    // f32 data of magnitudes whose fourth powers are outside the f32 range (1e-12, 1e10) and f64 data far out
    for (sc32, sc64) in [(1e-12f64, 1e-70f64), (1e10, 1e70), (3e-11, 1e-60), (1e-9, 1e60)] {
        for (na, nb) in [(3usize, 4usize), (2, 2), (7, 3)] {
            let xs: Vec<f64> = (0..na).map(|_| 1.0 + rng.unit()).collect();
            let ys: Vec<f64> = (0..nb).map(|_| 0.5 + 2.0 * rng.unit()).collect();
            let (x32, y32): (Vec<f32>, Vec<f32>) = (xs.iter().map(|x| (x * sc32) as f32).collect(), ys.iter().map(|x| (x * sc32) as f32).collect());
            out.push(unpaired_case::<f32>("C04", rand_conf(rng), &x32, &y32));
            let (x64, y64): (Vec<f64>, Vec<f64>) = (xs.iter().map(|x| x * sc64).collect(), ys.iter().map(|x| x * sc64).collect());
            out.push(unpaired_case::<f64>("C04", rand_conf(rng), &x64, &y64));
        }
    }
    // f64 data so far out that the fourth powers of the spreads leave the f64 range (spreads beyond 1e77 or
    // below 1e-77) while the standard error itself is an ordinary number: the documented effective dof is a
    // ratio and does not depend on the unit of measurement
    for sc64 in [1e-140f64, 1e-100, 1e-85, 1e85, 1e100, 1e140] {
        for (na, nb) in [(3usize, 4usize), (2, 2), (7, 3), (5, 12)] {
            let xs: Vec<f64> = (0..na).map(|_| (1.0 + rng.unit()) * sc64).collect();
            let ys: Vec<f64> = (0..nb).map(|_| (0.5 + 2.0 * rng.unit()) * sc64).collect();
            out.push(unpaired_case::<f64>("C04", rand_conf(rng), &xs, &ys));
        }
    }
    // balanced samples (equal sizes, equal spreads: the second is a shifted, reversed copy of the first):
    // the effective dof is at its maximum n_a + n_b
    for n in (2..40usize).step_by(if tier == "thorough" { 1 } else { 3 }) {
        let xs: Vec<f64> = (0..n).map(|_| rng.range(-50, 50) as f64).collect();
        let sh = rng.range(-20, 20) as f64;
        let ys: Vec<f64> = xs.iter().rev().map(|x| x + sh).collect();
        out.push(unpaired_case::<f64>("C04", rand_conf(rng), &xs, &ys));
        let (xf, yf): (Vec<f32>, Vec<f32>) = (xs.iter().map(|x| *x as f32).collect(), ys.iter().map(|x| *x as f32).collect());
        out.push(unpaired_case::<f32>("C04", rand_conf(rng), &xf, &yf));
        // nearly balanced: one more observation on one side
        let mut zs = ys.clone();
        zs.push(sh);
        out.push(unpaired_case::<f64>("C04", rand_conf(rng), &xs, &zs));
    }
    for i in 0..(if tier == "thorough" { 200 } else { 40 }) {
        let k = rng.range(0, 9) as usize;
        let pre: Vec<(f64, f64)> = (0..k).map(|_| (rng.unit() * 8.0, rng.unit() * 8.0)).collect();
        let na = rng.range(0, 7) as usize;
        let nb = if i % 4 == 0 { na } else { rng.range(0, 7) as usize };
        let xs = sample_f64(rng, na, 3, 4.0);
        let ys = sample_f64(rng, nb, 3, 4.0);
        out.push(paired_seq_case::<f64>("C04", &pre, &xs, &ys, i));
    }
    let reps = if tier == "thorough" { 600 } else { 100 };
    for i in 0..reps {
        let conf = rand_conf(rng);
        let n = if i < 8 { 2 + i } else { rng.range(2, 200) as usize };
        // paired: equal lengths mostly; unequal lengths every 5th case
        let m = if i % 5 == 4 { (n as i64 + rng.range(-3, 3)).max(0) as usize } else { n };
        if i % 2 == 0 {
            let xs = sample_f64(rng, n, 30, 1.0e4);
            let ys = sample_f64(rng, m, 30, 1.0e4);
            out.push(paired_case::<f64>("C04", conf, &xs, &ys));
        } else {
            let xs: Vec<f32> = sample_f64(rng, n, 10, 50.0).iter().map(|x| *x as f32).collect();
            let ys: Vec<f32> = sample_f64(rng, m, 10, 50.0).iter().map(|x| *x as f32).collect();
            out.push(paired_case::<f32>("C04", conf, &xs, &ys));
        }
        // unpaired: any sizes >= 2, variance ratios 2^-40..2^40, one constant sample
        let na = if i < 6 { 2 + i % 3 } else { rng.range(2, 300) as usize };
        let nb = if i < 6 { 2 + i / 3 } else { rng.range(2, 300) as usize };
        let mut xs = sample_f64(rng, na, 20, 1.0e3);
        let mut ys = sample_f64(rng, nb, 20, 1.0e3);
        if i % 7 == 3 {
            let c = ys[0];
            ys.iter_mut().for_each(|y| *y = c);
        }
        if i % 11 == 5 {
            let k = (2.0f64).powi(rng.range(-40, 40) as i32);
            xs.iter_mut().for_each(|x| *x *= k);
        }
        if i % 2 == 0 {
            out.push(unpaired_case::<f64>("C04", conf, &xs, &ys));
        } else {
            let xs: Vec<f32> = sample_f64(rng, na, 8, 30.0).iter().map(|x| *x as f32).collect();
            let ys: Vec<f32> = sample_f64(rng, nb, 8, 30.0).iter().map(|x| *x as f32).collect();
            out.push(unpaired_case::<f32>("C04", conf, &xs, &ys));
        }
    }
}

// ------------------------------------------------------------------------------------------
// C11: invalid / degenerate input through every interval-computing entry point

fn expect(class: &str, line: String) -> String {
    // `C11 <op> …` becomes `C11 expect <class> <op> …`
    let rest = line.strip_prefix("C11 ").unwrap().to_string();
    let mut it = rest.splitn(3, ' ');
    let op = it.next().unwrap();
    let ty = it.next().unwrap();
    let tail = it.next().unwrap_or("");
    format!("C11 expect {} {} {} {}", ty, class, op, tail)
}

pub fn c11(out: &mut Vec<String>, rng: &mut Rng, tier: &str) {
    use crate::prop_ops;
    let bad64 = [f64::NAN, f64::INFINITY, f64::NEG_INFINITY];
    let reps = if tier == "thorough" { 40 } else { 6 };
    let confs: Vec<Confidence> = {
        let mut v = Vec::new();
        for k in 0..3 {
            for l in [0.001, 0.5, 0.95, 0.9999] {
                v.push(conf_of(k, l));
            }
        }
        v
    };
    for conf in &confs {
        let conf = *conf;
        // empty and singleton samples
        for n in 0..2usize {
            let xs: Vec<f64> = (0..n).map(|i| 1.5 + i as f64).collect();
            let xs32: Vec<f32> = xs.iter().map(|x| *x as f32).collect();
            out.push(expect("TooFewSamples", arith_case::<f64>("C11", conf, &xs)));
            out.push(expect("TooFewSamples", arith_case::<f32>("C11", conf, &xs32)));
            out.push(expect("TooFewSamples", geo_case::<f64>("C11", conf, &xs)));
            out.push(expect("TooFewSamples", harm_case::<f32>("C11", conf, &xs32)));
            out.push(expect("TooFewSamples", paired_case::<f64>("C11", conf, &xs, &xs)));
            out.push(expect("TooFewSamples", unpaired_case::<f64>("C11", conf, &xs, &[1.0, 2.0, 4.0])));
            out.push(expect("TooFewSamples", unpaired_case::<f32>("C11", conf, &[1.0, 2.0, 4.0], &xs32)));
            out.push(expect("TooFewSamples", unpaired_case::<f64>("C11", conf, &xs, &xs)));
        }
        // constant data (the one-pass variance may round below zero): a degenerate interval
        for c in [0.1f64, 1.0 / 3.0, 1e-20, 123456.789, -7.7] {
            for n in [2usize, 3, 10, 1000] {
                let xs = vec![c; n];
                out.push(expect("sane", arith_case::<f64>("C11", conf, &xs)));
                let xs32: Vec<f32> = xs.iter().map(|x| *x as f32).collect();
                out.push(expect("sane", arith_case::<f32>("C11", conf, &xs32)));
                out.push(expect("sane", paired_case::<f64>("C11", conf, &xs, &xs)));
                out.push(expect("sane", unpaired_case::<f64>("C11", conf, &xs, &xs)));
                if c > 0.0 {
                    out.push(expect("sane", geo_case::<f64>("C11", conf, &xs)));
                    out.push(expect("sane", harm_case::<f64>("C11", conf, &xs)));
                }
            }
        }
        // NaN / infinite observations at every position of otherwise valid data
        let base = sample_f64(rng, 5, 6, 10.0);
        for pos in 0..=base.len() {
            for bad in bad64 {
                let mut xs = base.clone();
                xs.insert(pos, bad);
                out.push(expect("InvalidInputData", arith_case::<f64>("C11", conf, &xs)));
                let xs32: Vec<f32> = xs.iter().map(|x| *x as f32).collect();
                out.push(expect("InvalidInputData", arith_case::<f32>("C11", conf, &xs32)));
                out.push(expect("InvalidInputData", paired_case::<f64>("C11", conf, &xs, &vec![1.0; xs.len()])));
                out.push(expect("InvalidInputData", unpaired_case::<f64>("C11", conf, &xs, &base)));
                out.push(expect("InvalidInputData", unpaired_case::<f64>("C11", conf, &base, &xs)));
                let pb: Vec<f64> = base.iter().map(|x| x.abs() + 0.5).collect();
                let mut ps = pb.clone();
                ps.insert(pos, bad);
                let cls = if bad == f64::NEG_INFINITY { "NonPositiveValue" } else { "InvalidInputData" };
                out.push(expect(cls, geo_case::<f64>("C11", conf, &ps)));
                // 1/inf = 0 is a finite reciprocal: only NaN and -inf are invalid for the harmonic mean
                let clsh = if bad == f64::NEG_INFINITY { "NonPositiveValue" } else if bad.is_nan() { "InvalidInputData" } else { "sane" };
                out.push(expect(clsh, harm_case::<f64>("C11", conf, &ps)));
            }
        }
        // huge / tiny magnitudes: squares overflow or underflow
        for m in [1e200f64, 1e160, 1e-200, 1e-320, f64::MAX / 4.0] {
            let xs = vec![m, 2.0 * m, 3.0 * m, 1.5 * m];
            out.push(expect("sane-or-InvalidInputData", arith_case::<f64>("C11", conf, &xs)));
            out.push(expect("sane-or-InvalidInputData", unpaired_case::<f64>("C11", conf, &xs, &[1.0, 2.0, 3.0])));
            out.push(expect("sane-or-InvalidInputData", geo_case::<f64>("C11", conf, &xs)));
            out.push(expect("sane-or-InvalidInputData", harm_case::<f64>("C11", conf, &xs)));
        }
        // unpaired comparisons of samples whose spreads lie where the fourth powers in the effective number of
        // degrees of freedom underflow (spreads around 2^-256 .. 2^-272): valid data, so a sane interval
        for k in 225..300 {
            for mant in [1.0f64, 1.3, 1.65, 1.9] {
                let m = mant * (2.0f64).powi(-k);
                out.push(expect("sane", unpaired_case::<f64>("C11", conf, &[0.0, m], &[1.0, 1.0, 1.0])));
                out.push(expect("sane", unpaired_case::<f64>("C11", conf, &[1.0, 1.0, 1.0, 1.0], &[m, 0.0, m])));
                out.push(expect("sane", unpaired_case::<f64>("C11", conf, &[0.0, m, 2.0 * m], &[m, 0.0, 0.5 * m, m])));
            }
        }
        for m in [1e30f32, 1e25, 1e-30, 1e-44] {
            let xs = vec![m, 2.0 * m, 3.0 * m, 1.5 * m];
            out.push(expect("sane-or-InvalidInputData", arith_case::<f32>("C11", conf, &xs)));
            out.push(expect("sane-or-InvalidInputData", harm_case::<f32>("C11", conf, &xs)));
        }
        // non-positive data for geometric / harmonic means
        for bad in [0.0f64, -0.0, -2.5] {
            let xs = vec![1.0, 2.0, bad, 4.0];
            out.push(expect("NonPositiveValue", geo_case::<f64>("C11", conf, &xs)));
            out.push(expect("NonPositiveValue", harm_case::<f64>("C11", conf, &xs)));
        }
        // mismatched paired lengths
        for (na, nb) in [(0usize, 1usize), (1, 0), (3, 5), (5, 3), (2, 3)] {
            let xs = sample_f64(rng, na, 4, 4.0);
            let ys = sample_f64(rng, nb, 4, 4.0);
            out.push(expect("DifferentSampleSizes", paired_case::<f64>("C11", conf, &xs, &ys)));
        }
        // proportions: k > n, k or n-k in {0,1}, empty population
        for (n, k) in [(0usize, 0usize), (0, 1), (5, 6), (5, 0), (5, 1), (5, 4), (5, 5), (40, 31), (31, 40), (1, 1), (3, 2)] {
            let cls = if k > n { "InvalidSuccesses" } else if k < 2 { "TooFewSuccesses" } else if n - k < 2 { "TooFewFailures" } else { "sane" };
            out.push(expect(cls, format!("C11 {}", prop_ops::nk_line_pub(conf, n, k))));
        }
        // `relative_to`: tiny but non-zero references are fine; a reference with a zero bound is the documented panic
        {
            use stats_ci::Interval;
            let rel = |a: f64, b: f64, c: f64, d: f64| -> String {
                let (i, j) = (Interval::new(a, b).unwrap(), Interval::new(c, d).unwrap());
                format!("C11 relto f {} {} => {}", enc_interval(&i), enc_interval(&j), guarded(|| format!("ok {}", enc_interval(&i.relative_to(&j)))))
            };
            let t = (2.0f64).powi(-600);
            out.push(expect("ok", rel(1.0 * t, 2.0 * t, 0.5 * t, 4.0 * t)));
            out.push(expect("ok", rel(1e-200, 3e-200, 1e-170, 2e-165)));
            out.push(expect("ok", rel(1.0, 2.0, 1e-300, 1e-290)));
            out.push(expect("panic-relative_to", rel(1.0, 2.0, 0.0, f64::INFINITY)));
            out.push(expect("panic-relative_to", rel(1.0, 2.0, 0.0, 3.0)));
            out.push(expect("panic-relative_to", rel(1.0, 2.0, -3.0, 0.0)));
            out.push(expect("panic-relative_to", rel(1.0, 2.0, 0.0, 0.0)));
        }
        // the success-ratio form with a rate that implies more successes than the population (and +inf)
        for (n, r) in [(100usize, 1.006f64), (10, 1.5), (7, f64::INFINITY), (1, 3.0)] {
            let o = guarded(|| enc_cires(&stats_ci::proportion::ci_wilson_ratio(conf, n, r)));
            out.push(expect("InvalidSuccesses", format!("C11 ratio p {} {} {} - => {}", enc_conf(&conf), n, r.enc(), o)));
        }
        // quantiles: q outside (0,1), NaN; too few samples
        for q in [0.0f64, 1.0, -0.1, 1.1, f64::NAN, f64::INFINITY] {
            for n in [0usize, 3, 8, 50] {
                out.push(expect("InvalidQuantile", prop_ops::qidx_line_pub("C11", conf, n, q)));
            }
            let data: Vec<i64> = (1..=8).collect();
            out.push(expect("InvalidQuantile", prop_ops::qci_i64_pub("C11", conf, q, &data)));
        }
        // finite data that are not in ascending order: every entry point returns an interval with low <= high
        // (or InvalidBounds from the pre-sorted entry point), never an Ok with inverted bounds
        for mode in 0..3usize {
            for (n, q) in [(15usize, 0.5f64), (40, 0.2), (9, 0.7)] {
                out.push(expect("ok", prop_ops::qci_unsorted_pub("C11", conf, q, n, mode)));
            }
        }
        // NaN inside otherwise ascending data: the documented panic, never an Ok with a NaN bound
        for pos in [0usize, 4, 7, 11, 14] {
            out.push(expect("panic-sort", prop_ops::qci_nan_sorted_pub("C11", conf, 15, pos)));
        }
        for n in 0..4usize {
            out.push(expect("TooFewSamples", prop_ops::qidx_line_pub("C11", conf, n, 0.5)));
            let data: Vec<i64> = (0..n as i64).collect();
            out.push(expect("TooFewSamples", prop_ops::qci_i64_pub("C11", conf, 0.5, &data)));
        }
    }
    // random valid inputs too: Ok results must be sane everywhere
    for _ in 0..reps {
        let conf = rand_conf(rng);
        let n = rng.range(2, 40) as usize;
        let xs = sample_f64(rng, n, 300, 1e6);
        out.push(expect("sane-or-InvalidInputData", arith_case::<f64>("C11", conf, &xs)));
        let ys = sample_f64(rng, n, 300, 1e6);
        out.push(expect("sane-or-InvalidInputData", unpaired_case::<f64>("C11", conf, &xs, &ys)));
        out.push(expect("sane-or-InvalidInputData", paired_case::<f64>("C11", conf, &xs, &ys)));
        let ps = sample_pos_f64(rng, n, 400);
        out.push(expect("sane-or-InvalidInputData", geo_case::<f64>("C11", conf, &ps)));
        out.push(expect("sane-or-InvalidInputData", harm_case::<f64>("C11", conf, &ps)));
    }
}
