//! Critical values implied by the intervals (C06).
use crate::enc::*;
use crate::gen::*;
use crate::stat_ops::enc_list;
use stats_ci::comparison::Unpaired;
use stats_ci::mean::Arithmetic;
use stats_ci::{proportion, Confidence, StatisticsOps};

/// symmetric probe data: +1, -1, +1, … (a final 0 when n is odd): mean 0 exactly
pub fn probe(n: usize) -> Vec<f64> {
    let mut v: Vec<f64> = (0..n).map(|i| if i % 2 == 0 { 1.0 } else { -1.0 }).collect();
    if n % 2 == 1 {
        v[n - 1] = 0.0;
    }
    v
}

fn level_grid(i: usize) -> f64 {
    // a 400-point grid of (0,1), visited in a scrambled order
    let j = (i * 149) % 399 + 1;
    j as f64 / 400.0
}

pub fn c06(out: &mut Vec<String>, rng: &mut Rng, tier: &str) {
    // 1. public API, incremental append, every n from 2 up to a bound
    let nmax = if tier == "thorough" { 2002 } else { 400 };
    let mut s = Arithmetic::<f64>::new();
    // appended so that the running sample is always the probe of its size: +1,-1,… with a trailing
    // 0 for odd sizes cannot be built incrementally, so odd sizes are built separately
    for n in 1..=nmax {
        let x = if n % 2 == 1 { 1.0 } else { -1.0 };
        StatisticsOps::append(&mut s, x).unwrap();
        if n >= 2 {
            let conf = conf_of(n as u64, level_grid(n));
            let (ci, sd) = if n % 2 == 0 {
                (guarded(|| enc_cires(&s.ci_mean(conf))), s.sample_std_dev())
            } else {
                let d = probe(n);
                let t = Arithmetic::<f64>::from_iter(&d).unwrap();
                (guarded(|| enc_cires(&t.ci_mean(conf))), t.sample_std_dev())
            };
            out.push(format!("C06 tcrit f {} {} => {} | {}", enc_conf(&conf), n, ci, sd.enc()));
        }
    }
    // log-spaced beyond, through both sides of the t -> z switch
    let mut big: Vec<usize> = vec![3000, 5000, 10_000, 30_000, 60_000, 99_998, 99_999, 100_000, 100_001, 100_002, 100_003];
    if tier == "thorough" {
        big.extend_from_slice(&[4000, 7000, 20_000, 45_000, 80_000, 90_000, 99_000, 110_000, 150_000]);
    }
    for (i, n) in big.iter().enumerate() {
        for k in 0..3 {
            let conf = conf_of(k, level_grid(i * 7 + k as usize + 11));
            let d = probe(*n);
            let t = Arithmetic::<f64>::from_iter(&d).unwrap();
            out.push(format!(
                "C06 tcrit f {} {} => {} | {}",
                enc_conf(&conf), n, guarded(|| enc_cires(&t.ci_mean(conf))), t.sample_std_dev().enc()
            ));
        }
    }
    // 2. the private stats layer through the hook: integer and real-valued dof, dense level grid
    let reps = if tier == "thorough" { 20000 } else { 2500 };
    for i in 0..(reps + 2) {
        // corpus of past findings first: the statrs quantile pocket (known_findings.json)
        if i >= reps {
            let dof = f64::from_bits(0x40f3e4c7616392f8);
            let conf = conf_of(1 + (i - reps) as u64, 0.21);
            let t = guarded(|| stats_ci::verif::t_value(conf, dof).enc());
            let z = guarded(|| stats_ci::verif::z_value(conf).enc());
            let b = guarded(|| {
                let (lo, hi) = stats_ci::verif::interval_bounds(conf, 0.0, 1.0, dof);
                format!("{} {}", lo.enc(), hi.enc())
            });
            out.push(format!("C06 hook f {} {} => {} | {} | {}", enc_conf(&conf), dof.enc(), t, z, b));
            continue;
        }
        let dof = match i % 5 {
            0 => (1 + i / 5 % 300) as f64,
            1 => 1.0 + rng.unit() * 40.0, // the property quantifies over dof >= 1 (the least the public API can reach)
            2 => (10.0f64).powf(rng.unit() * 5.0),
            3 => 99_990.0 + (i / 5 % 25) as f64,
            _ => (10.0f64).powf(4.0 + rng.unit() * 1.3),
        };
        let conf = conf_of(i as u64, level_grid(i));
        let t = guarded(|| stats_ci::verif::t_value(conf, dof).enc());
        let z = guarded(|| stats_ci::verif::z_value(conf).enc());
        let b = guarded(|| {
            let (lo, hi) = stats_ci::verif::interval_bounds(conf, 0.0, 1.0, dof);
            format!("{} {}", lo.enc(), hi.enc())
        });
        out.push(format!("C06 hook f {} {} => {} | {} | {}", enc_conf(&conf), dof.enc(), t, z, b));
    }
    // 3. the z implied by a proportion interval
    for i in 0..(reps / 5) {
        let n = rng.range(30, 2_000_000) as usize;
        let k = rng.range(5, n as i64 - 5) as usize;
        let conf = conf_of(i as u64, level_grid(i * 3 + 1));
        out.push(format!("C06 zprop f {} {} {} => {}", enc_conf(&conf), n, k, guarded(|| enc_cires(&proportion::ci(conf, n, k)))));
    }
    // 4. unpaired comparisons: real-valued effective dof through the public API
    for i in 0..(reps / 10) {
        let na = rng.range(2, 80) as usize;
        let nb = rng.range(2, 80) as usize;
        let xs = sample_f64(rng, na, 6, 20.0);
        let mut ys = sample_f64(rng, nb, 6, 20.0);
        if i % 3 == 0 {
            let k = (2.0f64).powi(rng.range(-6, 6) as i32);
            ys.iter_mut().for_each(|y| *y *= k);
        }
        let conf = conf_of(i as u64, level_grid(i * 5 + 2));
        let u = Unpaired::<f64>::from_iter(&xs, &ys).unwrap();
        out.push(format!(
            "C06 ucrit f {} {} {} => {} | {} {} {} {}",
            enc_conf(&conf), enc_list(&xs), enc_list(&ys),
            guarded(|| enc_cires(&u.ci_mean(conf))),
            u.stats_a().sample_mean().enc(), u.stats_b().sample_mean().enc(),
            u.stats_a().sample_std_dev().enc(), u.stats_b().sample_std_dev().enc()
        ));
    }
    // 4a. more than 100 000 observations in total but a small effective dof
    for (na, nb) in [(100_001usize, 3usize), (4, 100_050)] {
        let xs: Vec<f64> = (0..na).map(|_| if na > 10 { 10.0 + (rng.unit() - 0.5) * 0.01 } else { (rng.unit() - 0.5) * 100.0 }).collect();
        let ys: Vec<f64> = (0..nb).map(|_| if nb > 10 { 10.0 + (rng.unit() - 0.5) * 0.01 } else { (rng.unit() - 0.5) * 100.0 }).collect();
        let conf = conf_of(na as u64, 0.95);
        let u = Unpaired::<f64>::from_iter(&xs, &ys).unwrap();
        out.push(format!(
            "C06 ucrit f {} {} {} => {} | {} {} {} {}",
            enc_conf(&conf), enc_list(&xs), enc_list(&ys),
            guarded(|| enc_cires(&u.ci_mean(conf))),
            u.stats_a().sample_mean().enc(), u.stats_b().sample_mean().enc(),
            u.stats_a().sample_std_dev().enc(), u.stats_b().sample_std_dev().enc()
        ));
    }
    // 4b. sweeps at a fixed confidence in which the effective dof moves slowly (consecutive calls
    // differ by a fraction of a degree of freedom): the answer must not depend on the call history
    for i in 0..(if tier == "thorough" { 40 } else { 8 }) {
        let na = rng.range(4, 30) as usize;
        let nb = rng.range(4, 30) as usize;
        let xs = sample_f64(rng, na, 4, 10.0);
        let ys0 = sample_f64(rng, nb, 4, 10.0);
        let conf = conf_of(i as u64, level_grid(i * 13 + 3));
        for step in 0..25 {
            let f = (1.03f64).powi(step);
            let ys: Vec<f64> = ys0.iter().map(|y| y * f).collect();
            let u = Unpaired::<f64>::from_iter(&xs, &ys).unwrap();
            out.push(format!(
                "C06 ucrit f {} {} {} => {} | {} {} {} {}",
                enc_conf(&conf), enc_list(&xs), enc_list(&ys),
                guarded(|| enc_cires(&u.ci_mean(conf))),
                u.stats_a().sample_mean().enc(), u.stats_b().sample_mean().enc(),
                u.stats_a().sample_std_dev().enc(), u.stats_b().sample_std_dev().enc()
            ));
        }
    }
}

#[allow(dead_code)]
fn _c(_: Confidence) {}
