"""Per-property configuration of bin/check, and the deterministic class key of a case."""

INTERVAL_TB = [
    "modelled, not verified: machine-integer overflow of Interval<iN> arithmetic (the model uses unbounded Int; generated values stay in range)",
]


def _kinds(toks):
    return "".join({"I2": "2", "IU": "U", "IL": "L"}[t] for t in toks if t in ("I2", "IU", "IL"))


def _num(tok):
    import struct
    try:
        if tok.startswith("x"):
            return struct.unpack(">d", bytes.fromhex(tok[1:]))[0]
        if tok.startswith("y"):
            return struct.unpack(">f", bytes.fromhex(tok[1:]))[0]
        return float(int(tok))
    except Exception:
        return None


def class_key(case, complaint=""):
    """coarse, deterministic class of a request line: `property|entry|type|features`
    (`complaint` is the oracle's message for PROP lines)"""
    inp = case.split(" => ")[0].split(" || ")[0]
    toks = inp.split()
    if len(toks) < 2:
        return "malformed"
    pid, op = toks[0], toks[1]
    ty = toks[2] if len(toks) > 2 else ""
    feats = [_kinds(toks[3:])]
    if pid == "C13" and op in ("mul", "div", "add", "sub") and len(toks) > 3:
        k = _num(toks[-1])
        if k is not None:
            feats.append("k<0" if k < 0 else ("k=0" if k == 0 else "k>0"))
    if pid == "C17" and op == "rel" and len(toks) > 5:
        feats = [toks[3]]
        lvl = _num(toks[5])
        if toks[4] in ("CU", "CL") and lvl is not None and lvl <= 0.5:
            feats.append("one-sided,level<=1/2")
    if pid == "C08" and complaint.startswith("tree-shape"):
        return "C08|kahan||right-deep-merge"
    if pid == "C06" and "CDF_t(" in complaint:
        # an isolated convergence failure of statrs' StudentsT::inverse_cdf (external crate): see known_findings.json
        import re
        m = re.search(r"CDF_t\(([-0-9.eE+]+);([0-9.eE+]+)\)=([0-9.]+)≠([0-9.]+)", complaint)
        if m:
            dof, target = float(m.group(2)), float(m.group(4))
            if 81484.40 <= dof <= 81484.55 and min(abs(target - 0.21), abs(target - 0.79)) < 1e-3:
                return "C06|t-quantile||statrs-pocket(dof~81484.46,p=0.21|0.79)"
    if pid == "C04" and op == "unpaired" and ty == "f" and complaint.startswith("dof-nan"):
        # D18 (known finding): the fourth powers of the spreads leave the f64 range, the effective dof is NaN and the
        # normal quantile is used silently. Only for f64 data whose magnitude is beyond 1e75 or below 1e-75.
        vals = [abs(v) for v in (_num(t) for t in toks[5:] if t.startswith("x")) if v is not None and v == v and v != 0.0]
        if vals and (max(vals) >= 1e75 or max(vals) <= 1e-75):
            return "C04|unpaired|f|dof-nan(fourth-powers-of-spreads-outside-f64-range:magnitude>=1e75-or<=1e-75)"
    if pid == "C18" and op == "literal":
        feats = ["level-outside-(0,1)"]
        ty = ""
    return "|".join([pid, op, ty] + [f for f in feats if f])


HOOK_COMMITS = ["83fa17c"]
NOT_CLAIMED = {}

FEATURE_SETS = [
    ("default", []),
    ("std", ["--no-default-features", "--features", "std"]),
    ("std+approx", ["--no-default-features", "--features", "std,approx"]),
    ("std+serde", ["--no-default-features", "--features", "std,serde"]),
    ("all", ["--all-features"]),
]


def pre_c20(ctx):
    """the crate builds under each advertised feature combination (a precondition of the tie;
    decided by the compiler, not by a theorem)"""
    import os
    violations, samples, built = [], [], []
    tdir = os.path.join(ctx["HARNESS"], "target-features")
    for name, flags in FEATURE_SETS:
        cmd = ["cargo", "build", "--offline", "--quiet", "--lib", "--manifest-path",
               os.path.join(ctx["REPO"], "Cargo.toml"), "--target-dir", tdir] + flags
        rc, out = ctx["sh"](cmd, timeout=3600)
        first = next((l for l in out.splitlines() if l.startswith("error")), out.strip().splitlines()[-1] if out.strip() else "")
        samples.append(f"feature set {name}: cargo build {' '.join(flags) or '(default features)'} -> {'ok' if rc == 0 else 'FAILED: ' + first}")
        if rc == 0:
            built.append(name)
        else:
            violations.append({"class": f"C20|build|{name}", "what": f"cargo build {' '.join(flags)} fails: {first}"})
    res = {"violations": violations, "samples": samples, "coverage": {"feature_sets_built": built}}
    if "std+serde" not in built:
        res["skip_cases"] = True
    return res


PROPS = {
    "C07": dict(
        technique="Lean 4 theorems (set semantics over any linear order) + exhaustive differential correspondence",
        level_text="Kernel-checked theorems state that the model's contains / RangeBounds::contains / intersects / includes / "
                   "is_included_in are membership, non-empty intersection (symmetric), superset and subset of the denoted closed sets "
                   "for every linear order and every well-formed pair of intervals of all 3x3 kinds; the model is tied to the code by an "
                   "exhaustive differential run over chains of i64, f64 (±0, ±inf), &str and u8. Proof is the right level because the "
                   "quantifier is over all orders and all relative positions of bounds, which is a finite case split the kernel can close.",
        level_note="Trusted: Lean kernel + 3 standard axioms; the model-to-code tie is differential (exhaustive over a 7-9 element chain per "
                   "type, which realises every relative ordering of up to 4 bounds and a probe); f64 NaN is outside the property; the four "
                   "false-arms of includes need an order unbounded on the relevant side (stated as NoMaxOrder/NoMinOrder).",
        modules=["StatsCI.Properties.C07"],
        anchors=["src/interval.rs"],
        exhaustive=True,
        exact_ops="all",
        rule="exhaustive: every interval of the three kinds over a chain (i64, f64 with ±0/±inf, &str, u8) × every probe value "
             "(contains, RangeBounds::contains) and every ordered pair of intervals (intersects, includes, is_included_in); "
             "a case is one request line, distinct by sha1 of its input; all are non-trivial (no rejection path exists)"
             "; also: start_bound/end_bound themselves and membership computed from them the way a range consumer does.",
        trusted_base=INTERVAL_TB,
        assumptions=["element comparison of the Rust type is the total order of the theorem (i64, u8, &str; f64 without NaN)"],
    ),
    "C02": dict(
        modules=["StatsCI.Properties.C02", "StatsCI.Properties.C02R"],
        anchors=["src/proportion.rs", "src/stats.rs", "src/confidence.rs"],
        needs_crit=True, exhaustive=True, exact_ops=set(),
        technique="Lean 4 theorems (Wilson score roots, domains, front-ends over exact reals) + exhaustive (n,k) differential correspondence with an exact-rational score-equation oracle",
        level_text="Kernel-checked theorems over the model at exact real arithmetic: for all n, k, z the two returned bounds are exactly the roots of the "
                   "score equation, lie in [0,1] (the clamp of ci_wilson is the identity there; on rounded and extended carriers every Ok result lies in [0,1] whatever the critical value), one-sided requests return [root,1] / [0,root], the Wilson and Wald domains are exactly the documented "
                   "integer conditions, and every front-end equals ci_wilson of the counts it implies. The model is tied to the code by running both on "
                   "every (n,k) with 0<=k<=n+1 up to a bound (and sampled to 1e9), all kinds; the oracle evaluates the score-equation residual of the "
                   "implementation's own bounds in exact dyadic arithmetic.",
        level_note="Trusted: Lean kernel + 3 standard axioms; z comes from statrs called directly by the harness (external oracle) for the request the "
                   "model makes. Float rounding of the closed form is a theorem (C02R) under the standard model |fl x - x| <= u|x|, u <= 2^-10, fl exact on the counts: "
                   "centre and span carry relative errors <= 7u and both Wilson bounds are within 8u of the exact roots for every n, k, z (Wald: (2.01+1.2|z|)u); that Interval::new "
                   "accepts the rounded pair needs fl monotone and z >= 0 or an exact width >= 16u (refuted otherwise on a concrete non-monotone fl). The oracle's measured residual "
                   "bound (64*2^-53*max(1,z^2)) is applied to IEEE doubles, whose overflow/underflow behaviour the standard model omits.",
        rule="exhaustive over (n,k), 0<=k<=n+1, n<=90 (quick) / 400 (thorough) x 4-14 confidences, plus sampled n up to 2^30, front-end data sets, "
             "ratio form for every k/n; distinct by sha1 of the input; non-trivial = all (rejections are part of the documented domain)"
             "; also: Random histories of new/extend/extend_if/add_success/add_failure/+=/+/from_iter on one Stats (pseq); levels within an ulp of 1 and of 0 (infinite critical value -> [0,1])."
             "; round 4: the proportion front-ends fed by containers / iterators with an inexact size hint; the ratio form at products beyond 2^52 and just below 1/2 with the implied counts",
        assumptions=["statrs Normal::inverse_cdf is the standard-normal quantile (validated under C06)"],
    ),
    "C03": dict(
        modules=["StatsCI.Properties.C03", "StatsCI.Properties.C03R"],
        anchors=["src/quantile.rs", "src/proportion.rs"],
        needs_crit=True, exhaustive=True, exact_ops={"qci"},
        technique="Lean 4 theorems (ranks, bracketing, permutation invariance, entry-point agreement) + differential correspondence exhaustive in n over a q grid",
        level_text="Kernel-checked theorems over the model: domain classification, ranks = min(floor(p n), n-1) of the Wilson bounds, in range, ordered, "
                   "bracketing round(q n); over any linear order the bounds are the sorted elements at those ranks, the result is invariant under "
                   "permutation of the data, and ci / ci_sorted_unchecked / ci_max_size / ci_indices agree. The tie to the code runs all n up to a bound "
                   "x a grid of q containing every integer and half-integer value of q*n and its float neighbours, and data sets of i64/f64/&str/char "
                   "with ties and all permutations of a 7-element sample.",
        level_note="Trusted: Lean kernel + 3 standard axioms; the 'one position' allowance between float and exact ranks is a theorem (C03R.index_within_one, successes_within_one, ciIndices_within_one: "
                   "under |fl x - x| <= u|x| and Wilson bounds within eps, (eps + u(1+eps)) n < 1, ranks differ by at most one position, and are equal away from integer crossings; examples show one position is attained); the float ranks (floor of a rounded product) are compared with the model run on IEEE floats, "
                   "the real-number rank theorems transfer to floats only up to 'one position' (checked by the oracle on every case).",
        rule="all n in 0..160 (quick) / 0..2000 (thorough) x q grid (every integer and half-integer q*n and both float neighbours) x 6 confidences; "
             "random n to 2e6; data-level cases for 4 element types; distinct by sha1 of the input"
             "; also: NaN at every position of otherwise ascending data (documented panic)."
             "; round 4: the pre-sorted entry point on the data as given (never Ok with inverted bounds); a container with gaps",
        assumptions=["elements are mutually comparable (NaN data is the documented panic, checked as such)"],
    ),
    "C17": dict(
        modules=["StatsCI.Properties.C17"],
        anchors=["src/proportion.rs"],
        needs_crit=True, exhaustive=True, exact_ops=set(),
        technique="Lean 4 theorems (monotonicity in k, mirror symmetry, shrinking, widening, midpoint over exact reals) + metamorphic relations checked on the implementation",
        level_text="Kernel-checked theorems over the model at exact real arithmetic for every n, k, z>=0: both Wilson roots are non-decreasing in k, "
                   "CI(n,n-k) = 1 - CI(n,k) with one-sidedness exchanged, width(mn,mk) < width(n,k) for m>1 and z>0, wider with z (hence with the level for a "
                   "monotone quantile), bounds in [0,1], midpoint between k/n and 1/2. The same relations are re-checked on the implementation's own floats "
                   "for all admissible (n,k) up to a bound, multipliers up to 50.",
        level_note="Trusted: Lean kernel + 3 standard axioms; float slack of 8*2^-53 on the relations is measured, not proved. Known finding: for one-sided "
                   "levels below 1/2 (negative z) a larger population does not narrow the interval (the theorem needs z>0).",
        rule="all (n,k) with 2<=k<=n-2, n<=70 (quick) / 400 (thorough): mono (k,k+1), mirror, shrink (random m in 2..50), wider (random level pair); "
             "random n to 1e6; distinct by sha1 of the input"
             "; also: Level pairs below 1/2; level scans on a grid that is fine near 0 and near 1."
             "; round 4: the usual levels against neighbours at 1e-9 .. 3e-5; the largest level below 1",
        assumptions=["statrs Normal::inverse_cdf is increasing in p (validated numerically by the 'wider' relation itself)"],
    ),
    "C13": dict(
        modules=["StatsCI.Properties.C13"],
        anchors=["src/interval.rs"], exhaustive=True, exact_ops="all",
        technique="Lean 4 theorems (exact image of the denoted set under each operation, over ordered rings/fields) + exhaustive differential correspondence",
        level_text="Kernel-checked theorems over the model with the operations of any ordered field (ring where no division occurs): for every well-formed "
                   "interval and scalar, x in A implies x op k in A op k; the denoted set of the result IS the image (so every finite bound is attained and the "
                   "result is unbounded on exactly the side the image is); results are well-formed; A+B / A-B denote image2; the documented panics are exactly "
                   "the cases whose image is the whole line; relative_to encloses (x-r)/r and attains its bounds. Tied to the code exhaustively over an integer "
                   "box and exactly representable floats, all kinds, all scalars of both signs and zero.",
        level_note="Trusted: Lean kernel + 3 standard axioms. Integer division (truncating) and machine-integer overflow are outside the theorems (fields / "
                   "unbounded Int); they are covered by execution only. relative_to against an upward-unbounded reference is sound and attains its finite "
                   "bound but is not tight on the unbounded side (stated as a theorem).",
        rule="exhaustive: all intervals over i64 box [-4,4] (quick) / [-6,6] (thorough) and 7 dyadic f64 values x all scalars in [-4,4] resp. 7 floats "
             "(mul, div (k != 0), add, sub, neg) x all ordered pairs (A+B, A-B, relative_to); distinct by sha1 of the input"
             "; also: u8 intervals (add/sub, scalar and interval): the exact image or the overflow panic iff a bound of it is not representable.",
        trusted_base=INTERVAL_TB,
        assumptions=["element arithmetic is exact on the generated values (small integers, dyadic floats)"],
    ),
    "C14": dict(
        modules=["StatsCI.Properties.C14"],
        anchors=["src/interval.rs", "src/error.rs"], exhaustive=True, exact_ops="all",
        technique="Lean 4 theorems (constructors, round trips, accessor table, predicates, hashing) + exhaustive differential correspondence",
        level_text="Kernel-checked theorems over the model for any linear order: fallible constructors/conversions return Ok exactly for low <= high (and the "
                   "stored bounds), InvalidBounds for inverted bounds, EmptyInterval for (None, None); accessors return exactly the stored bounds with MIN/MAX or "
                   "+-inf for the missing side; conversions round-trip; kind predicates are mutually exclusive, is_degenerate iff two-sided with width 0; equality "
                   "is structural, equal intervals feed the hasher identical sequences, different kinds are never equal. Tied to the code over all pairs of a chain "
                   "for i64, u8 (0/MAX), f64 (+-0, +-inf) and &str through every constructor and conversion, with a recording Hasher.",
        level_note="Trusted: Lean kernel + 3 standard axioms; NaN bounds are outside the property's quantifier; width overflow of machine integers is outside the model.",
        rule="exhaustive over all ordered pairs of a 6-9 element chain per element type: new, try_from((T,T)), try_from((Option,Option)), try_from(a..=b), from(a..), "
             "from(..=a), accessor table, option-pair round trip, clone, ==, tuple/extreme projections, width, recorded hash input; distinct by sha1 of the input"
             "; also: Pair conversion of all 12 integer instantiations; every interval against its copy under ==, partial_cmp, <=, >=, <, >."
             "; round 4: clone_from into destinations of every kind, directly and through Vec::clone_from",
        trusted_base=INTERVAL_TB,
    ),
    "C15": dict(
        modules=["StatsCI.Properties.C15"],
        anchors=["src/interval.rs"], exhaustive=True, exact_ops="all",
        technique="Lean 4 theorems (strict partial order characterised on the denoted sets) + exhaustive differential correspondence",
        level_text="Kernel-checked theorems over the model for any linear order and well-formed intervals: partial_cmp is Equal iff a == b; Less iff a != b and "
                   "every member of a is <= every member of b; a < b iff b > a; <,<=,>,>= are consistent with partial_cmp; the order is irreflexive, asymmetric "
                   "and transitive; intervals unbounded on the same side or overlapping in more than a point are incomparable. Tied to the code over all ordered "
                   "pairs of intervals of all kinds over a chain (i64, f64, &str) including the five comparison operators.",
        level_note="Trusted: Lean kernel + 3 standard axioms. Transitivity needs no triple enumeration on the implementation: it is a theorem about the model, "
                   "and the model is tied to the code pairwise. For ill-formed two-sided literals (low > high) duality fails (theorem not_dual_without_WF).",
        rule="exhaustive: all ordered pairs of intervals over a 7-9 element chain, three element types: partial_cmp, <, <=, >, >=, ==; distinct by sha1 of the input",
        trusted_base=INTERVAL_TB,
    ),
    "C19": dict(
        modules=["StatsCI.Properties.C19"],
        anchors=["src/interval.rs"], exhaustive=True, exact_ops="all",
        technique="Lean 4 theorems (approximate equality for an arbitrary element predicate; Display shapes) + differential correspondence with a transcription of approx's f64 algorithms",
        level_text="Kernel-checked theorems for an arbitrary element predicate e: approx_eq(a,b) iff same kind and e on every corresponding bound; reflexive / "
                   "symmetric when e is; implied by equality; never relates different kinds; Display has exactly the three documented shapes. Tied to the code on "
                   "all 3x3 kind pairs over a chain of floats with tolerances straddling the actual bound differences (abs_diff_eq, relative_eq, ulps_eq) and on "
                   "format!() of i64 / &str / f64 intervals.",
        level_note="Trusted: Lean kernel + 3 standard axioms; the element-level algorithms of the approx crate are transcribed (not proved) in the driver and "
                   "compared bit-for-bit through the interval-level results.",
        rule="all ordered pairs of float intervals over an 8-element chain x 3 (quick) / 12 (thorough) tolerance triples drawn from the actual differences; "
             "display of every interval over three element types; distinct by sha1 of the input"
             "; also: Display of huge / tiny / 17-digit floats and of long strings (renderings far beyond 64 bytes)."
             "; round 4: abs_diff_ne / relative_ne / ulps_ne next to every *_eq; width / precision / sign flags on Display",
    ),
    "C08": dict(
        modules=["StatsCI.Properties.C08"],
        anchors=["src/utils.rs", "src/mean.rs"], exact_ops=set(),
        technique="Lean 4 theorems (Kahan error bound for every rounding function and every accumulation history) + bit-exact differential correspondence with the theorem's bound as oracle",
        level_text="Kernel-checked theorems over the model's kahan_add at reals with an arbitrary rounding function fl, |fl x - x| <= u|x|, u <= 1/64: the drift "
                   "identity, the invariant step, the sequential bound |value - sum| <= (10u + 9(n+2)u^2) sum|x| for every list, and for every accumulation history "
                   "(append / extend / merge tree) |value - sum| <= Eb + 8u Tb with recursively defined budgets and the closed form ((12 + 10 rdepth)u + "
                   "12 steps u^2) sum|x|; exactness at fl = id; Arithmetic's two registers are such histories. The model is tied to the code bit-for-bit (register "
                   "contents through the hook, value() publicly) on random and exhaustive merge trees and on streams of up to 10^6 (quick) / 10^7 (thorough) "
                   "elements; the oracle evaluates the theorem's own budget for the history that was run and compares the implementation's error, measured "
                   "exactly in dyadic arithmetic, against it.",
        level_note="Trusted: Lean kernel + 3 standard axioms; IEEE round-to-nearest satisfies the hypothesis on fl only without overflow/underflow (generated "
                   "magnitudes stay in range); 'independent of n' is proved in the honest form: the constant depends on the depth of right-operand merges, "
                   "never on n beyond the n u^2 term.",
        rule="random stack programs over 1-8 chunks (append / extend / += / + / clone / interleaved queries), every merge-tree shape over 2-5 (quick) / 6 chunks, "
             "five generators (constant, same-sign, mixed magnitudes, cancelling, head+increments) for f32 and f64, streams of 5e4 and 1e6 (1e7 thorough) elements; "
             "distinct by sha1 of the program"
             "; also: One register fed alternately by value and by one-element register (up to 10^6 steps); one-sign streams, negative and positive; == of registers and From<T>."
             "; round 4: left folds of 20 000-100 000 small registers merged by value and in place",
        assumptions=["no overflow/underflow in the generated streams"],
    ),
    "C01": dict(
        modules=["StatsCI.Properties.C01", "StatsCI.Properties.C01R"],
        anchors=["src/mean.rs", "src/stats.rs", "src/confidence.rs", "src/utils.rs"],
        needs_crit=True, exact_ops=set(),
        technique="Lean 4 theorems (exactness of the one-pass statistics and of the interval formula at exact arithmetic; which quantile is requested) + bit-level differential correspondence with an exact-rational oracle",
        level_text="Kernel-checked theorems over the model at exact real arithmetic, for every list of n >= 2 reals, every valid confidence and every external "
                   "quantile oracle: mean = sum/n, variance = sum (x-mean)^2/(n-1) (the clamp never fires), the request is t(n-1) at (1+L)/2 resp. L below the "
                   "population limit and z from it on, and the result is mean -/+ c s/sqrt n as TwoSided / UpperOneSided(lo) / LowerOneSided(hi); all call styles "
                   "agree by definition. The rounding clause is a theorem too (C01R): under the standard model of floating-point arithmetic |fl x - x| <= u|x| with n u <= 2^-10, the "
                   "model run with rounding after every operation has its mean within 13 u mean|x|, its (clamped) variance within 44 u sum x^2/(n-1), its standard deviation "
                   "within min(46 u Y/s, sqrt(49 u Y)) and both interval bounds within 47 u (mean|x| + halfwidth (1 + kappa)) of the exact ones. The model run on IEEE f32/f64 is compared with the implementation (5 call styles, "
                   "statistics) and the implementation's bounds are compared with the exact rational statistics of the data within a conditioning-aware tolerance.",
        level_note="Trusted: Lean kernel + 3 standard axioms; statrs' quantile is an external oracle called directly by the harness for the request the model makes; "
                   "the oracle tolerance 16 u_F (mean|x| + halfwidth) + c min(50 u_F Y/s, sqrt(50 u_F Y))/sqrt n uses the constants of the theorems of C01R (which need n u_F <= 2^-10 and a monotone fl for Interval::new to accept the pair; beyond that the tolerance is applied, not proved).",
        rule="random samples: all n in 2..9, 60 (quick) / 400 (thorough) sizes in 10..300, sizes to 5000, both sides of the t->z switch (99 999..100 003), "
             "long samples (150 000 quick; 10^6 thorough); 7 generator styles; f32 and f64; random and grid levels in [0.001, 0.9999]; three kinds; "
             "distinct by sha1 of the input; all non-trivial (n >= 2, non-constant)"
             "; also: 7 call styles (incl. chunked from_iter+extend and two partial states merged with +); zero-sum and zero-containing samples; magnitudes where (sum x)^2 overflows but sum x^2 does not."
             "; round 4: two partial states merged with += ; a container with gaps (inexact size hint) through ci / from_iter / extend",
        trusted_base=["rounding: IEEE arithmetic is interpreted as reals with an abstract rounding function; overflow/underflow/NaN propagation are outside these theorems (covered by execution and by C11)"],
        assumptions=["statrs StudentsT/Normal inverse_cdf are the true quantiles (validated under C06)"],
    ),
    "C04": dict(
        modules=["StatsCI.Properties.C04", "StatsCI.Properties.C04R"],
        anchors=["src/comparison.rs", "src/mean.rs", "src/stats.rs"],
        needs_crit=True, exact_ops=set(),
        technique="Lean 4 theorems (paired = mean CI of differences for every carrier; unpaired Welch-type formula, dof >= 1, swap symmetry) + differential correspondence with exact-rational and metamorphic oracles",
        level_text="Kernel-checked theorems: for every carrier (no arithmetic laws) Paired::ci equals Arithmetic::ci of the element-wise differences in all three "
                   "feeding styles and unequal lengths give DifferentSampleSizes(len_a, len_b); at exact arithmetic Unpaired::ci is (ma-mb) -/+ c sqrt(sa^2/na+sb^2/nb) "
                   "with c requested at the documented effective dof, which is >= min(na,nb)-1 >= 1; for every odd rounding function exchanging the samples negates "
                   "and mirrors the interval. Tied to the code on random pairs of samples (equal/unequal sizes, one constant sample, variance ratios 2^+-40, f32/f64, "
                   "six feeding styles); oracles: paired == arith(differences) bit-for-bit, swap mirrors bit-for-bit, bounds vs exact rational statistics.",
        level_note="Trusted: Lean kernel + 3 standard axioms; statrs quantile external. Rounding is a theorem too (C04R) under the standard model: the paired state is the Arith state of the rounded differences (C01R bounds transfer; mean and deviation of rounded vs exact differences within u mean|d| and u sqrt(sum d^2/(n-1))); for the unpaired producer the mean difference is within 15u(mean|a|+mean|b|), the sum s_a^2/n_a+s_b^2/n_b within 53uW, the standard error within min(8 sqrt(uW), 55uW/se), the bounds for a GIVEN critical value within 17u(..)+(1+3u)c 8 sqrt(uW)+3u c se, and |dof_fl - dof| <= (255 kappa+19)u(dof+2) when 51 u kappa <= 1/64; dof <= n_a+n_b. Two constant samples: in real arithmetic with x/0=0 the model asks t at "
                   "dof -2 (panic); IEEE gives NaN dof and the z branch - this difference between the RR interpretation and IEEE is stated as a theorem and "
                   "covered by execution.",
        rule="100 (quick) / 600 (thorough) random paired cases (every 5th with unequal lengths) and as many unpaired cases; f32 and f64; distinct by sha1 of the input"
             "; also: Samples with more than 100 000 observations in total and a tiny effective dof; mismatched extend on a populated Paired (3 ways of populating it); balanced samples (maximal effective dof)."
             "; round 4: containers with gaps (different paddings on the two sides); f32 / f64 data whose fourth powers leave the range of the type; exactly equal sample means",
        trusted_base=["rounding: IEEE arithmetic is interpreted as reals with an abstract rounding function; overflow/underflow/NaN propagation are outside these theorems (covered by execution and by C11)"],
    ),
    "C05": dict(
        modules=["StatsCI.Properties.C05", "StatsCI.Properties.C05R"],
        anchors=["src/mean.rs"],
        needs_crit=True, exact_ops={"reject"},
        technique="Lean 4 theorems (back-transform identities, H <= G <= A, standard errors, rejection leaves the state unchanged) + differential correspondence with back-transform oracles on the implementation's own outputs",
        level_text="Kernel-checked theorems at exact arithmetic for positive data: Geometric::ci = exp of Arithmetic::ci of the logs (kind-wise, errors pass through), "
                   "Harmonic::ci = reciprocal of Arithmetic::ci of the reciprocals at the flipped confidence with ends exchanged, means exp(mean ln x), 1/(mean 1/x), "
                   "H <= G <= A, the two standard-error formulas; for every carrier a non-positive value is rejected with NonPositiveValue(value) and extend leaves "
                   "exactly the state of the accepted prefix. Tied to the code on positive samples (wide dynamic range, near-constant, f32/f64), and a non-positive "
                   "value (0, -0, negative, -inf, tiny) at every position of a short sample.",
        level_note="Trusted: Lean kernel + 3 standard axioms; libm ln/exp are compared bit-for-bit (same libm on both sides), not proved correctly rounded. Rounding is a theorem (C05R) under the standard model extended to ln/exp/div: the state is the Arith state of the rounded transformed data; the log-/reciprocal-space interval is within E = 95u(mean|y| + hw(1+kappa)) (or the sqrt form) of the exact one; the geometric bounds carry a relative error exp(E)-1+u exp(E); a positive reciprocal-space bound r with E <= r/2 is inverted within 2E/r^2+2u/r, a bound <= -E gives +inf like exact arithmetic, and for -E < r <= E the branch is provably undetermined.",
        rule="positive samples of all sizes 2..9, 60/400 random sizes, f32 and f64, geometric and harmonic; 5 non-positive values x every position of a 6-element "
             "sample x 2 means x 2 float types + random positions of longer samples; H<=G<=A on 60/400 samples; distinct by sha1 of the input",
        trusted_base=["rounding: IEEE arithmetic is interpreted as reals with an abstract rounding function; overflow/underflow/NaN propagation are outside these theorems (covered by execution and by C11)"],
    ),
    "C09": dict(
        modules=["StatsCI.Properties.C09"],
        anchors=["src/mean.rs", "src/comparison.rs", "src/proportion.rs", "src/quantile.rs", "src/utils.rs"],
        needs_crit=True, exact_ops=set(),
        technique="Lean 4 theorems over accumulation histories (count, exact state at fl=id, rounded bound from C08, counts are sums, neutral element) + stack-machine differential correspondence against the batch computation",
        level_text="Kernel-checked theorems over every accumulation history (tree of append / extend / merge): the count is the number of delivered observations "
                   "for every carrier; at exact arithmetic the observable state (sum, sum of squares, n), hence mean, variance and every interval, equals that of "
                   "from_iter of any enumeration of the multiset; for admissible rounding two histories of the same multiset differ by at most the sum of their C08 "
                   "budgets; proportion / quantile states are exactly the component-wise sums, merging is associative and commutative with the empty state neutral. "
                   "A parallel reduction is some tree over some arrangement of chunks, so every schedule is covered at the model level. Tied to the code by random "
                   "programs over {new, append, extend, from_iter, clone, +, +=, query} for Arithmetic, Geometric, Harmonic, Paired, Unpaired, proportion::Stats, "
                   "quantile::Stats (registers bit-for-bit through the hook), compared with the batch state, and a rayon reduce over 1..16 threads.",
        level_note="Trusted: Lean kernel + 3 standard axioms. Partial for 'schedules': the runtime scheduler of a parallel reduce is not modelled; every merge tree it "
                   "can produce is covered by the theorem and the observed result is compared with the batch result within the deepest tree's budget. The empty "
                   "register is right-neutral only up to 2|c| + O(u)|s| when the compensation is non-zero (theorem neutral_rounded).",
        rule="80 (quick) / 600 (thorough) random programs of up to 40-200 operations for each of 7 state types, f32 and f64, queries interleaved and repeated; "
             "12/60 parallel reductions; distinct by sha1 of the program"
             "; also: Chunks of 1024..5000 observations through extend/from_iter; Unpaired fed through stats_a_mut/stats_b_mut as well as append_a/append_b."
             "; round 4: proportion Stats fed through lazily thinned iterators and containers with gaps",
        trusted_base=["rounding: IEEE arithmetic is interpreted as reals with an abstract rounding function; overflow/underflow/NaN propagation are outside these theorems (covered by execution and by C11)"],
    ),
    "C18": dict(
        modules=["StatsCI.Properties.C18"],
        anchors=["src/confidence.rs", "src/error.rs"], exhaustive=False, exact_ops="all",
        technique="Lean 4 theorems (validity over reals extended with NaN and infinities; accessor, flipped and ordering laws) + differential correspondence over boundary levels",
        level_text="Kernel-checked theorems: over the carrier of reals extended with NaN, +inf, -inf (IEEE comparison semantics) every constructor returns a value iff "
                   "0 < level < 1 (none = the documented panic) and TryFrom returns InvalidConfidenceLevel(level) otherwise, never a panic; for every carrier level / "
                   "percent / kind / is_* are mutually consistent, flipped is an involution preserving the level, fixing two-sided and exchanging upper and lower; "
                   "two confidences are ordered iff of the same kind, then by level; equality is kind and level. Tied to the code on boundary levels (0, 1, their "
                   "float neighbours, subnormals, NaN, infinities, negatives, random bit patterns), f32 conversions and all pairs of a grid of confidences.",
        level_note="Trusted: Lean kernel + 3 standard axioms; IEEE comparison of f64 is assumed to be the XR comparison. Known finding: the enum variants are public, "
                   "so an invalid level can be written as a literal; every constructor function and conversion is checked.",
        rule="~60 boundary levels + 200 (quick) / 2000 (thorough) random levels x {new, new_two_sided, new_upper, new_lower, TryFrom<f64>, TryFrom<f32>}, accessor table of "
             "24+ confidences, all ordered pairs for partial_cmp and the five operators; non-trivial = all; distinct by sha1 of the input"
             "; also: Levels that differ far below an ulp of 1/2, and by 1-2 ulps next to 1 and inside [1/2,1).",
    ),
    "C12": dict(
        modules=["StatsCI.Properties.C12"],
        anchors=["src/proportion.rs", "src/quantile.rs", "src/stats.rs"],
        needs_crit=True, exhaustive=True, exact_ops=set(),
        technique="Lean 4 theorems (duality between the Wilson interval and the score acceptance region; coverage sum identity; order-statistic counting form) + exact summation over all outcomes of the implementation's own intervals",
        level_text="Kernel-checked theorems over the model at exact arithmetic: p is in the Wilson interval of k iff (p - k/n)^2 <= z^2 p(1-p)/n (and the one-sided "
                   "analogues), hence the exact coverage is the binomial probability of the score acceptance region restricted to 2 <= k <= n-2; the event "
                   "'order statistics at ranks lo, hi enclose xi' is lo+1 <= #{X <= xi} and #{X < xi} <= hi. The numerical clause is decided by summing "
                   "Bin(n,p)(k) over ALL outcomes k of the intervals the implementation returns (each compared with the model's interval for the same k), on a "
                   "fine grid of p resp. q, against the documented slacks of spec/slack.json.",
        level_note="Partial: 'coverage is near nominal' is a numerical fact, evaluated (not proved) from the proved structural form; that B ~ Bin(n,q) for a "
                   "continuous population is textbook probability, not in Mathlib. Binomial weights in f64 by a log-space recurrence (relative error ~ n 2^-52).",
        rule="n in {20,37,60,100,250,600} (quick) / 21 values to 3000 (thorough) x levels {0.8,0.9,0.95,0.99} x three kinds: all k in 0..n per line, p on a "
             "400-2000 point grid; quantile ranks for n in {20,50,100,400} (quick) / 8 values to 3000, q on a 100/400-point grid; one line = one (n, confidence), "
             "exhaustive in k; distinct by sha1 of the input"
             "; round 4: the coverage ranks also through quantile::ci on shuffled data, the proportion coverage also through the ratio front-end",
        assumptions=["B ~ Bin(n, q) for a continuous population (literature)", "documented slacks in spec/slack.json were calibrated on the verified model"],
    ),
    "C11": dict(
        modules=["StatsCI.Properties.C11"],
        anchors=["src/mean.rs", "src/comparison.rs", "src/proportion.rs", "src/quantile.rs", "src/stats.rs", "src/error.rs", "src/interval.rs"],
        needs_crit=True, exact_ops="all",
        technique="Lean 4 theorems (totality and error classes from the guard structure, for every carrier; NaN/inf propagation over reals extended with NaN and infinities) + differential correspondence on a malformed-input stream with overflow checks on",
        level_text="Kernel-checked theorems: for EVERY carrier (no arithmetic laws beyond 'n-1 > 0 for n >= 2') and every valid confidence, each interval-computing "
                   "entry point of the model returns the documented error for too few samples / non-positive data / invalid counts / invalid quantile / unequal "
                   "lengths and never panics except for the documented classes (sorting incomparable elements, capacity overflow, Stats::new with k > n); an Ok "
                   "interval satisfies not(lo > hi). Over reals extended with NaN and +-inf: any NaN or infinite observation yields InvalidInputData, NaN quantile "
                   "yields InvalidQuantile, and every Ok interval has finite (harmonic: positive or +inf), ordered bounds. The model is tied to the code on a "
                   "malformed stream (empty, singleton, constant, NaN, +-inf at every position, zero / negative, huge / tiny magnitudes, k > n, k or n-k in {0,1}, "
                   "q outside (0,1) or NaN, mismatched lengths) through every entry point, all kinds, levels 0.001..0.9999, in a build with overflow checks; each "
                   "line carries the expected error class and every Ok interval of the implementation is checked for NaN / inverted bounds.",
        level_note="Trusted: Lean kernel + 3 standard axioms; IEEE comparison/propagation rules are modelled by the XR carrier (not verified against hardware); "
                   "finite-range effects (x^2 overflowing, underflow) exist only in the Float instance and are checked by execution.",
        rule="12 confidences x {n in 0..1} x 8 entry points, constant data (5 values x 4 sizes), NaN/+inf/-inf at each of 6 positions x 7 entry points, "
             "huge/tiny magnitudes, non-positive data, 5 length mismatches, 11 (n,k) edge pairs, 6 invalid quantiles x 5 entry points, n in 0..3 for quantiles, "
             "plus random extreme-range valid inputs; non-trivial = all (each line is an invalid or degenerate input class); distinct by sha1 of the input"
             "; also: NaN inside ascending data for the quantile entry points."
             "; round 4: unsorted finite data and +-inf through every quantile entry point; the success-ratio form with rates above 1",
    ),
    "C16": dict(
        modules=["StatsCI.Properties.C16"],
        anchors=["src/mean.rs", "src/comparison.rs", "src/stats.rs", "src/utils.rs"],
        needs_crit=True, exact_ops=set(),
        technique="Lean 4 theorems (exact equivariance under power-of-two scaling and negation for every rounding function commuting with them; shift and permutation at exact arithmetic) + metamorphic relations checked bit-for-bit on the implementation",
        level_text="Kernel-checked theorems over the model: for every rounding function fl with fl(a x) = a fl(x) (a = 2^e in IEEE without over/underflow) scaling the "
                   "data by a scales every register, the mean, the standard deviation and every bound of the arithmetic, paired and unpaired intervals by exactly a; "
                   "for every odd fl negating the data mirrors the interval exactly and exchanges upper and lower; at exact arithmetic a shift moves the bounds by "
                   "the shift and a permutation leaves them unchanged; geometric / harmonic scale at exact arithmetic. On the implementation: scaled and negated "
                   "data must give bit-identical scaled / mirrored bounds (f32 and f64, exponents up to +-200), shifts and reorderings (all permutations of a "
                   "5-element sample, random ones beyond) must agree within a conditioning-aware rounding tolerance.",
        level_note="Trusted: Lean kernel + 3 standard axioms; 'fl commutes with 2^e' is a hypothesis about IEEE arithmetic (true without overflow/underflow; the "
                   "generator keeps magnitudes in range). For unpaired reorderings the external t quantile is only as smooth as its own accuracy (allowance "
                   "|c1-c2|/|c| of the half-width).",
        rule="60 (quick) / 400 (thorough) data sets per producer {arith, paired, unpaired, geo, harm} x {f32, f64} x {scale 2^e, negate, shift, reorder} + all 120 "
             "permutations of a 5-element sample every 20th round; distinct by sha1 of the input"
             "; also: Shifts that make the sum exactly zero, exactly cancelling paired differences, geometric data balanced around 1; scaling into the window where only the squares still fit."
             "; round 4: unpaired samples whose exact effective dof is a whole number, shifted and reordered",
    ),
    "C06": dict(
        modules=["StatsCI.Properties.C06"],
        anchors=["src/stats.rs", "src/confidence.rs", "src/mean.rs", "src/comparison.rs", "src/proportion.rs"],
        needs_crit=True, exact_ops=set(),
        technique="Lean 4 theorems (which quantile of which law at which dof is requested; conditional inverse-CDF statement; recovery of the critical value from an interval) + numerical validation of the external quantile routine against an independent reference CDF",
        level_text="Kernel-checked theorems over the model: Confidence::quantile is (1+L)/2 two-sided and L one-sided; interval_bounds consults exactly one "
                   "request - the t law iff dof < 100 000, else the normal law - and its span is that value times the standard error; the dof handed over is n-1 for "
                   "mean / paired intervals and the documented effective dof for unpaired ones; IF the external routine is a right inverse of the CDF THEN the "
                   "critical value recovered from any Ok interval (half-width / standard error) has CDF exactly (1+L)/2 resp. L; the z recovered from a Wilson "
                   "interval is the z supplied. The 'if' is validated numerically on every run: implied critical values through the public API (every n from 2 to "
                   "400/2002 by incremental append, log-spaced to 150 000, both sides of the switch, unpaired real-valued dof) and through the hook (dense integer "
                   "and real dof, 400-point level grid incl. levels below 1/2, three kinds) are pushed through an independent reference CDF (incomplete beta by "
                   "continued fraction, erfc by series / continued fraction; cross-checked against the closed forms for dof 1 and 2 and against scipy in development).",
        level_note="Partial by nature: that statrs' inverse_cdf IS the quantile function is a numerical fact about an external crate, validated to the documented "
                   "tolerance 1e-12 + 2.5e-10 dof (t) and 1e-14 (z) of spec/slack.json, not proved; that the t statistic of a normal sample has the t distribution "
                   "(exact coverage) is textbook mathematics not in Mathlib. Trusted: Lean kernel + 3 standard axioms; the reference CDF implementation.",
        rule="tcrit: every n in 2..400 (quick) / 2..2002 (thorough) + 11-20 larger n through the switch, levels from a 400-point grid, kinds rotating; hook: "
             "2500 / 20000 (dof, level, kind) triples over integer dof 1..300, real dof, dof around 1e5; zprop: 500 / 4000 (n,k); ucrit: 250 / 2000 sample pairs; "
             "distinct by sha1 of the input"
             "; also: More than 100 000 observations in total with a small effective dof; the statrs quantile pocket as a corpus case (known finding).",
        assumptions=["the reference CDFs are accurate to 1e-12 (checked against closed forms on every build of the driver's self-check; against scipy in development)"],
    ),
    "C20": dict(
        modules=["StatsCI.Properties.C20"],
        anchors=["Cargo.toml", "src/utils.rs", "src/mean.rs", "src/comparison.rs", "src/proportion.rs", "src/confidence.rs", "src/interval.rs"],
        exact_ops="all", pre=pre_c20, harness_features="serde", harness_target="target-serde",
        technique="Lean 4 theorems (decode . encode = id for every serializable value and state; continuation from the restored state) + differential correspondence of the value tree serde produces, after building every advertised feature set",
        level_text="Kernel-checked theorems over a model of the derived Serialize/Deserialize implementations (externally tagged enums, structs as maps with the "
                   "crate's field names): decode(encode s) = some s for Confidence, Interval, the compensated register (with its compensation term), Arithmetic, "
                   "Geometric, Harmonic, Paired, Unpaired and proportion::Stats; encodings are injective; any further history started from the restored state equals "
                   "the history started from the original. Tied to the code with the serde feature on: states reached by random accumulation histories (non-zero "
                   "compensation terms) are serialised to a serde_json value tree that must equal the model's tree field for field and bit for bit; the restored "
                   "value must compare equal, report identical statistics and intervals and stay identical under 100 further observations and a merge (JSON value, "
                   "JSON text with float_roundtrip, TOML). The clause 'every advertised feature set builds' is decided by building the crate under default, std, "
                   "std+approx, std+serde and all features on every run; a set that does not build is reported with the cargo command and first error.",
        level_note="Partial: the build clause is a compiler fact, not a theorem. The serde data model of the derives is transcribed by hand in Model/Serde.lean "
                   "and checked only through the trees serde_json produces. Trusted: Lean kernel + 3 standard axioms; serde / serde_json / toml.",
        rule="5 feature-set builds; 40 (quick) / 300 (thorough) rounds x 9 state types (f32/f64) reached by random programs of up to 30-150 operations + a "
             "Confidence and an Interval per round; distinct by sha1 of the program"
             "; also: Constant samples of non-dyadic values (n in 1..11); states standing for 2^31..2^33 observations reached by doubling."
             "; round 4: short ascending samples spanning decades followed by further accumulation after the round trip",
    ),
    "C10": dict(
        modules=["StatsCI.Properties.C10"],
        anchors=["src/mean.rs", "src/comparison.rs", "src/proportion.rs", "src/quantile.rs", "src/stats.rs", "src/confidence.rs"],
        needs_crit=True, exact_ops=set(),
        technique="Lean 4 theorems (one-sided vs two-sided request identity, nesting in the level, containment of the estimate, kind of the result, for all eight producers) + relations checked on pairs of the implementation's intervals",
        level_text="Kernel-checked theorems over the model for all eight producers (arithmetic, geometric, harmonic, paired, unpaired, Wilson, Wald, quantile ranks): a "
                   "one-sided request at L and the two-sided request at 2L-1 ask the external routine for the same quantile and return the same finite bound (every "
                   "state, every oracle, including errors and panics); for an oracle monotone in p, intervals of the same kind are nested in the level; a two-sided "
                   "interval, or a one-sided one whose critical value is >= 0 (level >= 1/2 for an oracle vanishing at 1/2), contains the point estimate (ranks bracket "
                   "round(q n)); the constructor of the result is determined by the kind of the confidence (proportions: two-sided with far end exactly 1 / 0). "
                   "Harmonic statements need the reciprocal-space bounds used to be positive (otherwise the bound is +inf by construction). The relations are "
                   "re-checked on the implementation for pairs of levels per data set, f32 and f64.",
        level_note="Trusted: Lean kernel + 3 standard axioms; 'the external quantile is increasing in p and 0 at 1/2' is an explicit hypothesis of the theorems, "
                   "validated numerically for statrs by these very relations (and by C06). One-sided L vs two-sided 2L-1 agree on floats only up to the rounding of "
                   "1-(1-(2L-1))/2 (tolerance scaled with the conditioning of the inverse CDF; rank bounds may differ by one position).",
        rule="25 (quick) / 120 (thorough) data sets per producer x 4 / 12 level pairs of each of two shapes (one-sided L vs two-sided 2L-1; same kind L1 < L2 in "
             "[0.001, 0.9999]) x f64 (all producers) and f32 (mean-type producers); distinct by sha1 of the input"
             "; also: Proportion producers with 10..14 successes/failures at levels 0.99..0.99995; the five mean producers with 100 003 observations."
             "; round 4: a quantile-interval producer on unsorted samples (values = ranks, n to 2500); the largest level below 1 for the Wilson-based producers",
    ),
}
