"""Per-property configuration of bin/check, and the deterministic class key of a case."""

INTERVAL_TB = [
    "modelled, not verified: machine-integer overflow of Interval<iN> arithmetic (the model uses unbounded Int; generated values stay in range)",
]


def _kinds(toks):
    return "".join({"I2": "2", "IU": "U", "IL": "L"}[t] for t in toks if t in ("I2", "IU", "IL"))


def _num(tok):
    import struct
    try:
        if tok.startswith("x"):
            return struct.unpack(">d", bytes.fromhex(tok[1:]))[0]
        if tok.startswith("y"):
            return struct.unpack(">f", bytes.fromhex(tok[1:]))[0]
        return float(int(tok))
    except Exception:
        return None


def class_key(case):
    """coarse, deterministic class of a request line: `property|entry|type|features`"""
    inp = case.split(" => ")[0].split(" || ")[0]
    toks = inp.split()
    if len(toks) < 2:
        return "malformed"
    pid, op = toks[0], toks[1]
    ty = toks[2] if len(toks) > 2 else ""
    feats = [_kinds(toks[3:])]
    if pid == "C13" and op in ("mul", "div", "add", "sub") and len(toks) > 3:
        k = _num(toks[-1])
        if k is not None:
            feats.append("k<0" if k < 0 else ("k=0" if k == 0 else "k>0"))
    if pid == "C17" and op == "rel" and len(toks) > 5:
        feats = [toks[3]]
        lvl = _num(toks[5])
        if toks[4] in ("CU", "CL") and lvl is not None and lvl <= 0.5:
            feats.append("one-sided,level<=1/2")
    if pid == "C18" and op == "literal":
        feats = ["level-outside-(0,1)"]
        ty = ""
    return "|".join([pid, op, ty] + [f for f in feats if f])


HOOK_COMMITS = ["83fa17c"]
NOT_CLAIMED = {}

PROPS = {
    "C07": dict(
        technique="Lean 4 theorems (set semantics over any linear order) + exhaustive differential correspondence",
        level_text="Kernel-checked theorems state that the model's contains / RangeBounds::contains / intersects / includes / "
                   "is_included_in are membership, non-empty intersection (symmetric), superset and subset of the denoted closed sets "
                   "for every linear order and every well-formed pair of intervals of all 3x3 kinds; the model is tied to the code by an "
                   "exhaustive differential run over chains of i64, f64 (±0, ±inf), &str and u8. Proof is the right level because the "
                   "quantifier is over all orders and all relative positions of bounds, which is a finite case split the kernel can close.",
        level_note="Trusted: Lean kernel + 3 standard axioms; the model-to-code tie is differential (exhaustive over a 7-9 element chain per "
                   "type, which realises every relative ordering of up to 4 bounds and a probe); f64 NaN is outside the property; the four "
                   "false-arms of includes need an order unbounded on the relevant side (stated as NoMaxOrder/NoMinOrder).",
        modules=["StatsCI.Properties.C07"],
        anchors=["src/interval.rs"],
        exhaustive=True,
        exact_ops="all",
        rule="exhaustive: every interval of the three kinds over a chain (i64, f64 with ±0/±inf, &str, u8) × every probe value "
             "(contains, RangeBounds::contains) and every ordered pair of intervals (intersects, includes, is_included_in); "
             "a case is one request line, distinct by sha1 of its input; all are non-trivial (no rejection path exists)",
        trusted_base=INTERVAL_TB,
        assumptions=["element comparison of the Rust type is the total order of the theorem (i64, u8, &str; f64 without NaN)"],
    ),
    "C02": dict(
        modules=["StatsCI.Properties.C02"],
        anchors=["src/proportion.rs", "src/stats.rs", "src/confidence.rs"],
        needs_crit=True, exhaustive=True, exact_ops=set(),
        technique="Lean 4 theorems (Wilson score roots, domains, front-ends over exact reals) + exhaustive (n,k) differential correspondence with an exact-rational score-equation oracle",
        level_text="Kernel-checked theorems over the model at exact real arithmetic: for all n, k, z the two returned bounds are exactly the roots of the "
                   "score equation, lie in [0,1], one-sided requests return [root,1] / [0,root], the Wilson and Wald domains are exactly the documented "
                   "integer conditions, and every front-end equals ci_wilson of the counts it implies. The model is tied to the code by running both on "
                   "every (n,k) with 0<=k<=n+1 up to a bound (and sampled to 1e9), all kinds; the oracle evaluates the score-equation residual of the "
                   "implementation's own bounds in exact dyadic arithmetic.",
        level_note="Trusted: Lean kernel + 3 standard axioms; z comes from statrs called directly by the harness (external oracle) for the request the "
                   "model makes; float rounding of the closed form is not proved, it is measured (residual <= 64*2^-53*max(1,z^2)).",
        rule="exhaustive over (n,k), 0<=k<=n+1, n<=90 (quick) / 400 (thorough) x 4-14 confidences, plus sampled n up to 2^30, front-end data sets, "
             "ratio form for every k/n; distinct by sha1 of the input; non-trivial = all (rejections are part of the documented domain)",
        assumptions=["statrs Normal::inverse_cdf is the standard-normal quantile (validated under C06)"],
    ),
    "C03": dict(
        modules=["StatsCI.Properties.C03"],
        anchors=["src/quantile.rs", "src/proportion.rs"],
        needs_crit=True, exhaustive=True, exact_ops={"qci"},
        technique="Lean 4 theorems (ranks, bracketing, permutation invariance, entry-point agreement) + differential correspondence exhaustive in n over a q grid",
        level_text="Kernel-checked theorems over the model: domain classification, ranks = min(floor(p n), n-1) of the Wilson bounds, in range, ordered, "
                   "bracketing round(q n); over any linear order the bounds are the sorted elements at those ranks, the result is invariant under "
                   "permutation of the data, and ci / ci_sorted_unchecked / ci_max_size / ci_indices agree. The tie to the code runs all n up to a bound "
                   "x a grid of q containing every integer and half-integer value of q*n and its float neighbours, and data sets of i64/f64/&str/char "
                   "with ties and all permutations of a 7-element sample.",
        level_note="Trusted: Lean kernel + 3 standard axioms; the float ranks (floor of a rounded product) are compared with the model run on IEEE floats, "
                   "the real-number rank theorems transfer to floats only up to 'one position' (checked by the oracle on every case).",
        rule="all n in 0..160 (quick) / 0..2000 (thorough) x q grid (every integer and half-integer q*n and both float neighbours) x 6 confidences; "
             "random n to 2e6; data-level cases for 4 element types; distinct by sha1 of the input",
        assumptions=["elements are mutually comparable (NaN data is the documented panic, checked as such)"],
    ),
    "C17": dict(
        modules=["StatsCI.Properties.C17"],
        anchors=["src/proportion.rs"],
        needs_crit=True, exhaustive=True, exact_ops=set(),
        technique="Lean 4 theorems (monotonicity in k, mirror symmetry, shrinking, widening, midpoint over exact reals) + metamorphic relations checked on the implementation",
        level_text="Kernel-checked theorems over the model at exact real arithmetic for every n, k, z>=0: both Wilson roots are non-decreasing in k, "
                   "CI(n,n-k) = 1 - CI(n,k) with one-sidedness exchanged, width(mn,mk) < width(n,k) for m>1 and z>0, wider with z (hence with the level for a "
                   "monotone quantile), bounds in [0,1], midpoint between k/n and 1/2. The same relations are re-checked on the implementation's own floats "
                   "for all admissible (n,k) up to a bound, multipliers up to 50.",
        level_note="Trusted: Lean kernel + 3 standard axioms; float slack of 8*2^-53 on the relations is measured, not proved. Known finding: for one-sided "
                   "levels below 1/2 (negative z) a larger population does not narrow the interval (the theorem needs z>0).",
        rule="all (n,k) with 2<=k<=n-2, n<=70 (quick) / 400 (thorough): mono (k,k+1), mirror, shrink (random m in 2..50), wider (random level pair); "
             "random n to 1e6; distinct by sha1 of the input",
        assumptions=["statrs Normal::inverse_cdf is increasing in p (validated numerically by the 'wider' relation itself)"],
    ),
}
