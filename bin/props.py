"""Per-property configuration of bin/check, and the deterministic class key of a case."""

INTERVAL_TB = [
    "modelled, not verified: machine-integer overflow of Interval<iN> arithmetic (the model uses unbounded Int; generated values stay in range)",
]


def _kinds(toks):
    return "".join({"I2": "2", "IU": "U", "IL": "L"}[t] for t in toks if t in ("I2", "IU", "IL"))


def _num(tok):
    import struct
    try:
        if tok.startswith("x"):
            return struct.unpack(">d", bytes.fromhex(tok[1:]))[0]
        if tok.startswith("y"):
            return struct.unpack(">f", bytes.fromhex(tok[1:]))[0]
        return float(int(tok))
    except Exception:
        return None


def class_key(case):
    """coarse, deterministic class of a request line: `property|entry|type|features`"""
    inp = case.split(" => ")[0].split(" || ")[0]
    toks = inp.split()
    if len(toks) < 2:
        return "malformed"
    pid, op = toks[0], toks[1]
    ty = toks[2] if len(toks) > 2 else ""
    feats = [_kinds(toks[3:])]
    if pid == "C13" and op in ("mul", "div", "add", "sub") and len(toks) > 3:
        k = _num(toks[-1])
        if k is not None:
            feats.append("k<0" if k < 0 else ("k=0" if k == 0 else "k>0"))
    if pid == "C18" and op == "literal":
        feats = ["level-outside-(0,1)"]
        ty = ""
    return "|".join([pid, op, ty] + [f for f in feats if f])


HOOK_COMMITS = ["83fa17c"]
NOT_CLAIMED = {}

PROPS = {
    "C07": dict(
        technique="Lean 4 theorems (set semantics over any linear order) + exhaustive differential correspondence",
        level_text="Kernel-checked theorems state that the model's contains / RangeBounds::contains / intersects / includes / "
                   "is_included_in are membership, non-empty intersection (symmetric), superset and subset of the denoted closed sets "
                   "for every linear order and every well-formed pair of intervals of all 3x3 kinds; the model is tied to the code by an "
                   "exhaustive differential run over chains of i64, f64 (±0, ±inf), &str and u8. Proof is the right level because the "
                   "quantifier is over all orders and all relative positions of bounds, which is a finite case split the kernel can close.",
        level_note="Trusted: Lean kernel + 3 standard axioms; the model-to-code tie is differential (exhaustive over a 7-9 element chain per "
                   "type, which realises every relative ordering of up to 4 bounds and a probe); f64 NaN is outside the property; the four "
                   "false-arms of includes need an order unbounded on the relevant side (stated as NoMaxOrder/NoMinOrder).",
        modules=["StatsCI.Properties.C07"],
        anchors=["src/interval.rs"],
        exhaustive=True,
        exact_ops="all",
        rule="exhaustive: every interval of the three kinds over a chain (i64, f64 with ±0/±inf, &str, u8) × every probe value "
             "(contains, RangeBounds::contains) and every ordered pair of intervals (intersects, includes, is_included_in); "
             "a case is one request line, distinct by sha1 of its input; all are non-trivial (no rejection path exists)",
        trusted_base=INTERVAL_TB,
        assumptions=["element comparison of the Rust type is the total order of the theorem (i64, u8, &str; f64 without NaN)"],
    ),
}
